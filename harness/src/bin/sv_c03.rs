//! C03: per-module validation of EVERY registered IR pass on the real backend and the real VM.
//!
//! Three streams (selected by an extra argument):
//!
//! (default) `passes`: Sway test packages are built through `svharness::swayrun::build_and_test` (real forc-pkg /
//!   sway-core / forc-test / fuel-vm) in CHILD processes that differ only in `SWAY_VERIF_IR_PASSES` (hook H3 in
//!   `sway_core::compile_ast_to_ir_to_asm`): the class baseline, then each registered pass inserted alone, the two
//!   real pipelines (Opt0, Opt1) and seeded random orders/subsets. Per `#[test]` the observable outcome (return /
//!   revert code, log receipts — NOT gas) is digested and compared with the baseline's.
//!     `passes <pkg> <test> <with>@<base> ;; base=<digest> with=<digest> bs=<state> ws=<state>`
//!     `passes <pkg> * <with>@<base> ;; base=ok with=- build=err:<class>`      (variant does not build)
//!     `passes <pkg> * <with>@<base> ;; base=- with=- build=baseerr:<class>`   (baseline does not build: skipped)
//!   `<with>`/`<base>` are hook values with `|` written as `/` (`a,b/c,d` = head a,b then explicit tail c,d; `-` = empty).
//!
//!   Package classes and their baseline ("the program without the pass" must be accepted by the backend):
//!     `s:<seed>`   generated, no std, scalars only    — baseline `|` = NO pass at all (only lower-init-aggr)
//!     `m:<seed>`   generated, no std, structs/arrays  — baseline `|const-demotion,arg-demotion,ret-demotion,misc-demotion,memcpyopt,dce`
//!     `gen:<seed>` generated with std, `<name>` = /repo/test/src/in_language_tests/test_programs/<name>
//!                                                     — baseline `inline` + the OptLevel::Opt0 FuelVM tail; every list starts with `inline`
//!     `sw:<n>`     saved source /verif/corpus/c03/<n>.sw, `trap:1` built-in dead-trap replay
//!   (asm generation refuses anything shorter: "Attempt to load/store a non-copy type"; "Inlining is necessary
//!   until #4899 is resolved" in sway-core/src/lib.rs.) Pass-ordering preconditions: see `legalise`.
//!
//! `--dedup`: real `fn-dedup-release` on the function pairs of corpus/c03_dedup.ir: `dedup <Arm> <field> ;; merged=<0|1>`.
//!
//! `--miniir`: random functions inside the MiniIR subset, real parser + real passes, before/after exported:
//!     `miniir <passes> A <k> <a b>… <before> ;; <after>` (token form: see `miniir::export`, Driver/C03.lean).
//!
//! Sub-commands: `child <dir>` (build+test under the inherited env), `diagnose <dir>` (which pass / stage rejects the
//! list of the inherited env), `ir <dir>` (print IR after the list; SV_C03_STOP=<stage> prints an intermediate stage),
//! `gen <pkg> [dir]` (source of a package).
//! Replay: SV_C03_PKG=<pkg,...> SV_C03_LISTS='<with>[@<base>];...' sv_c03 --out F --n 0
use sha2::{Digest, Sha256};
use std::collections::{BTreeMap, VecDeque};
use std::io::Write;
use std::path::{Path, PathBuf};
use std::process::Command;
use std::sync::{Arc, Mutex};
use svharness::{proto::*, rng::*, swayrun::*};

const ENV: &str = "SWAY_VERIF_IR_PASSES";
const INLANG: &str = "/repo/test/src/in_language_tests/test_programs";

/// Tail the hook appends when no explicit tail is given (OptLevel::Opt0 FuelVM passes).
const O0_TAIL: &[&str] = &[
    "const-demotion", "arg-demotion", "ret-demotion", "misc-demotion",
    "arg_pointee_mutability_tagger", "memcpyopt", "dce", "simplify-cfg",
];
/// Shortest tail the backend accepts for no-std programs WITH aggregates (established empirically:
/// dropping any of these gives "Attempt to load/store a non-copy type" in asm generation).
const AGGR_TAIL: &[&str] = &["const-demotion", "arg-demotion", "ret-demotion", "misc-demotion", "memcpyopt", "dce"];

fn all_passes() -> Vec<&'static str> {
    use sway_ir::*;
    let mut pm = PassManager::default();
    register_known_passes(&mut pm);
    let names = [
        INIT_AGGR_LOWERING_NAME, ARG_POINTEE_MUTABILITY_TAGGER_NAME, FN_DEDUP_RELEASE_PROFILE_NAME,
        FN_DEDUP_DEBUG_PROFILE_NAME, MEM2REG_NAME, SROA_NAME, FN_INLINE_NAME, CONST_FOLDING_NAME, CCP_NAME,
        SIMPLIFY_CFG_NAME, GLOBALS_DCE_NAME, DCE_NAME, CSE_NAME, ARG_DEMOTION_NAME, CONST_DEMOTION_NAME,
        RET_DEMOTION_NAME, MISC_DEMOTION_NAME, MEMCPYOPT_NAME, MEMCPYPROP_REVERSE_NAME,
    ];
    names.into_iter().filter(|n| pm.lookup_registered_pass(n).map(|p| p.is_transform()).unwrap_or(false)).collect()
}

fn o1_group() -> Vec<&'static str> {
    vec![
        "mem2reg", "fn-dedup-release", "inline", "arg_pointee_mutability_tagger", "simplify-cfg", "globals-dce", "dce",
        "inline", "arg_pointee_mutability_tagger", "ccp", "const-folding", "simplify-cfg", "cse", "const-folding",
        "simplify-cfg", "globals-dce", "dce", "fn-dedup-release",
    ]
}

fn sha(b: &[u8]) -> String { hex::encode(Sha256::digest(b))[..16].to_string() }

fn outcome(o: &TestOutcome) -> (String, String) {
    let mut h = Sha256::new();
    h.update(o.state.as_bytes());
    h.update(b"|");
    h.update(o.panic.clone().unwrap_or_default().as_bytes());
    for l in &o.logs {
        match l {
            Log::Word { val, id } => { h.update(b"W"); h.update(val.to_be_bytes()); h.update(id.to_be_bytes()); }
            Log::Data { id, data } => { h.update(b"D"); h.update(id.to_be_bytes()); h.update((data.len() as u64).to_be_bytes()); h.update(data); }
        }
    }
    let st = match &o.panic { Some(p) => format!("panic:{p}"), None => o.state.clone() };
    (hex::encode(h.finalize())[..16].to_string(), format!("{st}:l{}", o.logs.len()))
}

// ------------------------------------------------------------------------------------------------ children

fn child(dir: &str) {
    match build_and_test(Path::new(dir), false) {
        Ok((outs, _)) => {
            for o in outs {
                let (d, s) = outcome(&o);
                println!("T {} {} {}", o.name.replace(' ', "_"), d, s);
                if std::env::var("SV_C03_LOGS").is_ok() {
                    // debugging aid: the log receipts themselves (first/last 40)
                    let n = o.logs.len();
                    for (i, l) in o.logs.iter().enumerate() {
                        if i < 40 || i + 40 >= n {
                            match l { Log::Word { val, id } => println!("L {i} w {val} {id}"), Log::Data { id, data } => println!("L {i} d {id} {}", hex::encode(data)) }
                        }
                    }
                }
            }
            println!("DONE");
        }
        Err(e) => println!("BUILDERR {}", format!("{e:#}").replace('\n', " ")),
    }
}

/// Re-run the IR stage of the inherited pass list one pass at a time to name what rejects it.
fn diagnose(dir: &str) {
    use svharness::ircorpus::*;
    record_panics();
    let spec = std::env::var(ENV).unwrap_or_default();
    let (head, tail) = match spec.split_once('|') { Some((h, t)) => (h.to_string(), Some(t.to_string())), None => (spec.clone(), None) };
    let known = all_passes();
    let mut list: Vec<&'static str> = vec!["lower-init-aggr"];
    let push = |s: &str, list: &mut Vec<&'static str>| {
        for n in s.split(',').map(|x| x.trim()).filter(|x| !x.is_empty()) {
            match known.iter().find(|k| **k == n) { Some(k) => list.push(k), None => { println!("CLASS unknown-pass"); std::process::exit(0); } }
        }
    };
    push(&head, &mut list);
    match &tail { Some(t) => push(t, &mut list), None => list.extend(O0_TAIL.iter().copied()) }
    let fe = Frontend::new();
    let o = FrontOpts { include_tests: true, new_encoding: true, release: false, all_pkgs: false };
    let mut irs = match fe.compile_dir(Path::new(dir), &o) { Ok(v) => v, Err(e) => { println!("CLASS frontend {}", e.replace('\n', " ")); return; } };
    let Some(mut p) = irs.pop() else { println!("CLASS frontend none"); return; };
    let out = run_staged(&mut p.ctx, &list, 2, |_, _, _| {});
    match out {
        PassOutcome::Ok { .. } => match to_bytecode(&p.ctx, &p.build_config, &fe.engines) {
            Ok(_) => println!("CLASS not-reproduced"),
            Err(e) => println!("CLASS backend {}", e.replace('\n', " ")),
        },
        PassOutcome::PassErr(e) => println!("CLASS pass-err {}", e.replace('\n', " ")),
        PassOutcome::VerifyFail(e) => println!("CLASS verify {}", e.replace('\n', " ")),
        PassOutcome::Panic(e) => println!("CLASS pass-panic {}", e.replace('\n', " ")),
    }
}

/// `ir <dir>`: print the IR after the pass list of the inherited env (same staging as `diagnose`).
fn print_ir(dir: &str) {
    use svharness::ircorpus::*;
    record_panics();
    let spec = std::env::var(ENV).unwrap_or_default();
    let (head, tail) = match spec.split_once('|') { Some((h, t)) => (h.to_string(), Some(t.to_string())), None => (spec.clone(), None) };
    let known = all_passes();
    let mut list: Vec<&'static str> = vec!["lower-init-aggr"];
    let push = |s: &str, list: &mut Vec<&'static str>| {
        for n in s.split(',').map(|x| x.trim()).filter(|x| !x.is_empty()) {
            if let Some(k) = known.iter().find(|k| **k == n) { list.push(k); }
        }
    };
    push(&head, &mut list);
    match &tail { Some(t) => push(t, &mut list), None => list.extend(O0_TAIL.iter().copied()) }
    let fe = Frontend::new();
    let o = FrontOpts { include_tests: true, new_encoding: true, release: false, all_pkgs: false };
    let mut irs = match fe.compile_dir(Path::new(dir), &o) { Ok(v) => v, Err(e) => { println!("frontend: {e}"); return; } };
    let Some(mut p) = irs.pop() else { return; };
    let stop_at = std::env::var("SV_C03_STOP").ok();
    let mut stopped = false;
    let out = run_staged(&mut p.ctx, &list, 2, |stage, ctx, _| {
        if let Some(s) = &stop_at { if !stopped && stage == s { stopped = true; println!("// ---- after {stage}\n{}", ctx.to_string()); } }
        eprintln!("stage {stage}");
    });
    println!("// ---- final ({out:?})\n{}", p.ctx.to_string());
}

// ------------------------------------------------------------------------------------------------ packages

fn copy_dir(from: &Path, to: &Path) -> std::io::Result<()> {
    std::fs::create_dir_all(to)?;
    for e in std::fs::read_dir(from)? {
        let e = e?;
        let p = e.path();
        let name = e.file_name();
        if name == "out" || name == "Forc.lock" { continue; }
        if p.is_dir() { copy_dir(&p, &to.join(name))?; } else { std::fs::copy(&p, to.join(name))?; }
    }
    Ok(())
}

/// Copy an in-language test package with `std` pointing at /repo/sway-lib-std (absolute).
fn stage_inlang(name: &str, dst: &Path) -> Option<()> {
    let src = Path::new(INLANG).join(name);
    if !src.join("Forc.toml").exists() { return None; }
    let _ = std::fs::remove_dir_all(dst);
    copy_dir(&src, dst).ok()?;
    let t = std::fs::read_to_string(dst.join("Forc.toml")).ok()?;
    let t = t.replace("../../../../../sway-lib-std", STD_PATH);
    std::fs::write(dst.join("Forc.toml"), t).ok()?;
    Some(())
}

/// In-language std test packages usable here (std-only deps, deterministic). Small/medium ones first.
const INLANG_PKGS: &[&str] = &[
    "option", "result", "u128", "vec", "bytes", "string", "array_conversions", "bytes_conversions",
    "primitive_conversions", "b512", "math", "alloc_", "raw_slice", "raw_ptr", "iterator", "ops", "assert",
    "revert", "identity", "address", "contract_id", "asset_id", "time", "hash", "codec", "intrinsics", "clone", "flags",
];

fn hex256(r: &mut Rng) -> String {
    format!("0x{:016x}{:016x}{:016x}{:016x}", r.next(), r.next(), r.next(), r.next())
}

/// A generated library package: loops, structs, enums, arrays, calls (incl. near-duplicate functions that
/// differ in one constant / operator / field index / array length / integer width), memcpy-heavy
/// aggregate copies with aliasing probes, constants and constant conditions. Every test logs what it computes.
fn gen_pkg_src(r: &mut Rng) -> String {
    let c1 = r.below(1000);
    let c2 = r.below(1000);
    let a: Vec<u64> = (0..8).map(|_| r.below(500)).collect();
    let m1 = 2 + r.below(9);
    let mut m2 = 2 + r.below(9);
    if m2 == m1 { m2 += 1; }
    let k = r.below(4096);
    let n = 2 + r.below(9);
    let s8 = r.below(200);
    let x8 = r.below(120);
    let u32a = r.below(1 << 20);
    let u32b = r.below(1 << 13);
    let thr = r.below(1000);
    let h1 = hex256(r);
    let h2 = hex256(r);
    let small = r.below(256);
    let code = r.below(1 << 30);
    let d1 = 1 + r.below(50);
    let d2 = 1 + r.below(50);
    let sh = r.below(70);
    let rv = r.below(3);
    format!(r#"library;

struct P {{ x: u64, y: u64, z: b256 }}
struct Q {{ p: P, arr: [u64; 4], flag: bool }}
enum E {{ A: u64, B: (u64, u64), C: P, D: () }}

const K1: u64 = {c1};
const K2: u64 = K1 * 3 + {c2};
const ARR: [u64; 4] = [{a0}, {a1}, {a2}, {a3}];
const ZB: b256 = {h1};

fn dup_a(n: u64) -> u64 {{ let mut s = 0; let mut i = 0; while i < n {{ s = s + i * {m1}; i += 1; }} s }}
fn dup_b(n: u64) -> u64 {{ let mut s = 0; let mut i = 0; while i < n {{ s = s + i * {m2}; i += 1; }} s }}
fn dup_c(n: u64) -> u64 {{ let mut s = 0; let mut i = 0; while i < n {{ s = s + i * {m1}; i += 1; }} s }}
fn op_add(a: u64, b: u64) -> u64 {{ (a + b) ^ {k} }}
fn op_mul(a: u64, b: u64) -> u64 {{ (a * b) ^ {k} }}
fn op_or(a: u64, b: u64) -> u64 {{ (a | b) ^ {k} }}
fn fld_x(p: P) -> u64 {{ p.x + {k} }}
fn fld_y(p: P) -> u64 {{ p.y + {k} }}
fn cp4(a: [u64; 4]) -> [u64; 4] {{ let mut b = a; b[0] = b[0] + 1; b }}
fn cp5(a: [u64; 5]) -> [u64; 5] {{ let mut b = a; b[0] = b[0] + 1; b }}
fn cmp_lt(a: u64, b: u64) -> bool {{ a < b }}
fn cmp_gt(a: u64, b: u64) -> bool {{ a > b }}
fn w8(x: u8) -> u8 {{ x + {s8}u8 }}
fn w64(x: u64) -> u64 {{ x + {s8} }}
fn mkq(v: u64) -> Q {{ Q {{ p: P {{ x: v, y: v + 1, z: ZB }}, arr: [v, v * 2, v * 3, v * 4], flag: v % 2 == 0 }} }}
fn ev(e: E) -> u64 {{ match e {{ E::A(v) => v + 1, E::B((a, b)) => a * b, E::C(p) => p.x + p.y, E::D => {k}, }} }}
fn bump(ref mut p: P, d: u64) {{ p.x = p.x + d; p.y = p.y * 2; }}
fn sum_arr(a: [u64; 4]) -> u64 {{ let mut i = 0; let mut s = 0; while i < 4 {{ s += a[i]; i += 1; }} s }}
fn tick(ref mut c: u64, v: bool) -> bool {{ c = c + 1; v }}
fn swap_q(q: Q) -> Q {{ let mut o = q; let t = o.arr[0]; o.arr[0] = o.arr[3]; o.arr[3] = t; o.p = P {{ x: q.p.y, y: q.p.x, z: q.p.z }}; o }}

#[test]
fn t_dups() {{
    log(dup_a({n})); log(dup_b({n})); log(dup_c({n}));
    log(op_add({a4}, {a5})); log(op_mul({a4}, {a5})); log(op_or({a4}, {a5}));
}}

#[test]
fn t_fields() {{
    let p = P {{ x: {a4}, y: {a5}, z: ZB }};
    log(fld_x(p)); log(fld_y(p)); log(cmp_lt({a4}, {a5})); log(cmp_gt({a4}, {a5}));
}}

#[test]
fn t_copy() {{
    let a = [{a0}, {a1}, {a2}, {a3}];
    let b = cp4(a);
    log(a[0]); log(b[0]); log(sum_arr(b)); log(sum_arr(a));
    let c = cp5([{a4}, {a5}, {a6}, {a7}, {k}]);
    log(c[0]); log(c[4]);
}}

#[test]
fn t_alias() {{
    let q = mkq({a6});
    let mut q2 = q;
    q2.p.x = {a4};
    q2.arr[2] = {a5};
    log(q.p.x); log(q2.p.x); log(q.arr[2]); log(q2.arr[2]);
    let mut q3 = q2;
    q3.p = q.p;
    log(q3.p.x); log(q3.arr[2]); log(q3.flag);
    let q4 = swap_q(q3);
    log(q4.arr[0]); log(q4.arr[3]); log(q4.p.x); log(q4.p.y); log(q3.arr[0]); log(q4.p.z == ZB);
}}

#[test]
fn t_enum() {{
    log(ev(E::A({a4}))); log(ev(E::B(({a5}, {a6})))); log(ev(E::C(P {{ x: {a7}, y: {k}, z: ZB }}))); log(ev(E::D));
}}

#[test]
fn t_refmut() {{
    let mut p = P {{ x: {a4}, y: {a5}, z: ZB }};
    bump(p, {d1}); bump(p, {d2});
    log(p.x); log(p.y);
}}

#[test]
fn t_const() {{
    let r = if K1 > {thr} {{ K2 }} else {{ ARR[1] }};
    log(r);
    if K2 % 2 == 0 {{ log(1) }} else {{ log(2) }};
    let mut i = 0; let mut s = 0;
    while i < 4 {{ s += ARR[i]; i += 1; }}
    log(s); log(ZB);
    let t = true;
    if t {{ log({small}) }} else {{ log({k}) }};
    log({a4} + {a5} * {m1}); log(({a6} << 3) >> 1); log({a7} % {m2}); log({k} / {m1});
}}

#[test]
fn t_loop() {{
    let mut i = 0; let mut acc = 0;
    while i < {n} {{
        let mut j = 0;
        while true {{
            if j >= i {{ break; }}
            j += 1;
            if j % 2 == 0 {{ continue; }}
            acc += i * j;
        }}
        i += 1;
    }}
    log(acc);
}}

#[test]
fn t_width() {{
    log(w8({x8}u8)); log(w64({x8}));
    let x: u32 = {u32a}; let y: u32 = {u32b};
    log(x * y);
}}

#[test]
fn t_shift() {{
    let one = 1;
    log(one << {sh}); log({h2}u256 >> {sh});
}}

#[test]
fn t_u256() {{
    let a: u256 = {h2}u256;
    let b: u256 = 0x{small:x}u256;
    log(a & b); log(a | b); log(b + b); log(a == a); log(a > b);
}}

#[test]
fn t_vec() {{
    let mut v: Vec<P> = Vec::new();
    let mut i = 0;
    while i < {n} {{ v.push(P {{ x: i * {m1}, y: i + {a4}, z: ZB }}); i += 1; }}
    let mut s = 0; let mut j = 0;
    while j < v.len() {{ let e = v.get(j).unwrap(); s += e.x * e.y; j += 1; }}
    log(s); log(v.len());
    let o: Option<P> = v.get({n} + 1);
    log(o.is_none());
}}

#[test]
fn t_short() {{
    let mut c = 0;
    let r1 = tick(c, false) && tick(c, true);
    let r2 = tick(c, true) || tick(c, true);
    let r3 = tick(c, {a4} > {a5}) && tick(c, true) || tick(c, false);
    log(c); log(r1); log(r2); log(r3);
}}

#[test]
fn t_revert() {{
    log({a4});
    if {rv} == 0 {{ revert({code}); }}
    log({a5});
    if {rv} == 1 {{ assert({a4} + 1 == {a4}); }}
    log({a6});
}}

#[test]
fn t_asm() {{
    let v = {a4};
    let r = asm(a: v, b: {a5}, c) {{ add c a b; c: u64 }};
    let p = P {{ x: r, y: v, z: ZB }};
    let addr = asm(p: &p) {{ p: raw_ptr }};
    log(r); log(addr.read::<u64>());
}}
"#, a0 = a[0], a1 = a[1], a2 = a[2], a3 = a[3], a4 = a[4], a5 = a[5], a6 = a[6], a7 = a[7])
}

// ------------------------------------------------------------------------------------------------ no-std generator

/// Random structured programs WITHOUT std (build ≈ 1 s): u64/bool arithmetic through the `__add`… intrinsics,
/// bounded loops with break/continue, if/else (incl. constant conditions), early returns, calls, exact and
/// near-duplicate functions (one constant or one operator changed), and — with `aggr` — structs, arrays,
/// enums, by-value aggregate copies with aliasing probes and `ref mut` arguments.
/// Observable behaviour: `log` instructions (`out`) and the final `__revert(<value>)` of every test.
struct NoStdGen<'a> { r: &'a mut Rng, aggr: bool, ctr: usize }

impl<'a> NoStdGen<'a> {
    fn konst(&mut self) -> String {
        match self.r.below(8) {
            0 => "0".into(),
            1 => "1".into(),
            2 => format!("{}", self.r.below(64)),
            3 => format!("{}", self.r.below(70)),
            4 => format!("{}", self.r.next() >> self.r.below(64)),
            5 => "18446744073709551615".into(),
            _ => format!("{}", self.r.below(1000)),
        }
    }
    /// An expression whose evaluation can make the VM panic (overflow, underflow, division by zero).
    /// Only used directly as the argument of `out(..)` (an asm block with a side effect), so the whole
    /// expression tree is LIVE: the compiler's elimination of unused arithmetic (IR `dce`, asm-level dce)
    /// also eliminates the VM panic of an unused `add`/`div`/… — that known deviation is replayed by the
    /// corpus package `trap:1` only and must not blur the random stream.
    fn trapping_expr(&mut self, vars: &[String]) -> String {
        let a = self.expr(vars, &[], 2);
        let b = self.expr(vars, &[], 2);
        match self.r.below(5) {
            0 => format!("__add({a}, {b})"),
            1 => format!("__sub({a}, {b})"),
            2 => format!("__mul({a}, {b})"),
            3 => format!("__div({a}, {b})"),
            _ => format!("__mod({a}, {b})"),
        }
    }
    /// Trap-free expression (operands are masked so that no operation can overflow or divide by zero).
    fn expr(&mut self, vars: &[String], callees: &[String], depth: u64) -> String {
        if depth == 0 || self.r.chance(1, 4) {
            return if self.r.chance(2, 3) && !vars.is_empty() { self.r.pick(vars).clone() } else { self.konst() };
        }
        let a = self.expr(vars, callees, depth - 1);
        let b = self.expr(vars, callees, depth - 1);
        match self.r.below(32) {
            0 | 1 | 2 => format!("__add(__and({a}, 4294967295), __and({b}, 4294967295))"),
            3 => format!("__add(__and({a}, 1099511627775), __and({b}, 255))"),
            4 | 5 | 6 => format!("__sub(__or({a}, 4294967296), __and({b}, 65535))"),
            7 => format!("__sub(__or({a}, 256), __and({b}, 255))"),
            8 | 9 | 10 => format!("__mul(__and({a}, 65535), __and({b}, 65535))"),
            11 => format!("__mul(__and({a}, 4294967295), {})", self.r.below(5)),
            12 | 13 => format!("__div({a}, __or({b}, 1))"),
            14 => format!("__div({a}, __or({b}, 2))"),
            15 | 16 => format!("__mod({a}, __or({b}, 1))"),
            17 | 18 => format!("__and({a}, {b})"),
            19 | 20 => format!("__or({a}, {b})"),
            21 | 22 | 23 => format!("__xor({a}, {b})"),
            24 | 25 => format!("__lsh({a}, __and({b}, 63))"),
            26 | 27 => format!("__rsh({a}, {})", self.r.below(70)),
            28 => format!("__lsh(__and({a}, 255), {})", self.r.below(70)),
            _ => {
                if !callees.is_empty() && depth >= 2 { let f = self.r.pick(callees).clone(); format!("{f}({a}, {b})") } else { format!("__xor({a}, {b})") }
            }
        }
    }
    fn cond(&mut self, vars: &[String], callees: &[String]) -> String {
        let a = self.expr(vars, callees, 1);
        let b = self.expr(vars, callees, 1);
        match self.r.below(10) {
            0 => "true".into(),
            1 => "false".into(),
            2 => format!("__lt({}, {})", self.r.below(10), self.r.below(10)),
            3 => format!("__eq({a}, {a})"),
            4 => format!("__lt({a}, {b}) && __gt({b}, {})", self.r.below(100)),
            5 => format!("__eq(__mod({a}, 2), 0) || __lt({b}, {})", self.r.below(1000)),
            6 => format!("__eq(__lt({a}, {b}), false)"),
            7 => format!("__gt({a}, {b})"),
            8 => format!("__eq(__and({a}, 1), 1)"),
            _ => format!("__lt({a}, {b})"),
        }
    }
    fn stmts(&mut self, vars: &[String], callees: &[String], depth: u64, in_loop: bool, ind: &str, out: &mut String) {
        let n = 1 + self.r.below(4);
        for _ in 0..n {
            let v = self.r.pick(vars).clone();
            match self.r.below(if self.aggr { 16 } else { 11 }) {
                0 | 1 | 2 => { let e = self.expr(vars, callees, 3); out.push_str(&format!("{ind}{v} = {e};\n")); }
                3 => {
                    let e = if self.r.chance(1, 6) { self.trapping_expr(vars) } else { self.expr(vars, callees, 2) };
                    out.push_str(&format!("{ind}out({e});\n"));
                }
                4 | 5 if depth > 0 => {
                    let c = self.cond(vars, callees);
                    out.push_str(&format!("{ind}if {c} {{\n"));
                    self.stmts(vars, callees, depth - 1, in_loop, &format!("{ind}    "), out);
                    if self.r.chance(2, 3) {
                        out.push_str(&format!("{ind}}} else {{\n"));
                        self.stmts(vars, callees, depth - 1, in_loop, &format!("{ind}    "), out);
                    }
                    out.push_str(&format!("{ind}}}\n"));
                }
                6 if depth > 0 => {
                    self.ctr += 1;
                    let i = format!("i{}", self.ctr);
                    let bound = self.r.below(6);
                    out.push_str(&format!("{ind}let mut {i} = 0;\n{ind}while __lt({i}, {bound}) {{\n{ind}    {i} = __add({i}, 1);\n"));
                    let mut vs = vars.to_vec();
                    if self.r.chance(1, 2) { vs.push(i.clone()); }
                    // the counter is only read inside (pushed last and never picked as assignment target: see below)
                    let inner_vars: Vec<String> = vars.to_vec();
                    let mut body = String::new();
                    self.stmts(&inner_vars, callees, depth - 1, true, &format!("{ind}    "), &mut body);
                    out.push_str(&body);
                    if vs.len() > vars.len() { out.push_str(&format!("{ind}    {v} = __xor({v}, {i});\n")); }
                    out.push_str(&format!("{ind}}}\n"));
                }
                7 if in_loop => {
                    let c = self.cond(vars, callees);
                    let kw = if self.r.chance(1, 2) { "break" } else { "continue" };
                    out.push_str(&format!("{ind}if {c} {{ {kw}; }}\n"));
                }
                8 => {
                    let c = self.cond(vars, callees);
                    let e = self.expr(vars, callees, 2);
                    if self.r.chance(1, 3) { out.push_str(&format!("{ind}if {c} {{ return {e}; }}\n")); }
                    else { out.push_str(&format!("{ind}{v} = if {c} {{ {e} }} else {{ {v} }};\n")); }
                }
                9 => {
                    self.ctr += 1;
                    let t = format!("t{}", self.ctr);
                    let e = self.expr(vars, callees, 2);
                    // a dead or once-used temporary
                    if self.r.chance(1, 2) { out.push_str(&format!("{ind}let {t} = {e};\n")); }
                    else { out.push_str(&format!("{ind}let {t} = {e};\n{ind}{v} = __or({v}, {t});\n")); }
                }
                10 => { let e = self.expr(vars, callees, 2); out.push_str(&format!("{ind}{v} = w8({e});\n")); }
                // ---- aggregates (only with `aggr`; `s` is a local `S` of the enclosing function)
                11 => { let e = self.expr(vars, callees, 2); let i = self.expr(vars, callees, 1); out.push_str(&format!("{ind}s = upd(s, {i}, {e});\n")); }
                12 => { let e = self.expr(vars, callees, 2); out.push_str(&format!("{ind}bump(s, {e});\n{ind}{v} = __xor({v}, s.c[2]);\n")); }
                13 => {
                    self.ctr += 1;
                    let t = format!("q{}", self.ctr);
                    let e = self.expr(vars, callees, 2);
                    out.push_str(&format!("{ind}let {t} = s;\n{ind}s.b = {e};\n{ind}s.c[1] = {v};\n{ind}{v} = __xor(__xor({t}.b, s.b), __xor({t}.c[1], s.c[1]));\n"));
                }
                14 => {
                    let e = self.expr(vars, callees, 1);
                    let k = self.r.below(3);
                    let arm = match self.r.below(3) { 0 => format!("T {{ s: s, k: {e}, f: true }}"), 1 => format!("T {{ s: s, k: {e}, f: false }}"), _ => format!("T {{ s: mk(1, {e}), k: 7, f: __lt({v}, 100) }}") };
                    out.push_str(&format!("{ind}{v} = __add(__and(ev({arm}), 4294967295), __and(s.c[{k}], 4294967295));\n"));
                }
                15 => { let e = self.expr(vars, callees, 2); out.push_str(&format!("{ind}s = mk({e}, {v});\n{ind}out(sum3(s.c));\n")); }
                _ => { let e = self.expr(vars, callees, 2); out.push_str(&format!("{ind}{v} = {e};\n")); }
            }
        }
    }
    fn function_body(&mut self, callees: &[String]) -> String {
        let vars: Vec<String> = vec!["v0".into(), "v1".into(), "v2".into()];
        let mut b = String::new();
        let k = self.konst();
        b.push_str(&format!("    let mut v0 = a;\n    let mut v1 = b;\n    let mut v2 = {k};\n"));
        if self.aggr { b.push_str("    let mut s = mk(a, b);\n"); }
        self.stmts(&vars, callees, 2, false, "    ", &mut b);
        self.stmts(&vars, callees, 2, false, "    ", &mut b);
        let e = self.expr(&vars, callees, 2);
        if self.aggr { b.push_str(&format!("    __xor({e}, __xor(s.a, sum3(s.c)))\n")); } else { b.push_str(&format!("    {e}\n")); }
        b
    }
    fn package(&mut self) -> String {
        let mut src = String::from("library;\n\nfn out(v: u64) { asm(r1: v) { log r1 zero zero zero; } }\n");
        src.push_str("fn w8(x: u64) -> u64 { let y: u8 = asm(r1: __and(x, 127)) { r1: u8 }; let z: u8 = __add(y, 100u8); asm(r1: z) { r1: u64 } }\n");
        if self.aggr {
            src.push_str(r#"struct S { a: u64, b: u64, c: [u64; 3] }
struct T { s: S, k: u64, f: bool }
fn mk(a: u64, b: u64) -> S { S { a: a, b: b, c: [a, b, __xor(a, b)] } }
fn upd(s: S, i: u64, v: u64) -> S { let mut t = s; t.c[__mod(i, 3)] = v; t.a = __xor(t.a, v); t }
fn ev(t: T) -> u64 { if t.f { __xor(t.s.a, t.k) } else { __xor(t.s.c[1], t.k) } }
fn bump(ref mut s: S, d: u64) { s.a = __xor(s.a, d); s.c[2] = d; }
fn sum3(c: [u64; 3]) -> u64 { let mut i = 0; let mut t = 0; while __lt(i, 3) { t = __xor(t, __rsh(c[i], i)); i = __add(i, 1); } t }
"#);
        }
        let nf = 3 + self.r.below(4) as usize;
        let mut names: Vec<String> = vec![];
        for i in 0..nf {
            let callees = names.clone();
            let body = self.function_body(&callees);
            let name = format!("f{i}");
            src.push_str(&format!("fn {name}(a: u64, b: u64) -> u64 {{\n{body}}}\n"));
            names.push(name.clone());
            // exact / near duplicates
            match self.r.below(4) {
                0 => { src.push_str(&format!("fn {name}_same(a: u64, b: u64) -> u64 {{\n{body}}}\n")); names.push(format!("{name}_same")); }
                1 => {
                    // change the first occurrence of one operator or one numeral
                    let swaps = [("__add(", "__or("), ("__xor(", "__and("), ("__lt(", "__gt("), ("__mul(", "__add("), ("__rsh(", "__lsh("), ("4294967295", "4294967294"), (", 1)", ", 2)")];
                    let (from, to) = *self.r.pick(&swaps);
                    if body.contains(from) {
                        let nb = body.replacen(from, to, 1);
                        src.push_str(&format!("fn {name}_near(a: u64, b: u64) -> u64 {{\n{nb}}}\n"));
                        names.push(format!("{name}_near"));
                    }
                }
                _ => {}
            }
        }
        let nt = 2 + self.r.below(3);
        for t in 0..nt {
            src.push_str(&format!("#[test]\nfn t{t}() {{\n"));
            for f in &names {
                if self.r.chance(2, 3) {
                    let (x, y) = (self.konst(), self.konst());
                    src.push_str(&format!("    out({f}({x}, {y}));\n"));
                }
            }
            let f = self.r.pick(&names).clone();
            let (x, y) = (self.r.below(100), self.r.below(100));
            src.push_str(&format!("    __revert({f}({x}, {y}))\n}}\n"));
        }
        src
    }
}

/// Known deviation (see Props/C03.lean `dce_removes_trap`): an UNUSED arithmetic result whose computation
/// makes the VM panic. Without any pass the test panics after the first log; with `dce` it runs to the end.
const TRAP_PKG: &str = r#"library;
fn out(v: u64) { asm(r1: v) { log r1 zero zero zero; } }
fn f(a: u64, b: u64) -> u64 {
    let dead = __add(a, b);
    __xor(a, 1)
}
#[test]
fn t() {
    out(1);
    out(f(18446744073709551615, 1));
    __revert(7)
}
"#;

fn gen_nostd_src(seed: u64, aggr: bool) -> String {
    let mut r = Rng::new(seed.wrapping_mul(2) + aggr as u64);
    NoStdGen { r: &mut r, aggr, ctr: 0 }.package()
}


// ------------------------------------------------------------------------------------------------ fn-dedup probes

/// `corpus/c03_dedup.ir`: sections `### <Arm> <field> [<note>]` followed by an IR module in which `main`
/// calls two functions that differ ONLY in that field. The real `fn-dedup-release` pass is run; the
/// two calls having the same callee afterwards = merged. Lines `dedup <Arm> <field> ;; merged=<0|1>`.
fn dedup_probes(path: &str, out: &mut dyn Write) -> usize {
    use sway_ir::*;
    let text = std::fs::read_to_string(path).unwrap_or_default();
    let mut n = 0;
    let mut sections: Vec<(String, String)> = vec![];
    for l in text.lines() {
        if let Some(h) = l.strip_prefix("### ") { sections.push((h.trim().to_string(), String::new())); }
        else if let Some(last) = sections.last_mut() { last.1.push_str(l); last.1.push('\n'); }
    }
    for (head, ir) in sections {
        let mut it = head.split_whitespace();
        let (arm, field) = (it.next().unwrap_or("?"), it.next().unwrap_or("?"));
        let se = sway_types::SourceEngine::default();
        let res = guarded(|| -> String {
            let mut ctx = match sway_ir::parser::parse(&ir, &se, sway_features::ExperimentalFeatures::default(), Default::default()) {
                Ok(c) => c,
                Err(e) => return format!("parse-error:{}", format!("{e}").chars().map(|c| if c.is_ascii_alphanumeric() { c } else { '_' }).take(60).collect::<String>()),
            };
            let callees = |ctx: &Context| -> Vec<String> {
                let mut v = vec![];
                for m in ctx.module_iter() {
                    for f in m.function_iter(ctx) {
                        if f.get_name(ctx) != "main" { continue; }
                        for (_b, i) in f.instruction_iter(ctx) {
                            if let Some(Instruction { op: InstOp::Call(c, _), .. }) = i.get_instruction(ctx) { v.push(c.get_name(ctx).to_string()); }
                        }
                    }
                }
                v
            };
            let before = callees(&ctx);
            if before.len() != 2 || before[0] == before[1] { return "bad-probe".into(); }
            let mut pm = PassManager::default();
            register_known_passes(&mut pm);
            let mut g = PassGroup::default();
            g.append_pass(FN_DEDUP_RELEASE_PROFILE_NAME);
            if let Err(e) = pm.run(&mut ctx, &g, &Options { rounds: 1, ..Default::default() }) {
                return format!("pass-error:{}", format!("{e}").chars().map(|c| if c.is_ascii_alphanumeric() { c } else { '_' }).take(60).collect::<String>());
            }
            let after = callees(&ctx);
            format!("merged={}", (after.len() == 2 && after[0] == after[1]) as u8)
        }).unwrap_or_else(|| "panic".into());
        writeln!(out, "dedup {arm} {field} ;; {res}").unwrap();
        n += 1;
    }
    n
}

// ------------------------------------------------------------------------------------------------ MiniIR correspondence

/// Random functions inside the MiniIR subset (Model/MiniIR.lean): u64/bool SSA values, blocks with
/// arguments, `binop`/`cmp`/`br`/`cbr`/`ret`. Printed as sway-ir text, parsed by the real parser, exported
/// (before), transformed by real passes, exported again (after). The Lean driver interprets both on the
/// argument vectors of the line.
mod miniir {
    use super::*;
    use sway_ir::*;

    #[derive(Clone, Copy, PartialEq)]
    enum Ty { U, B }
    #[derive(Clone)]
    enum Opd { Var(usize), CU(u64), CB(bool) }
    struct GBlock { params: Vec<(usize, Ty)>, lines: Vec<String>, }

    const SAFE_OPS: &[&str] = &["and", "or", "xor", "lsh", "rsh"];
    const TRAP_OPS: &[&str] = &["add", "sub", "mul", "div", "mod"];

    struct G<'a> { r: &'a mut Rng, next: usize, consts: Vec<String> }
    impl<'a> G<'a> {
        fn fresh(&mut self) -> usize { self.next += 1; self.next }
        fn cu(&mut self) -> u64 {
            match self.r.below(8) { 0 => 0, 1 => 1, 2 => u64::MAX, 3 => self.r.below(70), 4 => self.r.next(), 5 => 64, _ => self.r.below(1000) }
        }
        /// name of an operand; constants get a `vN = const …` line
        fn name(&mut self, o: &Opd, lines: &mut Vec<String>) -> String {
            match o {
                Opd::Var(i) => format!("v{i}"),
                Opd::CU(c) => { let i = self.fresh(); lines.push(format!("v{i} = const u64 {c}")); format!("v{i}") }
                Opd::CB(c) => { let i = self.fresh(); lines.push(format!("v{i} = const bool {c}")); format!("v{i}") }
            }
        }
        fn pick(&mut self, env: &[(usize, Ty)], t: Ty) -> Opd {
            let c: Vec<usize> = env.iter().filter(|e| e.1 == t).map(|e| e.0).collect();
            if !c.is_empty() && self.r.chance(3, 4) { Opd::Var(*self.r.pick(&c)) }
            else if t == Ty::U { Opd::CU(self.cu()) } else { Opd::CB(self.r.chance(1, 2)) }
        }
    }

    /// Returns the IR text of a module with `fn f(a: u64, b: u64) -> u64` and an entry `main`.
    pub fn gen_text(r: &mut Rng) -> String {
        let nb = 1 + r.below(6) as usize;
        let mut g = G { r, next: 2, consts: vec![] };
        let _ = &g.consts;
        // block parameter signatures (block 0 = entry: the two function arguments)
        let mut sigs: Vec<Vec<(usize, Ty)>> = vec![vec![(1, Ty::U), (2, Ty::U)]];
        for _ in 1..nb {
            let k = g.r.below(3) as usize;
            let s = (0..k).map(|_| (g.fresh(), if g.r.chance(3, 4) { Ty::U } else { Ty::B })).collect();
            sigs.push(s);
        }
        let label = |i: usize| if i == 0 { "entry".to_string() } else { format!("b{i}") };
        let mut blocks: Vec<GBlock> = vec![];
        for bi in 0..nb {
            let mut env: Vec<(usize, Ty)> = sigs[bi].clone();
            let mut lines: Vec<String> = vec![];
            let ni = g.r.below(5);
            for _ in 0..ni {
                let d = g.fresh();
                if g.r.chance(1, 3) {
                    let bools = g.r.chance(1, 5);
                    let t = if bools { Ty::B } else { Ty::U };
                    let (a, b) = (g.pick(&env, t), g.pick(&env, t));
                    let p = if bools { "eq" } else { *g.r.pick(&["eq", "lt", "gt"]) };
                    let (an, bn) = (g.name(&a, &mut lines), g.name(&b, &mut lines));
                    lines.push(format!("v{d} = cmp {p} {an} {bn}"));
                    env.push((d, Ty::B));
                } else {
                    let (a, b) = (g.pick(&env, Ty::U), g.pick(&env, Ty::U));
                    let op = *g.r.pick(SAFE_OPS);
                    let (an, bn) = (g.name(&a, &mut lines), g.name(&b, &mut lines));
                    lines.push(format!("v{d} = {op} {an}, {bn}"));
                    env.push((d, Ty::U));
                }
            }
            // terminator
            let args_for = |g: &mut G, env: &[(usize, Ty)], target: usize, lines: &mut Vec<String>| -> String {
                let mut names = vec![];
                for (_, t) in sigs[target].iter() {
                    let o = g.pick(env, *t);
                    names.push(g.name(&o, lines));
                }
                names.join(", ")
            };
            let kind = if bi + 1 == nb && nb > 1 { g.r.below(2) } else { g.r.below(4) };
            match kind {
                0 | 1 if nb > 1 || kind == 1 => {
                    if kind == 0 {
                        let t = 1 + g.r.below(nb as u64 - 1) as usize;
                        let a = args_for(&mut g, &env, t, &mut lines);
                        lines.push(format!("br {}({a})", label(t)));
                    } else {
                        // ret, possibly through a LIVE chain of trapping operations (result is returned)
                        let mut cur = g.pick(&env, Ty::U);
                        let chain = g.r.below(3);
                        for _ in 0..chain {
                            let d = g.fresh();
                            let b = g.pick(&env, Ty::U);
                            let op = *g.r.pick(TRAP_OPS);
                            let (an, bn) = (g.name(&cur, &mut lines), g.name(&b, &mut lines));
                            let (x, y) = if g.r.chance(1, 2) { (an, bn) } else { (bn, an) };
                            lines.push(format!("v{d} = {op} {x}, {y}"));
                            env.push((d, Ty::U));
                            cur = Opd::Var(d);
                        }
                        let n = g.name(&cur, &mut lines);
                        lines.push(format!("ret u64 {n}"));
                    }
                }
                _ => {
                    if nb > 1 {
                        let c = g.pick(&env, Ty::B);
                        let (t1, mut t2) = (1 + g.r.below(nb as u64 - 1) as usize, 1 + g.r.below(nb as u64 - 1) as usize);
                        // `cbr c, B(x), B(y)`: the block/edge API of sway-ir (`get_succ_params_mut`, `get_val_coming_from`)
                        // addresses ONE edge per (pred, succ) pair, so dce/cse/mem2reg mishandle this shape and asm
                        // generation refuses it ("Cannot compile CBR with both branches going to same dest block").
                        // Reported as a finding; not generated here.
                        if t1 == t2 && !sigs[t1].is_empty() {
                            match (1..nb).find(|t| *t != t1) { Some(t) => t2 = t, None => { let o = g.pick(&env, Ty::U); let n = g.name(&o, &mut lines); lines.push(format!("ret u64 {n}")); blocks.push(GBlock { params: sigs[bi].clone(), lines }); continue; } }
                        }
                        let cn = g.name(&c, &mut lines);
                        let a1 = args_for(&mut g, &env, t1, &mut lines);
                        let a2 = args_for(&mut g, &env, t2, &mut lines);
                        lines.push(format!("cbr {cn}, {}({a1}), {}({a2})", label(t1), label(t2)));
                    } else {
                        let o = g.pick(&env, Ty::U);
                        let n = g.name(&o, &mut lines);
                        lines.push(format!("ret u64 {n}"));
                    }
                }
            }
            blocks.push(GBlock { params: sigs[bi].clone(), lines });
        }
        let mut t = String::from("script {\n    entry fn main() -> u64 {\n        entry():\n        v0 = const u64 1\n        v1 = call f(v0, v0)\n        ret u64 v1\n    }\n\n    fn f(v1: u64, v2: u64) -> u64 {\n");
        for (bi, b) in blocks.iter().enumerate() {
            let ps: Vec<String> = b.params.iter().map(|(i, t)| format!("v{i}: {}", if *t == Ty::U { "u64" } else { "bool" })).collect();
            t.push_str(&format!("        {}({}):\n", label(bi), ps.join(", ")));
            for l in &b.lines { t.push_str(&format!("        {l}\n")); }
            t.push('\n');
        }
        t.push_str("    }\n}\n");
        t
    }

    /// Canonical token form of function `f` (see Driver/C03.lean), `None` = outside the MiniIR subset.
    pub fn export(ctx: &Context) -> Option<String> {
        let f = ctx.module_iter().flat_map(|m| m.function_iter(ctx)).find(|f| f.get_name(ctx) == "f")?;
        let mut ids: std::collections::HashMap<Value, usize> = Default::default();
        let mut labels: std::collections::HashMap<Block, usize> = Default::default();
        let mut nextl = 1000;
        for b in f.block_iter(ctx) {
            let l = b.get_label(ctx);
            let n = if l == "entry" { 0 } else if let Some(k) = l.strip_prefix('b').and_then(|x| x.parse::<usize>().ok()) { k } else { nextl += 1; nextl };
            labels.insert(b, n);
            for a in b.arg_iter(ctx) { let n = ids.len() + 1; ids.insert(*a, n); }
            for i in b.instruction_iter(ctx) { let n = ids.len() + 1; ids.insert(i, n); }
        }
        let opd = |v: &Value| -> Option<String> {
            if let Some(c) = v.get_constant(ctx) {
                return match &c.get_content(ctx).value {
                    ConstantValue::Uint(n) if c.get_content(ctx).ty.is_uint64(ctx) => Some(format!("cu{n}")),
                    ConstantValue::Bool(b) => Some(format!("cb{}", *b as u8)),
                    _ => None,
                };
            }
            ids.get(v).map(|i| format!("v{i}"))
        };
        let args = |bt: &BranchToWithArgs| -> Option<String> {
            let mut s = format!("{} {}", labels.get(&bt.block)?, bt.args.len());
            for a in &bt.args { s.push(' '); s.push_str(&opd(a)?); }
            Some(s)
        };
        let mut out = format!("F {}", f.block_iter(ctx).count());
        for b in f.block_iter(ctx) {
            out.push_str(&format!(" B {} {}", labels[&b], b.arg_iter(ctx).count()));
            for a in b.arg_iter(ctx) { out.push_str(&format!(" {}", ids[a])); }
            let insts: Vec<Value> = b.instruction_iter(ctx).collect();
            let (body, term) = insts.split_at(insts.len().checked_sub(1)?);
            out.push_str(&format!(" {}", body.len()));
            for i in body {
                match &i.get_instruction(ctx)?.op {
                    InstOp::BinaryOp { op, arg1, arg2 } => {
                        let o = match op { BinaryOpKind::Add => "add", BinaryOpKind::Sub => "sub", BinaryOpKind::Mul => "mul", BinaryOpKind::Div => "div",
                            BinaryOpKind::Mod => "mod", BinaryOpKind::And => "and", BinaryOpKind::Or => "or", BinaryOpKind::Xor => "xor", BinaryOpKind::Lsh => "lsh", BinaryOpKind::Rsh => "rsh" };
                        out.push_str(&format!(" I {} bin {o} {} {}", ids[i], opd(arg1)?, opd(arg2)?));
                    }
                    InstOp::Cmp(p, a, b) => {
                        let o = match p { Predicate::Equal => "eq", Predicate::LessThan => "lt", Predicate::GreaterThan => "gt" };
                        out.push_str(&format!(" I {} cmp {o} {} {}", ids[i], opd(a)?, opd(b)?));
                    }
                    _ => return None,
                }
            }
            match &term[0].get_instruction(ctx)?.op {
                InstOp::Branch(bt) => out.push_str(&format!(" T br {}", args(bt)?)),
                InstOp::ConditionalBranch { cond_value, true_block, false_block } =>
                    out.push_str(&format!(" T cbr {} {} {}", opd(cond_value)?, args(true_block)?, args(false_block)?)),
                InstOp::Ret(v, _) => out.push_str(&format!(" T ret {}", opd(v)?)),
                _ => return None,
            }
        }
        Some(out)
    }

    pub const PASSES: &[&str] = &["simplify-cfg", "dce", "const-folding", "ccp", "cse", "mem2reg", "sroa", "memcpyopt", "fn-dedup-release"];

    /// One case: `miniir <passes> A <k> <a b>… <before> ;; <after>`.
    pub fn one_case(r: &mut Rng, out: &mut dyn Write) {
        let text = gen_text(r);
        let np = 1 + r.below(3) as usize;
        let ps: Vec<&'static str> = (0..np).map(|_| *r.pick(PASSES)).collect();
        let vecs = [(0u64, 0u64), (1, 2), (r.next(), r.below(70)), (u64::MAX, u64::MAX), (r.below(100), r.next())];
        let argtok: String = format!("A {}{}", vecs.len(), vecs.iter().map(|(a, b)| format!(" {a} {b}")).collect::<String>());
        let se = sway_types::SourceEngine::default();
        let res = guarded(|| -> (String, String) {
            let mut ctx = match sway_ir::parser::parse(&text, &se, sway_features::ExperimentalFeatures::default(), Default::default()) {
                Ok(c) => c,
                Err(e) => return ("F 0".into(), format!("parse-error:{}", format!("{e}").chars().map(|c| if c.is_ascii_alphanumeric() { c } else { '_' }).take(80).collect::<String>())),
            };
            let Some(before) = export(&ctx) else { return ("F 0".into(), "unsupported-before".into()) };
            let mut pm = PassManager::default();
            register_known_passes(&mut pm);
            let mut g = PassGroup::default();
            for p in &ps { g.append_pass(p); }
            if let Err(e) = pm.run(&mut ctx, &g, &Options { rounds: 1, ..Default::default() }) {
                return (before, format!("pass-error:{}", format!("{e}").chars().map(|c| if c.is_ascii_alphanumeric() { c } else { '_' }).take(80).collect::<String>()));
            }
            match export(&ctx) { Some(a) => (before, a), None => (before, "unsupported-after".into()) }
        });
        match res {
            Some((b, a)) => writeln!(out, "miniir {} {argtok} {b} ;; {a}", ps.join(",")).unwrap(),
            None => writeln!(out, "miniir {} {argtok} F 0 ;; panic", ps.join(",")).unwrap(),
        }
        if std::env::var("SV_C03_DUMP_IR").is_ok() { eprintln!("{text}"); }
    }
}

// ------------------------------------------------------------------------------------------------ parent

#[derive(Clone, Copy, PartialEq, Eq, Debug)]
enum Class { Scalar, Aggr, Std }

#[derive(Clone)]
struct Pkg { name: String, dir: PathBuf, class: Class, lists: Vec<(String, String)> }
#[derive(Clone)]
struct Job { pkg: usize, list: String }
#[derive(Clone, Debug)]
enum Built { Tests(Vec<(String, String, String)>), Err(String) }

fn list_token(l: &str) -> String { if l.is_empty() { "-".into() } else { l.replace('|', "/") } }
fn list_untoken(t: &str) -> String { if t == "-" { String::new() } else { t.replace('/', "|") } }

/// The baseline ("program without the pass") of a package class: the shortest pass list the backend accepts.
fn baseline(c: Class) -> String {
    match c {
        Class::Scalar => "|".into(),
        Class::Aggr => format!("|{}", AGGR_TAIL.join(",")),
        Class::Std => "inline".into(),
    }
}

fn o0_pipeline() -> String { "fn-dedup-debug,inline,globals-dce,dce".into() }
fn o1_pipeline() -> String { format!("{}|{},memcpyprop_reverse,sroa,mem2reg,dce", o1_group().join(","), O0_TAIL.join(",")) }

/// (list, baseline) pairs for one package.
fn lists_for(c: Class, r: &mut Rng, passes: &[&'static str], n_random: usize, thorough: bool) -> Vec<(String, String)> {
    let base = baseline(c);
    let mut v: Vec<(String, String)> = vec![];
    let at = AGGR_TAIL.join(",");
    for p in passes {
        match c {
            Class::Scalar => v.push((format!("{p}|"), base.clone())),
            Class::Aggr => {
                v.push((format!("{p}|{at}"), base.clone()));
                if !AGGR_TAIL.contains(p) { v.push((format!("|{at},{p}"), base.clone())); }
            }
            Class::Std => {
                // Every list of the std class STARTS with `inline` (sway-core/src/lib.rs: "Inlining is necessary until
                // #4899 is resolved"): fresh IR passes `unit`/`never` typed values through `never` typed block
                // arguments after calls to never-returning functions; only inlining those calls makes the code
                // structurally dead. E.g. `simplify-cfg` before the first `inline` unlinks the `never` block and the
                // demotions then emit an ill-typed store (IR verifier: "Store value and pointer type mismatch").
                let _ = thorough;
                v.push((format!("inline,{p}"), base.clone()));
            }
        }
    }
    v.push((o0_pipeline(), base.clone()));
    v.push((o1_pipeline(), base.clone()));
    let n_fixed = v.len();
    for _ in 0..n_random {
        let len = 2 + r.below(7) as usize;
        let mut l: Vec<&str> = (0..len).map(|_| *r.pick(passes)).collect();
        match c {
            Class::Scalar => v.push((format!("{}{}", l.join(","), if r.chance(1, 2) { "|" } else { "" }), base.clone())),
            Class::Aggr => match r.below(3) {
                0 => v.push((format!("{}|{at}", l.join(",")), base.clone())),
                1 => v.push((format!("|{at},{}", l.join(",")), base.clone())),
                _ => v.push((l.join(","), base.clone())),
            },
            Class::Std => {
                l.insert(0, "inline");
                v.push((l.join(","), base.clone()));
            }
        }
    }
    let (o0, o1) = (o0_pipeline(), o1_pipeline());
    let _ = n_fixed;
    v.into_iter().map(|(l, b)| (if l == o0 || l == o1 { l } else { legalise(&l) }, b)).collect()
}

/// Pass-ordering preconditions that every real pipeline of `compile_ast_to_ir_to_asm` satisfies and that the
/// PassManager does not check (a pass list violating them is rejected by the IR verifier, not miscompiled):
///
/// * `mem2reg` only rewrites the blocks of the dominator tree: an UNREACHABLE block that branches to a block
///   receiving a new block argument keeps its old argument list ("Block parameter passed in branch is
///   malformed"). Unreachable blocks appear when `const-folding`/`ccp` fold a `cbr`; the real pipelines run
///   `mem2reg` on fresh IR or right after `simplify-cfg`.
/// * `ccp` used to panic on the empty `while_break` blocks (fixed: "fix: ccp skips blocks without terminator");
///   it is still only ever run after `simplify-cfg`.
///
/// * `sroa` splits a const-demoted aggregate `local { u64 } __const = const { u64 } { u64 77 }` into IMMUTABLE scalar
///   locals WITH initializers (`local u64 __const0 = const u64 77`). Asm generation maps such a local to
///   `Storage::Const` / a data-section word and compiles `get_local` to the VALUE (`MOVI r, 77` / `LoadDataId`), so a
///   surviving `load` of it reads memory at address 77 (sway-core asm_generation/fuel/functions.rs locals fold +
///   fuel_asm_builder.rs compile_get_local "get local constant"). Only `mem2reg` removes those loads (it replaces
///   the load by the initializer); `compile_ast_to_ir_to_asm` runs `sroa` exclusively as `SROA_NAME, MEM2REG_NAME`
///   (Opt1 FuelVM tail) and never in Opt0. Nothing may come between the two: `memcpyopt` turns the load/store pair
///   into a `mem_copy_val` of the scalar local, which `mem2reg` cannot promote any more.
///   Replay of the unguarded shape: corpus/c03/sroa_const_local_load.sw with `inline,sroa` (test reverts).
///
/// The generated hook values therefore put `simplify-cfg` directly before each `mem2reg`, `ccp` and `sroa`, and
/// `mem2reg` directly after each `sroa`.
fn legalise(list: &str) -> String {
    let fix = |part: &str| -> String {
        let mut out: Vec<&str> = vec![];
        for p in part.split(',') {
            if p == "mem2reg" && out.last() == Some(&"mem2reg") { continue; }
            let after_sroa = p == "mem2reg" && out.last() == Some(&"sroa");
            if (p == "ccp" || p == "mem2reg" || p == "sroa") && !after_sroa && out.last() != Some(&"simplify-cfg") { out.push("simplify-cfg"); }
            out.push(p);
            if p == "sroa" { out.push("mem2reg"); }
        }
        out.join(",")
    };
    match list.split_once('|') {
        Some((h, t)) => format!("{}|{}", fix(h), fix(t)),
        None => fix(list),
    }
}

fn run_child(exe: &Path, mode: &str, dir: &Path, list: &str, timeout_s: u64) -> (String, String, Option<i32>) {
    let o = Command::new("timeout").arg(format!("{timeout_s}")).arg(exe).arg(mode).arg(dir)
        .env(ENV, list).env("RUST_BACKTRACE", "0").env("RAYON_NUM_THREADS", "2")
        .output();
    match o {
        Ok(o) => (String::from_utf8_lossy(&o.stdout).to_string(), String::from_utf8_lossy(&o.stderr).to_string(), o.status.code()),
        Err(e) => (String::new(), format!("spawn: {e}"), None),
    }
}

fn classify_failure(exe: &Path, dir: &Path, list: &str, stdout: &str, stderr: &str, code: Option<i32>, timeout_s: u64) -> String {
    if code == Some(124) { return "timeout".into(); }
    if let Some(l) = stderr.lines().find(|l| l.contains("panicked at")) {
        // `thread 'x' panicked at path/file.rs:LINE:COL:` -> file.rs:LINE
        let loc = l.split("panicked at ").nth(1).unwrap_or("").trim_end_matches(':');
        let mut it = loc.rsplit('/').next().unwrap_or(loc).split(':');
        return format!("panic@{}:{}", it.next().unwrap_or("?"), it.next().unwrap_or("?"));
    }
    if !stdout.contains("BUILDERR") { return format!("crash:{:?}", code).replace(' ', ""); }
    // compile error: ask which IR stage rejected the list
    let (o, _e, c) = run_child(exe, "diagnose", dir, list, timeout_s);
    match o.lines().find(|l| l.starts_with("CLASS ")) {
        Some(l) => {
            let mut t = l[6..].splitn(2, ' ');
            let class = t.next().unwrap_or("?");
            let detail: String = t.next().unwrap_or("").chars().map(|c| if c.is_ascii_alphanumeric() || c == '-' || c == '_' { c } else { '_' }).take(70).collect();
            format!("{class}:{detail}")
        }
        None => format!("undiagnosed:{:?}", c).replace(' ', ""),
    }
}

fn make_pkg(name: &str, dir: &Path) -> Option<Class> {
    let _ = std::fs::remove_dir_all(dir);
    if let Some(s) = name.strip_prefix("gen:") {
        let mut gr = Rng::new(s.parse().ok()?);
        write_pkg(dir, "c03gen", &gen_pkg_src(&mut gr), true, "").ok()?;
        Some(Class::Std)
    } else if let Some(s) = name.strip_prefix("s:") {
        write_pkg(dir, "c03s", &gen_nostd_src(s.parse().ok()?, false), false, "").ok()?;
        Some(Class::Scalar)
    } else if let Some(n) = name.strip_prefix("sw:") {
        // a saved source: /verif/corpus/c03/<n>.sw, first line `// class: scalar|aggr|std`
        let src = std::fs::read_to_string(format!("/verif/corpus/c03/{n}.sw")).ok()?;
        let class = match src.lines().next().unwrap_or("").trim() {
            "// class: aggr" => Class::Aggr,
            "// class: std" => Class::Std,
            _ => Class::Scalar,
        };
        write_pkg(dir, "c03sw", &src, class == Class::Std, "").ok()?;
        Some(class)
    } else if name == "trap:1" {
        write_pkg(dir, "c03trap", TRAP_PKG, false, "").ok()?;
        Some(Class::Scalar)
    } else if let Some(s) = name.strip_prefix("m:") {
        write_pkg(dir, "c03m", &gen_nostd_src(s.parse().ok()?, true), false, "").ok()?;
        Some(Class::Aggr)
    } else {
        stage_inlang(name, dir)?;
        Some(Class::Std)
    }
}

fn main() {
    let av: Vec<String> = std::env::args().collect();
    if av.len() >= 3 && av[1] == "child" { child(&av[2]); return; }
    if av.len() >= 3 && av[1] == "diagnose" { diagnose(&av[2]); return; }
    if av.len() >= 3 && av[1] == "ir" { print_ir(&av[2]); return; }
    if av.len() >= 3 && av[1] == "gen" {
        // `gen <pkgname> [dir]`: print (or write) the source of a generated package
        match av.get(3) {
            Some(d) => { make_pkg(&av[2], Path::new(d)).expect("unknown package"); }
            None => {
                let d = scratch_dir("c03gen");
                make_pkg(&av[2], &d).expect("unknown package");
                print!("{}", std::fs::read_to_string(d.join("src/main.sw")).unwrap_or_default());
                let _ = std::fs::remove_dir_all(&d);
            }
        }
        return;
    }
    let a = args();
    let seed = seed_from_env();
    let mut r = Rng::new(seed);
    if a.extra.iter().any(|x| x == "--miniir") {
        // MiniIR correspondence stream: `--n` cases
        quiet_panics();
        let mut out = std::io::BufWriter::new(std::fs::File::create(&a.out).unwrap());
        for _ in 0..a.n { miniir::one_case(&mut r, &mut out); }
        out.flush().unwrap();
        eprintln!("sv_c03: {} miniir cases", a.n);
        return;
    }
    if a.extra.iter().any(|x| x == "--dedup") {
        quiet_panics();
        let mut out = std::io::BufWriter::new(std::fs::File::create(&a.out).unwrap());
        let n = dedup_probes(a.corpus.as_deref().unwrap_or("/verif/corpus/c03_dedup.ir"), &mut out);
        out.flush().unwrap();
        eprintln!("sv_c03: {n} dedup probes");
        return;
    }
    let tier = std::env::var("VERIF_TIER").unwrap_or_else(|_| "quick".into());
    let thorough = tier != "quick";
    let envn = |k: &str, d: usize| -> usize { std::env::var(k).ok().and_then(|s| s.parse().ok()).unwrap_or(d) };
    let jobs_par = envn("SV_C03_JOBS", 8);
    let n_random = envn("SV_C03_RANDOM", if thorough { 10 } else { 6 });
    let n_scalar = envn("SV_C03_S", if thorough { 24 } else { 5 });
    let n_aggr = envn("SV_C03_M", if thorough { 24 } else { 5 });
    let timeout_s = envn("SV_C03_TIMEOUT", 900) as u64;
    let exe = std::env::current_exe().unwrap();
    let scratch = scratch_dir("c03");
    let passes = all_passes();

    // ---- packages. `--n` = number of std-dependent packages; corpus lines `pkg <name> [<list>[@<base>]]` first.
    let mut pkgs: Vec<Pkg> = vec![];
    let add_pkg = |name: &str, pkgs: &mut Vec<Pkg>| -> Option<usize> {
        if let Some(i) = pkgs.iter().position(|p| p.name == name) { return Some(i); }
        let dir = scratch.join(format!("pkg{}", pkgs.len()));
        let class = make_pkg(name, &dir)?;
        pkgs.push(Pkg { name: name.to_string(), dir, class, lists: vec![] });
        Some(pkgs.len() - 1)
    };
    let only_lists: Option<String> = std::env::var("SV_C03_LISTS").ok();
    let mut explicit_pkgs = 0usize;
    if let Some(c) = &a.corpus {
        for l in std::fs::read_to_string(c).unwrap_or_default().lines() {
            let t: Vec<&str> = l.split_whitespace().collect();
            if t.len() >= 2 && t[0] == "pkg" {
                if let Some(i) = add_pkg(t[1], &mut pkgs) {
                    if t.len() >= 3 {
                        let (l, b) = match t[2].split_once('@') { Some((l, b)) => (list_untoken(l), list_untoken(b)), None => (list_untoken(t[2]), baseline(pkgs[i].class)) };
                        pkgs[i].lists.push((l, b));
                    }
                    explicit_pkgs += 1;
                }
            }
        }
    }
    let corpus_pkgs = pkgs.len();
    if let Ok(o) = std::env::var("SV_C03_PKG") {
        for n in o.split(',') { add_pkg(n, &mut pkgs); }
    } else {
        for _ in 0..n_scalar { let n = format!("s:{}", r.below(1_000_000)); add_pkg(&n, &mut pkgs); }
        for _ in 0..n_aggr { let n = format!("m:{}", r.below(1_000_000)); add_pkg(&n, &mut pkgs); }
        let mut guard = 0;
        let mut nstd = 0;
        while nstd < a.n && guard < 200 {
            guard += 1;
            // alternate: a generated std package, then a seed-chosen std test package
            let name = if (nstd + seed as usize) % 2 == 0 { format!("gen:{}", r.below(1_000_000)) } else { r.pick(INLANG_PKGS).to_string() };
            let before = pkgs.len();
            add_pkg(&name, &mut pkgs);
            if pkgs.len() > before { nstd += 1; }
        }
    }
    let _ = explicit_pkgs;
    for (i, p) in pkgs.iter_mut().enumerate() {
        if let Some(ol) = &only_lists {
            for l in ol.split(';') {
                let (l, b) = match l.split_once('@') { Some((l, b)) => (list_untoken(l), list_untoken(b)), None => (list_untoken(l), baseline(p.class)) };
                p.lists.push((l, b));
            }
        } else if i >= corpus_pkgs || p.lists.is_empty() {
            let mut pr = Rng::new(seed ^ (i as u64 + 1).wrapping_mul(0x9E37_79B9));
            let ls = lists_for(p.class, &mut pr, &passes, n_random, thorough);
            p.lists.extend(ls);
        }
    }

    // ---- jobs
    let mut queue: VecDeque<Job> = VecDeque::new();
    // std packages first (long builds), cheap ones fill the gaps
    let mut order: Vec<usize> = (0..pkgs.len()).collect();
    order.sort_by_key(|i| if pkgs[*i].class == Class::Std { 0 } else { 1 });
    for pi in order {
        let mut seen: Vec<String> = vec![];
        let mut push = |l: &str, queue: &mut VecDeque<Job>| { if !seen.iter().any(|s| s == l) { seen.push(l.to_string()); queue.push_back(Job { pkg: pi, list: l.to_string() }); } };
        for (l, b) in &pkgs[pi].lists { push(b, &mut queue); push(l, &mut queue); }
    }
    let total = queue.len();
    let queue = Arc::new(Mutex::new(queue));
    let results: Arc<Mutex<BTreeMap<(usize, String), Built>>> = Arc::new(Mutex::new(BTreeMap::new()));
    let mut handles = vec![];
    for w in 0..jobs_par.max(1) {
        let queue = queue.clone();
        let results = results.clone();
        let pkgs = pkgs.clone();
        let exe = exe.clone();
        let scratch = scratch.clone();
        handles.push(std::thread::spawn(move || loop {
            let job = { queue.lock().unwrap().pop_front() };
            let Some(job) = job else { break };
            let dir = scratch.join(format!("w{w}"));
            let _ = std::fs::remove_dir_all(&dir);
            if copy_dir(&pkgs[job.pkg].dir, &dir).is_err() { continue; }
            let (so, se, code) = run_child(&exe, "child", &dir, &job.list, timeout_s);
            let res = if so.lines().any(|l| l == "DONE") {
                Built::Tests(so.lines().filter(|l| l.starts_with("T ")).map(|l| {
                    let t: Vec<&str> = l.split(' ').collect();
                    (t[1].to_string(), t[2].to_string(), t.get(3).unwrap_or(&"?").to_string())
                }).collect())
            } else {
                Built::Err(classify_failure(&exe, &dir, &job.list, &so, &se, code, timeout_s))
            };
            results.lock().unwrap().insert((job.pkg, job.list.clone()), res);
        }));
    }
    for h in handles { let _ = h.join(); }
    let mut results = results.lock().unwrap();

    // ---- confirmation: a differing outcome must reproduce. Both sides of every differing (package, list) pair are
    // built and run once more (sequentially, machine less loaded); the second results are the ones reported, the
    // line carries `rerun=<n differing tests in the first run>` so that an irreproducible difference stays visible
    // in the evidence (key `rerun`) without being reported as a failing input that cannot be replayed.
    let mut reruns: BTreeMap<(usize, String), usize> = BTreeMap::new();
    for (pi, p) in pkgs.iter().enumerate() {
        for (l, b) in &p.lists {
            let (Some(Built::Tests(bt)), Some(Built::Tests(wt))) = (results.get(&(pi, b.clone())), results.get(&(pi, l.clone()))) else { continue };
            let ndiff = bt.iter().filter(|t| wt.iter().find(|w| w.0 == t.0).map(|w| w.1 != t.1).unwrap_or(true)).count();
            if ndiff == 0 || reruns.contains_key(&(pi, l.clone())) { continue; }
            reruns.insert((pi, l.clone()), ndiff);
            for which in [b.clone(), l.clone()] {
                let dir = scratch.join("rerun");
                let _ = std::fs::remove_dir_all(&dir);
                if copy_dir(&p.dir, &dir).is_err() { continue; }
                let (so, se, code) = run_child(&exe, "child", &dir, &which, timeout_s);
                let res = if so.lines().any(|x| x == "DONE") {
                    Built::Tests(so.lines().filter(|x| x.starts_with("T ")).map(|x| {
                        let t: Vec<&str> = x.split(' ').collect();
                        (t[1].to_string(), t[2].to_string(), t.get(3).unwrap_or(&"?").to_string())
                    }).collect())
                } else {
                    Built::Err(classify_failure(&exe, &dir, &which, &so, &se, code, timeout_s))
                };
                results.insert((pi, which), res);
            }
        }
    }

    // ---- lines
    let mut out = std::io::BufWriter::new(std::fs::File::create(&a.out).unwrap());
    let mut nlines = 0usize;
    for (pi, p) in pkgs.iter().enumerate() {
        let pname = &p.name;
        let mut done: Vec<(String, String)> = vec![];
        for (l, b) in &p.lists {
            if done.iter().any(|d| d.0 == *l && d.1 == *b) { continue; }
            done.push((l.clone(), b.clone()));
            let base = results.get(&(pi, b.clone()));
            let with = results.get(&(pi, l.clone()));
            let lt = format!("{}@{}", list_token(l), list_token(b));
            match (base, with) {
                (Some(Built::Tests(bt)), Some(Built::Tests(wt))) => {
                    let wm: BTreeMap<&str, (&str, &str)> = wt.iter().map(|t| (t.0.as_str(), (t.1.as_str(), t.2.as_str()))).collect();
                    for (name, bd, bs) in bt {
                        let (wd, ws) = wm.get(name.as_str()).copied().unwrap_or(("missing", "missing"));
                        let rr = reruns.get(&(pi, l.clone())).map(|n| format!(" rerun={n}")).unwrap_or_default();
                        writeln!(out, "passes {pname} {name} {lt} ;; base={bd} with={wd} bs={bs} ws={ws}{rr}").unwrap();
                        nlines += 1;
                    }
                    for (name, wd, ws) in wt {
                        if !bt.iter().any(|t| t.0 == *name) {
                            writeln!(out, "passes {pname} {name} {lt} ;; base=missing with={wd} bs=missing ws={ws}").unwrap();
                            nlines += 1;
                        }
                    }
                }
                (Some(Built::Tests(_)), Some(Built::Err(c))) => { writeln!(out, "passes {pname} * {lt} ;; base=ok with=- build=err:{c}").unwrap(); nlines += 1; }
                (Some(Built::Tests(_)), None) => { writeln!(out, "passes {pname} * {lt} ;; base=ok with=- build=err:not-run").unwrap(); nlines += 1; }
                (Some(Built::Err(c)), _) => { writeln!(out, "passes {pname} * {lt} ;; base=- with=- build=baseerr:{c}").unwrap(); nlines += 1; }
                (None, _) => { writeln!(out, "passes {pname} * {lt} ;; base=- with=- build=baseerr:not-run").unwrap(); nlines += 1; }
            }
        }
    }
    out.flush().unwrap();
    if std::env::var("SV_C03_KEEP").is_err() { let _ = std::fs::remove_dir_all(&scratch); }
    let _ = (sha(b""), guarded(|| ()));
    eprintln!("sv_c03: {} packages, {} child builds, {} lines", pkgs.len(), total, nlines);
}
