//! C24: drives the REAL `sway_lsp::server_state::ServerState` (worker thread, did_open/did_change/
//! did_save handlers, `wait_for_parsing`) under forced schedules, using hook H6
//! (`sway_lsp::verif_sched`, every shared-state access is a held point).
//!
//! One protocol line per run:
//!   `sched <tokens…> ;; <quiescent|stuck|running> trace=<tid:point,…> end=q:<0|1>,stuck:<n>,lc:<v|none>,latest:<v> skipped=<n> tok=<v|none> cls=<ch|vl><+|-> | none`
//! schedule tokens: `+open|+change|+save|+wait|+openstray` (start the next handler = first poll; `+openstray` is a
//! did_open of a `.sw` file outside any project, whose handler returns an error before queueing anything), `w` (let the
//! worker pass its next point), `h<k>` (let handler k pass its next point). Handler switches happen
//! only where the real server can switch (handler future returned Pending or finished), the worker
//! interleaves everywhere. Marker points (`w_recv`, `w_compile`, `p_enter`) are let through
//! automatically. `w_recv_wait` (worker entering `recv`) and `p_await` (first poll of the `Notified`)
//! are scheduled like accesses: the dequeue itself cannot be held, only delayed by keeping the worker
//! out of `recv`; a notification can be placed between the creation of a `Notified` and its first poll. After the tokens are used up everything is run to quiescence.
use lsp_types::*;
use std::future::Future;
use std::io::Write;
use std::path::{Path, PathBuf};
use std::pin::Pin;
use std::sync::Arc;
use std::task::{Context, Poll};
use std::time::Duration;
use svharness::{proto::*, rng::*};
use sway_lsp::handlers::notification;
use sway_lsp::server_state::ServerState;
use sway_lsp::verif_sched as vs;
use tower_lsp::LanguageServer;

const MARKERS: &[&str] = &["w_recv", "w_compile", "p_enter"];
const ST_PENDING: u32 = 1;
const ST_DONE: u32 = 2;
fn dbg(msg: impl FnOnce() -> String) { if std::env::var_os("SV_C24_DEBUG").is_some() { eprintln!("[c24] {}", msg()); } }

#[derive(Clone, Copy, PartialEq, Debug)]
enum Kind { Open, Change, Save, Wait, OpenStray }
impl Kind {
    fn tok(self) -> &'static str { match self { Kind::Open => "+open", Kind::Change => "+change", Kind::Save => "+save", Kind::Wait => "+wait", Kind::OpenStray => "+openstray" } }
    fn parse(s: &str) -> Option<Kind> { match s { "+open" => Some(Kind::Open), "+change" => Some(Kind::Change), "+save" => Some(Kind::Save), "+wait" => Some(Kind::Wait), "+openstray" => Some(Kind::OpenStray), _ => None } }
}

struct Wrap { fut: Pin<Box<dyn Future<Output = ()> + Send>>, tid: vs::Tid }
impl Future for Wrap {
    type Output = ();
    fn poll(mut self: Pin<&mut Self>, cx: &mut Context<'_>) -> Poll<()> {
        let r = self.fut.as_mut().poll(cx);
        if r.is_pending() { let t = self.tid; vs::with(|i| { i.user.insert(t, ST_PENDING); }); }
        r
    }
}

fn doc_text(v: u32) -> String { format!("script;\nfn main() {{}}\nfn ver_{}() {{}}\n", v) }

struct Run {
    state: Arc<ServerState>,
    uri: Url,
    stray: Url,                // a `.sw` file with no Forc.toml above it: did_open fails in its look-ups
    base: vs::Tid,
    kinds: Vec<Kind>,          // handler k (1-based) has kinds[k-1]
    midrun: Option<u32>,       // handler that was let through a point and has not yielded since
    latest: u32,               // number of didChange writes let through
    changes_started: u32,
    sched: Vec<String>,
    skipped: u32,
    tq: Duration,
}

impl Run {
    fn tid(&self, k: u32) -> vs::Tid { self.base + k }
    fn spawn(&mut self, kind: Kind) -> u32 {
        self.kinds.push(kind);
        let k = self.kinds.len() as u32;
        let tid = self.tid(k);
        let state = self.state.clone();
        let uri = self.uri.clone();
        let stray = self.stray.clone();
        let ver = if kind == Kind::Change { self.changes_started += 1; self.changes_started } else { 0 };
        vs::with(|i| { i.user.insert(tid, 0); });
        std::thread::spawn(move || {
            vs::set_thread_id(tid);
            let rt = tokio::runtime::Builder::new_current_thread().enable_all().build().unwrap();
            let fut: Pin<Box<dyn Future<Output = ()> + Send>> = Box::pin(async move {
                match kind {
                    Kind::Open => {
                        let p = DidOpenTextDocumentParams { text_document: TextDocumentItem {
                            uri: uri.clone(), language_id: "sway".into(), version: 1, text: doc_text(0) } };
                        if let Err(e) = notification::handle_did_open_text_document(&state, p).await { eprintln!("sv_c24: did_open error: {e}"); }
                    }
                    Kind::Change => {
                        let p = DidChangeTextDocumentParams {
                            text_document: VersionedTextDocumentIdentifier { uri: uri.clone(), version: ver as i32 + 1 },
                            content_changes: vec![TextDocumentContentChangeEvent { range: None, range_length: None, text: doc_text(ver) }] };
                        if let Err(e) = notification::handle_did_change_text_document(&state, p).await { eprintln!("sv_c24: did_change error: {e}"); }
                    }
                    Kind::Save => {
                        let p = DidSaveTextDocumentParams { text_document: TextDocumentIdentifier { uri: uri.clone() }, text: None };
                        state.did_save(p).await;
                    }
                    Kind::Wait => { state.wait_for_parsing().await; }
                    Kind::OpenStray => {
                        let p = DidOpenTextDocumentParams { text_document: TextDocumentItem {
                            uri: stray.clone(), language_id: "sway".into(), version: 1, text: "script;\nfn main() {}\n".into() } };
                        // expected to fail (ManifestFileNotFound): the handler returns before queueing anything
                        if notification::handle_did_open_text_document(&state, p).await.is_ok() { eprintln!("sv_c24: did_open of a stray file succeeded"); }
                    }
                }
            });
            rt.block_on(Wrap { fut, tid });
            vs::with(|i| { i.user.insert(tid, ST_DONE); });
        });
        k
    }

    fn handler_settled(&self, i: &vs::Inner, k: u32) -> bool {
        let t = self.tid(k);
        i.waiting.contains_key(&t) || i.user.get(&t).copied().unwrap_or(0) != 0
    }
    fn worker_settled(&self, i: &vs::Inner) -> bool {
        i.waiting.contains_key(&0) || matches!(i.last_point.get(&0).copied(), Some("w_recv_wait") | Some("w_compile"))
    }
    /// Wait until no thread is running between two points, letting marker points through.
    fn settle(&mut self) {
        loop {
            dbg(|| format!("settle: {:?}", vs::with(|i| (i.waiting.clone(), i.last_point.clone(), i.user.clone()))));
            let n = self.kinds.len() as u32;
            let ok = vs::wait_until(Duration::from_secs(30), |i| {
                self.worker_settled(i) && (1..=n).all(|k| self.handler_settled(i, k))
            });
            if !ok {
                let st = vs::with(|i| format!("last points {:?}, at a point {:?}", i.last_point, i.waiting));
                eprintln!("sv_c24: a thread neither reached its next point nor suspended within 30s (blocked inside an access?): {st}");
                std::process::exit(3);
            }
            // transient Pending (file IO): wait for the handler to come back
            let base = self.base;
            let io_ok = vs::wait_until(Duration::from_secs(60), |i| {
                (1..=n).all(|k| { let t = base + k;
                    i.waiting.contains_key(&t) || i.user.get(&t).copied() == Some(ST_DONE)
                        || (i.user.get(&t).copied() == Some(ST_PENDING) && i.last_point.get(&t).copied() == Some("p_await")) })
            });
            if !io_ok { eprintln!("sv_c24: handler pending on IO for 60s"); std::process::exit(3); }
            // a handler that went Pending has yielded
            if let Some(m) = self.midrun {
                let t = self.tid(m);
                let yielded = vs::with(|i| !i.waiting.contains_key(&t) || i.user.get(&t).copied().unwrap_or(0) != 0);
                if yielded { self.midrun = None; }
            }
            let marker: Option<(vs::Tid, &'static str)> = vs::with(|i| i.waiting.iter().map(|(t, n)| (*t, *n))
                .find(|(t, name)| (*t == 0 || (*t > base && *t <= base + n)) && MARKERS.contains(name)));
            match marker {
                Some((t, _)) => self.grant_raw(t),
                None => return,
            }
        }
    }
    fn grant_raw(&self, t: vs::Tid) {
        dbg(|| format!("grant {} at {:?}", t, self.at_point(t)));
        vs::with(|i| { if t != 0 { i.user.insert(t, 0); } });
        // wait until the thread has actually passed the point (it logs the point then), so that
        // `settle` does not take the stale `waiting` entry for an arrival
        let n0 = vs::with(|i| i.trace.len());
        vs::grant(t);
        vs::wait_until(Duration::from_secs(60), |i| i.trace[n0..].iter().any(|e| e.0 == t));
    }
    fn at_point(&self, t: vs::Tid) -> Option<&'static str> { vs::with(|i| i.waiting.get(&t).copied()) }

    /// Applicable schedule tokens right now (after `settle`).
    fn options(&self, more_events: bool) -> Vec<String> {
        let mut o = vec![];
        if self.at_point(0).is_some() { o.push("w".to_string()); }
        match self.midrun {
            Some(m) => { if self.at_point(self.tid(m)).is_some() { o.push(format!("h{m}")); } }
            None => {
                for k in 1..=self.kinds.len() as u32 { if self.at_point(self.tid(k)).is_some() { o.push(format!("h{k}")); } }
                if more_events { o.push("+".to_string()); }
            }
        }
        o
    }
    fn worker_in_compile(&self) -> bool { vs::with(|i| !i.waiting.contains_key(&0) && i.last_point.get(&0).copied() == Some("w_compile")) }

    /// Executes one token; returns false when it is not applicable.
    fn exec(&mut self, tok: &str, wait: Duration) -> bool {
        dbg(|| format!("exec {tok}"));
        if let Some(kind) = Kind::parse(tok) {
            // a new handler is polled only once the running one has yielded: run that one up to its next
            // `.await` (or its end) first
            while let Some(m) = self.midrun {
                let t = self.tid(m);
                if self.at_point(t).is_none() { break; }
                self.sched.push(format!("h{m}"));
                self.pass(t, m);
            }
            if self.midrun.is_some() { return false; }
            let k = self.spawn(kind);
            self.sched.push(tok.to_string());
            self.settle();
            // the first point (`*_enter`) is the spawn itself
            let t = self.tid(k);
            if self.at_point(t).is_some_and(|n| n.ends_with("_enter")) { self.pass(t, k); }
            return true;
        }
        if tok == "w" {
            if self.at_point(0).is_none() {
                // compiling, or about to receive: give it time to arrive
                vs::wait_until(if self.worker_in_compile() { Duration::from_secs(120) } else { wait }, |i| i.waiting.contains_key(&0));
                self.settle();
            }
            if self.at_point(0).is_none() { return false; }
            self.sched.push("w".into());
            let name = self.at_point(0).unwrap_or("");
            self.grant_raw(0);
            if name == "w_recv_wait" {
                // if a request is already queued the worker shows up at `w_recv` at once
                vs::wait_until(Duration::from_millis(150), |i| i.waiting.contains_key(&0));
            }
            self.settle();
            return true;
        }
        if let Some(k) = tok.strip_prefix('h').and_then(|s| s.parse::<u32>().ok()) {
            if k == 0 || k as usize > self.kinds.len() { return false; }
            if let Some(m) = self.midrun { if m != k { return false; } }
            let t = self.tid(k);
            if self.at_point(t).is_none() {
                vs::wait_until(wait, |i| i.waiting.contains_key(&t));
                self.settle();
            }
            if self.at_point(t).is_none() { return false; }
            self.sched.push(format!("h{k}"));
            self.pass(t, k);
            return true;
        }
        false
    }
    fn pass(&mut self, t: vs::Tid, k: u32) {
        let name = self.at_point(t).unwrap_or("");
        if name == "c_write" { self.latest += 1; }
        self.midrun = Some(k);
        self.grant_raw(t);
        if name == "s_send" {
            // hand-over to a worker blocked in recv is immediate; let it show up before deciding further
            let blocked = vs::with(|i| !i.waiting.contains_key(&0) && i.last_point.get(&0).copied() == Some("w_recv_wait"));
            if blocked { vs::wait_until(Duration::from_millis(200), |i| i.waiting.contains_key(&0)); }
        }
        self.settle();
    }
    fn all_blocked(&self) -> bool {
        let n = self.kinds.len() as u32; let base = self.base;
        vs::with(|i| i.waiting.keys().all(|t| !(*t == 0 || (*t > base && *t <= base + n)))
            && i.last_point.get(&0).copied() == Some("w_recv_wait"))
    }
    fn stuck(&self) -> u32 {
        let n = self.kinds.len() as u32; let base = self.base;
        vs::with(|i| (1..=n).filter(|k| i.user.get(&(base + k)).copied() == Some(ST_PENDING)).count() as u32)
    }
    /// True when nothing moved for `tq` with the worker in `recv` and no handler at a point.
    fn quiescent_for(&self, tq: Duration) -> bool {
        if !self.all_blocked() { return false; }
        let n = self.kinds.len() as u32; let base = self.base;
        !vs::wait_until(tq, |i| i.waiting.keys().any(|t| *t == 0 || (*t > base && *t <= base + n)))
    }
    /// Version of the document in the programs cache of the shared engines = input of the last
    /// compilation that ran to completion (an aborted one is never committed).
    fn last_compiled(&self) -> Option<u32> {
        use sway_types::Spanned;
        let temp = self.state.uri_from_workspace(&self.uri).ok()?;
        let path = PathBuf::from(temp.path()).canonicalize().ok()?;
        let engines = self.state.engines.read();
        let entry = engines.qe().get_programs_cache_entry(&Arc::new(path))?;
        let span = entry.programs.lexed.root.tree.value.span();
        let text = span.input();
        let i = text.find("fn ver_")?;
        text[i + 7..].split(|c: char| !c.is_ascii_digit()).next()?.parse::<u32>().ok()
    }
    /// Version visible in the token map (what LSP features answer from).
    fn token_version(&self) -> Option<u32> {
        let temp = self.state.uri_from_workspace(&self.uri).ok()?;
        let mut found = None;
        for e in self.state.token_map.iter() {
            let k = e.key();
            if k.path.as_ref().and_then(|p| p.to_str()) == Some(temp.path()) {
                if let Some(v) = k.name.strip_prefix("ver_").and_then(|s| s.parse::<u32>().ok()) { found = Some(found.map_or(v, |f: u32| f.max(v))); }
            }
        }
        found
    }
}

fn make_project(dir: &Path) -> PathBuf {
    std::fs::create_dir_all(dir.join("src")).unwrap();
    std::fs::write(dir.join("Forc.toml"), "[project]\nauthors = [\"verif\"]\nentry = \"main.sw\"\nlicense = \"Apache-2.0\"\nname = \"c24proj\"\nimplicit-std = false\n").unwrap();
    let main = dir.join("src/main.sw");
    std::fs::write(&main, doc_text(0)).unwrap();
    main
}

/// One run. `script`: tokens to follow first; `plan`: client events for random continuation
/// (consumed by `+` choices); `rng`: None = deterministic round-robin continuation.
fn run_one(script: &[String], mut plan: Vec<Kind>, mut rng: Option<&mut Rng>, base: vs::Tid, tq: Duration, max_steps: usize) -> String {
    let dir = tempfile::tempdir().unwrap();
    let main = make_project(dir.path());
    vs::reset();
    vs::hold_all(true);
    let state = Arc::new(ServerState::default());
    let uri = Url::from_file_path(&main).unwrap();
    let stray_dir = tempfile::tempdir().unwrap();
    let stray_file = stray_dir.path().join("stray.sw");
    std::fs::write(&stray_file, "script;\nfn main() {}\n").unwrap();
    let stray = Url::from_file_path(&stray_file).unwrap();
    let mut r = Run { state, uri, stray, base, kinds: vec![], midrun: None, latest: 0, changes_started: 0, sched: vec![], skipped: 0, tq };
    r.settle();
    for tok in script {
        if !r.exec(tok, Duration::from_secs(2)) { r.skipped += 1; }
    }
    // continuation: random (or round-robin) until quiescent
    let mut steps = 0usize;
    let mut quiescent = false;
    loop {
        r.settle();
        let opts = r.options(!plan.is_empty());
        if opts.is_empty() {
            if r.worker_in_compile() { r.exec("w", Duration::from_secs(120)); continue; }
            if r.quiescent_for(r.tq) { quiescent = true; break; }
            continue;
        }
        steps += 1;
        if steps > max_steps { break; }
        let pick = match rng.as_deref_mut() { Some(g) => g.pick(&opts).clone(), None => opts[0].clone() };
        if pick == "+" { let k = plan.remove(0); r.exec(k.tok(), Duration::from_secs(2)); } else { r.exec(&pick, Duration::from_secs(2)); }
    }
    let mut stuck = r.stuck();
    if quiescent && stuck > 0 {
        // a hang claim: re-check with 10x the quiescence window
        if !r.quiescent_for(r.tq * 10) { quiescent = false; }
        stuck = r.stuck();
    }
    let lc = r.last_compiled();
    let tokv = r.token_version();
    let n = r.kinds.len() as u32;
    let trace: Vec<String> = vs::with(|i| i.trace.iter().filter(|(t, _)| *t == 0 || (*t > base && *t <= base + n))
        .map(|(t, name)| format!("{}:{}", if *t == 0 { 0 } else { *t - base }, name)).collect());
    // Which request did the last compilation that ran to completion serve, and did it start after
    // the last did_change write? `vl` = version-less request (did_open/did_save): sway-core's parse
    // cache trusts its entry when the request carries no version (C26), `ch` = did_change request.
    let cls = {
        let tr: Vec<(u32, &'static str)> = vs::with(|i| i.trace.iter().filter(|(t, _)| *t == 0 || (*t > base && *t <= base + n))
            .map(|(t, name)| (if *t == 0 { 0 } else { *t - base }, *name)).collect());
        let mut chan: Option<Kind> = None;
        let mut cur: Option<(Kind, bool)> = None;
        let mut last: Option<(Kind, bool)> = None;
        let last_write = tr.iter().rposition(|e| e.1 == "c_write");
        for (idx, (t, name)) in tr.iter().enumerate() {
            match *name {
                "s_send" => chan = r.kinds.get(*t as usize - 1).copied(),
                "s_try_recv" => chan = None,
                "w_recv" => cur = chan.take().map(|k| (k, last_write.map_or(true, |w| idx > w))),
                "w_ls_success" | "w_ls_failed" => last = cur,
                _ => {}
            }
        }
        match last { None => "none".to_string(), Some((k, after)) => format!("{}{}", if k == Kind::Change { "ch" } else { "vl" }, if after { "+" } else { "-" }) }
    };
    let line = format!("sched {} ;; {} trace={} end=q:{},stuck:{},lc:{},latest:{} skipped={} tok={} cls={}",
        if r.sched.is_empty() { "-".to_string() } else { r.sched.join(" ") },
        if !quiescent { "running" } else if stuck > 0 { "stuck" } else { "quiescent" },
        if trace.is_empty() { "-".to_string() } else { trace.join(",") },
        quiescent as u8, stuck, lc.map_or("none".to_string(), |v| v.to_string()), r.latest, r.skipped,
        tokv.map_or("none".to_string(), |v| v.to_string()), cls);
    vs::reset();
    let _ = r.state.shutdown_server();
    line
}

fn gen_plan(g: &mut Rng) -> Vec<Kind> {
    let mut plan = vec![Kind::Open];
    let n = 1 + g.below(5);
    for _ in 0..n {
        let k = match g.below(12) { 0 => Kind::Open, 1..=4 => Kind::Change, 5..=6 => Kind::Save, 7..=8 => Kind::OpenStray, _ => Kind::Wait };
        plan.push(k);
        // a failed did_open must not leave anything behind that blocks a later request
        if k == Kind::OpenStray { plan.push(Kind::Wait); }
    }
    plan
}

fn main() {
    let a = args();
    std::env::set_var("SWAY_VERIF_SCHED", "1");
    let home = tempfile::tempdir().unwrap();
    std::env::set_var("HOME", home.path());
    let thorough = std::env::var("VERIF_TIER").map(|t| t == "thorough").unwrap_or(false);
    let tq = Duration::from_millis(if thorough { 1500 } else { 700 });
    let mut g = Rng::new(seed_from_env());
    let mut out = std::io::BufWriter::new(std::fs::File::create(&a.out).unwrap());
    let mut cases = 0usize;
    let mut base: vs::Tid = 0;
    if let Some(c) = &a.corpus {
        for l in std::fs::read_to_string(c).unwrap_or_default().lines() {
            let l = l.trim();
            if l.is_empty() || l.starts_with('#') { continue; }
            let toks: Vec<String> = l.split_whitespace().map(|s| s.to_string()).collect();
            let line = run_one(&toks, vec![], None, base, tq, 400);
            base += 1000;
            writeln!(out, "{}", line).unwrap();
            out.flush().unwrap();
            cases += 1;
        }
    }
    while cases < a.n {
        let plan = gen_plan(&mut g);
        let line = run_one(&[], plan, Some(&mut g), base, tq, 400);
        base += 1000;
        writeln!(out, "{}", line).unwrap();
        out.flush().unwrap();
        cases += 1;
    }
    eprintln!("sv_c24: {} runs", cases);
    // handler threads stuck on a lost wake-up never finish; do not wait for them
    std::process::exit(0);
}
