//! C22: drives the real `forc_pkg::compilation_order` on package graphs built through the real
//! `forc_pkg::Graph` (`StableGraph<Pinned, Edge>`): random DAGs, injected cycles, self-loops,
//! parallel edges, library and contract-dependency edges, 1..=40 nodes.
//! One protocol line per graph:
//! `graph <n> <edges in insertion order: a-b (library) | a~b (contract), comma separated, "." if none> ;; ok <order>|err|errother|panic`
use forc_pkg::{source, DepKind, Edge, Graph, Pinned, PinnedId};
use std::io::Write;
use std::str::FromStr;
use svharness::{proto::*, rng::*};

#[derive(Clone, Copy)]
struct E { a: usize, b: usize, contract: bool }

fn build(n: usize, edges: &[E], r: &mut Rng) -> Graph {
    let mut g = Graph::default();
    let member = source::Pinned::from_str("member").ok().expect("member source");
    let mut ix = vec![];
    for i in 0..n {
        let name = format!("pkg{}", i);
        // members and path packages, as a workspace plan has them
        let src = if i % 3 == 0 {
            member.clone()
        } else {
            source::Pinned::Path(source::path::Pinned { path_root: PinnedId::new("pkg0", &member) })
        };
        ix.push(g.add_node(Pinned { name, source: src }));
    }
    for e in edges {
        let kind = if e.contract {
            let mut salt = [0u8; 32];
            for b in salt.iter_mut() { *b = r.below(256) as u8; }
            DepKind::Contract { salt: fuel_tx::Salt::new(salt) }
        } else {
            DepKind::Library
        };
        g.add_edge(ix[e.a], ix[e.b], Edge::new(format!("pkg{}", e.b), kind));
    }
    g
}

fn shuffle<T>(r: &mut Rng, v: &mut [T]) {
    for i in (1..v.len()).rev() {
        let j = r.below(i as u64 + 1) as usize;
        v.swap(i, j);
    }
}

/// Random DAG: edges only from higher to lower rank of a random permutation.
fn gen_dag(r: &mut Rng, n: usize) -> Vec<E> {
    let mut rank: Vec<usize> = (0..n).collect();
    shuffle(r, &mut rank);
    let mut edges = vec![];
    if n < 2 { return edges; }
    let style = r.below(6);
    match style {
        0 => { // chain in rank order
            let mut by_rank: Vec<usize> = (0..n).collect();
            by_rank.sort_by_key(|&v| rank[v]);
            for w in by_rank.windows(2) { edges.push(E { a: w[1], b: w[0], contract: false }); }
        }
        1 => { // star: everything depends on one package (std-like)
            let mut by_rank: Vec<usize> = (0..n).collect();
            by_rank.sort_by_key(|&v| rank[v]);
            for &v in &by_rank[1..] { edges.push(E { a: v, b: by_rank[0], contract: false }); }
            let extra = r.below(n as u64);
            for _ in 0..extra {
                let a = r.below(n as u64) as usize; let b = r.below(n as u64) as usize;
                if rank[a] > rank[b] { edges.push(E { a, b, contract: false }); }
            }
        }
        2 => { // dense
            for a in 0..n { for b in 0..n { if rank[a] > rank[b] && r.chance(1, 2) { edges.push(E { a, b, contract: false }); } } }
        }
        _ => { // sparse / medium
            let m = r.below(3 * n as u64 + 1);
            for _ in 0..m {
                let a = r.below(n as u64) as usize; let b = r.below(n as u64) as usize;
                if rank[a] > rank[b] { edges.push(E { a, b, contract: false }); }
                else if rank[b] > rank[a] { edges.push(E { a: b, b: a, contract: false }); }
            }
        }
    }
    edges
}

fn gen_graph(r: &mut Rng) -> (usize, Vec<E>) {
    let n = match r.below(10) { 0 => 1, 1 => 2, 2 | 3 => r.range(3, 6) as usize, 4 => 40, _ => r.range(1, 40) as usize };
    let mut edges = if r.chance(1, 8) {
        // arbitrary random graph
        let m = r.below(2 * n as u64 + 1);
        (0..m).map(|_| E { a: r.below(n as u64) as usize, b: r.below(n as u64) as usize, contract: false }).collect()
    } else {
        gen_dag(r, n)
    };
    // injected defects of the graph
    let mode = r.below(10);
    if mode < 3 && !edges.is_empty() {
        // close a cycle: reverse copy of an existing edge, or an edge from a dependency back up a path
        let k = 1 + r.below(2);
        for _ in 0..k {
            let e = edges[r.below(edges.len() as u64) as usize];
            if r.chance(1, 2) {
                edges.push(E { a: e.b, b: e.a, contract: false });
            } else {
                // walk a few dependency steps down from e.b, then point back to e.a
                let mut cur = e.b;
                for _ in 0..r.below(4) {
                    let outs: Vec<usize> = edges.iter().filter(|x| x.a == cur).map(|x| x.b).collect();
                    if outs.is_empty() { break; }
                    cur = outs[r.below(outs.len() as u64) as usize];
                }
                edges.push(E { a: cur, b: e.a, contract: false });
            }
        }
    } else if mode == 3 {
        let v = r.below(n as u64) as usize;
        edges.push(E { a: v, b: v, contract: false });
    }
    if r.chance(1, 4) && !edges.is_empty() {
        // parallel edges (same dependency declared under [dependencies] and [contract-dependencies], or twice)
        for _ in 0..1 + r.below(3) {
            let e = edges[r.below(edges.len() as u64) as usize];
            edges.push(e);
        }
    }
    shuffle(r, &mut edges);
    let pc = *r.pick(&[0u64, 0, 1, 3, 5, 10]);
    for e in edges.iter_mut() { e.contract = r.chance(pc, 10); }
    (n, edges)
}

fn run_case(n: usize, edges: &[E], r: &mut Rng, out: &mut dyn Write) {
    let g = build(n, edges, r);
    let res = guarded(|| forc_pkg::compilation_order(&g));
    let es = if edges.is_empty() { ".".to_string() } else {
        edges.iter().map(|e| format!("{}{}{}", e.a, if e.contract { '~' } else { '-' }, e.b)).collect::<Vec<_>>().join(",")
    };
    let resl = match res {
        None => "panic".to_string(),
        Some(Ok(order)) => {
            if order.is_empty() { "ok .".to_string() } else {
                format!("ok {}", order.iter().map(|ix| ix.index().to_string()).collect::<Vec<_>>().join(","))
            }
        }
        Some(Err(e)) => if e.to_string().starts_with("dependency cycle detected") { "err".into() } else { "errother".into() },
    };
    writeln!(out, "graph {} {} ;; {}", n, es, resl).unwrap();
}

fn main() {
    let a = args();
    quiet_panics();
    let mut r = Rng::new(seed_from_env());
    let mut out = std::io::BufWriter::new(std::fs::File::create(&a.out).unwrap());
    let mut cases = 0usize;
    // corpus: lines `n|edges` (edge syntax as in the protocol), run first
    if let Some(c) = &a.corpus {
        for l in std::fs::read_to_string(c).unwrap_or_default().lines() {
            if l.starts_with('#') || l.trim().is_empty() { continue; }
            let f: Vec<&str> = l.trim().split('|').collect();
            if f.len() != 2 { continue; }
            let n: usize = match f[0].parse() { Ok(n) => n, Err(_) => continue };
            let mut edges = vec![];
            let mut ok = true;
            if f[1] != "." {
                for t in f[1].split(',') {
                    let contract = t.contains('~');
                    let p: Vec<&str> = t.split(|c| c == '-' || c == '~').collect();
                    match (p.first().and_then(|x| x.parse::<usize>().ok()), p.get(1).and_then(|x| x.parse::<usize>().ok())) {
                        (Some(x), Some(y)) if p.len() == 2 && x < n && y < n => edges.push(E { a: x, b: y, contract }),
                        _ => { ok = false; }
                    }
                }
            }
            if !ok { continue; }
            run_case(n, &edges, &mut r, &mut out);
            cases += 1;
        }
    }
    while cases < a.n {
        let (n, edges) = gen_graph(&mut r);
        run_case(n, &edges, &mut r, &mut out);
        cases += 1;
    }
    out.flush().unwrap();
    eprintln!("sv_c22: {} cases", cases);
}
