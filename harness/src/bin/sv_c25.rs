//! C25: drives the real `forc_util::fs_locking::PidFileLocking` in 2–3 child processes (this binary
//! re-executed with `child`), step by step through a schedule, using the H4 step points
//! (`verif_step!`, env `SWAY_VERIF_STEP_CTL`). One protocol line per schedule:
//!
//! `sched iso=<0|1> np=<n> <tok>… ;; <obs>… [bad=<event>…]`
//!
//! tokens: `init:<hex>` (flag file created with these bytes), `initp:<i>` (… with child i's pid),
//!         `s<i>:<op>` (child i starts op), `<i>` (child i performs its next file-system step),
//!         `k<i>` (child i is killed, SIGKILL + reaped).
//! ops:    lock release islocked glp cleanup dirty(=is_file_dirty) mark(=PidFileLocking::lsp(..).lock())
//! obs (one per token): `<file>|<dir>|<event>`; file = `A` (absent) or hex bytes with every child's
//!         real pid replaced by its model pid (101+i); dir = 0/1 (.lsp-locks exists);
//!         event = `at:<step name>` (blocked before that step) | `ret:<value>` | `init` | `killed`.
//! `iso=1` iff no publishing step of `lock` (rename / create / write) ran while another live child was
//! inside an operation. `bad=` tags (derived from the observations, re-derived by the driver):
//! `unlink-live:<q>:<w>` / `overwrite-live:<q>:<w>`: a step of child q removed / replaced a flag file
//! naming live child w ≠ q.
use std::io::Write;
use std::path::{Path, PathBuf};
use std::process::{Child, Command, Stdio};
use std::time::{Duration, Instant};
use svharness::{proto::*, rng::*};

const KEY: &str = "/verif-c25/some/file.sw";
const MODEL_PID0: usize = 101;

// ------------------------------------------------------------------------------------------ child

fn child_main(ctl: &str) {
    use forc_util::fs_locking::{is_file_dirty, PidFileLocking};
    // constructed before stepping is enabled (construction runs cleanup_stale_files)
    let x = PidFileLocking::lsp(KEY);
    std::env::set_var("SWAY_VERIF_STEP_CTL", ctl);
    let pid = std::process::id();
    std::fs::write(Path::new(ctl).join(format!("{pid}.ready")), b"").unwrap();
    let stdin = std::io::stdin();
    let mut k = 0usize;
    let mut line = String::new();
    loop {
        line.clear();
        if stdin.read_line(&mut line).unwrap_or(0) == 0 {
            return;
        }
        let op = line.trim();
        let r = match op {
            "lock" => if x.lock().is_ok() { "ok".to_string() } else { "err".into() },
            "release" => if x.release().is_ok() { "ok".to_string() } else { "err".into() },
            "islocked" => if x.is_locked() { "t".to_string() } else { "f".into() },
            "glp" => match x.get_locker_pid() { None => "none".to_string(), Some(p) => format!("some:{p}") },
            "cleanup" => match PidFileLocking::cleanup_stale_files() { Ok(v) => format!("ok:{}", v.len()), Err(_) => "err".into() },
            "dirty" => if is_file_dirty(KEY) { "t".to_string() } else { "f".into() },
            "mark" => if PidFileLocking::lsp(KEY).lock().is_ok() { "ok".to_string() } else { "err".into() },
            _ => "badop".into(),
        };
        let tmp = Path::new(ctl).join(format!("{pid}.r{k}.tmp"));
        let fin = Path::new(ctl).join(format!("{pid}.r{k}"));
        std::fs::write(&tmp, r).unwrap();
        std::fs::rename(&tmp, &fin).unwrap();
        k += 1;
    }
}

// ------------------------------------------------------------------------------------------ parent

struct Proc {
    child: Child,
    pid: u32,
    cur: Option<usize>, // index of the step point it is blocked at
    next_at: usize,     // index of the next step point it will announce
    k: usize,           // operations completed
    busy: bool,
    at_name: String,
    alive: bool,
}

struct World {
    home: PathBuf,
    ctl: PathBuf,
    dead_file: PathBuf,
    exe: PathBuf,
    procs: Vec<Proc>,
    dead: Vec<u32>,
}

#[derive(Debug)]
enum Ev { At(String), Ret(String) }

impl World {
    fn lock_dir(&self) -> PathBuf { self.home.join(".forc").join(".lsp-locks") }

    fn flag_path(&self) -> Option<PathBuf> {
        let rd = std::fs::read_dir(self.lock_dir()).ok()?;
        let mut v: Vec<PathBuf> = rd.filter_map(|e| e.ok()).map(|e| e.path())
            .filter(|p| p.extension().and_then(|e| e.to_str()) == Some("lock")).collect();
        assert!(v.len() <= 1, "more than one flag file: {v:?}");
        v.pop()
    }

    fn spawn(&self) -> Proc {
        let child = Command::new(&self.exe).arg("child").arg(&self.ctl)
            .env("HOME", &self.home)
            .env("SWAY_VERIF_DEAD_PIDS", &self.dead_file)
            .env_remove("SWAY_VERIF_STEP_CTL")
            .stdin(Stdio::piped()).stdout(Stdio::null()).stderr(Stdio::inherit())
            .spawn().expect("spawn child");
        let pid = child.id();
        let ready = self.ctl.join(format!("{pid}.ready"));
        let t0 = Instant::now();
        while !ready.exists() {
            assert!(t0.elapsed() < Duration::from_secs(20), "child did not start");
            std::thread::sleep(Duration::from_micros(200));
        }
        let _ = std::fs::remove_file(&ready);
        Proc { child, pid, cur: None, next_at: 0, k: 0, busy: false, at_name: String::new(), alive: true }
    }

    fn kill(&mut self, i: usize) {
        let p = &mut self.procs[i];
        if p.alive {
            let _ = p.child.kill();
            let _ = p.child.wait();
            p.alive = false;
            p.busy = false;
            self.dead.push(p.pid);
            let s: Vec<String> = self.dead.iter().map(|d| d.to_string()).collect();
            let tmp = self.dead_file.with_extension("tmp");
            std::fs::write(&tmp, s.join("\n")).unwrap();
            std::fs::rename(&tmp, &self.dead_file).unwrap();
        }
    }

    /// Wait until child i announces its next step point or finishes its operation.
    fn wait_event(&mut self, i: usize) -> Ev {
        let ctl = self.ctl.clone();
        let p = &mut self.procs[i];
        let at = ctl.join(format!("{}.{}.at", p.pid, p.next_at));
        let ret = ctl.join(format!("{}.r{}", p.pid, p.k));
        let t0 = Instant::now();
        loop {
            if let Ok(name) = std::fs::read_to_string(&at) {
                let _ = std::fs::remove_file(&at);
                p.cur = Some(p.next_at);
                p.next_at += 1;
                p.at_name = name.clone();
                return Ev::At(name);
            }
            if let Ok(r) = std::fs::read_to_string(&ret) {
                let _ = std::fs::remove_file(&ret);
                p.k += 1;
                p.busy = false;
                p.cur = None;
                p.at_name.clear();
                return Ev::Ret(r);
            }
            if t0.elapsed() > Duration::from_secs(20) {
                panic!("child {i} (pid {}) did not reach a step point or return", p.pid);
            }
            std::thread::sleep(Duration::from_micros(100));
        }
    }

    fn start(&mut self, i: usize, op: &str) -> Ev {
        let p = &mut self.procs[i];
        p.busy = true;
        let si = p.child.stdin.as_mut().unwrap();
        writeln!(si, "{op}").unwrap();
        si.flush().unwrap();
        self.wait_event(i)
    }

    fn step(&mut self, i: usize) -> Ev {
        let p = &mut self.procs[i];
        let cur = p.cur.expect("step of a process that is not at a step point");
        let go = self.ctl.join(format!("{}.{}.go", p.pid, cur));
        std::fs::write(&go, b"").unwrap();
        let ev = self.wait_event(i);
        let _ = std::fs::remove_file(&go);
        ev
    }

    /// (file bytes with real pids mapped to model pids, raw) or None when absent
    fn file_state(&self) -> Option<Vec<u8>> {
        let p = self.flag_path()?;
        let raw = std::fs::read(&p).ok()?;
        Some(self.canon(&raw))
    }

    fn canon(&self, raw: &[u8]) -> Vec<u8> {
        for (i, p) in self.procs.iter().enumerate() {
            if raw == p.pid.to_string().as_bytes() {
                return (MODEL_PID0 + i).to_string().into_bytes();
            }
        }
        raw.to_vec()
    }

    fn canon_pid(&self, pid: usize) -> usize {
        for (i, p) in self.procs.iter().enumerate() {
            if p.pid as usize == pid { return MODEL_PID0 + i; }
        }
        pid
    }

    fn reset_fs(&mut self) {
        let _ = std::fs::remove_dir_all(self.home.join(".forc"));
        if let Ok(rd) = std::fs::read_dir(&self.ctl) {
            for e in rd.flatten() {
                if e.path() != self.dead_file { let _ = std::fs::remove_file(e.path()); }
            }
        }
    }

    /// Make the first `np` slots fresh idle live children.
    fn prepare(&mut self, np: usize) {
        // kill everything that is dead/busy; also kill extra slots so that pids stay meaningful
        for i in 0..self.procs.len() {
            if self.procs[i].busy || !self.procs[i].alive { self.kill(i); }
        }
        self.reset_fs();
        for i in 0..np {
            if i >= self.procs.len() {
                let p = self.spawn();
                self.procs.push(p);
            } else if !self.procs[i].alive {
                let p = self.spawn();
                self.procs[i] = p;
            }
        }
    }
}

fn parse_tok(t: &str) -> Option<Tok> {
    if let Some(h) = t.strip_prefix("init:") {
        let b = if h == "-" { vec![] } else { hex::decode(h).ok()? };
        return Some(Tok::Init(b));
    }
    if let Some(i) = t.strip_prefix("initp:") { return Some(Tok::InitP(i.parse().ok()?)); }
    if let Some(r) = t.strip_prefix('s') {
        let (i, op) = r.split_once(':')?;
        return Some(Tok::Start(i.parse().ok()?, op.to_string()));
    }
    if let Some(i) = t.strip_prefix('k') { return Some(Tok::Kill(i.parse().ok()?)); }
    Some(Tok::Step(t.parse().ok()?))
}

#[derive(Clone, Debug)]
enum Tok { Init(Vec<u8>), InitP(usize), Start(usize, String), Step(usize), Kill(usize) }

fn show_tok(t: &Tok) -> String {
    match t {
        Tok::Init(b) => format!("init:{}", hexbytes(b)),
        Tok::InitP(i) => format!("initp:{i}"),
        Tok::Start(i, op) => format!("s{i}:{op}"),
        Tok::Step(i) => format!("{i}"),
        Tok::Kill(i) => format!("k{i}"),
    }
}

const PUBLISH_STEPS: &[&str] = &["lock.rename", "lock.create", "lock.write"];

/// Executes tokens one by one; `pick` returns the next token given the world (or None to stop).
fn run_schedule(w: &mut World, np: usize, mut pick: impl FnMut(&World, usize) -> Option<Tok>) -> String {
    w.prepare(np);
    let mut toks: Vec<String> = vec![];
    let mut obs: Vec<String> = vec![];
    let mut bad: Vec<String> = vec![];
    let mut iso = true;
    let mut n = 0usize;
    while let Some(t) = pick(w, n) {
        n += 1;
        // validity: skip tokens that cannot be executed in this state
        let ok = match &t {
            Tok::Init(_) | Tok::InitP(_) => n == 1,
            Tok::Start(i, _) => *i < np && w.procs[*i].alive && !w.procs[*i].busy,
            Tok::Step(i) => *i < np && w.procs[*i].alive && w.procs[*i].busy,
            Tok::Kill(i) => *i < np && w.procs[*i].alive,
        };
        if let Tok::InitP(i) = &t { if *i >= np { continue; } }
        if !ok { continue; }
        let before = w.file_state();
        let ev = match &t {
            Tok::Init(b) => {
                std::fs::create_dir_all(w.lock_dir()).unwrap();
                // name of the flag file: let a throw-away lock by a helper decide it — instead we
                // derive it from a first child: ask child 0 to lock+we overwrite. Simpler: hash is
                // deterministic, so learn it once.
                let p = flag_name(w);
                std::fs::write(w.lock_dir().join(p), b).unwrap();
                "init".to_string()
            }
            Tok::InitP(i) => {
                std::fs::create_dir_all(w.lock_dir()).unwrap();
                let p = flag_name(w);
                std::fs::write(w.lock_dir().join(p), w.procs[*i].pid.to_string()).unwrap();
                "init".to_string()
            }
            Tok::Start(i, op) => { let ev = w.start(*i, op); show_ev(w, ev) }
            Tok::Step(i) => {
                let name = w.procs[*i].at_name.clone();
                if PUBLISH_STEPS.contains(&name.as_str())
                    && (0..np).any(|j| j != *i && w.procs[j].alive && w.procs[j].busy) {
                    iso = false;
                }
                let ev = w.step(*i);
                show_ev(w, ev)
            }
            Tok::Kill(i) => { w.kill(*i); "killed".to_string() }
        };
        let after = w.file_state();
        // bad events: the step of child q removed / replaced a flag naming a live child w != q
        if let (Tok::Step(q), Some(b)) = (&t, &before) {
            if after.as_ref() != Some(b) {
                for wi in 0..np {
                    if wi != *q && w.procs[wi].alive && b == &(MODEL_PID0 + wi).to_string().into_bytes() {
                        bad.push(format!("bad={}:{}:{}", if after.is_none() { "unlink-live" } else { "overwrite-live" }, q, wi));
                    }
                }
            }
        }
        let dir = w.lock_dir().is_dir();
        toks.push(show_tok(&t));
        obs.push(format!("{}|{}|{}", match &after { None => "A".to_string(), Some(b) => hexbytes(b) }, dir as u8, ev));
    }
    format!("sched iso={} np={} {} ;; {}{}{}", iso as u8, np, toks.join(" "), obs.join(" "),
            if bad.is_empty() { "" } else { " " }, bad.join(" "))
}

fn show_ev(w: &World, ev: Ev) -> String {
    match ev {
        Ev::At(n) => format!("at:{n}"),
        Ev::Ret(r) => match r.strip_prefix("some:") {
            Some(p) => format!("ret:some:{}", w.canon_pid(p.parse().unwrap_or(0))),
            None => format!("ret:{r}"),
        },
    }
}

/// File name of the flag for KEY (hash_path is private in forc-util): learnt once by letting a
/// throw-away child lock in a scratch HOME.
fn flag_name(w: &World) -> String {
    use std::sync::OnceLock;
    static NAME: OnceLock<String> = OnceLock::new();
    NAME.get_or_init(|| {
        let scratch = w.home.with_extension("scratch");
        std::fs::create_dir_all(&scratch).unwrap();
        let mut c = Command::new(&w.exe).arg("name").env("HOME", &scratch)
            .env_remove("SWAY_VERIF_STEP_CTL").env_remove("SWAY_VERIF_DEAD_PIDS")
            .stdout(Stdio::piped()).spawn().unwrap();
        c.wait().unwrap();
        let rd = std::fs::read_dir(scratch.join(".forc").join(".lsp-locks")).unwrap();
        let names: Vec<String> = rd.flatten().map(|e| e.file_name().to_string_lossy().to_string())
            .filter(|n| n.ends_with(".lock")).collect();
        let _ = std::fs::remove_dir_all(&scratch);
        names[0].clone()
    }).clone()
}

const OPS_WRITER: &[&str] = &["lock", "lock", "mark", "mark", "release", "release", "islocked", "dirty", "cleanup", "glp"];
const OPS_OBS: &[&str] = &["dirty", "dirty", "islocked", "islocked", "glp", "cleanup", "cleanup", "lock", "mark", "release"];
const INITS: &[&[u8]] = &[b"", b"not-a-pid", b"191919191919", b" 191919191919\n", b"+191919191919",
    b"99999999999999999999999", b"-5", b"12a", b"\t\n", b"0x10", b"1 2", b"\xff\xfe", b"191919191919\r\n"];

fn random_schedule(w: &mut World, r: &mut Rng) -> String {
    let np = 2 + r.below(2) as usize;
    // mode 0: sequential (an operation runs to completion, or its process is killed, before another
    //         starts); mode 1: free interleaving but publishing steps isolated; mode 2: free.
    let mode = match r.below(10) { 0..=2 => 0, 3..=6 => 1, _ => 2 };
    let len = 8 + r.below(30) as usize;
    let init: Option<Tok> = match r.below(8) {
        0 => Some(Tok::Init(r.pick(INITS).to_vec())),
        1 => Some(Tok::InitP(r.below(np as u64) as usize)),
        _ => None,
    };
    let writers = 1 + r.below(np as u64) as usize; // children 0..writers prefer writer ops
    let mut r2 = r.clone();
    *r = Rng(r.next());
    let mut emitted = 0usize;
    let mut run_to_end: Option<usize> = None;
    run_schedule(w, np, move |w, n| {
        let r = &mut r2;
        if n == 0 { if let Some(t) = init.clone() { return Some(t); } }
        if emitted >= len {
            // drain: nothing more
            return None;
        }
        emitted += 1;
        let live: Vec<usize> = (0..np).filter(|&i| w.procs[i].alive).collect();
        if live.is_empty() { return None; }
        let busy: Vec<usize> = live.iter().copied().filter(|&i| w.procs[i].busy).collect();
        if r.chance(1, 25) { return Some(Tok::Kill(*r.pick(&live))); }
        // bursts: keep stepping the same process for a while
        if let Some(i) = run_to_end {
            if w.procs[i].alive && w.procs[i].busy && !r.chance(1, 6) && mode != 0 {
                if !(mode == 1 && blocked_publish(w, i, np)) { return Some(Tok::Step(i)); }
            }
            run_to_end = None;
        }
        let i = match mode {
            0 => if let Some(&b) = busy.first() { b } else { *r.pick(&live) },
            _ => *r.pick(&live),
        };
        if w.procs[i].busy {
            if mode == 1 && blocked_publish(w, i, np) {
                // step somebody else who is inside an operation instead
                let others: Vec<usize> = busy.iter().copied().filter(|&j| j != i).collect();
                return Some(Tok::Step(*r.pick(&others)));
            }
            if r.chance(1, 3) { run_to_end = Some(i); }
            Some(Tok::Step(i))
        } else {
            let ops = if i < writers { OPS_WRITER } else { OPS_OBS };
            if r.chance(1, 2) { run_to_end = Some(i); }
            Some(Tok::Start(i, r.pick(ops).to_string()))
        }
    })
}

fn blocked_publish(w: &World, i: usize, np: usize) -> bool {
    PUBLISH_STEPS.contains(&w.procs[i].at_name.as_str())
        && (0..np).any(|j| j != i && w.procs[j].alive && w.procs[j].busy)
}

fn fixed_schedule(w: &mut World, line: &str) -> Option<String> {
    // corpus line: `np=<n> <tok> <tok> …`
    let mut it = line.split_whitespace();
    let np: usize = it.next()?.strip_prefix("np=")?.parse().ok()?;
    let toks: Vec<Tok> = it.map(parse_tok).collect::<Option<Vec<_>>>()?;
    let mut idx = 0usize;
    Some(run_schedule(w, np, move |_, _| { let t = toks.get(idx).cloned(); idx += 1; t }))
}

fn main() {
    let argv: Vec<String> = std::env::args().collect();
    if argv.get(1).map(|s| s.as_str()) == Some("child") {
        child_main(&argv[2]);
        return;
    }
    if argv.get(1).map(|s| s.as_str()) == Some("name") {
        let _ = forc_util::fs_locking::PidFileLocking::lsp(KEY).lock();
        return;
    }
    let a = args();
    let mut r = Rng::new(seed_from_env());
    let mut out = std::io::BufWriter::new(std::fs::File::create(&a.out).unwrap());
    let tmp = tempfile::Builder::new().prefix("svc25-").tempdir_in("/var/tmp").unwrap();
    let home = tmp.path().join("home");
    let ctl = tmp.path().join("ctl");
    std::fs::create_dir_all(&home).unwrap();
    std::fs::create_dir_all(&ctl).unwrap();
    let dead_file = ctl.join("dead.pids");
    std::fs::write(&dead_file, b"").unwrap();
    let mut w = World { home, ctl, dead_file, exe: std::env::current_exe().unwrap(), procs: vec![], dead: vec![] };
    let mut cases = 0usize;
    if let Some(c) = &a.corpus {
        for l in std::fs::read_to_string(c).unwrap_or_default().lines() {
            if l.starts_with('#') || l.trim().is_empty() { continue; }
            match fixed_schedule(&mut w, l) {
                Some(s) => { writeln!(out, "{s}").unwrap(); cases += 1; }
                None => eprintln!("sv_c25: bad corpus line: {l}"),
            }
        }
    }
    while cases < a.n {
        let s = random_schedule(&mut w, &mut r);
        writeln!(out, "{s}").unwrap();
        cases += 1;
    }
    out.flush().unwrap();
    for i in 0..w.procs.len() { w.kill(i); }
    eprintln!("sv_c25: {cases} schedules");
}
