//! C21: drives the real `forc_pkg::source::Pinned::from_str` and `Lock::from_path` + `Lock::to_graph`
//! under `catch_unwind` with mostly-valid structured inputs plus a malformed stream.
//! Protocol lines:
//!   `pin <s> X.. ;; ok <pinned tokens> | err | panic`
//!   `lock L.. X.. ;; ok G.. | err | panic`            (TOML layer accepted the text; records = real `Lock`)
//!   `toml <bytes> ;; tomlerr | panic`                  (TOML layer / file read rejected the text)
#[path = "../lock_common.rs"]
mod lock_common;
use forc_pkg::{source, Lock};
use lock_common::*;
use std::io::Write;
use std::str::FromStr;
use svharness::{proto::*, rng::*};

const HEX40: &str = "0123456789abcdef0123456789abcdef01234567";
const CID0A: &str = "QmYwAPJzv5CZsnA625s3Xf2nemtYgPpHdWEz79ojWnPbdG";
const CID0B: &str = "QmdMVqLqpba2mMB5AUjYCxubC6tLGevQFunpBkbC2UbrKS";
const CID1: &str = "bafybeigdyrzt5sfp7udm7hu76uh7y26nf3efuylqabf3oclgtqy55fbzdi";
const SALT1: &str = "00000000000000000000000000000000000000000000000000000000000000ff";
const SALTU: &str = "ABCDEF0000000000000000000000000000000000000000000000000000000001";
const SALT0: &str = "0000000000000000000000000000000000000000000000000000000000000000";

const URLS: &[&str] = &["https://github.com/FuelLabs/sway", "https://github.com/FuelLabs/sway", "git@github.com:FuelLabs/sway.git",
    "foo", "/tmp/x", "file:///tmp/x", "https://x/y?z=1", "ssh://git@h/p", "", " https://a/b", "http://[::1", "https://é.example/ü", "https://h/a b", "https://h/a#b"];
const REFS: &[&str] = &["branch=master", "branch=master", "tag=v1.0", "rev", "default-branch", "branch=a#b", "branch=", "tag=",
    "default", "revx", "branch", "Branch=x", "branch=é", "tag=a?b", "branch=a(b"];
const IDS: &[&str] = &["0123456789ABCDEF", "0123456789ABCDEF", "abcdef", "+1", "-1", "", "10000000000000000", "FFFFFFFFFFFFFFFF",
    "0x12", "g", "000000000000000000001", "+", "é", "1 "];
const CIDS: &[&str] = &[CID0A, CID0B, CID0A, CID1, "QmYw", " QmYwAPJzv5CZsnA625s3Xf2nemtYgPpHdWEz79ojWnPbdG", "QmYwAPJzv5CZsnA625s3Xf2nemtYgPpHdWEz79ojWnPbd ",
    "/ipfs/QmYwAPJzv5CZsnA625s3Xf2nemtYgPpHdWEz79ojWnPbdG", "", "Qmxxxxxxxxxxxxxxxxxxxxxxxxxxxxxxxxxxxxxxxxxxxx", "Qmééééééééééééééééééééééx", "x"];
const VERS: &[&str] = &["0.0.1", "1.2.3", "1.2.3-alpha.1+build", "1.0", "", "v1.0.0", "01.0.0", "1.0.0 "];
const NAMES: &[&str] = &["core", "std", "a", "b", "a b", "", "x?y", "é", "a(b", "my-lib"];
const NSS: &[&str] = &["", "", "fuelns", "a!b", "a#b", " x ", "é"];
const JUNK: &[&str] = &["?", "#", "!", "+", "(", ")", "=", " ", "\t", "é", "😀", "a", "0", "x", "from-root-", "git+", "registry+", "path+", "ipfs+", "\u{a0}", "\u{2028}"];

fn commit(r: &mut Rng) -> String {
    match r.below(9) {
        0 => HEX40[..39].to_string(),
        1 => format!("{}0", HEX40),
        2 => format!("{}é", &HEX40[..39]),
        3 => String::new(),
        4 => HEX40.to_uppercase().replace('0', "z"),
        5 => format!("{}#", &HEX40[..39]),
        _ => HEX40.to_string(),
    }
}

/// A source string built from parts, mostly with the right separators.
fn gen_source(r: &mut Rng) -> String {
    let sep = |r: &mut Rng, good: &str| -> String { if r.chance(1, 14) { r.pick(JUNK).to_string() } else { good.to_string() } };
    let s = match r.below(12) {
        0 => "member".to_string(),
        1 => if r.chance(1, 2) { "root".into() } else { r.pick(&["Member", "member ", " root", "membe", "rootx"]).to_string() },
        2 | 3 => {
            let id = r.pick(IDS);
            match r.below(8) {
                0 => format!("path+from-root-{}from-root-{}", id, r.pick(IDS)),
                1 => format!("path+x{}from-root-{}", r.pick(JUNK), id),
                2 => "path+from-root".to_string(),
                3 => "path+".to_string(),
                _ => format!("path{}from-root-{}", sep(r, "+"), id),
            }
        }
        4..=6 => format!("git{}{}{}{}{}{}", sep(r, "+"), r.pick(URLS), sep(r, "?"), r.pick(REFS), sep(r, "#"), commit(r)),
        7 | 8 => format!("ipfs{}{}", sep(r, "+"), r.pick(CIDS)),
        _ => format!("registry{}{}{}{}{}{}{}{}", sep(r, "+"), r.pick(NAMES), sep(r, "?"), r.pick(VERS), sep(r, "#"), r.pick(CIDS), sep(r, "!"), r.pick(NSS)),
    };
    match r.below(12) { 0 => format!(" {}", s), 1 => format!("{}\n", s), 2 => format!("\u{a0}{}\u{3000}", s), _ => s }
}

/// Char-level mutation (delete / insert junk / truncate / duplicate).
fn mutate(r: &mut Rng, s: &str) -> String {
    let mut cs: Vec<char> = s.chars().collect();
    for _ in 0..(1 + r.below(3)) {
        let n = cs.len() as u64;
        match r.below(5) {
            0 if n > 0 => { cs.remove(r.below(n) as usize); }
            1 => { let p = r.below(n + 1) as usize; for (k, c) in r.pick(JUNK).chars().enumerate() { cs.insert(p + k, c); } }
            2 => { cs.truncate(r.below(n + 1) as usize); }
            3 if n > 0 => { let p = r.below(n) as usize; let c = cs[p]; cs.insert(p, c); }
            _ if n > 0 => { let p = r.below(n) as usize; cs[p] = r.pick(JUNK).chars().next().unwrap(); }
            _ => {}
        }
    }
    cs.into_iter().collect()
}

fn valid_source(r: &mut Rng) -> String {
    match r.below(8) {
        0 | 1 => "member".into(),
        2 => format!("path+from-root-{:016X}", r.next()),
        3 => format!("git+https://github.com/FuelLabs/sway?branch=master#{}", HEX40),
        4 => format!("git+https://github.com/a/b?{}#{}", r.pick(&["tag=v1", "rev", "default-branch"]), HEX40),
        5 => format!("ipfs+{}", r.pick(&[CID0A, CID1])),
        6 => format!("registry+core?0.0.1#{}!", CID0B),
        _ => format!("registry+std?1.2.3#{}!fuelns", CID0A),
    }
}

fn toml_str(s: &str) -> String { toml::Value::String(s.to_string()).to_string() }

struct GenPkg { name: String, version: Option<String>, source: String, deps: Option<Vec<String>>, cdeps: Option<Vec<String>> }

fn gen_lock(r: &mut Rng) -> String {
    let n = r.below(6) as usize;
    let pool: &[&str] = if r.chance(1, 5) { NAMES } else { &["a", "b", "c", "std", "a", "core"] };
    let mut pkgs: Vec<GenPkg> = (0..n).map(|_| GenPkg {
        name: r.pick(pool).to_string(),
        version: if r.chance(1, 6) { Some(r.pick(&["0.0.1", "1.2.3", "0.1.0-rc.1", "1.2.3", "x"]).to_string()) } else { None },
        source: match r.below(24) { 0 => gen_source(r), 1 => { let v = valid_source(r); mutate(r, &v) } _ => valid_source(r) },
        deps: None, cdeps: None,
    }).collect();
    let dup = |pkgs: &Vec<GenPkg>, name: &str| pkgs.iter().filter(|p| p.name == name).count() > 1;
    let mk_line = |r: &mut Rng, pkgs: &Vec<GenPkg>, contract: bool| -> String {
        if pkgs.is_empty() || r.chance(1, 30) { return r.pick(&["zzz", "b (", "(x", "", "a (é", "(d) ", "a ()", "a (", "(", ")"]).to_string(); }
        let t = &pkgs[r.below(pkgs.len() as u64) as usize];
        // the key the real writer would use, sometimes the other form
        let mut key = if dup(pkgs, &t.name) != r.chance(1, 30) { format!("{} {}", t.name, t.source) } else { t.name.clone() };
        if r.chance(1, 5) { key = format!("({}) {}", r.pick(&["dep", "d e", "d)e", "", "é"]), key); }
        if contract || r.chance(1, 12) {
            match r.below(20) { 0 | 1 => {} 2 | 3 => key = format!("{} ({})", key, SALT0), 4 | 5 => key = format!("{} (0x{})", key, SALT1), 6 | 7 => key = format!("{} ({})", key, SALTU),
                8 => key = format!("{} ({}", key, SALT1), 9 => key = format!("{} (12)", key), 10 => key = format!("{}({} )  ", key, SALT1), _ => key = format!("{} ({})", key, SALT1) }
        }
        if r.chance(1, 30) { mutate(r, &key) } else { key }
    };
    for i in 0..n {
        if r.chance(2, 3) { let k = r.below(4); let v: Vec<String> = (0..k).map(|_| mk_line(r, &pkgs, false)).collect(); pkgs[i].deps = Some(v); }
        if r.chance(1, 3) { let k = r.below(3); let v: Vec<String> = (0..k).map(|_| mk_line(r, &pkgs, true)).collect(); pkgs[i].cdeps = Some(v); }
    }
    let mut t = String::new();
    for p in &pkgs {
        t += "[[package]]\n";
        t += &format!("name = {}\n", toml_str(&p.name));
        if let Some(v) = &p.version { t += &format!("version = {}\n", toml_str(v)); }
        t += &format!("source = {}\n", toml_str(&p.source));
        if let Some(d) = &p.deps { t += &format!("dependencies = [{}]\n", d.iter().map(|x| toml_str(x)).collect::<Vec<_>>().join(", ")); }
        if let Some(d) = &p.cdeps { t += &format!("contract-dependencies = [{}]\n", d.iter().map(|x| toml_str(x)).collect::<Vec<_>>().join(", ")); }
        t += "\n";
    }
    t
}

fn mutate_bytes(r: &mut Rng, s: &str) -> Vec<u8> {
    let mut b = s.as_bytes().to_vec();
    for _ in 0..(1 + r.below(3)) {
        let n = b.len() as u64;
        if n == 0 { b.extend_from_slice(b"[[package]]\n"); continue; }
        match r.below(5) {
            0 => { let p = r.below(n) as usize; let q = (p + r.below(12) as usize).min(b.len()); b.drain(p..q); }
            1 => { let p = r.below(n) as usize; b[p] = *r.pick(&[b'"', b'[', b']', b'=', b'\n', 0xff, 0xc3, b'\\', b'x']); }
            2 => { let p = r.below(n + 1) as usize; b.truncate(p); }
            3 => { let lines: Vec<&[u8]> = b.split(|c| *c == b'\n').collect(); let l = r.pick(&lines).to_vec(); b.extend_from_slice(&l); b.push(b'\n'); }
            _ => { let p = r.below(n) as usize; for (k, c) in r.pick(&["name = 1\n", "source = \"foo\"\n", "dependencies = [\"b (\"]\n", "[package]\n", "\u{feff}"]).bytes().enumerate() { b.insert(p + k, c); } }
        }
    }
    b
}

fn run_pin(s: &str, out: &mut dyn Write) {
    let mut ext = ExtTable::default();
    ext.add_source(s);
    let s2 = s.to_string();
    let res = guarded(move || source::Pinned::from_str(&s2));
    let resl = match res { None => "panic".to_string(), Some(Err(_)) => "err".to_string(), Some(Ok(p)) => format!("ok {}", pinned_tokens(&p)) };
    writeln!(out, "pin {} {} ;; {}", cps(s), ext.tokens(), resl).unwrap();
}

fn run_lock(text: &[u8], path: &std::path::Path, out: &mut dyn Write) {
    std::fs::write(path, text).unwrap();
    let p = path.to_path_buf();
    let lock = guarded(move || Lock::from_path(&p));
    match lock {
        None => writeln!(out, "toml {} ;; panic", text.len()).unwrap(),
        Some(Err(_)) => writeln!(out, "toml {} ;; tomlerr", text.len()).unwrap(),
        Some(Ok(lock)) => {
            let mut ext = ExtTable::default();
            let recs = lock_tokens(&lock, &mut ext);
            let res = guarded(move || lock.to_graph());
            let resl = match res { None => "panic".to_string(), Some(Err(_)) => "err".to_string(), Some(Ok(g)) => format!("ok {}", graph_tokens(&g)) };
            writeln!(out, "lock {} {} ;; {}", recs, ext.tokens(), resl).unwrap();
        }
    }
}

fn main() {
    let a = args();
    quiet_panics();
    let mut r = Rng::new(seed_from_env());
    let mut out = std::io::BufWriter::new(std::fs::File::create(&a.out).unwrap());
    let dir = tempfile::tempdir().unwrap();
    let path = dir.path().join("Forc.lock");
    let mut cases = 0usize;
    // corpus: `pin|<s>` / `lock|<text>` with `\n`, `\t`, `\\` escaped
    if let Some(c) = &a.corpus {
        for l in std::fs::read_to_string(c).unwrap_or_default().lines() {
            if l.starts_with('#') || l.trim().is_empty() { continue; }
            let un = |s: &str| s.replace("\\n", "\n").replace("\\t", "\t").replace("\\\\", "\\");
            if let Some(s) = l.strip_prefix("pin|") { run_pin(&un(s), &mut out); cases += 1; }
            else if let Some(s) = l.strip_prefix("lock|") { run_lock(un(s).as_bytes(), &path, &mut out); cases += 1; }
        }
    }
    while cases < a.n {
        match r.below(10) {
            0..=2 => { let s = gen_source(&mut r); run_pin(&s, &mut out); }
            3 => { let v = valid_source(&mut r); let s = mutate(&mut r, &v); run_pin(&s, &mut out); }
            4 => { let s = valid_source(&mut r); run_pin(&s, &mut out); }
            5..=8 => { let t = gen_lock(&mut r); run_lock(t.as_bytes(), &path, &mut out); }
            _ => { let t = gen_lock(&mut r); let b = mutate_bytes(&mut r, &t); run_lock(&b, &path, &mut out); }
        }
        cases += 1;
    }
    out.flush().unwrap();
    eprintln!("sv_c21: {} cases", cases);
}
