//! C13: configurables patched at the reported offsets are observed.
//!
//! `--mode synth` (default): synthetic data-section histories and synthetic op lists through the REAL
//!   `DataSection` / `to_bytecode_mut` (hook `sway_core::verif_hooks::datasection`):
//!     `layout <op>… ;; ids=… n=… bytes=<hex> ents=<off:hex,…>`
//!     `code <dop>… | <cop>… ;; ok len=… n=… eoffs=… emits=… named=… data=<hex>`  or `;; panic`
//! `--mode e2e`: random configurable sets compiled as a SCRIPT by the real compiler (forc-pkg), run on the
//!   real FuelVM unpatched and patched at `abi.configurables[j].offset`:
//!     `base seed=… t=<ty|ty…> d=<hex,…> offs=<o,…> ;; at=<hex,…> observed=<hex,…>`
//!     `patch seed=… t=… d=… j=<j> new=<hex> ;; observed=<hex,…>`
//!     `build seed=… t=… ;; panic|error`   (the compiler did not produce a program); `built … ;; ok` (it did; corpus `unstable <n>`)
use std::io::Write;
use std::path::Path;
use svharness::{proto::*, rng::*, swayrun::*};
use sway_core::verif_hooks::datasection as hook;
use hook::{SynthCodeOp, SynthDataOp, SynthDatum, SynthEntry};

// ------------------------------------------------------------------------------------------- synthetic

fn pad_tok(p: &Option<(bool, usize)>) -> String {
    match p {
        None => "-".into(),
        Some((true, n)) => format!("L{n}"),
        Some((false, n)) => format!("R{n}"),
    }
}
fn datum_tok(d: &SynthDatum) -> String {
    match d {
        SynthDatum::Byte(b) => format!("b/{:02x}", b),
        SynthDatum::Word(w) => format!("w/{:x}", w),
        SynthDatum::ByteArray(bs) => format!("a/{}", hexbytes(bs)),
        SynthDatum::Slice(bs) => format!("s/{}", hexbytes(bs)),
        SynthDatum::Collection(es) => {
            let mut s = format!("c/{}", es.len());
            for e in es {
                s.push_str(&format!("/{}/{}", pad_tok(&e.padding), datum_tok(&e.datum)));
            }
            s
        }
    }
}
fn dop_tok(op: &SynthDataOp) -> String {
    match op {
        SynthDataOp::Insert(e) => format!(
            "I/{}/{}/{}",
            e.name.clone().unwrap_or_else(|| "-".into()),
            pad_tok(&e.padding),
            datum_tok(&e.datum)
        ),
        SynthDataOp::AppendPointer(v) => format!("P/{:x}", v),
    }
}
fn id_tok(id: &(bool, u32)) -> String {
    format!("{}{}", if id.0 { "c" } else { "n" }, id.1)
}

fn gen_bytes(r: &mut Rng, max: u64) -> Vec<u8> {
    let n = r.below(max + 1);
    // few distinct byte values, so that equal entries (dedup) are frequent
    (0..n).map(|_| *r.pick(&[0u8, 1, 0xff, 0x41])).collect()
}
fn gen_pad(r: &mut Rng) -> Option<(bool, usize)> {
    if r.chance(3, 4) { None } else { Some((r.chance(1, 2), *r.pick(&[0usize, 1, 7, 8, 9, 16, 24, 32, 40]))) }
}
fn gen_datum(r: &mut Rng, depth: u32) -> SynthDatum {
    match r.below(if depth == 0 { 5 } else { 4 }) {
        0 => SynthDatum::Byte(*r.pick(&[0u8, 1, 2, 0xff])),
        1 => SynthDatum::Word(*r.pick(&[0u64, 1, 5, 8, 12, 16, 20, 24, 0xffff_ffff_ffff_ffff, 1 << 40])),
        2 => { let m = *r.pick(&[3u64, 8, 17, 33]); SynthDatum::ByteArray(gen_bytes(r, m)) }
        3 => SynthDatum::Slice(gen_bytes(r, 9)),
        _ => {
            let k = r.below(4);
            SynthDatum::Collection(
                (0..k).map(|_| SynthEntry { name: None, datum: gen_datum(r, depth + 1), padding: gen_pad(r) }).collect(),
            )
        }
    }
}
fn gen_entry(r: &mut Rng) -> SynthEntry {
    let name = if r.chance(1, 2) { None } else { Some((*r.pick(&["A", "B", "C", "D"])).to_string()) };
    SynthEntry { name, datum: gen_datum(r, 0), padding: gen_pad(r) }
}
fn gen_dops(r: &mut Rng, max: u64) -> Vec<SynthDataOp> {
    let n = 1 + r.below(max);
    let mut ops: Vec<SynthDataOp> = vec![];
    for _ in 0..n {
        if r.chance(1, 8) {
            ops.push(SynthDataOp::AppendPointer(*r.pick(&[0u64, 5, 8, 12, 16, 20, 24])));
        } else if !ops.is_empty() && r.chance(1, 5) {
            // re-insert an earlier entry, possibly under another name / padding
            let k = r.below(ops.len() as u64) as usize;
            if let SynthDataOp::Insert(e) = &ops[k] {
                let mut e = e.clone();
                if r.chance(1, 2) { e.name = if r.chance(1, 3) { None } else { Some((*r.pick(&["A", "B", "C"])).to_string()) }; }
                if r.chance(1, 3) { e.padding = gen_pad(r); }
                ops.push(SynthDataOp::Insert(e));
            }
        } else {
            ops.push(SynthDataOp::Insert(gen_entry(r)));
        }
    }
    ops
}

fn layout_line(ops: &[SynthDataOp]) -> String {
    let case = format!("layout {}", ops.iter().map(dop_tok).collect::<Vec<_>>().join(" "));
    let ops2 = ops.to_vec();
    let res = guarded(move || hook::data_section_layout(&ops2));
    match res {
        None => format!("{case} ;; panic"),
        Some(rep) => format!(
            "{case} ;; ids={} n={} bytes={} ents={}",
            rep.ids.iter().map(id_tok).collect::<Vec<_>>().join(","),
            rep.num_non_configurables,
            hexbytes(&rep.bytes),
            if rep.entries.is_empty() { "-".to_string() } else {
                rep.entries.iter().map(|(_, off, bs)| format!("{}:{}", off, hexbytes(bs))).collect::<Vec<_>>().join(",")
            },
        ),
    }
}

fn cop_tok(c: &SynthCodeOp) -> String {
    match c {
        SynthCodeOp::Noop => "N".into(),
        SynthCodeOp::Blob(n) => format!("B{n}"),
        SynthCodeOp::Load(id) => format!("L{}", id_tok(id)),
        SynthCodeOp::Addr(id) => format!("A{}", id_tok(id)),
    }
}

/// Decode what the real emission loop produced for each synthetic op.
fn decode_emits(code: &[SynthCodeOp], bytecode: &[u8], off0: usize) -> Option<Vec<String>> {
    use fuel_asm::Instruction;
    let instr_at = |pos: usize| -> Option<Instruction> {
        if pos + 4 > off0 { return None; }
        Instruction::try_from([bytecode[pos], bytecode[pos + 1], bytecode[pos + 2], bytecode[pos + 3]]).ok()
    };
    let mut pos = 0usize;
    let mut out = vec![];
    for c in code {
        match c {
            SynthCodeOp::Noop => { matches!(instr_at(pos)?, Instruction::NOOP(_)).then_some(())?; out.push("f4".into()); pos += 4; }
            SynthCodeOp::Blob(n) => {
                for k in 0..*n as usize { matches!(instr_at(pos + 4 * k)?, Instruction::NOOP(_)).then_some(())?; }
                out.push(format!("f{}", 4 * n)); pos += 4 * *n as usize;
            }
            SynthCodeOp::Addr(_) => match instr_at(pos)? {
                Instruction::ADDI(x) => { let (_, _, imm) = x.unpack(); out.push(format!("i{}", imm.to_u16())); pos += 4; }
                Instruction::MOVI(x) => {
                    let (_, imm) = x.unpack();
                    matches!(instr_at(pos + 4)?, Instruction::ADD(_)).then_some(())?;
                    out.push(format!("m{}", imm.to_u32())); pos += 8;
                }
                _ => return None,
            },
            SynthCodeOp::Load(_) => match instr_at(pos)? {
                Instruction::LB(x) => { let (_, _, imm) = x.unpack(); out.push(format!("b{}", imm.to_u16())); pos += 4; }
                Instruction::LW(x) => {
                    let (_, _, imm) = x.unpack();
                    let imm = imm.to_u16() as usize;
                    if matches!(instr_at(pos + 4), Some(Instruction::ADD(_))) {
                        let at = off0 + imm * 8;
                        if at + 8 > bytecode.len() { return None; }
                        let ptr = u64::from_be_bytes(bytecode[at..at + 8].try_into().unwrap());
                        out.push(format!("p{}:{}", imm, ptr)); pos += 8;
                    } else { out.push(format!("w{}", imm)); pos += 4; }
                }
                _ => return None,
            },
        }
    }
    if pos + 4 == off0 {
        matches!(instr_at(pos)?, Instruction::NOOP(_)).then_some(())?;
        out.push("f4".into()); pos += 4;
    }
    (pos == off0).then_some(out)
}

fn code_line(dops: &[SynthDataOp], code: &[SynthCodeOp]) -> String {
    let case = format!(
        "code {} | {}",
        dops.iter().map(dop_tok).collect::<Vec<_>>().join(" "),
        code.iter().map(cop_tok).collect::<Vec<_>>().join(" ")
    );
    let (d2, c2) = (dops.to_vec(), code.to_vec());
    match guarded(move || hook::synthetic_to_bytecode(&d2, &c2)) {
        None => format!("{case} ;; panic"),
        Some(rep) => {
            let off0 = rep.bytecode.len() - rep.layout.bytes.len();
            let emits = decode_emits(code, &rep.bytecode, off0);
            let mut named: Vec<(String, u64)> = rep.named_offsets.into_iter().collect();
            named.sort();
            format!(
                "{case} ;; ok len={} n={} eoffs={} emits={} named={} data={}",
                off0,
                rep.layout.num_non_configurables,
                if rep.layout.entries.is_empty() { "-".to_string() } else { rep.layout.entries.iter().map(|e| e.1.to_string()).collect::<Vec<_>>().join(",") },
                match emits { Some(e) if !e.is_empty() => e.join(","), Some(_) => "-".into(), None => "undecodable".into() },
                if named.is_empty() { "-".to_string() } else { named.iter().map(|(n, o)| format!("{n}:{o}")).collect::<Vec<_>>().join(",") },
                hexbytes(&rep.layout.bytes),
            )
        }
    }
}

fn gen_code_case(r: &mut Rng) -> (Vec<SynthDataOp>, Vec<SynthCodeOp>) {
    let mut dops: Vec<SynthDataOp> = vec![];
    // sometimes a large non-configurable entry so that offsets straddle the 12-bit limit of ADDI
    let near_limit = r.chance(1, 3);
    if near_limit {
        let sz = (4096 - 8 * r.below(6) as usize) - if r.chance(1, 2) { 0 } else { 8 * r.below(4) as usize };
        dops.push(SynthDataOp::Insert(SynthEntry { name: None, datum: SynthDatum::ByteArray(vec![0x5a; sz]), padding: None }));
    }
    let n = 1 + r.below(6);
    for k in 0..n {
        let mut e = gen_entry(r);
        // top-level entries as the compiler creates them: default padding
        e.padding = None;
        if let SynthDatum::Word(w) = &mut e.datum { if r.chance(1, 2) { *w = 1000 + k; } }
        dops.push(SynthDataOp::Insert(e));
    }
    // half of the cases: at least one configurable AND a non-copy non-configurable entry that is loaded, so
    // that a pointer word is appended in front of the configurables and named offsets must be the FINAL ones
    let force = r.chance(1, 2);
    if force {
        let tag = r.next();
        dops.push(SynthDataOp::Insert(SynthEntry { name: None, datum: SynthDatum::ByteArray(tag.to_be_bytes().iter().chain([1u8, 2, 3].iter()).copied().collect()), padding: None }));
        dops.push(SynthDataOp::Insert(SynthEntry { name: Some((*r.pick(&["A", "B", "C", "D"])).to_string()), datum: SynthDatum::ByteArray(gen_bytes(r, 24)), padding: None }));
    }
    let rep = hook::data_section_layout(&dops);
    let ids: Vec<(bool, u32)> = rep.ids.clone();
    let m = 1 + r.below(8);
    let mut code = vec![];
    if force {
        let (nc, cf) = (ids[ids.len() - 2], ids[ids.len() - 1]);
        if r.chance(1, 2) { code.push(SynthCodeOp::Addr(cf)); code.push(SynthCodeOp::Load(nc)); } else { code.push(SynthCodeOp::Load(nc)); code.push(SynthCodeOp::Addr(cf)); }
    }
    for _ in 0..m {
        let id = *r.pick(&ids);
        let id = if r.chance(1, 30) { (id.0, id.1 + 7) } else { id };
        code.push(match r.below(10) {
            0 => SynthCodeOp::Noop,
            1 => SynthCodeOp::Blob(r.below(4) as u32),
            // the compiler never loads a configurable through LoadDataId: keep that rare
            2..=5 if !id.0 || r.chance(1, 10) => SynthCodeOp::Load(id),
            _ => SynthCodeOp::Addr(id),
        });
    }
    (dops, code)
}

// ----------------------------------------------------------------------------------------- end to end

#[derive(Clone, Debug)]
enum Ty { U8, U16, U32, U64, Bool, B256, U256, Str(usize), Tuple(Vec<Ty>), Struct(usize), Enum(usize), Array(Box<Ty>, usize), Unit }
#[derive(Clone, Debug)]
enum Val { U(u64), Bool(bool), B32([u8; 32]), Str(String), Seq(Vec<Val>), Enum(usize, Box<Val>), Unit }

#[derive(Default)]
struct Decls { structs: Vec<Vec<Ty>>, enums: Vec<Vec<Ty>> }

fn gen_ty(r: &mut Rng, d: &mut Decls, depth: u32) -> Ty {
    let top = if depth >= 2 { 8 } else { 12 };
    match r.below(top) {
        0 => Ty::U8, 1 => Ty::U16, 2 => Ty::U32, 3 => Ty::U64, 4 => Ty::Bool, 5 => Ty::B256, 6 => Ty::U256,
        7 => Ty::Str(1 + r.below(12) as usize),
        8 => Ty::Tuple((0..2 + r.below(2)).map(|_| gen_ty(r, d, depth + 1)).collect()),
        9 => {
            let fields: Vec<Ty> = (0..1 + r.below(3)).map(|_| gen_ty(r, d, depth + 1)).collect();
            d.structs.push(fields); Ty::Struct(d.structs.len() - 1)
        }
        10 => {
            let vars: Vec<Ty> = (0..1 + r.below(3)).map(|_| if r.chance(1, 4) { Ty::Unit } else { gen_ty(r, d, depth + 1) }).collect();
            d.enums.push(vars); Ty::Enum(d.enums.len() - 1)
        }
        _ => Ty::Array(Box::new(gen_ty(r, d, depth + 1)), 1 + r.below(3) as usize),
    }
}
fn ty_name(t: &Ty) -> String {
    match t {
        Ty::U8 => "u8".into(), Ty::U16 => "u16".into(), Ty::U32 => "u32".into(), Ty::U64 => "u64".into(),
        Ty::Bool => "bool".into(), Ty::B256 => "b256".into(), Ty::U256 => "u256".into(),
        Ty::Str(n) => format!("str[{n}]"),
        Ty::Tuple(ts) => format!("({})", ts.iter().map(ty_name).collect::<Vec<_>>().join(",")),
        Ty::Struct(i) => format!("S{i}"), Ty::Enum(i) => format!("E{i}"),
        Ty::Array(t, n) => format!("[{};{}]", ty_name(t), n),
        Ty::Unit => "()".into(),
    }
}
/// type description for the protocol line (struct/enum bodies expanded, no spaces)
fn ty_desc(t: &Ty, d: &Decls) -> String {
    match t {
        Ty::Tuple(ts) => format!("({})", ts.iter().map(|t| ty_desc(t, d)).collect::<Vec<_>>().join(",")),
        Ty::Struct(i) => format!("struct{{{}}}", d.structs[*i].iter().map(|t| ty_desc(t, d)).collect::<Vec<_>>().join(",")),
        Ty::Enum(i) => format!("enum{{{}}}", d.enums[*i].iter().map(|t| ty_desc(t, d)).collect::<Vec<_>>().join(",")),
        Ty::Array(t, n) => format!("[{};{}]", ty_desc(t, d), n),
        t => ty_name(t),
    }
}
fn gen_val(r: &mut Rng, t: &Ty, d: &Decls) -> Val {
    let edge = |r: &mut Rng, max: u64| -> u64 { match r.below(5) { 0 => 0, 1 => max, 2 => 1, _ => if max == u64::MAX { r.next() } else { r.below(max + 1) } } };
    match t {
        Ty::U8 => Val::U(edge(r, 0xff)), Ty::U16 => Val::U(edge(r, 0xffff)), Ty::U32 => Val::U(edge(r, 0xffff_ffff)),
        Ty::U64 => Val::U(edge(r, u64::MAX)), Ty::Bool => Val::Bool(r.chance(1, 2)),
        Ty::B256 | Ty::U256 => {
            let mut b = [0u8; 32];
            match r.below(4) { 0 => {}, 1 => b = [0xff; 32], _ => for x in b.iter_mut() { *x = r.next() as u8 } }
            Val::B32(b)
        }
        Ty::Str(n) => Val::Str((0..*n).map(|_| *r.pick(&['a', 'b', 'Z', '0', '_', 'q'])).collect()),
        Ty::Tuple(ts) => Val::Seq(ts.iter().map(|t| gen_val(r, t, d)).collect()),
        Ty::Struct(i) => Val::Seq(d.structs[*i].iter().map(|t| gen_val(r, t, d)).collect()),
        Ty::Array(t, n) => Val::Seq((0..*n).map(|_| gen_val(r, t, d)).collect()),
        Ty::Enum(i) => { let k = r.below(d.enums[*i].len() as u64) as usize; Val::Enum(k, Box::new(gen_val(r, &d.enums[*i][k], d))) }
        Ty::Unit => Val::Unit,
    }
}
/// a value of the same shape (same enum variants), hence of the same encoded length
fn gen_val_like(r: &mut Rng, t: &Ty, like: &Val, d: &Decls) -> Val {
    match (t, like) {
        (Ty::Tuple(ts), Val::Seq(vs)) => Val::Seq(ts.iter().zip(vs).map(|(t, v)| gen_val_like(r, t, v, d)).collect()),
        (Ty::Struct(i), Val::Seq(vs)) => Val::Seq(d.structs[*i].iter().zip(vs).map(|(t, v)| gen_val_like(r, t, v, d)).collect()),
        (Ty::Array(t, _), Val::Seq(vs)) => Val::Seq(vs.iter().map(|v| gen_val_like(r, t, v, d)).collect()),
        (Ty::Enum(i), Val::Enum(k, v)) => Val::Enum(*k, Box::new(gen_val_like(r, &d.enums[*i][*k], v, d))),
        _ => gen_val(r, t, d),
    }
}
/// canonical (new) Fuel ABI encoding
fn encode(t: &Ty, v: &Val, d: &Decls, out: &mut Vec<u8>) {
    match (t, v) {
        (Ty::U8, Val::U(x)) => out.push(*x as u8),
        (Ty::U16, Val::U(x)) => out.extend((*x as u16).to_be_bytes()),
        (Ty::U32, Val::U(x)) => out.extend((*x as u32).to_be_bytes()),
        (Ty::U64, Val::U(x)) => out.extend(x.to_be_bytes()),
        (Ty::Bool, Val::Bool(b)) => out.push(*b as u8),
        (Ty::B256 | Ty::U256, Val::B32(b)) => out.extend(b),
        (Ty::Str(_), Val::Str(s)) => out.extend(s.as_bytes()),
        (Ty::Tuple(ts), Val::Seq(vs)) => for (t, v) in ts.iter().zip(vs) { encode(t, v, d, out) },
        (Ty::Struct(i), Val::Seq(vs)) => for (t, v) in d.structs[*i].iter().zip(vs) { encode(t, v, d, out) },
        (Ty::Array(t, _), Val::Seq(vs)) => for v in vs { encode(t, v, d, out) },
        (Ty::Enum(i), Val::Enum(k, v)) => { out.extend((*k as u64).to_be_bytes()); encode(&d.enums[*i][*k], v, d, out) }
        (Ty::Unit, Val::Unit) => {}
        _ => unreachable!("ill-typed value"),
    }
}
fn lit(t: &Ty, v: &Val, d: &Decls) -> String {
    match (t, v) {
        (Ty::U8, Val::U(x)) => format!("{x}u8"), (Ty::U16, Val::U(x)) => format!("{x}u16"),
        (Ty::U32, Val::U(x)) => format!("{x}u32"), (Ty::U64, Val::U(x)) => format!("{x}u64"),
        (Ty::Bool, Val::Bool(b)) => format!("{b}"),
        (Ty::B256, Val::B32(b)) => format!("0x{}", hex::encode(b)),
        (Ty::U256, Val::B32(b)) => format!("0x{}u256", hex::encode(b)),
        (Ty::Str(_), Val::Str(s)) => format!("__to_str_array(\"{s}\")"),
        (Ty::Tuple(ts), Val::Seq(vs)) => format!("({})", ts.iter().zip(vs).map(|(t, v)| lit(t, v, d)).collect::<Vec<_>>().join(", ")),
        (Ty::Struct(i), Val::Seq(vs)) => format!("S{i} {{ {} }}", d.structs[*i].iter().zip(vs).enumerate().map(|(k, (t, v))| format!("f{k}: {}", lit(t, v, d))).collect::<Vec<_>>().join(", ")),
        (Ty::Array(t, _), Val::Seq(vs)) => format!("[{}]", vs.iter().map(|v| lit(t, v, d)).collect::<Vec<_>>().join(", ")),
        (Ty::Enum(i), Val::Enum(k, v)) => match &d.enums[*i][*k] { Ty::Unit => format!("E{i}::V{k}"), t => format!("E{i}::V{k}({})", lit(t, v, d)) },
        _ => unreachable!("ill-typed value"),
    }
}
/// Source of "extra" `k`: a helper fn holding local constants larger than a word (loaded through a non-copy
/// `LoadDataId`, so `to_bytecode_mut` appends a pointer word in FRONT of the configurables), and the statement
/// that logs its result after the configurables' logs. `kind` selects b256 / u256 / str array / b256::zero().
fn extra_source(k: usize, kind: u64, salt: u64) -> (String, String) {
    let h = |x: u64| format!("{:016x}{:016x}{:016x}{:016x}", x, x ^ 0x5555, x.rotate_left(17), !x);
    let (a, b) = (h(salt.wrapping_mul(2 * k as u64 + 3) | 1), h(salt.wrapping_add(k as u64) | 2));
    let f = match kind % 4 {
        0 => format!("fn extra{k}(c: u64) -> b256 {{\n    let mut v: b256 = 0x{a};\n    if c == 0 {{ v = 0x{b}; }}\n    v\n}}\n"),
        1 => format!("fn extra{k}(c: u64) -> u256 {{\n    let mut v: u256 = 0x{a}u256;\n    if c == 0 {{ v = 0x{b}u256; }}\n    v\n}}\n"),
        2 => format!("fn extra{k}(c: u64) -> str[11] {{\n    let mut v: str[11] = __to_str_array(\"extra{k:02}_aaa\");\n    if c == 0 {{ v = __to_str_array(\"extra{k:02}_bbb\"); }}\n    v\n}}\n"),
        _ => format!("fn extra{k}(c: u64) -> bool {{\n    let mut v: b256 = 0x{a};\n    if c == 0 {{ v = b256::zero(); }}\n    v == b256::zero()\n}}\n"),
    };
    (f, format!("    log(extra{k}(std::registers::context_gas()));\n"))
}

fn program_source(tys: &[Ty], defaults: &[Val], d: &Decls, extras: &[u64], salt: u64) -> String {
    let mut s = String::from("script;\n");
    let ex: Vec<(String, String)> = extras.iter().enumerate().map(|(k, kind)| extra_source(k, *kind, salt)).collect();
    for (f, _) in &ex { s.push_str(f); }
    for (i, f) in d.structs.iter().enumerate() {
        s.push_str(&format!("struct S{i} {{ {} }}\n", f.iter().enumerate().map(|(k, t)| format!("f{k}: {}", ty_name(t))).collect::<Vec<_>>().join(", ")));
    }
    for (i, vs) in d.enums.iter().enumerate() {
        s.push_str(&format!("enum E{i} {{ {} }}\n", vs.iter().enumerate().map(|(k, t)| format!("V{k}: {}", ty_name(t))).collect::<Vec<_>>().join(", ")));
    }
    s.push_str("configurable {\n");
    for (j, (t, v)) in tys.iter().zip(defaults).enumerate() {
        s.push_str(&format!("    C{j}: {} = {},\n", ty_name(t), lit(t, v, d)));
    }
    s.push_str("}\nfn main() {\n");
    for j in 0..tys.len() { s.push_str(&format!("    log(C{j});\n")); }
    for (_, l) in &ex { s.push_str(l); }
    s.push_str("}\n");
    s
}

struct Built { bytes: Vec<u8>, offsets: Vec<Option<u64>> }

fn build_script(dir: &Path, src: &str, n: usize) -> Result<Built, String> {
    write_pkg(dir, "c13prog", src, true, "").map_err(|e| format!("error:{e}"))?;
    let mut opts = test_opts(dir, false).into_build_opts();
    opts.tests = false;
    let res = guarded(move || forc_pkg::build_with_options(&opts, None));
    let built = match res {
        None => return Err("panic".into()),
        Some(Err(_)) => return Err("error".into()),
        Some(Ok(b)) => b,
    };
    let pkg = match built {
        forc_pkg::Built::Package(p) => p,
        forc_pkg::Built::Workspace(_) => return Err("error".into()),
    };
    let mut offsets = vec![None; n];
    if let sway_core::asm_generation::ProgramABI::Fuel(abi) = &pkg.program_abi {
        for c in abi.configurables.clone().unwrap_or_default() {
            if let Some(j) = c.name.strip_prefix('C').and_then(|s| s.parse::<usize>().ok()) {
                if j < n { offsets[j] = Some(c.offset); }
            }
        }
    }
    Ok(Built { bytes: pkg.bytecode.bytes.clone(), offsets })
}

/// Run a script on the real FuelVM (as `test/src/e2e_vm_tests/harness.rs::runs_in_vm`); LOGD payloads in order.
fn run_vm(bytecode: &[u8]) -> Result<Vec<Vec<u8>>, String> {
    use fuel_tx::{ConsensusParameters, Finalizable, Receipt, ScriptParameters, TransactionBuilder, TxParameters};
    use fuel_tx::consensus_parameters::ConsensusParametersV1;
    use fuel_vm::checked_transaction::builder::TransactionBuilderExt;
    use fuel_vm::fuel_crypto::rand::{rngs::StdRng, Rng as _, SeedableRng};
    use fuel_vm::interpreter::{Interpreter, MemoryInstance, NotSupportedEcal};
    use fuel_vm::prelude::SecretKey;
    use fuel_vm::storage::MemoryStorage;
    let rng = &mut StdRng::seed_from_u64(2322u64);
    let max_size = 64 * 1024 * 1024;
    let params = ConsensusParameters::V1(ConsensusParametersV1 {
        script_params: ScriptParameters::DEFAULT.with_max_script_length(max_size).with_max_script_data_length(max_size),
        tx_params: TxParameters::DEFAULT.with_max_size(max_size),
        ..Default::default()
    });
    let mut tb = TransactionBuilder::script(bytecode.to_vec(), vec![]);
    tb.with_params(params)
        .add_unsigned_coin_input(SecretKey::random(rng), rng.r#gen(), 1, Default::default(), rng.r#gen())
        .maturity(1.into());
    let cp = tb.get_params().clone();
    let tmp = tb.clone().finalize();
    let max_gas = fuel_tx::Chargeable::max_gas(&tmp, cp.gas_costs(), cp.fee_params()) + 1;
    tb.script_gas_limit(cp.tx_params().max_gas_per_tx() - max_gas);
    let dp = ConsensusParameters::default();
    let tx = tb
        .finalize_checked((u32::MAX >> 1).into())
        .into_ready(0, dp.gas_costs(), dp.fee_params(), None)
        .map_err(|e| format!("txerr:{e:?}"))?;
    let mut i: Interpreter<_, _, _, NotSupportedEcal> =
        Interpreter::with_storage(MemoryInstance::new(), MemoryStorage::default(), Default::default());
    let tr = i.transact(tx).map_err(|e| format!("vmerr:{e:?}"))?;
    let mut logs = vec![];
    let mut bad = None;
    for rc in tr.receipts() {
        match rc {
            Receipt::LogData { data, .. } => { let mut v = vec![b'D']; v.extend(data.clone().map(|d| d.to_vec()).unwrap_or_default()); logs.push(v) }
            // a LOG receipt carries the value as a word; `canon_logs` trims it to the type's encoded width
            Receipt::Log { ra, .. } => { let mut v = vec![b'W']; v.extend(ra.to_be_bytes()); logs.push(v) }
            Receipt::Panic { reason, .. } => bad = Some(format!("vmpanic:{:?}", reason.reason())),
            Receipt::Revert { ra, .. } => bad = Some(format!("revert:{ra}")),
            _ => {}
        }
    }
    match bad { Some(b) => Err(b), None => Ok(logs) }
}

/// `run_vm` tags each log with `D` (LOGD payload) or `W` (LOG register value). The compiler logs small
/// integers either way; a word is canonicalised to the big-endian encoding of width `lens[k]` when the
/// dropped high bytes are zero (otherwise it is kept as 8 bytes and will not match).
fn canon_logs(logs: Vec<Vec<u8>>, lens: &[usize]) -> Vec<Vec<u8>> {
    logs.into_iter().enumerate().map(|(k, l)| {
        let (tag, body) = (l[0], l[1..].to_vec());
        match lens.get(k) {
            Some(&n) if tag == b'W' && n <= 8 && body[..8 - n].iter().all(|b| *b == 0) => body[8 - n..].to_vec(),
            _ => body,
        }
    }).collect()
}
fn hexlist(v: &[Vec<u8>]) -> String {
    if v.is_empty() { "-".into() } else { v.iter().map(|b| if b.is_empty() { "e".to_string() } else { hex::encode(b) }).collect::<Vec<_>>().join(",") }
}

/// One program: build, run unpatched, then patch every configurable with `per_cfg` new values each.
fn e2e_program(prog_seed: u64, forced: Option<(Vec<Ty>, Decls)>, per_cfg: usize, n_extras: Option<usize>, out: &mut dyn Write) -> usize {
    let mut r = Rng::new(prog_seed);
    let (tys, decls) = match forced {
        Some(f) => f,
        None => {
            let mut d = Decls::default();
            let n = 1 + r.below(8);
            let tys: Vec<Ty> = (0..n).map(|_| gen_ty(&mut r, &mut d, 0)).collect();
            (tys, d)
        }
    };
    let mut defaults: Vec<Val> = tys.iter().map(|t| gen_val(&mut r, t, &decls)).collect();
    // equal-valued configurables of the same type are the interesting case for entry merging
    for j in 1..tys.len() {
        if r.chance(1, 3) {
            if let Some(k) = (0..j).find(|k| ty_name(&tys[*k]) == ty_name(&tys[j])) { defaults[j] = defaults[k].clone(); }
        }
    }
    let enc: Vec<Vec<u8>> = tys.iter().zip(&defaults).map(|(t, v)| { let mut o = vec![]; encode(t, v, &decls, &mut o); o }).collect();
    let tdesc = tys.iter().map(|t| ty_desc(t, &decls)).collect::<Vec<_>>().join("|");
    let head_of = |x: usize| format!("seed={prog_seed} x={x} t={tdesc} d={}", hexlist(&enc));
    let dir = scratch_dir("c13");
    // 0-4 local constants larger than a word next to the configurables (2/3 of the programs have at least one)
    let n_extras = n_extras.unwrap_or_else(|| if r.chance(1, 3) { 0 } else { 1 + r.below(4) as usize });
    let extras: Vec<u64> = (0..n_extras).map(|_| r.below(4)).collect();
    let src = program_source(&tys, &defaults, &decls, &extras, prog_seed);
    let built = build_script(&dir, &src, tys.len());
    let _ = std::fs::remove_dir_all(&dir);
    let head = head_of(n_extras);
    let built = match built {
        Err(e) => { writeln!(out, "build {head} ;; {e}").unwrap(); return 1; }
        Ok(b) => b,
    };
    // the extras' logs follow the configurables' logs; they are dropped from the observation when all are present
    let n_cfg = tys.len();
    let trim = move |mut l: Vec<Vec<u8>>| -> Vec<Vec<u8>> { if l.len() == n_cfg + n_extras { l.truncate(n_cfg); } l };
    let mut lines = 0;
    let offs: Vec<u64> = built.offsets.iter().map(|o| o.unwrap_or(u64::MAX)).collect();
    let offs_s = built.offsets.iter().map(|o| o.map(|x| x.to_string()).unwrap_or("none".into())).collect::<Vec<_>>().join(",");
    let at: Vec<Vec<u8>> = offs.iter().zip(&enc).map(|(o, e)| {
        let o = *o as usize;
        if o.checked_add(e.len()).map(|end| end <= built.bytes.len()).unwrap_or(false) { built.bytes[o..o + e.len()].to_vec() } else { vec![] }
    }).collect();
    let lens: Vec<usize> = enc.iter().map(|e| e.len()).collect();
    let obs = match run_vm(&built.bytes) { Ok(l) => format!("observed={}", hexlist(&canon_logs(trim(l), &lens))), Err(e) => e };
    writeln!(out, "base {head} offs={offs_s} len={} ;; at={} {obs}", built.bytes.len(), hexlist(&at)).unwrap();
    lines += 1;
    for j in 0..tys.len() {
        let o = offs[j] as usize;
        for _ in 0..per_cfg {
            let mut nv = gen_val(&mut r, &tys[j], &decls);
            let mut ne = vec![]; encode(&tys[j], &nv, &decls, &mut ne);
            if ne.len() != enc[j].len() {
                nv = gen_val_like(&mut r, &tys[j], &defaults[j], &decls);
                ne.clear(); encode(&tys[j], &nv, &decls, &mut ne);
            }
            let obs = if o.checked_add(ne.len()).map(|end| end <= built.bytes.len()).unwrap_or(false) {
                let mut b = built.bytes.clone();
                b[o..o + ne.len()].copy_from_slice(&ne);
                match run_vm(&b) { Ok(l) => format!("observed={}", hexlist(&canon_logs(trim(l), &lens))), Err(e) => e }
            } else { "offset-out-of-range".to_string() };
            writeln!(out, "patch {head} j={j} new={} ;; {obs}", if ne.is_empty() { "e".into() } else { hex::encode(&ne) }).unwrap();
            lines += 1;
        }
    }
    lines
}

fn main() {
    let a = args();
    if std::env::var("VERIF_LOUD").is_err() { quiet_panics(); }
    let mut r = Rng::new(seed_from_env());
    let mut out = std::io::BufWriter::new(std::fs::File::create(&a.out).unwrap());
    let mode = a.extra.iter().position(|x| x == "--mode").and_then(|i| a.extra.get(i + 1)).cloned().unwrap_or_else(|| "synth".into());
    let corpus: Vec<String> = a.corpus.as_ref().map(|c| std::fs::read_to_string(c).unwrap_or_default().lines()
        .filter(|l| !l.starts_with('#') && !l.trim().is_empty()).map(|l| l.to_string()).collect()).unwrap_or_default();
    let mut cases = 0usize;
    if mode == "src" {
        // ad-hoc replay: `--mode src --file prog.sw`: build, report data-section/configurable offsets, run
        let file = a.extra.iter().position(|x| x == "--file").and_then(|i| a.extra.get(i + 1)).cloned().unwrap();
        let src = std::fs::read_to_string(&file).unwrap();
        let dir = scratch_dir("c13src");
        match build_script(&dir, &src, 16) {
            Err(e) => println!("build: {e}"),
            Ok(b) => {
                let ds = u64::from_be_bytes(b.bytes[8..16].try_into().unwrap());
                println!("len={} data_section_offset={} configurables={:?}", b.bytes.len(), ds, b.offsets.iter().flatten().collect::<Vec<_>>());
                match run_vm(&b.bytes) { Ok(l) => println!("logs={}", hexlist(&canon_logs(l, &[]))), Err(e) => println!("run: {e}") }
            }
        }
        let _ = std::fs::remove_dir_all(&dir);
        return;
    }
    if mode == "synth" {
        // corpus lines: `layout <ops>` / `code <dops> | <cops>` are replayed through a tiny parser below
        for l in &corpus {
            if let Some(line) = replay_synth(l) { writeln!(out, "{line}").unwrap(); cases += 1; }
        }
        while cases < a.n {
            if r.chance(1, 2) {
                let ops = gen_dops(&mut r, 10);
                writeln!(out, "{}", layout_line(&ops)).unwrap();
            } else {
                let (d, c) = gen_code_case(&mut r);
                writeln!(out, "{}", code_line(&d, &c)).unwrap();
            }
            cases += 1;
        }
    } else {
        // corpus lines: `prog <seed>` (replay a generated program), `big <n>` (configurable `[u64; n]`)
        for l in &corpus {
            let f: Vec<&str> = l.split_whitespace().collect();
            match f.as_slice() {
                ["prog", s] => { cases += 1; e2e_program(s.parse().unwrap(), None, 2, None, &mut out); }
                // `progx <seed> <k>`: generated program with exactly k local large constants
                ["progx", s, k] => { cases += 1; e2e_program(s.parse().unwrap(), None, 2, Some(k.parse().unwrap()), &mut out); }
                // finding (layout instability of to_bytecode_mut): `[u64; n]` constant sized so that the pointer words
                // appended for the two b256 literals move configurable C0 across the 12-bit ADDI limit
                ["unstable", n] => {
                    cases += 1;
                    let src = format!("script;\nconfigurable {{ C0: u64 = 7 }}\nconst BIG: [u64; {n}] = [3; {n}];\nfn main() {{\n    let i = C0;\n    log(BIG[i % {n}]);\n    let mut k: b256 = 0x1111111111111111111111111111111111111111111111111111111111111111;\n    if i == 8 {{ k = 0x2222222222222222222222222222222222222222222222222222222222222222; }}\n    log(k);\n    log(C0);\n}}\n");
                    let dir = scratch_dir("c13u");
                    let res = build_script(&dir, &src, 1);
                    let _ = std::fs::remove_dir_all(&dir);
                    match res {
                        Err(e) => writeln!(out, "build seed={n} t=unstable-layout[{n}] d=- ;; {e}").unwrap(),
                        Ok(_) => writeln!(out, "built seed={n} t=unstable-layout[{n}] d=- ;; ok").unwrap(),
                    }
                }
                ["big", n] => {
                    cases += 1;
                    let n: usize = n.parse().unwrap();
                    e2e_program(n as u64, Some((vec![Ty::U8, Ty::Array(Box::new(Ty::U64), n), Ty::U16], Decls::default())), 1, Some(0), &mut out);
                }
                _ => {}
            }
        }
        let mut progs = 0;
        while progs < a.n {
            let s = r.next();
            e2e_program(s, None, 2, None, &mut out);
            progs += 1; cases += 1;
        }
    }
    out.flush().unwrap();
    eprintln!("sv_c13[{mode}]: {cases} cases");
}

// ------------------------------------------------------------------------------ corpus replay (synthetic)

fn parse_pad(s: &str) -> Option<Option<(bool, usize)>> {
    if s == "-" { return Some(None); }
    let (k, n) = s.split_at(1);
    Some(Some((k == "L", n.parse().ok()?)))
}
fn unhex(s: &str) -> Option<Vec<u8>> { if s == "-" { Some(vec![]) } else { hex::decode(s).ok() } }
fn parse_datum(f: &[&str], i: &mut usize) -> Option<SynthDatum> {
    let k = *f.get(*i)?; let v = *f.get(*i + 1)?; *i += 2;
    Some(match k {
        "b" => SynthDatum::Byte(u8::from_str_radix(v, 16).ok()?),
        "w" => SynthDatum::Word(u64::from_str_radix(v, 16).ok()?),
        "a" => SynthDatum::ByteArray(unhex(v)?),
        "s" => SynthDatum::Slice(unhex(v)?),
        "c" => {
            let n: usize = v.parse().ok()?;
            let mut es = vec![];
            for _ in 0..n {
                let p = parse_pad(f.get(*i)?)?; *i += 1;
                es.push(SynthEntry { name: None, datum: parse_datum(f, i)?, padding: p });
            }
            SynthDatum::Collection(es)
        }
        _ => return None,
    })
}
fn parse_dop(t: &str) -> Option<SynthDataOp> {
    let f: Vec<&str> = t.split('/').collect();
    match f[0] {
        "P" => Some(SynthDataOp::AppendPointer(u64::from_str_radix(f.get(1)?, 16).ok()?)),
        "I" => {
            let name = if *f.get(1)? == "-" { None } else { Some(f[1].to_string()) };
            let p = parse_pad(f.get(2)?)?;
            let mut i = 3;
            Some(SynthDataOp::Insert(SynthEntry { name, datum: parse_datum(&f, &mut i)?, padding: p }))
        }
        _ => None,
    }
}
fn parse_id(s: &str) -> Option<(bool, u32)> { let (k, n) = s.split_at(1); Some((k == "c", n.parse().ok()?)) }
fn parse_cop(t: &str) -> Option<SynthCodeOp> {
    let (k, rest) = t.split_at(1);
    Some(match k { "N" => SynthCodeOp::Noop, "B" => SynthCodeOp::Blob(rest.parse().ok()?), "L" => SynthCodeOp::Load(parse_id(rest)?), "A" => SynthCodeOp::Addr(parse_id(rest)?), _ => return None })
}
fn replay_synth(l: &str) -> Option<String> {
    let f: Vec<&str> = l.split_whitespace().collect();
    match *f.first()? {
        "layout" => Some(layout_line(&f[1..].iter().map(|t| parse_dop(t)).collect::<Option<Vec<_>>>()?)),
        "code" => {
            let bar = f.iter().position(|t| *t == "|")?;
            let d = f[1..bar].iter().map(|t| parse_dop(t)).collect::<Option<Vec<_>>>()?;
            let c = f[bar + 1..].iter().map(|t| parse_cop(t)).collect::<Option<Vec<_>>>()?;
            Some(code_line(&d, &c))
        }
        // `bigarr <size> <dops…> | <cops…>`: prepend a non-configurable byte array of <size> bytes (keeps corpus lines short)
        "bigarr" => {
            let sz: usize = f.get(1)?.parse().ok()?;
            let bar = f.iter().position(|t| *t == "|")?;
            let mut d = vec![SynthDataOp::Insert(SynthEntry { name: None, datum: SynthDatum::ByteArray(vec![0x5a; sz]), padding: None })];
            d.extend(f[2..bar].iter().map(|t| parse_dop(t)).collect::<Option<Vec<_>>>()?);
            let c = f[bar + 1..].iter().map(|t| parse_cop(t)).collect::<Option<Vec<_>>>()?;
            Some(code_line(&d, &c))
        }
        _ => None,
    }
}
