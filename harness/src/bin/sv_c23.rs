//! C23: drives the real `sway_lsp::core::document::TextDocument` with random edit histories.
//! One protocol line per change: `apply <before> (full|range sl sc el ec) <text> ;; <result>`.
use lsp_types::{Position, Range, TextDocumentContentChangeEvent};
use std::io::Write;
use svharness::{proto::*, rng::*};
use sway_lsp::core::document::TextDocument;

const ALPHABET: &[&str] = &[
    "a", "b", "z", " ", "\n", "\n", "\r\n", "é", "ß", "€", "日", "😀", "𝄞", "\t", "{", "}", "fn", "\u{0301}",
];

fn gen_text(r: &mut Rng, max: u64) -> String {
    let n = r.below(max + 1);
    (0..n).map(|_| *r.pick(ALPHABET)).collect()
}

/// UTF-16 length of line `l` (content without terminator) and number of lines, client view.
fn line_lens(s: &str) -> Vec<usize> {
    s.split('\n').map(|l| l.strip_suffix('\r').unwrap_or(l).encode_utf16().count()).collect()
}

fn gen_pos(r: &mut Rng, s: &str) -> Position {
    let lens = line_lens(s);
    let line = if r.chance(1, 12) { lens.len() as u64 + r.below(3) } else { r.below(lens.len() as u64) };
    let len = lens.get(line as usize).copied().unwrap_or(0) as u64;
    let ch = match r.below(10) { 0 => len + 1 + r.below(4), 1 => len, 2 => 0, _ => r.below(len + 1) };
    Position::new(line as u32, ch as u32)
}

fn main() {
    let a = args();
    quiet_panics();
    let mut r = Rng::new(seed_from_env());
    let mut out = std::io::BufWriter::new(std::fs::File::create(&a.out).unwrap());
    let rt = tokio::runtime::Builder::new_current_thread().enable_all().build().unwrap();
    let dir = tempfile::tempdir().unwrap();
    let path = dir.path().join("doc.sw");
    let mut cases = 0usize;
    // corpus: lines `before|sl|sc|el|ec|text` with \n,\r escaped, run first
    let mut corpus: Vec<(String, Option<Range>, String)> = vec![];
    if let Some(c) = &a.corpus {
        for l in std::fs::read_to_string(c).unwrap_or_default().lines() {
            if l.starts_with('#') || l.trim().is_empty() { continue; }
            let f: Vec<&str> = l.split('|').collect();
            if f.len() != 6 { continue; }
            let un = |s: &str| s.replace("\\n", "\n").replace("\\r", "\r");
            let rg = Range::new(Position::new(f[1].parse().unwrap(), f[2].parse().unwrap()),
                                Position::new(f[3].parse().unwrap(), f[4].parse().unwrap()));
            corpus.push((un(f[0]), Some(rg), un(f[5])));
        }
    }
    let mut emit = |doc: &mut TextDocument, range: Option<Range>, text: String, out: &mut dyn Write| {
        let before = doc.get_text().to_string();
        let change = TextDocumentContentChangeEvent { range, range_length: None, text: text.clone() };
        let mut d2 = doc.clone();
        let res = guarded(move || { let r = d2.apply_change(&change); (r, d2) });
        let op = match range {
            None => format!("apply {} full {}", cps(&before), cps(&text)),
            Some(g) => format!("apply {} range {} {} {} {} {}", cps(&before), g.start.line, g.start.character, g.end.line, g.end.character, cps(&text)),
        };
        let resl = match res {
            None => "panic".to_string(),
            Some((Ok(()), d2)) => { let s = format!("ok {}", cps(d2.get_text())); *doc = d2; s }
            Some((Err(_), d2)) => if d2.get_text() == before { "err".into() } else { format!("erraltered {}", cps(d2.get_text())) },
        };
        writeln!(out, "{} ;; {}", op, resl).unwrap();
    };
    let build = |text: &str| -> TextDocument {
        std::fs::write(&path, text).unwrap();
        rt.block_on(TextDocument::build_from_path(path.to_str().unwrap())).unwrap()
    };
    for (b, rg, t) in corpus {
        let mut doc = build(&b);
        emit(&mut doc, rg, t, &mut out);
        cases += 1;
    }
    while cases < a.n {
        let init = gen_text(&mut r, 24);
        let mut doc = build(&init);
        let steps = 1 + r.below(8);
        for _ in 0..steps {
            let cur = doc.get_text().to_string();
            if r.chance(1, 10) {
                let t = gen_text(&mut r, 12);
                emit(&mut doc, None, t, &mut out);
            } else {
                let mut p = gen_pos(&mut r, &cur);
                let mut q = gen_pos(&mut r, &cur);
                // mostly ordered (valid), sometimes reversed (invalid)
                if (p.line, p.character) > (q.line, q.character) && !r.chance(1, 8) { std::mem::swap(&mut p, &mut q); }
                if r.chance(1, 3) { q = p; }
                let t = gen_text(&mut r, 6);
                emit(&mut doc, Some(Range::new(p, q)), t, &mut out);
            }
            cases += 1;
        }
    }
    out.flush().unwrap();
    eprintln!("sv_c23: {} cases", cases);
}
