//! C20, end-to-end replay of the candidate findings: real manifests on disk -> real
//! `BuildPlan::from_pkg_opts` (writes Forc.lock) -> the same call again with `locked = true`.
//! If the lock file round-trips, the second call succeeds; if it does not, forc reports
//! "The lock file .. needs to be updated (Cause: ..) but --locked was passed".
//! Informational (classification of the `not_wf_witness`es): prints one line per scenario
//! `<scenario> first=<ok|err:..> locked=<ok|err:..>`. Uses a private HOME; git scenarios need the
//! `git` CLI and use a local repository as remote (no network).
use forc_pkg::{BuildPlan, PkgOpts};
use std::path::Path;
use std::process::Command;

fn write(p: &Path, s: &str) {
    std::fs::create_dir_all(p.parent().unwrap()).unwrap();
    std::fs::write(p, s).unwrap();
}

fn project(dir: &Path, name: &str, lib: bool, deps: &str) {
    let entry = if lib { "lib.sw" } else { "main.sw" };
    write(&dir.join("Forc.toml"), &format!(
        "[project]\nauthors = [\"x\"]\nentry = \"{entry}\"\nlicense = \"Apache-2.0\"\nname = \"{name}\"\nimplicit-std = false\n\n[dependencies]\n{deps}\n"));
    write(&dir.join("src").join(entry), if lib { "library;\n" } else { "script;\nfn main() {}\n" });
}

fn short(e: &anyhow::Error) -> String {
    let s = e.to_string().replace('\n', " ");
    let s: String = s.chars().take(220).collect();
    s
}

fn plan(dir: &Path, locked: bool, offline: bool) -> String {
    let opts = PkgOpts { path: Some(dir.to_string_lossy().to_string()), offline, locked, terse: true, ..Default::default() };
    match std::panic::catch_unwind(|| BuildPlan::from_pkg_opts(&opts)) {
        Err(_) => "panic".into(),
        Ok(Ok(p)) => format!("ok(nodes={})", p.graph().node_count()),
        Ok(Err(e)) => format!("err:{}", short(&e)),
    }
}

fn git(dir: &Path, args: &[&str]) -> bool {
    Command::new("git").current_dir(dir).args(args)
        .env("GIT_AUTHOR_NAME", "x").env("GIT_AUTHOR_EMAIL", "x@x").env("GIT_COMMITTER_NAME", "x").env("GIT_COMMITTER_EMAIL", "x@x")
        .output().map(|o| o.status.success()).unwrap_or(false)
}

fn main() {
    let tmp = tempfile::tempdir().unwrap();
    let root = tmp.path().canonicalize().unwrap();
    std::env::set_var("HOME", root.join("home"));
    std::fs::create_dir_all(root.join("home")).unwrap();
    let report = |name: &str, dir: &Path, offline: bool| {
        let first = plan(dir, false, offline);
        let lock = std::fs::read_to_string(dir.join("Forc.lock")).unwrap_or_default();
        let second = plan(dir, true, offline);
        let deps: Vec<&str> = lock.lines().filter(|l| l.starts_with("source") || l.starts_with("dependencies")).collect();
        println!("{} first={} locked={} lock=[{}]", name, first, second, deps.join(" | "));
    };
    // control: a renamed path dependency
    let d = root.join("s0");
    project(&d.join("libb"), "libb", true, "");
    project(&d.join("app"), "app", false, "alias = { path = \"../libb\", package = \"libb\" }");
    report("control-renamed-path-dep", &d.join("app"), true);
    // ')' in a dependency name
    let d = root.join("s1");
    project(&d.join("libb"), "libb", true, "");
    project(&d.join("app"), "app", false, "\"d)e\" = { path = \"../libb\", package = \"libb\" }");
    report("paren-in-dependency-name", &d.join("app"), true);
    // two different path packages with the same name (same path root => same pinned source)
    let d = root.join("s7");
    project(&d.join("x").join("foo"), "foo", true, "");
    project(&d.join("y").join("foo"), "foo", true, "");
    project(&d.join("libb"), "libb", true, "foo = { path = \"../y/foo\" }");
    project(&d.join("app"), "app", false, "foo = { path = \"../x/foo\" }\nlibb = { path = \"../libb\" }");
    report("two-path-packages-same-name", &d.join("app"), true);
    // git scenarios: a local repository with a library `b`
    let repo = root.join("repo");
    project(&repo, "libb", true, "");
    let ok = git(&repo, &["init", "-q", "-b", "master"]) && git(&repo, &["add", "."]) && git(&repo, &["commit", "-q", "-m", "init"])
        && git(&repo, &["branch", "a#b"]) && git(&repo, &["tag", "v1"]);
    if !ok { println!("git-scenarios skipped (git CLI unavailable)"); return; }
    let head = Command::new("git").current_dir(&repo).args(["rev-parse", "HEAD"]).output().map(|o| String::from_utf8_lossy(&o.stdout).trim().to_string()).unwrap_or_default();
    let url = repo.to_string_lossy().to_string();
    let d = root.join("s2");
    project(&d.join("app"), "app", false, &format!("libb = {{ git = \"{url}\", branch = \"master\" }}"));
    report("control-git-branch", &d.join("app"), false);
    let d = root.join("s3");
    project(&d.join("app"), "app", false, &format!("libb = {{ git = \"{url}\", branch = \"a#b\" }}"));
    report("hash-in-branch-name", &d.join("app"), false);
    let d = root.join("s4");
    project(&d.join("app"), "app", false, &format!("libb = {{ git = \"{url}\", rev = \"{}\" }}", &head[..head.len().min(8)]));
    report("short-rev", &d.join("app"), false);
    let d = root.join("s5");
    project(&d.join("app"), "app", false, &format!("libb = {{ git = \"{url}\", rev = \"{head}\" }}"));
    report("control-full-rev", &d.join("app"), false);
    let d = root.join("s6");
    project(&d.join("app"), "app", false, &format!("libb = {{ git = \"{url}\", rev = \"v1\" }}"));
    report("rev-is-a-tag-name", &d.join("app"), false);
}
