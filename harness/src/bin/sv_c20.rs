//! C20: random resolved package graphs (real `forc_pkg::Graph`) -> real `Lock::from_graph`,
//! `toml::ser::to_string_pretty`, file write, `Lock::from_path`, `Lock::to_graph`; canonical forms of
//! every stage plus the verdict of the real `==` on packages and edges (up to node numbering).
//! Line: `rt G.. X.. ;; <ok|err|panic|sererr|deerr> eq=<0|1> toml=<same|diff|none> ;; L.. ;; L.. ;; G..`
#[path = "../lock_common.rs"]
mod lock_common;
use forc_pkg::source::{self, git};
use forc_pkg::{DepKind, Edge, Graph, Lock, PinnedId};
use lock_common::*;
use petgraph::visit::{EdgeRef, IntoEdgeReferences};
use std::io::Write;
use std::str::FromStr;
use svharness::{proto::*, rng::*};
use sway_core::fuel_prelude::fuel_tx;

const HEX40: &str = "0123456789abcdef0123456789abcdef01234567";
const HEX40B: &str = "89abcdef0123456789abcdef0123456789abcdef";
const CID0A: &str = "QmYwAPJzv5CZsnA625s3Xf2nemtYgPpHdWEz79ojWnPbdG";
const CID0B: &str = "QmdMVqLqpba2mMB5AUjYCxubC6tLGevQFunpBkbC2UbrKS";
const CID1: &str = "bafybeigdyrzt5sfp7udm7hu76uh7y26nf3efuylqabf3oclgtqy55fbzdi";

#[derive(Clone, Debug)]
enum Src { Member, Path(String), Git { url: String, kind: String, r: String, commit: String }, Ipfs(String), Reg { name: String, ver: String, cid: String, ns: Option<String> } }
#[derive(Clone, Debug)]
struct ESpec { src: usize, dst: usize, name: String, salt: Option<String>, add: bool }
#[derive(Clone, Debug, Default)]
struct GSpec { nodes: Vec<(String, Src)>, edges: Vec<ESpec> }

fn build_src(s: &Src) -> Option<source::Pinned> {
    Some(match s {
        Src::Member => source::Pinned::from_str("member").ok()?,
        Src::Path(h) => source::Pinned::Path(source::path::Pinned { path_root: PinnedId::from_str(h).ok()? }),
        Src::Git { url, kind, r, commit } => {
            let reference = match kind.as_str() {
                "branch" => git::Reference::Branch(r.clone()),
                "tag" => git::Reference::Tag(r.clone()),
                "rev" => git::Reference::Rev(r.clone()),
                _ => git::Reference::DefaultBranch,
            };
            source::Pinned::Git(git::Pinned { source: git::Source { repo: git::Url::from_str(url).ok()?, reference }, commit_hash: commit.clone() })
        }
        Src::Ipfs(c) => serde_json::from_value(serde_json::json!({ "Ipfs": c })).ok()?,
        Src::Reg { name, ver, cid, ns } => {
            let nsv = match ns { None => serde_json::json!("Flat"), Some(d) => serde_json::json!({ "Domain": d }) };
            serde_json::from_value(serde_json::json!({ "Registry": { "source": { "name": name, "version": ver, "namespace": nsv }, "cid": cid } })).ok()?
        }
    })
}

fn build(spec: &GSpec) -> Option<Graph> {
    let mut g = Graph::new();
    let mut ix = vec![];
    for (name, s) in &spec.nodes {
        ix.push(g.add_node(forc_pkg::Pinned { name: name.clone(), source: build_src(s)? }));
    }
    for e in &spec.edges {
        let kind = match &e.salt { None => DepKind::Library, Some(h) => DepKind::Contract { salt: fuel_tx::Salt::from_str(h).ok()? } };
        let w = Edge::new(e.name.clone(), kind);
        let (a, b) = (*ix.get(e.src)?, *ix.get(e.dst)?);
        if e.add { g.add_edge(a, b, w); } else { g.update_edge(a, b, w); }
    }
    Some(g)
}

fn spec_from_json(v: &serde_json::Value) -> Option<GSpec> {
    let st = |x: &serde_json::Value| x.as_str().map(|s| s.to_string());
    let mut spec = GSpec::default();
    for n in v.get("nodes")?.as_array()? {
        let a = n.as_array()?;
        let name = st(a.first()?)?;
        let s = match a.get(1)?.as_str()? {
            "member" => Src::Member,
            "path" => Src::Path(st(a.get(2)?)?),
            "git" => Src::Git { url: st(a.get(2)?)?, kind: st(a.get(3)?)?, r: st(a.get(4)?)?, commit: st(a.get(5)?)? },
            "ipfs" => Src::Ipfs(st(a.get(2)?)?),
            "reg" => Src::Reg { name: st(a.get(2)?)?, ver: st(a.get(3)?)?, cid: st(a.get(4)?)?, ns: a.get(5).and_then(st) },
            _ => return None,
        };
        spec.nodes.push((name, s));
    }
    for e in v.get("edges")?.as_array()? {
        let a = e.as_array()?;
        let k = a.get(3)?.as_str()?;
        spec.edges.push(ESpec { src: a.first()?.as_u64()? as usize, dst: a.get(1)?.as_u64()? as usize, name: st(a.get(2)?)?,
            salt: if k == "lib" { None } else { Some(k.to_string()) }, add: a.get(4).and_then(|x| x.as_str()) == Some("a") });
    }
    Some(spec)
}

fn salt(r: &mut Rng) -> String {
    match r.below(4) { 0 => "00".repeat(32), 1 => format!("{}{:02x}", "00".repeat(31), 1 + r.below(255)), _ => (0..4).map(|_| format!("{:016x}", r.next())).collect() }
}

fn gen_src(r: &mut Rng, adv: bool) -> Src {
    let commit = |r: &mut Rng| if adv && r.chance(1, 6) { r.pick(&["abc", "", "0123456789abcdef0123456789abcdef0123456Z", "0123456789abcdef0123456789abcdef0123456é"]).to_string() } else { r.pick(&[HEX40, HEX40B]).to_string() };
    match r.below(10) {
        0..=2 => Src::Member,
        3 | 4 => Src::Path(match r.below(4) { 0 => "0".into(), 1 => "FFFFFFFFFFFFFFFF".into(), _ => format!("{:X}", r.next()) }),
        5 | 6 => {
            let url = if adv { r.pick(&["https://github.com/FuelLabs/sway", "git@github.com:FuelLabs/sway.git", "/tmp/x", "file:///tmp/x", "ssh://git@h/p",
                "https://x/y?z=1", "https://h/a#b", "https://h/a(b", "foo", "https://h/a b", "HTTPS://GitHub.com/A/b", "https://github.com/a/b/"]).to_string() }
                else { r.pick(&["https://github.com/FuelLabs/sway", "https://github.com/FuelLabs/sway-libs", "git@github.com:FuelLabs/sway.git", "ssh://git@h/p"]).to_string() };
            let c = commit(r);
            let (kind, rf) = if adv {
                match r.below(10) { 0 => ("branch", "a#b".to_string()), 1 => ("branch", "a(b".into()), 2 => ("branch", "".into()), 3 => ("tag", "a#".into()), 4 => ("rev", "abc123".into()),
                    5 => ("rev", c.clone()), 6 => ("default", "".into()), 7 => ("branch", "x y".into()), 8 => ("tag", "v?1".into()), _ => ("branch", "master".into()) }
            } else {
                match r.below(5) { 0 => ("branch", "master".to_string()), 1 => ("tag", "v0.66.1".into()), 2 => ("rev", c.clone()), 3 => ("default", "".into()), _ => ("branch", "feat/x-1".into()) }
            };
            Src::Git { url, kind: kind.into(), r: rf, commit: c }
        }
        7 => Src::Ipfs(if adv { r.pick(&[CID0A, CID0B, CID1]).to_string() } else { r.pick(&[CID0A, CID0B]).to_string() }),
        _ => Src::Reg {
            name: if adv { r.pick(&["core", "x?y", "a#b", "a(b", " a", "é"]).to_string() } else { r.pick(&["core", "std", "my-lib"]).to_string() },
            ver: r.pick(&["0.0.1", "1.2.3", "1.2.3-alpha.1+build.5"]).to_string(),
            cid: if adv && r.chance(1, 4) { CID1.to_string() } else { r.pick(&[CID0A, CID0B]).to_string() },
            ns: if adv { r.pick(&[None, Some(""), Some("fuelns"), Some("a!b"), Some("a#b"), Some("x "), Some("a(b"), Some("é")]).map(|s| s.to_string()) }
                else { r.pick(&[None, None, Some("fuelns")]).map(|s| s.to_string()) },
        },
    }
}

fn gen_spec(r: &mut Rng, adv: bool) -> GSpec {
    let n = 1 + r.below(6) as usize;
    let good = ["std", "core", "a", "b", "my-lib", "lib_2", "a", "std"];
    let bad = ["a b", "a(b", " a", "a ", "", "é", "a)b", "a member", "std"];
    let mut spec = GSpec::default();
    for _ in 0..n {
        let name = if adv && r.chance(1, 4) { r.pick(&bad).to_string() } else { r.pick(&good).to_string() };
        // sometimes an exact duplicate (name, source) of an earlier node
        if adv && r.chance(1, 10) && !spec.nodes.is_empty() { let k = r.below(spec.nodes.len() as u64) as usize; let d = spec.nodes[k].clone(); spec.nodes.push(d); continue; }
        spec.nodes.push((name, gen_src(r, adv)));
    }
    if adv && r.chance(1, 8) {
        // a package whose name is another package's unique string
        let k = r.below(spec.nodes.len() as u64) as usize;
        if let Some(p) = build_src(&spec.nodes[k].1) { let nm = format!("{} {}", spec.nodes[k].0, p); spec.nodes.push((nm, Src::Member)); }
    }
    let m = r.below(2 * n as u64 + 1) as usize;
    let n = spec.nodes.len();
    for _ in 0..m {
        let (src, dst) = (r.below(n as u64) as usize, r.below(n as u64) as usize);
        let pkg = spec.nodes[dst].0.clone();
        let name = match r.below(6) { 0 => r.pick(&["alias", "dep2", "x_y"]).to_string(), 1 if adv => r.pick(&["al)ias", "a(b", "a b", "", "é", " a "]).to_string(), _ => pkg };
        let salt = if r.chance(1, 3) { Some(salt(r)) } else { None };
        spec.edges.push(ESpec { src, dst, name, salt, add: adv && r.chance(1, 12) });
    }
    spec
}

fn multiset_eq<T: PartialEq>(a: &[T], b: &[T]) -> bool {
    if a.len() != b.len() { return false; }
    let mut used = vec![false; b.len()];
    a.iter().all(|x| match (0..b.len()).find(|&i| !used[i] && *x == b[i]) { Some(i) => { used[i] = true; true } None => false })
}

fn graphs_eq(g: &Graph, h: &Graph) -> bool {
    let nodes = |g: &Graph| g.node_indices().map(|n| g[n].clone()).collect::<Vec<_>>();
    let edges = |g: &Graph| g.edge_references().map(|e| (g[e.source()].clone(), g[e.target()].clone(), e.weight().clone())).collect::<Vec<_>>();
    multiset_eq(&nodes(g), &nodes(h)) && multiset_eq(&edges(g), &edges(h))
}

fn run(g: &Graph, path: &std::path::Path, out: &mut dyn Write) {
    let mut ext = ExtTable::default();
    for n in g.node_indices() { ext.add_pinned(&g[n].source); }
    let gtok = graph_tokens(g);
    let (mut cls, mut eq, mut tomlv) = ("panic".to_string(), 0, "none");
    let (mut l1, mut l2, mut g2) = ("-".to_string(), "-".to_string(), "-".to_string());
    let g1 = g.clone();
    if let Some(lock) = guarded(move || Lock::from_graph(&g1)) {
        l1 = lock_tokens(&lock, &mut ext);
        match guarded(|| toml::ser::to_string_pretty(&lock)) {
            None => {}
            Some(Err(_)) => cls = "sererr".into(),
            Some(Ok(text)) => {
                std::fs::write(path, &text).unwrap();
                let p = path.to_path_buf();
                match guarded(move || Lock::from_path(&p)) {
                    None => {}
                    Some(Err(_)) => cls = "deerr".into(),
                    Some(Ok(lock2)) => {
                        l2 = lock_tokens(&lock2, &mut ext);
                        tomlv = if l1 == l2 { "same" } else { "diff" };
                        match guarded(move || lock2.to_graph()) {
                            None => {}
                            Some(Err(_)) => cls = "err".into(),
                            Some(Ok(h)) => { cls = "ok".into(); eq = graphs_eq(g, &h) as u8; g2 = graph_tokens(&h); }
                        }
                    }
                }
            }
        }
    }
    writeln!(out, "rt {} {} ;; {} eq={} toml={} ;; {} ;; {} ;; {}", gtok, ext.tokens(), cls, eq, tomlv, l1, l2, g2).unwrap();
}

fn main() {
    let a = args();
    quiet_panics();
    let mut r = Rng::new(seed_from_env());
    let mut out = std::io::BufWriter::new(std::fs::File::create(&a.out).unwrap());
    let dir = tempfile::tempdir().unwrap();
    let path = dir.path().join("Forc.lock");
    let mut cases = 0usize;
    // corpus: one JSON graph spec per line
    if let Some(c) = &a.corpus {
        for l in std::fs::read_to_string(c).unwrap_or_default().lines() {
            if l.starts_with('#') || l.trim().is_empty() { continue; }
            match serde_json::from_str::<serde_json::Value>(l).ok().and_then(|v| spec_from_json(&v)).and_then(|s| build(&s)) {
                Some(g) => { run(&g, &path, &mut out); cases += 1; }
                None => { eprintln!("sv_c20: bad corpus line: {}", l); std::process::exit(2); }
            }
        }
    }
    while cases < a.n {
        let adv = r.chance(3, 10);
        let spec = gen_spec(&mut r, adv);
        if let Some(g) = build(&spec) { run(&g, &path, &mut out); cases += 1; }
    }
    out.flush().unwrap();
    eprintln!("sv_c20: {} cases", cases);
}
