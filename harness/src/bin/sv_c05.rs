//! C05 "IR text round-trips": drives the REAL sway-ir printer / parser / verifier / backend.
//!
//! `--mode kernel`  : random constants / types / byte strings built through the sway-ir API, printed by
//!                    the real printer (literal extracted from the module text), re-parsed by the real
//!                    parser; the Lean driver compares with `Model/IrText.lean` byte for byte.
//!     const <top|nested> <const tokens> ;; <hex of printed literal | noprint> <ok <const tokens> | err | verr | verr0 | panic>
//!     ty <ty tokens> ;; <hex of printed type> <ok <ty tokens> | err | panic>
//!     str <hex bytes> ;; <hex of printed string literal incl. quotes> <ok <hex bytes> | err | panic>
//! `--mode modules` : whole-module validator over the IR corpus at every pipeline stage.
//!     module <id> <stage> ;; reparse=<ok|err:class|panic:class> verify=<ok|err:class|n/a> fixpoint=<0|1> rawsame=<0|1> bytecode=<same|diff|n/a|…> [kind=… lines=…]
//!
//! Token grammar (prefix, space separated):
//!   ty    := never | unit | bool | uint:N | b256 | strslice | strarr:N | slice | ptr
//!          | arr:N ty | union:K ty*K | struct:K ty*K | tptr ty | tslice ty
//!   const := C ty val ;  val := undef | unit | bool:0|1 | uint:N | u256:HEX64 | b256:HEX64 | str:HEXBYTES
//!          | arr:K const*K | slice:K const*K | struct:K const*K | ref const | raw:HEXBYTES
use std::io::Write;
use svharness::{ircorpus::*, proto::*, rng::*};
use sway_core::OptLevel;
use sway_features::ExperimentalFeatures;
use sway_ir::{
    Constant, ConstantContent, ConstantValue, Context, GlobalVar, Kind, Module, Type, TypeContent,
};
use sway_types::{u256::U256, SourceEngine};

// ------------------------------------------------------------------------------------------------
// abstract constants/types of the harness (mirrors the Lean model's inductive types)

#[derive(Clone, Debug, PartialEq)]
enum Ty {
    Never, Unit, Bool, Uint(u16), B256, StrArr(u64), Slice, Ptr,
    Arr(Box<Ty>, u64), Union(Vec<Ty>), Struct(Vec<Ty>), TPtr(Box<Ty>), TSlice(Box<Ty>),
}
#[derive(Clone, Debug, PartialEq)]
enum Val {
    Undef, Unit, Bool(bool), Uint(u64), U256([u8; 32]), B256([u8; 32]), Str(Vec<u8>),
    Arr(Vec<Cn>), Slice(Vec<Cn>), Struct(Vec<Cn>), Ref(Box<Cn>), Raw(Vec<u8>),
}
#[derive(Clone, Debug, PartialEq)]
struct Cn { ty: Ty, v: Val }

fn ty_tok(t: &Ty, o: &mut Vec<String>) {
    match t {
        Ty::Never => o.push("never".into()), Ty::Unit => o.push("unit".into()), Ty::Bool => o.push("bool".into()),
        Ty::Uint(n) => o.push(format!("uint:{n}")), Ty::B256 => o.push("b256".into()),
        Ty::StrArr(n) => o.push(format!("strarr:{n}")), Ty::Slice => o.push("slice".into()), Ty::Ptr => o.push("ptr".into()),
        Ty::Arr(t, n) => { o.push(format!("arr:{n}")); ty_tok(t, o) }
        Ty::Union(ts) => { o.push(format!("union:{}", ts.len())); ts.iter().for_each(|t| ty_tok(t, o)) }
        Ty::Struct(ts) => { o.push(format!("struct:{}", ts.len())); ts.iter().for_each(|t| ty_tok(t, o)) }
        Ty::TPtr(t) => { o.push("tptr".into()); ty_tok(t, o) }
        Ty::TSlice(t) => { o.push("tslice".into()); ty_tok(t, o) }
    }
}
fn cn_tok(c: &Cn, o: &mut Vec<String>) {
    o.push("C".into());
    ty_tok(&c.ty, o);
    match &c.v {
        Val::Undef => o.push("undef".into()), Val::Unit => o.push("unit".into()),
        Val::Bool(b) => o.push(format!("bool:{}", *b as u8)), Val::Uint(n) => o.push(format!("uint:{n}")),
        Val::U256(b) => o.push(format!("u256:{}", hex::encode(b))), Val::B256(b) => o.push(format!("b256:{}", hex::encode(b))),
        Val::Str(b) => o.push(format!("str:{}", hexbytes(b))), Val::Raw(b) => o.push(format!("raw:{}", hexbytes(b))),
        Val::Arr(es) => { o.push(format!("arr:{}", es.len())); es.iter().for_each(|e| cn_tok(e, o)) }
        Val::Slice(es) => { o.push(format!("slice:{}", es.len())); es.iter().for_each(|e| cn_tok(e, o)) }
        Val::Struct(es) => { o.push(format!("struct:{}", es.len())); es.iter().for_each(|e| cn_tok(e, o)) }
        Val::Ref(e) => { o.push("ref".into()); cn_tok(e, o) }
    }
}
fn toks<T>(x: &T, f: fn(&T, &mut Vec<String>)) -> String { let mut o = vec![]; f(x, &mut o); o.join(" ") }

fn to_ir_ty(ctx: &mut Context, t: &Ty) -> Type {
    match t {
        Ty::Never => Type::get_never(ctx), Ty::Unit => Type::get_unit(ctx), Ty::Bool => Type::get_bool(ctx),
        Ty::Uint(n) => Type::new_uint(ctx, *n), Ty::B256 => Type::get_b256(ctx),
        Ty::StrArr(n) => Type::new_string_array(ctx, *n), Ty::Slice => Type::get_slice(ctx), Ty::Ptr => Type::get_ptr(ctx),
        Ty::Arr(t, n) => { let e = to_ir_ty(ctx, t); Type::new_array(ctx, e, *n) }
        Ty::Union(ts) => { let v = ts.iter().map(|t| to_ir_ty(ctx, t)).collect(); Type::new_union(ctx, v) }
        Ty::Struct(ts) => { let v = ts.iter().map(|t| to_ir_ty(ctx, t)).collect(); Type::new_struct(ctx, v) }
        Ty::TPtr(t) => { let e = to_ir_ty(ctx, t); Type::new_typed_pointer(ctx, e) }
        Ty::TSlice(t) => { let e = to_ir_ty(ctx, t); Type::get_typed_slice(ctx, e) }
    }
}
fn from_ir_ty(ctx: &Context, t: Type) -> Option<Ty> {
    Some(match t.get_content(ctx) {
        TypeContent::Never => Ty::Never, TypeContent::Unit => Ty::Unit, TypeContent::Bool => Ty::Bool,
        TypeContent::Uint(n) => Ty::Uint(*n), TypeContent::B256 => Ty::B256, TypeContent::StringSlice => return None,
        TypeContent::StringArray(n) => Ty::StrArr(*n), TypeContent::Slice => Ty::Slice, TypeContent::Pointer => Ty::Ptr,
        TypeContent::Array(t, n) => Ty::Arr(Box::new(from_ir_ty(ctx, *t)?), *n),
        TypeContent::Union(ts) => Ty::Union(ts.iter().map(|t| from_ir_ty(ctx, *t)).collect::<Option<_>>()?),
        TypeContent::Struct(ts) => Ty::Struct(ts.iter().map(|t| from_ir_ty(ctx, *t)).collect::<Option<_>>()?),
        TypeContent::TypedPointer(t) => Ty::TPtr(Box::new(from_ir_ty(ctx, *t)?)),
        TypeContent::TypedSlice(t) => Ty::TSlice(Box::new(from_ir_ty(ctx, *t)?)),
    })
}
fn to_ir_const(ctx: &mut Context, c: &Cn) -> ConstantContent {
    let ty = to_ir_ty(ctx, &c.ty);
    let value = match &c.v {
        Val::Undef => ConstantValue::Undef, Val::Unit => ConstantValue::Unit, Val::Bool(b) => ConstantValue::Bool(*b),
        Val::Uint(n) => ConstantValue::Uint(*n), Val::U256(b) => ConstantValue::U256(U256::from_be_bytes(b)),
        Val::B256(b) => ConstantValue::B256(U256::from_be_bytes(b)), Val::Str(b) => ConstantValue::String(b.clone()),
        Val::Arr(es) => ConstantValue::Array(es.iter().map(|e| to_ir_const(ctx, e)).collect()),
        Val::Slice(es) => ConstantValue::Slice(es.iter().map(|e| to_ir_const(ctx, e)).collect()),
        Val::Struct(es) => ConstantValue::Struct(es.iter().map(|e| to_ir_const(ctx, e)).collect()),
        Val::Ref(e) => ConstantValue::Reference(Box::new(to_ir_const(ctx, e))),
        Val::Raw(b) => ConstantValue::RawUntypedSlice(b.clone()),
    };
    ConstantContent { ty, value }
}
fn from_ir_const(ctx: &Context, c: &ConstantContent) -> Option<Cn> {
    let ty = from_ir_ty(ctx, c.ty)?;
    let all = |es: &Vec<ConstantContent>| es.iter().map(|e| from_ir_const(ctx, e)).collect::<Option<Vec<_>>>();
    let v = match &c.value {
        ConstantValue::Undef => Val::Undef, ConstantValue::Unit => Val::Unit, ConstantValue::Bool(b) => Val::Bool(*b),
        ConstantValue::Uint(n) => Val::Uint(*n), ConstantValue::U256(n) => Val::U256(n.to_be_bytes()),
        ConstantValue::B256(n) => Val::B256(n.to_be_bytes()), ConstantValue::String(b) => Val::Str(b.clone()),
        ConstantValue::Array(es) => Val::Arr(all(es)?), ConstantValue::Slice(es) => Val::Slice(all(es)?),
        ConstantValue::Struct(es) => Val::Struct(all(es)?), ConstantValue::Reference(e) => Val::Ref(Box::new(from_ir_const(ctx, e)?)),
        ConstantValue::RawUntypedSlice(b) => Val::Raw(b.clone()),
    };
    Some(Cn { ty, v })
}

// ------------------------------------------------------------------------------------------------
// generators

fn gen_bytes(r: &mut Rng, max: u64) -> Vec<u8> {
    let n = r.below(max + 1);
    (0..n).map(|_| match r.below(8) {
        0 => *r.pick(&[b'"', b'\\', 0u8, 0x7f, 0x1f, 0x20, 0x7e, 0x80, 0xff, b'\n', b'x', b'/']),
        1 => r.below(256) as u8,
        2 => r.range(0x80, 0xff) as u8,
        _ => r.range(0x20, 0x7e) as u8,
    }).collect()
}
fn gen_ty(r: &mut Rng, depth: u32) -> Ty {
    let leaf = depth == 0 || r.chance(1, 2);
    if leaf {
        match r.below(14) {
            0 => Ty::Unit, 1 => Ty::Bool, 2 => Ty::Uint(8), 3 | 4 => Ty::Uint(64), 5 => Ty::Uint(256), 6 => Ty::B256,
            7 => Ty::StrArr(r.below(12)), 8 => Ty::Slice, 9 => Ty::Ptr, 10 => Ty::Never,
            11 => Ty::Uint(*r.pick(&[16u16, 32])), 12 => Ty::StrArr(*r.pick(&[0, 1, 10, u64::MAX, 1 << 32])), _ => Ty::Uint(64),
        }
    } else {
        let k = r.below(4);
        match r.below(6) {
            0 => Ty::Arr(Box::new(gen_ty(r, depth - 1)), *r.pick(&[0, 1, 2, 3, 7, 100, u64::MAX])),
            1 => Ty::Union((0..k).map(|_| gen_ty(r, depth - 1)).collect()),
            2 | 3 => Ty::Struct((0..k).map(|_| gen_ty(r, depth - 1)).collect()),
            4 => Ty::TPtr(Box::new(gen_ty(r, depth - 1))),
            _ => Ty::TSlice(Box::new(gen_ty(r, depth - 1))),
        }
    }
}
fn gen_u64(r: &mut Rng) -> u64 {
    match r.below(6) { 0 => 0, 1 => u64::MAX, 2 => r.below(10), 3 => r.below(300), 4 => 1u64 << r.below(64), _ => r.next() }
}
fn gen_b32(r: &mut Rng) -> [u8; 32] {
    let mut b = [0u8; 32];
    match r.below(5) {
        0 => {}
        1 => b = [0xff; 32],
        2 => b[31] = r.below(256) as u8,
        3 => b[0] = r.below(256) as u8,
        _ => b.iter_mut().for_each(|x| *x = r.below(256) as u8),
    }
    b
}
/// A constant whose shape matches `t` in the verifier's sense (so that `parse`'s verify step accepts it).
fn gen_const_of(r: &mut Rng, t: &Ty, nested: bool, depth: u32) -> Cn {
    let v = match t {
        _ if nested && r.chance(1, 12) => Val::Undef,
        Ty::Unit => Val::Unit,
        Ty::Bool => Val::Bool(r.chance(1, 2)),
        Ty::Uint(256) => Val::U256(gen_b32(r)),
        Ty::Uint(8) => Val::Uint(r.below(256)),
        Ty::Uint(_) => Val::Uint(gen_u64(r)),
        Ty::B256 => Val::B256(gen_b32(r)),
        Ty::StrArr(n) => { let mut b = gen_bytes(r, 0); while (b.len() as u64) < (*n).min(40) { b.extend(gen_bytes(r, 4)); } b.truncate((*n).min(40) as usize); Val::Str(b) }
        Ty::Arr(e, n) => Val::Arr((0..(*n).min(5)).map(|_| gen_const_of(r, e, true, depth.saturating_sub(1))).collect()),
        Ty::Struct(ts) => Val::Struct(ts.iter().map(|t| gen_const_of(r, t, true, depth.saturating_sub(1))).collect()),
        Ty::Union(ts) if !ts.is_empty() => { let i = r.below(ts.len() as u64) as usize; return gen_const_of(r, &ts[i].clone(), nested, depth.saturating_sub(1)); }
        Ty::Slice => Val::Raw(if r.chance(1, 3) { gen_b32(r).to_vec() } else { gen_bytes(r, 8) }),
        Ty::TSlice(e) => Val::Slice((0..r.below(3)).map(|_| gen_const_of(r, e, true, 0)).collect()),
        Ty::TPtr(e) => Val::Ref(Box::new(gen_const_of(r, e, true, 0))),
        _ => Val::Undef,
    };
    // keep array/string types consistent with the generated length
    let ty = match (&v, t) {
        (Val::Arr(es), Ty::Arr(e, _)) => Ty::Arr(e.clone(), es.len() as u64),
        (Val::Str(b), Ty::StrArr(_)) => Ty::StrArr(b.len() as u64),
        _ => t.clone(),
    };
    Cn { ty, v }
}
fn gen_const(r: &mut Rng) -> Cn {
    // bias towards what IR-gen produces: no typed slices / references / never / pointers
    let mut t = gen_ty(r, 3);
    if r.chance(3, 4) {
        fn clean(r: &mut Rng, t: &Ty) -> Ty {
            match t {
                Ty::Never | Ty::Ptr | Ty::Slice | Ty::TPtr(_) | Ty::TSlice(_) => Ty::Uint(64),
                Ty::Uint(16) | Ty::Uint(32) => Ty::Uint(8),
                Ty::Arr(e, n) => Ty::Arr(Box::new(clean(r, e)), (*n).clamp(1, 4)),
                Ty::Union(ts) if ts.is_empty() => Ty::Unit,
                Ty::Union(ts) => Ty::Union(ts.iter().map(|t| clean(r, t)).collect()),
                Ty::Struct(ts) => Ty::Struct(ts.iter().map(|t| clean(r, t)).collect()),
                o => o.clone(),
            }
        }
        t = clean(r, &t);
    }
    gen_const_of(r, &t, false, 3)
}

// ------------------------------------------------------------------------------------------------
// kernel: through the real printer / parser

fn between<'a>(s: &'a str, pre: &str, suf: &str) -> Option<&'a str> {
    let i = s.find(pre)? + pre.len();
    let j = s[i..].find(suf)? + i;
    Some(&s[i..j])
}

enum PR { Ok(Context<'static>), Err, VErr, Panic }
fn real_parse(text: &str, se: &'static SourceEngine) -> PR {
    let r = guarded(|| sway_ir::parser::parse(text, se, ExperimentalFeatures::default(), Default::default()));
    match r {
        None => PR::Panic,
        Some(Ok(c)) => PR::Ok(c),
        Some(Err(sway_ir::error::IrError::ParseFailure(..))) => PR::Err,
        Some(Err(_)) => PR::VErr,
    }
}

/// nested position (global initializer, `as_constant` path of the parser)
fn kernel_nested(c: &Cn, se: &'static SourceEngine) -> (Option<String>, String) {
    let printed = guarded(|| {
        let mut ctx = Context::new(se, ExperimentalFeatures::default(), Default::default());
        let m = Module::new(&mut ctx, Kind::Script);
        let cc = to_ir_const(&mut ctx, c);
        let ty = cc.ty;
        let k = Constant::unique(&mut ctx, cc);
        let g = GlobalVar::new(&mut ctx, ty, Some(k), false);
        m.add_global_variable(&mut ctx, vec!["g".into()], g);
        let text = sway_ir::printer::to_string(&ctx);
        let lit = between(&text, " = const ", "\n").map(|s| s.to_string());
        // is the module we print valid in the first place? (random shapes may not be)
        let orig_ok = ctx.verify().is_ok();
        (text, lit, orig_ok)
    });
    let Some((text, Some(lit), orig_ok)) = printed else { return (None, "panic".into()) };
    let res = match real_parse(&text, se) {
        // `verr`: the ORIGINAL verified but the re-parsed module does not (a round-trip failure);
        // `verr0`: the original was not valid IR either (outside the property)
        PR::Panic => "panic".to_string(), PR::Err => "err".into(), PR::VErr => if orig_ok { "verr".into() } else { "verr0".into() },
        PR::Ok(ctx2) => {
            let m2 = ctx2.module_iter().next().unwrap();
            match m2.get_global_variable(&ctx2, &vec!["g".to_string()]).and_then(|g| g.get_initializer(&ctx2).copied()) {
                Some(k) => match from_ir_const(&ctx2, k.get_content(&ctx2)) { Some(c2) => format!("ok {}", toks(&c2, cn_tok)), None => "err".into() },
                None => "err".into(),
            }
        }
    };
    (Some(lit), res)
}

/// top position (`vN = const <lit>` instruction operand, `as_value` path of the parser)
fn kernel_top(c: &Cn, se: &'static SourceEngine) -> (Option<String>, String) {
    // literal text comes from the real printer (nested print is the same function `as_lit_string`)
    let (lit, _) = kernel_nested(c, se);
    let Some(lit) = lit else { return (None, "panic".into()) };
    let mut ctx = Context::new(se, ExperimentalFeatures::default(), Default::default());
    let tys = to_ir_ty(&mut ctx, &c.ty).as_string(&ctx);
    let text = format!("script {{\n    entry fn main() -> {tys} {{\n        entry():\n        v0 = const {lit}\n        ret {tys} v0\n    }}\n}}\n");
    let res = match real_parse(&text, se) {
        PR::Panic => "panic".to_string(), PR::Err => "err".into(), PR::VErr => "verr".into(),
        PR::Ok(ctx2) => {
            let f = ctx2.module_iter().next().unwrap().function_iter(&ctx2).next().unwrap();
            let term = f.get_entry_block(&ctx2).get_terminator(&ctx2).cloned();
            let k = match term.map(|i| i.op) { Some(sway_ir::InstOp::Ret(v, _)) => v.get_constant(&ctx2).copied(), _ => None };
            match k.and_then(|k| from_ir_const(&ctx2, k.get_content(&ctx2))) { Some(c2) => format!("ok {}", toks(&c2, cn_tok)), None => "err".into() }
        }
    };
    (Some(lit), res)
}

fn kernel_ty(t: &Ty, se: &'static SourceEngine) -> (Option<String>, String) {
    let printed = guarded(|| {
        let mut ctx = Context::new(se, ExperimentalFeatures::default(), Default::default());
        let ty = to_ir_ty(&mut ctx, t);
        ty.as_string(&ctx)
    });
    let Some(p) = printed else { return (None, "panic".into()) };
    // wrapper: a struct constant with one `undef` field of the type under test
    let text = format!("script {{\n    global g : {{ {p} }} = const {{ {p} }} {{ {p} undef }}\n}}\n");
    let res = match real_parse(&text, se) {
        PR::Panic => "panic".to_string(), PR::Err => "err".into(), PR::VErr => "verr".into(),
        PR::Ok(ctx2) => {
            let m2 = ctx2.module_iter().next().unwrap();
            let k = m2.get_global_variable(&ctx2, &vec!["g".to_string()]).and_then(|g| g.get_initializer(&ctx2).copied());
            match k.map(|k| k.get_content(&ctx2).clone()) {
                Some(ConstantContent { value: ConstantValue::Struct(fs), .. }) if fs.len() == 1 => match from_ir_ty(&ctx2, fs[0].ty) { Some(t2) => format!("ok {}", toks(&t2, ty_tok)), None => "err".into() },
                _ => "err".into(),
            }
        }
    };
    (Some(p), res)
}

fn run_kernel(a: &Args, r: &mut Rng, out: &mut dyn Write) -> usize {
    let se: &'static SourceEngine = Box::leak(Box::default());
    let mut cases = 0;
    let mut emit_const = |top: bool, c: &Cn, out: &mut dyn Write| {
        let (lit, res) = if top { kernel_top(c, se) } else { kernel_nested(c, se) };
        writeln!(out, "const {} {} ;; {} {}", if top { "top" } else { "nested" }, toks(c, cn_tok), lit.map(|l| hexbytes(l.as_bytes())).unwrap_or("noprint".into()), res).unwrap();
    };
    // fixed witnesses first (also the `not_printable_witness` examples of Props/C05.lean)
    let u64t = Ty::Uint(64);
    let fixed = vec![
        Cn { ty: Ty::Arr(Box::new(u64t.clone()), 0), v: Val::Arr(vec![]) },
        Cn { ty: Ty::TPtr(Box::new(u64t.clone())), v: Val::Ref(Box::new(Cn { ty: u64t.clone(), v: Val::Uint(5) })) },
        Cn { ty: Ty::TSlice(Box::new(u64t.clone())), v: Val::Slice(vec![Cn { ty: u64t.clone(), v: Val::Uint(5) }]) },
        Cn { ty: Ty::Slice, v: Val::Raw(vec![1, 2, 3]) },
        Cn { ty: Ty::Slice, v: Val::Raw(vec![7; 32]) },
        Cn { ty: Ty::Uint(16), v: Val::Uint(5) },
        Cn { ty: Ty::Uint(32), v: Val::Uint(5) },
        Cn { ty: Ty::Struct(vec![]), v: Val::Struct(vec![]) },
        Cn { ty: Ty::StrArr(0), v: Val::Str(vec![]) },
        Cn { ty: Ty::StrArr(3), v: Val::Str(vec![b'"', b'\\', 0xff]) },
        Cn { ty: u64t.clone(), v: Val::Undef },
        Cn { ty: Ty::Struct(vec![u64t.clone(), Ty::Union(vec![Ty::Unit, Ty::B256])]), v: Val::Struct(vec![Cn { ty: u64t.clone(), v: Val::Uint(1) }, Cn { ty: Ty::B256, v: Val::B256([0xab; 32]) }]) },
    ];
    for c in &fixed { emit_const(false, c, out); emit_const(true, c, out); cases += 2; }
    let _ = a;
    while cases < a.n {
        match r.below(10) {
            0 | 1 => {
                let t = gen_ty(r, 3);
                let (p, res) = kernel_ty(&t, se);
                writeln!(out, "ty {} ;; {} {}", toks(&t, ty_tok), p.map(|l| hexbytes(l.as_bytes())).unwrap_or("noprint".into()), res).unwrap();
            }
            2 | 3 => {
                let b = gen_bytes(r, 24);
                let c = Cn { ty: Ty::StrArr(b.len() as u64), v: Val::Str(b.clone()) };
                let (lit, res) = kernel_nested(&c, se);
                let lit = lit.and_then(|l| l.find(' ').map(|i| l[i + 1..].to_string()));
                let res = match res.strip_prefix("ok ") { Some(t) => format!("ok {}", t.rsplit(' ').next().unwrap().trim_start_matches("str:")), None => res };
                writeln!(out, "str {} ;; {} {}", hexbytes(&b), lit.map(|l| hexbytes(l.as_bytes())).unwrap_or("noprint".into()), res).unwrap();
            }
            k => { let c = gen_const(r); emit_const(k >= 8, &c, out); }
        }
        cases += 1;
    }
    cases
}

// ------------------------------------------------------------------------------------------------
// whole-module validator

/// Rename the printer's arena-derived value names `v<slot>v<version>` in first-occurrence order,
/// separately inside every function (names are function-scoped in the text: each function has its own
/// `Namer`; one constant `Value` shared by two functions prints under one name, after re-parsing it is
/// two values).
fn canon_names(s: &str) -> String {
    let mut out = String::with_capacity(s.len());
    let mut map: std::collections::HashMap<String, usize> = Default::default();
    let is_id = |c: u8| c.is_ascii_alphanumeric() || c == b'_';
    for line in s.split_inclusive('\n') {
        let t = line.trim_start();
        if t.trim_end().ends_with('{') && (t.starts_with("fn ") || ["pub ", "entry ", "entry_orig ", "fallback "].iter().any(|p| t.starts_with(p)) && t.contains("fn ")) {
            map.clear();
        }
        let b = line.as_bytes();
        let mut i = 0;
        while i < b.len() {
            if is_id(b[i]) && (i == 0 || !is_id(b[i - 1])) {
                let mut j = i;
                while j < b.len() && is_id(b[j]) { j += 1; }
                let w = &line[i..j];
                let wb = w.as_bytes();
                let d1 = wb.iter().skip(1).take_while(|c| c.is_ascii_digit()).count();
                let isv = wb[0] == b'v' && d1 > 0 && wb.get(1 + d1) == Some(&b'v') && wb.len() > 2 + d1 && wb[2 + d1..].iter().all(|c| c.is_ascii_digit());
                if isv {
                    let n = map.len();
                    let k = *map.entry(w.to_string()).or_insert(n);
                    out.push_str(&format!("%{k}"));
                } else { out.push_str(w); }
                i = j;
            } else {
                let ch = line[i..].chars().next().unwrap();
                out.push(ch);
                i += ch.len_utf8();
            }
        }
    }
    out
}


/// Class of a parse failure = class of the offending LINE of the printed text (peg reports `error at L:C`).
fn parse_err_class(msg: &str, text: &str) -> String {
    let line_no = msg.split("error at ").nth(1).and_then(|r| r.split(':').next()).and_then(|n| n.trim().parse::<usize>().ok());
    let Some(l) = line_no.and_then(|n| text.lines().nth(n.saturating_sub(1))) else { return format!("parse:{}", class(msg)) };
    let t = l.trim();
    const KW: &[&str] = &["not", "load", "br", "call", "revert", "nop", "jmp_mem", "retd", "mem_clear_val", "state_preload", "read_register"];
    if t.contains(" = config ") { "config_v0".into() }
    else if t.contains("const slice 0x") { "raw_slice_const".into() }
    else if t.contains("; 0] []") { "empty_array_const".into() }
    else if t.starts_with("library") { "library_kind".into() }
    else if t.starts_with("wide ") { "wide_op".into() }
    else if t.ends_with("):") && KW.iter().any(|k| t.starts_with(k)) { "keyword_label".into() }
    else if t.contains(" fn ") || t.starts_with("fn ") { format!("fn_header:{}", class(&t.split("fn ").next().unwrap_or("").to_string())) }
    else { format!("line:{}", class(t)) }
}


/// Normalise the two KNOWN textual differences away (used only to tell whether anything ELSE differs):
/// `mut` on entry-block arguments, and line breaks between the ops of an asm block.
fn known_norm(s: &str) -> String {
    let mut out = String::with_capacity(s.len());
    let mut in_asm = false;
    let mut acc: Vec<&str> = vec![];
    for l in s.lines() {
        let t = l.trim();
        if in_asm {
            if t == "}" { out.push_str(&acc.join(" ")); out.push_str("\n}\n"); acc.clear(); in_asm = false; }
            else { acc.extend(t.split_whitespace()); }
        } else if t.contains(" = asm(") && t.ends_with('{') { in_asm = true; out.push_str(l); out.push('\n'); }
        else if t.starts_with("entry(") { out.push_str(&l.replace("mut ", "")); out.push('\n'); }
        else { out.push_str(l); out.push('\n'); }
    }
    out
}

fn class(msg: &str) -> String {
    // error class: drop positions / digits / quotes, keep the first 12 words
    let m: String = msg.chars().map(|c| if c.is_ascii_alphabetic() || c == '_' { c } else { ' ' }).collect();
    let w: Vec<&str> = m.split_whitespace().take(12).collect();
    if w.is_empty() { "unknown".into() } else { w.join("_") }
}

thread_local! { static DIFFCLASS: std::cell::RefCell<String> = const { std::cell::RefCell::new(String::new()) }; }
struct ModRes { reparse: String, verify: String, fixpoint: u8, raw: u8, m2: Option<Context<'static>>, t2: String }

fn validate(ctx: &Context<'static>, exp: ExperimentalFeatures) -> (String, ModRes) {
    let t1 = sway_ir::printer::to_string(ctx);
    let se = ctx.source_engine;
    let bt = ctx.backtrace;
    let r = guarded(|| sway_ir::parser::parse(&t1, se, exp, bt));
    let res = match r {
        None => ModRes { reparse: format!("panic:{}", class(&last_panic())), verify: "n/a".into(), fixpoint: 0, raw: 0, m2: None, t2: String::new() },
        Some(Err(sway_ir::error::IrError::ParseFailure(a, _b))) => ModRes { reparse: format!("err:{}", parse_err_class(&a, &t1)), verify: "n/a".into(), fixpoint: 0, raw: 0, m2: None, t2: String::new() },
        Some(Err(e)) => ModRes { reparse: "ok".into(), verify: format!("err:{}", class(&e.to_string())), fixpoint: 0, raw: 0, m2: None, t2: String::new() },
        Some(Ok(mut m2)) => {
            // `parse` already verified without dominance; verify again with SSA dominance on.
            m2.verify_ssa_dominance = true;
            let v = guarded(|| m2.verify());
            let verify = match v { None => format!("panic:{}", class(&last_panic())), Some(Ok(())) => "ok".into(), Some(Err(e)) => format!("err:{}", class(&e.to_string())) };
            let t2 = guarded(|| sway_ir::printer::to_string(&m2)).unwrap_or_default();
            let raw = (t1 == t2) as u8;
            let (c1, c2) = if raw == 1 { (String::new(), String::new()) } else { (canon_names(&t1), canon_names(&t2)) };
            let fixpoint = (c1 == c2) as u8;
            if fixpoint == 0 {
                // class of the first differing line pair (for triage / known-finding matching); `+other:` when the
                // texts still differ after normalising the two known difference classes away.
                let d = c1.lines().zip(c2.lines()).find(|(a, b)| a != b);
                let first = match d {
                    Some((a, b)) => { let (a, b) = (a.trim(), b.trim());
                        if a.starts_with("entry(") && a.replace("mut ", "") == b.replace("mut ", "") { "entry_arg_mut".to_string() }
                        else if b.starts_with(a) && b.len() > a.len() && b.as_bytes()[a.len()] == b' ' && !a.contains('=') { "asm_op_merge".to_string() }
                        else { format!("other:{}__VS__{}", class(a), class(b)) } }
                    None => "other:length".into(),
                };
                let (n1, n2) = (known_norm(&c1), known_norm(&c2));
                let cls = if n1 == n2 || first.starts_with("other:") { first } else {
                    let d = n1.lines().zip(n2.lines()).find(|(a, b)| a != b);
                    format!("{first}+other:{}", d.map(|(a, b)| format!("{}__VS__{}", class(a.trim()), class(b.trim()))).unwrap_or("length".into()))
                };
                DIFFCLASS.with(|x| *x.borrow_mut() = cls);
            }
            ModRes { reparse: "ok".into(), verify, fixpoint, raw, m2: Some(m2), t2: if fixpoint == 1 { String::new() } else { t2 } }
        }
    };
    (t1, res)
}


// ------------------------------------------------------------------------------------------------
// VM fallback: run a script's bytecode on the real FuelVM, canonical digest of state + receipts

fn run_script_on_vm(bytecode: &[u8]) -> String {
    use fuel_tx::{ConsensusParameters, Finalizable, TransactionBuilder, TxPointer, UtxoId};
    use fuel_vm::{checked_transaction::builder::TransactionBuilderExt, interpreter::{Interpreter, InterpreterParams, MemoryInstance}, prelude::SecretKey, storage::MemoryStorage};
    let r = guarded(|| -> Result<String, String> {
        let params = ConsensusParameters::default();
        let _: &ConsensusParameters = &params;
        let sk = SecretKey::try_from(&[7u8; 32][..]).map_err(|e| format!("{e:?}"))?;
        let mut tb = TransactionBuilder::script(bytecode.to_vec(), vec![]);
        tb.with_params(params.clone())
            .add_unsigned_coin_input(sk, UtxoId::new([1u8; 32].into(), 0), 1, Default::default(), TxPointer::default())
            .maturity(1.into());
        let tmp = tb.clone().finalize();
        use fuel_tx::Chargeable;
        let max_gas = tmp.max_gas(params.gas_costs(), params.fee_params()) + 1;
        tb.script_gas_limit(params.tx_params().max_gas_per_tx() - max_gas);
        let tx = tb.finalize_checked((u32::MAX >> 1).into()).into_ready(0, params.gas_costs(), params.fee_params(), None).map_err(|e| format!("{e:?}"))?;
        let mut i: Interpreter<_, _, fuel_tx::Script> = Interpreter::with_storage(MemoryInstance::new(), MemoryStorage::default(), InterpreterParams::new(0, &params));
        let t = i.transact(tx).map_err(|e| format!("vmerr:{}", class(&format!("{e:?}"))))?;
        let mut d = format!("{:?}", t.state()).split('(').next().unwrap_or("").to_string();
        for rc in t.receipts() {
            use fuel_tx::Receipt::*;
            d.push_str(&match rc {
                Return { val, .. } => format!("|ret:{val}"),
                ReturnData { data, .. } => format!("|retd:{}", hex::encode(data.clone().unwrap_or_default())),
                Revert { ra, .. } => format!("|rvrt:{ra}"),
                Log { ra, rb, .. } => format!("|log:{ra}:{rb}"),
                LogData { rb, data, .. } => format!("|logd:{rb}:{}", hex::encode(data.clone().unwrap_or_default())),
                Panic { reason, .. } => format!("|panic:{:?}", reason.reason()),
                ScriptResult { result, .. } => format!("|res:{result:?}"),
                _ => "|other".to_string(),
            });
        }
        Ok(d)
    });
    match r { None => "vmpanic".into(), Some(Ok(d)) => d, Some(Err(e)) => e }
}

struct Pending { id: String, stage: String, head: String, cont_bc: Option<Result<Vec<u8>, String>>, kv: String }

#[allow(clippy::too_many_arguments)]
fn pipeline_validate(
    id: &str, ctx: Context<'static>, exp: ExperimentalFeatures, passes: &[&'static str], bc: Option<(&sway_core::BuildConfig, &'static sway_core::Engines)>,
    r: &mut Rng, cont_prob: (u64, u64), kind: &str, out: &mut dyn Write, dump: Option<&std::path::Path>,
) -> usize {
    pipeline_validate_rounds(id, ctx, exp, passes, bc, r, cont_prob, kind, out, dump, 2)
}

#[allow(clippy::too_many_arguments)]
fn pipeline_validate_rounds(
    id: &str, mut ctx: Context<'static>, exp: ExperimentalFeatures, passes: &[&'static str], bc: Option<(&sway_core::BuildConfig, &'static sway_core::Engines)>,
    r: &mut Rng, cont_prob: (u64, u64), kind: &str, out: &mut dyn Write, dump: Option<&std::path::Path>, rounds: usize,
) -> usize {
    ctx.verify_ssa_dominance = true;
    let mut pend: Vec<Pending> = vec![];
    let mut lines = 0usize;
    let mut do_stage = |stage: &str, ctx: &Context<'static>, round: usize, idx: usize, iter_mod: bool, r: &mut Rng, pend: &mut Vec<Pending>, is_final: bool| {
        let (t1, res) = validate(ctx, exp);
        if res.reparse != "ok" || res.verify != "ok" || res.fixpoint != 1 {
            if let Some(d) = dump { let _ = std::fs::create_dir_all(d); let _ = std::fs::write(d.join(format!("{}.{}.ir", id.replace(['/', ':'], "_"), stage)), &t1); if !res.t2.is_empty() { let _ = std::fs::write(d.join(format!("{}.{}.ir2", id.replace(['/', ':'], "_"), stage)), &res.t2); } }
        }
        let mut head = format!("reparse={} verify={} fixpoint={} rawsame={}", res.reparse, res.verify, res.fixpoint, res.raw);
        if res.reparse == "ok" && res.verify == "ok" && res.fixpoint == 0 { head.push_str(&format!(" diff={}", DIFFCLASS.with(|x| x.borrow().clone()))); }
        let kv = format!("kind={kind} lines={}", t1.lines().count());
        let mut cont_bc = None;
        if let (Some((bcfg, eng)), Some(mut m2)) = (bc, res.m2) {
            if res.verify == "ok" && (is_final || r.chance(cont_prob.0, cont_prob.1)) {
                // run the REST of the pipeline on the re-parsed module, then the real backend
                let o = if is_final { PassOutcome::Ok { modified: false } } else { run_staged_resume(&mut m2, passes, 2, round, idx.wrapping_add(1), iter_mod, |_, _, _| {}) };
                cont_bc = Some(match o { PassOutcome::Ok { .. } => to_bytecode(&m2, bcfg, eng), other => Err(format!("pipeline:{other:?}")) });
            }
        }
        pend.push(Pending { id: id.to_string(), stage: stage.to_string(), head, cont_bc, kv });
    };
    do_stage("initial", &ctx, 0, usize::MAX, false, r, &mut pend, false);
    // staged pipeline (same control flow as PassManager::run)
    let mut st = Stager::new();
    let mut outcome = PassOutcome::Ok { modified: false };
    'rounds: for round in 0..rounds {
        let mut iter_mod = false;
        for (i, p) in passes.iter().enumerate() {
            match st.run_pass(&mut ctx, p) {
                PassOutcome::Ok { modified } => {
                    iter_mod |= modified;
                    if modified { do_stage(&format!("r{round}.{i:02}.{p}"), &ctx, round, i, iter_mod, r, &mut pend, false); }
                }
                other => { outcome = other; break 'rounds; }
            }
        }
        if !iter_mod { break; }
    }
    let final_bc = match (&outcome, bc) {
        (PassOutcome::Ok { .. }, Some((bcfg, eng))) => {
            do_stage("final", &ctx, 0, 0, false, r, &mut pend, true);
            Some(to_bytecode(&ctx, bcfg, eng))
        }
        _ => None,
    };
    for p in pend {
        let b = match (&p.cont_bc, &final_bc) {
            (Some(Ok(a)), Some(Ok(b))) => if a == b { "same".to_string() } else if kind.ends_with("/script") {
                // different bytecode: decide by behaviour on the real VM (state + receipts)
                let (ra, rb) = (run_script_on_vm(a), run_script_on_vm(b));
                if ra == rb { "diff_vmsame".into() } else { format!("diff_vmdiff:{}", class(&format!("{ra}_VS_{rb}"))) }
            } else { "diff".into() },
            (Some(Err(e)), Some(Ok(_))) => format!("m2err:{}", class(e)),
            (Some(Ok(_)), Some(Err(_))) => "m1err".into(),
            (Some(Err(a)), Some(Err(b))) => if class(a) == class(b) { "n/a".into() } else { format!("errdiff:{}", class(a)) },
            _ => "n/a".into(),
        };
        writeln!(out, "module {} {} ;; {} bytecode={} {}", p.id, p.stage, p.head, b, p.kv).unwrap();
        lines += 1;
    }
    if !matches!(outcome, PassOutcome::Ok { .. }) {
        // a pass failing is C04's business; recorded here only as distribution info
        writeln!(out, "pipeline {} ;; stopped={}", id, class(&format!("{outcome:?}"))).unwrap();
        lines += 1;
    }
    lines
}

fn run_modules(a: &Args, r: &mut Rng, out: &mut dyn Write) -> usize {
    let tier = std::env::var("VERIF_TIER").unwrap_or("quick".into());
    let thorough = tier == "thorough";
    let dump_dir = std::env::var("VERIF_C05_DUMP").ok().map(std::path::PathBuf::from);
    let dump = dump_dir.as_deref();
    let mut lines = 0;
    let budget = a.n;
    let se: &'static SourceEngine = Box::leak(Box::default());
    // 0. corpus: `irfile <path relative to /verif>` lines
    if let Some(c) = &a.corpus {
        for l in std::fs::read_to_string(c).unwrap_or_default().lines() {
            let f: Vec<&str> = l.split_whitespace().collect();
            if f.len() >= 2 && f[0] == "irfile" {
                // irfile <path (relative to /verif, or absolute)> [old] [o1 | passes=a,b,c]
                let p = if f[1].starts_with('/') { std::path::PathBuf::from(f[1]) } else { std::path::Path::new("/verif").join(f[1]) };
                let Ok(text) = std::fs::read_to_string(&p) else { continue };
                let exp = if f.contains(&"old") { old_encoding() } else { ExperimentalFeatures::default() };
                let all = all_transform_passes();
                let passes: Vec<&'static str> = if f.contains(&"o1") { pipeline(OptLevel::Opt1) } else {
                    f.iter().find_map(|t| t.strip_prefix("passes=")).map(|l| l.split(',').filter_map(|n| all.iter().find(|a| **a == n).copied()).collect()).unwrap_or_default()
                };
                let id = format!("corpus:{}", f[1].rsplit('/').next().unwrap_or(f[1]));
                match guarded(|| sway_ir::parser::parse(&text, se, exp, Default::default())) {
                    Some(Ok(ctx)) => lines += pipeline_validate_rounds(&id, ctx, exp, &passes, None, r, (0, 1), "corpus", out, dump, 1),
                    _ => { writeln!(out, "skip {id} ;; unparsable").unwrap(); lines += 1; }
                }
            }
        }
    }
    // 1. sway-ir/tests/**/*.ir — parse as the test-suite does, validate initial + every O1 stage
    let files = ir_test_files();
    for f in &files {
        let exp = old_encoding();
        match guarded(|| sway_ir::parser::parse(&f.text, se, exp, Default::default())) {
            Some(Ok(ctx)) => {
                let passes: Vec<&'static str> = if thorough || r.chance(1, 3) { pipeline(OptLevel::Opt1) } else { vec![] };
                lines += pipeline_validate(&format!("irtest:{}", f.id), ctx, exp, &passes, None, r, (0, 1), "irtest", out, dump);
            }
            _ => { writeln!(out, "skip irtest:{} ;; unparsable", f.id).unwrap(); lines += 1; }
        }
    }
    // 2. compiler-produced IR: generated programs, then sampled e2e programs
    let mut pool = FrontendPool::default();
    let seed = seed_from_env();
    let n_e2e = if thorough { 40 } else { 6 };
    let mut e2e = sample_e2e(r, n_e2e);
    // pinned first: the program whose initial IR carries an empty array constant (known finding C05-empty-array-const)
    let pinned = std::path::PathBuf::from("/repo/test/src/e2e_vm_tests/test_programs/should_pass/language/enum_zero_sized_variants");
    if pinned.is_dir() { e2e.retain(|p| *p != pinned); e2e.insert(0, pinned); }
    let mut gi = 0usize;
    let mut ei = 0usize;
    let t0 = std::time::Instant::now();
    let cap = if thorough { 700 } else { 110 };
    while lines < budget && t0.elapsed().as_secs() < cap {
        let d = scratch("c05pkg");
        let (id, kind): (String, String);
        // alternate: 3 generated : 1 e2e
        if gi % 4 == 3 && ei < e2e.len() {
            let src = &e2e[ei];
            ei += 1; gi += 1;
            if stage_e2e(src, &d).is_err() { continue; }
            id = format!("e2e:{}", e2e_id(src)); kind = "e2e".into();
        } else {
            let t = (gi as u64) % N_TEMPLATES;
            let (k, src) = gen_program_t(r, t);
            svharness::swayrun::write_pkg(&d, &format!("g{gi}"), &src, true, "").unwrap();
            id = format!("gen:{seed}.{gi}.t{t}"); kind = k.to_string();
            gi += 1;
        }
        // option matrix: one seed-chosen configuration per program (quick) / three (thorough)
        let mut cfgs = if thorough { vec![(true, false, false), (true, true, true), (false, true, false), (true, false, true), (false, false, true), (false, true, true)] } else { vec![(true, false, true), (true, true, true), (false, true, false), (false, false, false)] };
        let k = if thorough { 3 } else { 1 };
        let mut chosen = vec![];
        for _ in 0..k { let i = r.below(cfgs.len() as u64) as usize; chosen.push(cfgs.swap_remove(i)); }
        for (ne, rel, tests) in chosen {
            let o = FrontOpts { include_tests: tests, new_encoding: ne, release: rel, all_pkgs: false };
            let fe = pool.get(&o);
            match fe.compile_dir(&d, &o) {
                Err(e) => { writeln!(out, "skip {id}.ne{}.rel{}.t{} ;; nocompile:{}", ne as u8, rel as u8, tests as u8, class(&e)).unwrap(); lines += 1; }
                Ok(v) => for p in v {
                    let mid = format!("{id}.ne{}.rel{}.t{}", ne as u8, rel as u8, tests as u8);
                    let passes = pipeline(if rel { OptLevel::Opt1 } else { OptLevel::Opt0 });
                    let bcfg: &'static sway_core::BuildConfig = Box::leak(Box::new(p.build_config.clone()));
                    let cont = if kind == "e2e" { (1, 12) } else { (1, 4) };
                    lines += pipeline_validate(&mid, p.ctx, p.experimental, &passes, Some((bcfg, &fe.engines)), r, cont, &format!("{kind}/{}", p.kind), out, dump);
                }
            }
        }
        let _ = std::fs::remove_dir_all(&d);
    }
    lines
}

fn main() {
    let a = args();
    record_panics();
    if let Ok(f) = std::env::var("VERIF_C05_PARSE") {
        // debugging aid: parse one file, print the verdict
        let se = SourceEngine::default();
        let text = std::fs::read_to_string(&f).unwrap();
        let exp = if std::env::var("VERIF_C05_OLD").is_ok() { old_encoding() } else { ExperimentalFeatures::default() };
        match guarded(|| sway_ir::parser::parse(&text, &se, exp, Default::default())) {
            None => println!("panic: {}", last_panic()),
            Some(Err(e)) => println!("err: {e}"),
            Some(Ok(c)) => println!("ok; reprint canon-equal={}", canon_names(&text) == canon_names(&sway_ir::printer::to_string(&c))),
        }
        return;
    }
    let mut r = Rng::new(seed_from_env());
    let mut out = std::io::BufWriter::new(std::fs::File::create(&a.out).unwrap());
    let mode = a.extra.iter().position(|x| x == "--mode").and_then(|i| a.extra.get(i + 1)).cloned().unwrap_or("kernel".into());
    let n = if mode == "kernel" { run_kernel(&a, &mut r, &mut out) } else { run_modules(&a, &mut r, &mut out) };
    out.flush().unwrap();
    eprintln!("sv_c05 {mode}: {n} lines");
}
