//! C18 / C19: drives the real `swayfmt::Formatter::format` over every `.sw` file of the repository and over
//! whitespace / comment variants of them, under several supported configurations.
//!
//! `--mode c18` (default) writes
//!   `idem <cfg> <id> ;; <status> same=<0|1> len1=<n> len2=<n> [at=<byte> ctx1=<hex> ctx2=<hex>]`
//!   `nls <style> <text cps> ;; <out cps> <out-of-out cps>`      (newline-style kernel, via the verif hook)
//!   `nlseq <len> <threshold> ;; <number of newlines written>`   (newline-sequence clamp kernel, via the verif hook)
//! `--mode c19` writes
//!   `fmt <cfg> <id> <src tokens> ;; <status> <out tokens> parses=<0|1>`
//! tokens (with the comments, in source order): `<k><cp>,<cp>…` joined by `.` (k = p punct, i ident, l literal,
//! d doc comment, o open, c close, m comment), `-` = none.
//! `--show <cfg> <id>` prints src / out1 / out2 of one case (replay aid).
use std::collections::BTreeSet;
use std::io::Write;
use std::path::{Path, PathBuf};
use svharness::{proto::*, rng::*};
use sway_ast::token::{CommentedTokenStream, CommentedTokenTree, CommentedTree};
use sway_error::handler::Handler;
use sway_types::Spanned;
use swayfmt::config::user_def::FieldAlignment;
use swayfmt::config::whitespace::NewlineStyle;
use swayfmt::{Formatter, FormatterError};

pub const CONFIGS: &[&str] = &["default", "win", "unix", "w60", "w140", "tabs", "nt2", "align", "reuse"];

fn mk_formatter(cfg: &str) -> Formatter {
    let mut f = Formatter::default();
    match cfg {
        "default" | "reuse" => {}
        "win" => f.config.whitespace.newline_style = NewlineStyle::Windows,
        "unix" => f.config.whitespace.newline_style = NewlineStyle::Unix,
        "w60" => f.config.whitespace.max_width = 60,
        "w140" => f.config.whitespace.max_width = 140,
        "tabs" => f.config.whitespace.hard_tabs = true,
        "nt2" => f.config.whitespace.newline_threshold = 2,
        "align" => f.config.structures.field_alignment = FieldAlignment::AlignFields(40),
        _ => panic!("unknown config {cfg}"),
    }
    f
}

#[derive(Clone, Debug, PartialEq)]
enum Out { Ok(String), Rej(&'static str), Panic }

fn err_kind(e: &FormatterError) -> &'static str {
    match e {
        FormatterError::ParseFileError(_) => "parse",
        FormatterError::FormatError(_) => "fmtwrite",
        FormatterError::CommentError => "comment",
        FormatterError::NewlineSequenceError => "newline",
        FormatterError::SyntaxError => "syntax",
    }
}

fn fmt_with(f: &mut Formatter, src: &str) -> Out {
    let s = src.to_string();
    match guarded(move || { let r = f.format(s.as_str().into()); r }) {
        None => Out::Panic,
        Some(Ok(o)) => Out::Ok(o),
        Some(Err(e)) => Out::Rej(err_kind(&e)),
    }
}

/// `(fmt src, fmt (fmt src))`; config `reuse` keeps one `Formatter` for both passes (as forc-fmt does for the files
/// of a package), every other config builds a fresh one per pass.
fn fmt_twice(cfg: &str, src: &str) -> (Out, Option<Out>) {
    let mut f = mk_formatter(cfg);
    let o1 = fmt_with(&mut f, src);
    let o2 = match &o1 {
        Out::Ok(s1) => {
            if cfg == "reuse" { Some(fmt_with(&mut f, s1)) } else { let mut g = mk_formatter(cfg); Some(fmt_with(&mut g, s1)) }
        }
        _ => None,
    };
    (o1, o2)
}

fn lex(src: &str) -> Option<CommentedTokenStream> {
    let s = src.to_string();
    guarded(move || {
        let handler = Handler::default();
        let r = sway_parse::lex_commented(&handler, s.as_str().into(), 0, s.len(), &None);
        let (errors, _w, _i) = handler.consume();
        r.ok().filter(|_| errors.is_empty())
    }).flatten()
}

fn parses(src: &str) -> bool {
    let s = src.to_string();
    guarded(move || {
        let handler = Handler::default();
        let r = sway_parse::parse_file(&handler, s.as_str().into(), None, Default::default());
        let (errors, _w, _i) = handler.consume();
        r.is_ok() && errors.is_empty()
    }).unwrap_or(false)
}

/// A token with its byte span in the source.
struct FlatTok { kind: char, text: String, start: usize, end: usize, joint: bool }

fn flatten(ts: &CommentedTokenStream, toks: &mut Vec<FlatTok>) {
    for tt in ts.token_trees() {
        match tt {
            CommentedTokenTree::Comment(c) => toks.push(FlatTok { kind: 'm', text: c.span.as_str().to_string(), start: c.span.start(), end: c.span.end(), joint: false }),
            CommentedTokenTree::Tree(t) => match t {
                CommentedTree::Punct(p) => toks.push(FlatTok {
                    kind: 'p', text: p.kind.as_char().to_string(), start: p.span.start(), end: p.span.end(),
                    joint: p.spacing == sway_ast::token::Spacing::Joint }),
                CommentedTree::Ident(i) => { let sp = i.span(); toks.push(FlatTok { kind: 'i', text: sp.as_str().to_string(), start: sp.start(), end: sp.end(), joint: false }) }
                CommentedTree::Literal(l) => { let sp = l.span(); toks.push(FlatTok { kind: 'l', text: sp.as_str().to_string(), start: sp.start(), end: sp.end(), joint: false }) }
                CommentedTree::DocComment(d) => toks.push(FlatTok { kind: 'd', text: d.span.as_str().to_string(), start: d.span.start(), end: d.span.end(), joint: false }),
                CommentedTree::Group(g) => {
                    let (s, e) = (g.span.start(), g.span.end());
                    toks.push(FlatTok { kind: 'o', text: g.delimiter.as_open_char().to_string(), start: s, end: s + 1, joint: false });
                    flatten(&g.token_stream, toks);
                    toks.push(FlatTok { kind: 'c', text: g.delimiter.as_close_char().to_string(), start: e - 1, end: e, joint: false });
                }
            },
        }
    }
}

/// Tokens and comments of `src` in source order (comments have kind `m`).
fn lex_flat(src: &str) -> Option<Vec<FlatTok>> {
    let ts = lex(src)?;
    let mut t = vec![];
    flatten(&ts, &mut t);
    Some(t)
}

fn enc_toks(t: &[FlatTok]) -> String {
    if t.is_empty() { return "-".into(); }
    t.iter().map(|k| format!("{}{}", k.kind, cps(&k.text))).collect::<Vec<_>>().join(".")
}

// ------------------------------------------------------------------------------------------- inputs

fn repo_root() -> PathBuf { PathBuf::from(std::env::var("VERIF_REPO").unwrap_or_else(|_| "/repo".into())) }

fn walk(dir: &Path, out: &mut Vec<PathBuf>) {
    let Ok(rd) = std::fs::read_dir(dir) else { return };
    let mut es: Vec<_> = rd.filter_map(|e| e.ok()).map(|e| e.path()).collect();
    es.sort();
    for p in es {
        let name = p.file_name().and_then(|n| n.to_str()).unwrap_or("");
        if p.is_dir() {
            if name == "target" || name == ".git" || name == "node_modules" { continue; }
            if p.symlink_metadata().map(|m| m.file_type().is_symlink()).unwrap_or(true) { continue; }
            walk(&p, out);
        } else if name.ends_with(".sw") {
            out.push(p);
        }
    }
}

fn hash64(s: &str, seed: u64) -> u64 {
    let mut h: u64 = 0xcbf29ce484222325 ^ seed.wrapping_mul(0x9E37_79B9_7F4A_7C15);
    for b in s.bytes() { h ^= b as u64; h = h.wrapping_mul(0x100000001b3); }
    h
}

const COMMENT_TEXTS: &[&str] = &["// c", "// x y", "//c", "/* c */", "/* a\n b */", "/*c*/", "// TODO: é", "/* * */"];

/// Variant `k` of `src` (k = 0 is the file itself). Deterministic in (seed, id, k).
fn variant(src: &str, id: &str, k: usize, seed: u64) -> (String, String) {
    if k == 0 { return ("orig".into(), src.to_string()); }
    let mut r = Rng::new(hash64(id, seed) ^ (k as u64).wrapping_mul(0xD6E8_FEB8_6659_FD93));
    match r.below(8) {
        0 => { // extra blank lines
            let n = 1 + r.below(4);
            let mut lines: Vec<String> = src.split('\n').map(|s| s.to_string()).collect();
            for _ in 0..n {
                let at = r.below(lines.len() as u64 + 1) as usize;
                let cnt = 1 + r.below(3);
                for _ in 0..cnt { lines.insert(at.min(lines.len()), String::new()); }
            }
            (format!("blank{k}"), lines.join("\n"))
        }
        1 => { // trailing spaces / tabs at line ends
            let mut out = String::new();
            for l in src.split_inclusive('\n') {
                let (body, nl) = match l.strip_suffix('\n') { Some(b) => (b, "\n"), None => (l, "") };
                out.push_str(body);
                if r.chance(1, 6) { out.push_str(*r.pick(&[" ", "  ", "\t", " \t "])); }
                out.push_str(nl);
            }
            (format!("trail{k}"), out)
        }
        2 => { // leading indentation rewritten to tabs / odd widths
            let mode = r.below(3);
            let mut out = String::new();
            for l in src.split_inclusive('\n') {
                let body = l.trim_start_matches(' ');
                let n = l.len() - body.len();
                match mode {
                    0 => { for _ in 0..n / 4 { out.push('\t'); } for _ in 0..n % 4 { out.push(' '); } }
                    1 => { for _ in 0..(n / 2) { out.push(' '); } }
                    _ => { if r.chance(1, 5) { out.push_str("   "); } for _ in 0..n { out.push(' '); } }
                }
                out.push_str(body);
            }
            (format!("indent{k}"), out)
        }
        3 => (format!("crlf{k}"), src.replace("\r\n", "\n").replace('\n', "\r\n")),
        4 => { // whitespace at token boundaries: extra spaces / newline between tokens
            let Some(toks) = lex_flat(src) else { return (format!("tokws{k}"), src.to_string()) };
            let toks: Vec<FlatTok> = toks.into_iter().filter(|t| t.kind != 'm').collect();
            let n = 1 + r.below(5);
            let mut cuts: BTreeSet<usize> = BTreeSet::new();
            for _ in 0..n { if toks.len() > 1 { let i = 1 + r.below(toks.len() as u64 - 1) as usize; if !toks[i - 1].joint { cuts.insert(toks[i].start); } } }
            let mut out = String::new(); let mut last = 0;
            for c in cuts { out.push_str(&src[last..c]); out.push_str(*r.pick(&[" ", "  ", "\n", "\n\n", "\t", " \n "])); last = c; }
            out.push_str(&src[last..]);
            (format!("tokws{k}"), out)
        }
        5 | 6 => { // comments at arbitrary token boundaries
            let Some(toks) = lex_flat(src) else { return (format!("cmt{k}"), src.to_string()) };
            let toks: Vec<FlatTok> = toks.into_iter().filter(|t| t.kind != 'm').collect();
            let n = 1 + r.below(3);
            let mut cuts: BTreeSet<usize> = BTreeSet::new();
            for _ in 0..n { if toks.len() > 1 { let i = 1 + r.below(toks.len() as u64 - 1) as usize; if !toks[i - 1].joint && toks[i-1].kind != 'd' { cuts.insert(toks[i].start); } } }
            let mut out = String::new(); let mut last = 0;
            for (j, c) in cuts.into_iter().enumerate() {
                out.push_str(&src[last..c]);
                let t = *r.pick(COMMENT_TEXTS);
                let t = t.replacen('c', &format!("c{j}"), 1);
                if t.starts_with("//") { out.push_str(&format!(" {t}\n")); } else { out.push_str(&format!(" {t} ")); }
                last = c;
            }
            out.push_str(&src[last..]);
            (format!("cmt{k}"), out)
        }
        _ => { // comments on their own line / at end of lines / doc comments before items
            let mut out = String::new();
            let mut j = 0;
            for l in src.split_inclusive('\n') {
                let t = l.trim_start();
                let indent = &l[..l.len() - t.len()];
                let is_item = ["fn ", "pub fn ", "struct ", "pub struct ", "enum ", "pub enum ", "const ", "abi ", "impl ", "trait "].iter().any(|p| t.starts_with(p));
                if r.chance(1, 12) {
                    if is_item && r.chance(1, 2) { out.push_str(&format!("{indent}/// doc {j}\n")); }
                    else { out.push_str(&format!("{indent}// own {j}\n")); }
                    j += 1;
                }
                if r.chance(1, 14) && l.ends_with('\n') && !t.starts_with("//") && !l.contains('"') && !l.contains("/*") && !l.contains("*/") {
                    out.push_str(l.trim_end_matches(['\n', '\r']));
                    out.push_str(&format!(" // eol {j}\n"));
                    j += 1;
                } else { out.push_str(l); }
            }
            (format!("linecmt{k}"), out)
        }
    }
}

struct Case { id: String, src: String }

fn first_diff(a: &str, b: &str) -> usize {
    a.bytes().zip(b.bytes()).position(|(x, y)| x != y).unwrap_or(a.len().min(b.len()))
}
fn ctx(s: &str, at: usize) -> String {
    let b = s.as_bytes();
    let lo = at.saturating_sub(24); let hi = (at + 24).min(b.len());
    hexbytes(&b[lo..hi])
}

/// Shape of the first difference between the two passes (routes known findings; not part of the verdict):
/// `<kind>:<p>|<n>:<c0|c1>` where, for the first differing LINE of pass 1 / pass 2,
/// kind = `blank-` / `blank+` (a blank line of pass 1 is gone in pass 2 / a new one appears), `indent` (same text,
/// other indentation), `space` (same text up to inner white space), `join` / `split` (text of the following line
/// is pulled onto this line / pushed to the next line), `text` (anything else);
/// p, n = for blank±: last character of the previous non-blank line and first word of the next one; for
/// join/split: characters on both sides of the break; else the first differing characters. Letters/digits are `a`
/// unless the word is a keyword; operators are written with up to two characters. `c1` = a comment is on the differing
/// line or on the nearest non-blank line before / after it, else `c0`.
fn fingerprint(a: &str, b: &str, _at: usize) -> String {
    const KW: &[&str] = &["fn", "pub", "use", "const", "struct", "enum", "impl", "trait", "abi", "storage", "configurable",
        "let", "if", "else", "while", "for", "match", "return", "mod", "type", "where", "break", "continue", "asm"];
    let cls = |c: Option<char>| -> String { match c {
        None => "$".into(), Some(' ') => "s".into(), Some('\t') => "t".into(), Some('\r') => "r".into(),
        Some(c) if c.is_alphanumeric() || c == '_' => "a".into(), Some(c) if c.is_ascii() => c.to_string(), Some(_) => "u".into() } };
    let first_word = |l: &str| -> String {
        let t = l.trim_start();
        let w: String = t.chars().take_while(|c| c.is_alphanumeric() || *c == '_').collect();
        if w.is_empty() {
            // an operator / punctuation run of at most two characters (`&&`, `||`, `^`, `//`, `/*`, `==`, …)
            let run: String = t.chars().take_while(|c| c.is_ascii_punctuation()).take(2).collect();
            if run.is_empty() { cls(t.chars().next()) } else if matches!(run.chars().next(), Some('(' | ')' | '{' | '}' | '[' | ']' | ';' | ',' | '#' | '"')) { run.chars().take(1).collect() } else { run }
        }
        else if KW.contains(&w.as_str()) { w } else { "a".into() }
    };
    let squash = |l: &str| -> String { l.split_whitespace().collect::<Vec<_>>().join(" ") };
    let l1: Vec<&str> = a.split('\n').collect();
    let l2: Vec<&str> = b.split('\n').collect();
    let i = l1.iter().zip(l2.iter()).position(|(x, y)| x != y).unwrap_or(l1.len().min(l2.len()));
    let (x, y) = (l1.get(i).copied(), l2.get(i).copied());
    let has_c = |l: Option<&str>| l.map(|l| l.contains("//") || l.contains("/*") || l.contains("*/")).unwrap_or(false);
    // a comment on the differing line, or on the nearest non-blank line before / after it (in either pass)
    let near = |ls: &Vec<&str>| -> bool {
        has_c(ls[..i.min(ls.len())].iter().rev().find(|l| !l.trim().is_empty()).copied())
            || has_c(ls.get(i + 1..).and_then(|r| r.iter().find(|l| !l.trim().is_empty())).copied())
    };
    let c = has_c(x) || has_c(y) || near(&l1) || near(&l2);
    let prev_last = || -> String { cls(l1[..i].iter().rev().find(|l| !l.trim().is_empty()).and_then(|l| l.trim_end().chars().last())) };
    let (kind, p, n) = match (x, y) {
        (None, None) => ("text", "$".to_string(), "$".to_string()),
        (Some(x), None) => (if x.trim().is_empty() { "blank-" } else { "text" }, prev_last(), "$".to_string()),
        (None, Some(y)) => (if y.trim().is_empty() { "blank+" } else { "text" }, prev_last(), "$".to_string()),
        (Some(x), Some(y)) => {
            if x.trim().is_empty() { ("blank-", prev_last(), l1[i..].iter().find(|l| !l.trim().is_empty()).map(|l| first_word(l)).unwrap_or("$".into())) }
            else if y.trim().is_empty() { ("blank+", prev_last(), first_word(x)) }
            else if x.trim() == y.trim() { ("indent", cls(x.chars().next()), cls(y.chars().next())) }
            else if squash(x) == squash(y) {
                let at = x.chars().zip(y.chars()).position(|(p, q)| p != q).unwrap_or(0);
                ("space", cls(x[..x.char_indices().nth(at).map(|t| t.0).unwrap_or(0)].trim_end().chars().last()), cls(x.chars().skip(at).find(|c| !c.is_whitespace())))
            }
            else if y.starts_with(x.trim_end()) && !x.trim().is_empty() {
                ("join", cls(x.trim_end().chars().last()), first_word(&y[x.trim_end().len()..]))
            }
            else if x.starts_with(y.trim_end()) && !y.trim().is_empty() {
                ("split", cls(y.trim_end().chars().last()), first_word(&x[y.trim_end().len()..]))
            }
            else {
                let at = x.chars().zip(y.chars()).position(|(p, q)| p != q).unwrap_or(x.chars().count().min(y.chars().count()));
                ("text", cls(x.chars().nth(at)), cls(y.chars().nth(at)))
            }
        }
    };
    format!("{kind}:{p}|{n}:{}", if c { "c1" } else { "c0" })
}

fn status(o1: &Out, o2: &Option<Out>) -> String {
    match (o1, o2) {
        (Out::Rej(k), _) => format!("rej-{k}"),
        (Out::Panic, _) => "panic1".into(),
        (Out::Ok(_), Some(Out::Ok(_))) => "ok".into(),
        (Out::Ok(_), Some(Out::Rej(k))) => format!("rej2-{k}"),
        (Out::Ok(_), Some(Out::Panic)) => "panic2".into(),
        (Out::Ok(_), None) => "ok1".into(),
    }
}

fn c18_line(cfg: &str, c: &Case) -> String {
    let (o1, o2) = fmt_twice(cfg, &c.src);
    let st = status(&o1, &o2);
    match (&o1, &o2) {
        (Out::Ok(a), Some(Out::Ok(b))) => {
            if a == b { format!("idem {cfg} {} ;; {st} same=1 len1={} len2={}", c.id, a.len(), b.len()) }
            else { let at = first_diff(a, b); format!("idem {cfg} {} ;; {st} same=0 len1={} len2={} at={at} ctx1={} ctx2={} fp={}", c.id, a.len(), b.len(), ctx(a, at), ctx(b, at), fingerprint(a, b, at)) }
        }
        (Out::Ok(a), _) => format!("idem {cfg} {} ;; {st} same=0 len1={} len2=0 fp={st}", c.id, a.len()),
        _ => format!("idem {cfg} {} ;; {st} same=1 len1=0 len2=0", c.id),
    }
}

fn c19_line(cfg: &str, c: &Case) -> Option<String> {
    // the statement is about parseable sources
    let st = lex_flat(&c.src)?;
    if !parses(&c.src) { return None; }
    let mut f = mk_formatter(cfg);
    let o1 = fmt_with(&mut f, &c.src);
    let head = format!("fmt {cfg} {} {}", c.id, enc_toks(&st));
    Some(match o1 {
        Out::Rej(k) => format!("{head} ;; rej-{k}"),
        Out::Panic => format!("{head} ;; panic"),
        Out::Ok(o) => match lex_flat(&o) {
            None => format!("{head} ;; nolex - parses=0"),
            Some(ot) => format!("{head} ;; ok {} parses={}", enc_toks(&ot), if parses(&o) { 1 } else { 0 }),
        },
    })
}

// ------------------------------------------------------------------------------------------- kernels

const NL_ALPHABET: &[&str] = &["\n", "\n", "\r\n", "\r\n", "\r", "a", "b", " ", ";", "}", "\t", "é", "//", "\"", "\r\r\n", "\n\r"];

/// Newline-style kernel through the verif hook: `nls <style> <text> <raw> ;; <status> <out> <out of out>`.
fn nls_line(r: &mut Rng) -> String {
    let gen = |r: &mut Rng, max: u64| -> String { let n = r.below(max + 1); (0..n).map(|_| *r.pick(NL_ALPHABET)).collect() };
    let text = gen(r, 14);
    let raw = if r.chance(1, 3) { text.clone() } else { gen(r, 8) };
    let (name, style) = *r.pick(&[("auto", NewlineStyle::Auto), ("windows", NewlineStyle::Windows), ("unix", NewlineStyle::Unix), ("native", NewlineStyle::Native)]);
    let apply = |t: &str| -> Option<String> {
        let (t, raw) = (t.to_string(), raw.clone());
        guarded(move || { let mut o = t; swayfmt::verif_hooks::apply_newline_style(style, &mut o, &raw).ok().map(|_| o) }).flatten()
    };
    let head = format!("nls {name} {} {}", cps(&text), cps(&raw));
    match apply(&text) {
        None => format!("{head} ;; fail"),
        Some(o1) => match apply(&o1) { None => format!("{head} ;; fail2 {}", cps(&o1)), Some(o2) => format!("{head} ;; ok {} {}", cps(&o1), cps(&o2)) },
    }
}

/// Newline-sequence clamp through the verif hook: `nlseq <len> <threshold> ;; <newlines written>|panic`.
fn nlseq_line(r: &mut Rng) -> String {
    let len = if r.chance(1, 10) { 0 } else { r.below(9) } as usize;
    let thr = r.below(5) as usize;
    match guarded(move || swayfmt::verif_hooks::format_newline_sequence(len, thr)) {
        None => format!("nlseq {len} {thr} ;; panic"),
        Some(s) => if s.chars().all(|c| c == '\n') { format!("nlseq {len} {thr} ;; ok {}", s.len()) } else { format!("nlseq {len} {thr} ;; other {}", cps(&s)) },
    }
}

// ------------------------------------------------------------------------------------------- generated sources

const BIN_OPS: &[&str] = &["^", "|", "&", "+", "-", "*", "/", "%", "<<", ">>", "==", "!=", "<", ">", "<=", ">=", "&&", "||"];
const L1: &str = "first_operand_value_with_a_long_name";
const L2: &str = "second_operand_value_with_a_long_name";
const L3: &str = "third_operand_value_with_a_long_name";

/// (name, expression) pairs for one binary operator: a short form and forms padded with long identifiers so that
/// the line exceeds max_width and is wrapped at the operator itself, inside a wrapped `&&` / `||`, inside call arguments.
fn expr_shapes(op: &str) -> Vec<(String, String)> {
    let f1 = "some_really_long_function_name_number_one";
    let f2 = "some_really_long_function_name_number_two";
    vec![
        ("short".into(), format!("a {op} b")),
        ("chain".into(), format!("{L1} {op} {L2} {op} {L3} {op} {L1} {op} {L2}")),
        ("parchain".into(), format!("({L1} {op} {L2}) {op} ({L3} {op} {L1}) {op} ({L2} {op} {L3})")),
        ("inand".into(), format!("(a {op} b) != 0 && {f1}(a) == {f2}(b, a, a, b)")),
        ("inor".into(), format!("{f1}(a) == {f2}(b, a, a, b) || (a {op} b) != 0")),
        ("bare_and".into(), format!("a {op} b != {L1} && {f1}(a) == {f2}(b, a, a, b)")),
        ("args".into(), format!("{f1}({L1} {op} {L2}, {L3} {op} {L1}, {L2} {op} {L3})")),
        ("method".into(), format!("{L1}.{f1}({L2} {op} {L3}).{f2}(a {op} b).unwrap_or({L1} {op} {L2})")),
    ]
}

/// Statement / expression positions an expression `e` is put in.
fn expr_positions(e: &str) -> Vec<(String, String)> {
    vec![
        ("let".into(), format!("    let r = {e};\n")),
        ("ret".into(), format!("    return {e};\n")),
        ("tail".into(), format!("    {e}\n")),
        ("if".into(), format!("    if {e} {{\n        1\n    }} else {{\n        2\n    }}\n")),
        ("while".into(), format!("    while {e} {{\n        break;\n    }}\n")),
        ("match".into(), format!("    match {e} {{\n        _ => 0,\n    }}\n")),
        ("arg".into(), format!("    g(a, {e}, b);\n")),
        ("field".into(), format!("    let s = S {{ x: {e}, y: 1 }};\n")),
        ("array".into(), format!("    let s = [{e}, {e}];\n")),
        ("tuple".into(), format!("    let s = ({e}, 1);\n")),
        ("assign".into(), format!("    r = {e};\n")),
        ("nested".into(), format!("    if a == b {{\n        while b == a {{\n            let r = {e};\n        }}\n    }}\n")),
    ]
}

const ITEMS: &[(&str, &str)] = &[
    ("use", "use std::hash::Hash;\n"),
    ("const", "const C: u64 = 1;\n"),
    ("fn", "fn f(a: u64) -> u64 {\n    a\n}\n"),
    ("struct", "struct S {\n    x: u64,\n}\n"),
    ("enum", "enum E {\n    A: (),\n    B: u64,\n}\n"),
    ("impl", "impl S {\n    fn m(self) -> u64 {\n        self.x\n    }\n}\n"),
    ("trait", "trait T {\n    fn t(self) -> u64;\n}\n"),
    ("abi", "abi MyAbi {\n    fn a();\n\n    fn b();\n}\n"),
    ("storage", "storage {\n    v: u64 = 0,\n}\n"),
    ("configurable", "configurable {\n    K: u64 = 1,\n}\n"),
];
const GEN_COMMENTS: &[(&str, &str)] = &[
    ("semi", "// use std::hash::*;"), ("brace", "// fn old() {}"), ("obrace", "// fn old() {"), ("paren", "// call(a, b)"),
    ("comma", "// a, b,"), ("word", "// plain words"), ("bsemi", "/* let x = 1; */"), ("bword", "/* plain words */"),
];
/// Blocks with a hole for a comment as first / last thing inside.
const BLOCKS: &[(&str, &str, &str)] = &[
    ("fn", "fn f(a: u64) -> u64 {\n", "    let b = a;\n    b\n}\n"),
    ("fnstmt", "fn f(a: u64) {\n    let b = a;\n", "}\n"),
    ("impl", "impl S {\n", "    fn m(self) -> u64 {\n        self.x\n    }\n}\n"),
    ("trait", "trait T {\n", "    fn t(self) -> u64;\n}\n"),
    ("abi", "abi MyAbi {\n    fn a();\n", "    fn b();\n}\n"),
    ("struct", "struct S {\n    x: u64,\n", "    y: u64,\n}\n"),
    ("enum", "enum E {\n    A: (),\n", "    B: u64,\n}\n"),
    ("storage", "storage {\n    v: u64 = 0,\n", "    w: u64 = 0,\n}\n"),
    ("ifelse", "fn f(a: u64) -> u64 {\n    if a == 1 {\n        1\n", "    } else {\n        2\n    }\n}\n"),
    ("while", "fn f(a: u64) {\n    while a == 1 {\n        let b = a;\n", "    }\n}\n"),
];

/// The generated-source stream: a few hundred small programs, the same in every run.
fn generated() -> Vec<Case> {
    let mut v = vec![];
    let nl = |k: usize| "\n".repeat(k);
    // (a) expressions
    for op in BIN_OPS {
        for (sn, e) in expr_shapes(op) {
            for (pn, body) in expr_positions(&e) {
                // the short form is exercised in every position; the long forms in a rotating subset plus let/if/ret
                v.push(Case { id: format!("gen:expr/{}/{sn}/{pn}", op_name(op)), src: format!("script;\n\nfn main() -> u64 {{\n{body}}}\n") });
            }
        }
    }
    for (un, e) in [("not", format!("!{L1} && !{L2} && !{L3} && !({L1} || {L2})")), ("neg", format!("!a")),
                    ("ref", format!("&{L1}")), ("deref", format!("*{L1} + *{L2} + *{L3} + *{L1} + *{L2}")),
                    ("idx", format!("{L1}[{L2} + {L3}][{L1} ^ {L2}]")), ("cast", format!("{L1}.as_u64() ^ {L2}.as_u64() ^ {L3}.as_u64()")),
                    ("structlit", format!("S {{ x: {L1} ^ {L2}, y: {L3} | {L1}, z: {L2} & {L3} }}")),
                    ("tuplelit", format!("({L1} ^ {L2}, {L3} | {L1}, {L2} & {L3}, {L1} << {L2})")),
                    ("arraylit", format!("[{L1} ^ {L2}, {L3} | {L1}, {L2} & {L3}, {L1} >> {L2}]")),
                    ("manyargs", format!("g(a, b, c, {L1}, {L2}, {L3}, a + b, {L1} - {L2}, h(a, b, c, {L3}))"))] {
        for (pn, body) in expr_positions(&e) {
            v.push(Case { id: format!("gen:expr/{un}/{pn}"), src: format!("script;\n\nfn main() -> u64 {{\n{body}}}\n") });
        }
    }
    // (b) comment between two items, (c) blank-line runs
    for (i, (an, a)) in ITEMS.iter().enumerate() {
        for (j, (bn, b)) in ITEMS.iter().enumerate() {
            // blank-line runs 0..3 between every ordered pair of item kinds
            for k in 0..4 {
                if (i + j + k) % 2 == 0 || j == (i + 1) % ITEMS.len() {
                    v.push(Case { id: format!("gen:blank/{an}-{bn}/{k}"), src: format!("contract;\n\n{a}{}{b}", nl(k)) });
                }
            }
            // a comment between them: every comment text x blank lines before/after, rotating over the pairs
            for (ci, (cn, c)) in GEN_COMMENTS.iter().enumerate() {
                for after in 0..3 {
                    let before = (i + j + ci + after) % 3;
                    if j == (i + 1) % ITEMS.len() || j == i || (i * 7 + j * 3 + ci + after) % 6 == 0 {
                        v.push(Case { id: format!("gen:cmt/{an}-{bn}/{cn}/{before}{after}"), src: format!("contract;\n\n{a}{}{c}\n{}{b}", nl(before), nl(after)) });
                    }
                }
            }
        }
    }
    // top of file / end of file
    for (cn, c) in GEN_COMMENTS {
        for after in 0..3 {
            for (an, a) in ITEMS.iter().take(4) {
                v.push(Case { id: format!("gen:top/{an}/{cn}/{after}"), src: format!("contract;\n\n{c}\n{}{a}\n{}", nl(after), ITEMS[2].1) });
                v.push(Case { id: format!("gen:top0/{an}/{cn}/{after}"), src: format!("{c}\n{}contract;\n\n{a}\n{}", nl(after), ITEMS[2].1) });
                v.push(Case { id: format!("gen:end/{an}/{cn}/{after}"), src: format!("contract;\n\n{}\n{a}{}{c}\n", ITEMS[2].1, nl(after)) });
            }
        }
    }
    // first / last in a block, after the last statement; the block is followed by two more items
    for (bn, open, close) in BLOCKS {
        for (cn, c) in GEN_COMMENTS {
            for after in 0..3 {
                let ind = if *bn == "ifelse" || *bn == "while" { "        " } else { "    " };
                v.push(Case { id: format!("gen:inblock/{bn}/{cn}/{after}"),
                    src: format!("contract;\n\n{open}{ind}{c}\n{}{close}\nfn g() {{}}\n\nfn h() {{}}\n", nl(after)) });
                v.push(Case { id: format!("gen:inblock-b/{bn}/{cn}/{after}"),
                    src: format!("contract;\n\n{open}{}{ind}{c}\n{close}\nfn g() {{}}\n\nfn h() {{}}\n", nl(after)) });
            }
        }
    }
    v
}

fn op_name(op: &str) -> &'static str {
    match op { "^" => "xor", "|" => "or", "&" => "and", "+" => "add", "-" => "sub", "*" => "mul", "/" => "div", "%" => "rem",
        "<<" => "shl", ">>" => "shr", "==" => "eq", "!=" => "ne", "<" => "lt", ">" => "gt", "<=" => "le", ">=" => "ge",
        "&&" => "land", "||" => "lor", _ => "op" }
}

fn main() {
    let a = args();
    if !a.extra.iter().any(|x| x == "--show") { quiet_panics(); }
    let seed = seed_from_env();
    let tier = std::env::var("VERIF_TIER").unwrap_or_else(|_| "quick".into());
    let mode = a.extra.iter().position(|x| x == "--mode").map(|i| a.extra[i + 1].clone()).unwrap_or_else(|| "c18".into());
    let root = repo_root();
    let mut files = vec![];
    walk(&root, &mut files);
    let rel = |p: &Path| p.strip_prefix(&root).unwrap().to_string_lossy().replace(' ', "%20");

    if let Some(i) = a.extra.iter().position(|x| x == "--show") {
        let (cfg, id) = (a.extra[i + 1].clone(), a.extra[i + 2].clone());
        if id.starts_with("gen:") {
            let c = generated().into_iter().find(|c| c.id == id).expect("no such generated case");
            let (o1, o2) = fmt_twice(&cfg, &c.src);
            println!("=== {id} cfg={cfg}\n--- src\n{}\n--- out1 {:?}", c.src, status(&o1, &o2));
            if let Out::Ok(s) = &o1 { println!("{s}"); }
            if let Some(Out::Ok(s)) = &o2 { println!("--- out2\n{s}"); }
            return;
        }
        let (path, var) = id.split_once('#').unwrap();
        let src0 = std::fs::read_to_string(root.join(path.replace("%20", " "))).unwrap();
        let k: usize = var.trim_start_matches(|c: char| !c.is_ascii_digit()).parse().unwrap_or(0);
        let (name, src) = variant(&src0, path, k, seed);
        let (o1, o2) = fmt_twice(&cfg, &src);
        println!("=== {path}#{name} cfg={cfg}\n--- src\n{src}\n--- out1 {:?}", status(&o1, &o2));
        if let Out::Ok(s) = &o1 { println!("{s}"); }
        if let Some(Out::Ok(s)) = &o2 { println!("--- out2\n{s}"); }
        return;
    }

    let mut out = std::io::BufWriter::new(std::fs::File::create(&a.out).unwrap());
    let mut cases: Vec<Case> = vec![];
    // corpus: lines `<cfg>|<source with \n \r \t \\ escaped>`; run first, under the named config
    let mut corpus: Vec<(String, Case)> = vec![];
    if let Some(c) = &a.corpus {
        for (n, l) in std::fs::read_to_string(c).unwrap_or_default().lines().enumerate() {
            if l.starts_with('#') || l.trim().is_empty() { continue; }
            let Some((cfg, s)) = l.split_once('|') else { continue };
            let mut src = String::new(); let mut it = s.chars();
            while let Some(ch) = it.next() {
                if ch == '\\' { match it.next() { Some('n') => src.push('\n'), Some('r') => src.push('\r'), Some('t') => src.push('\t'), Some(o) => src.push(o), None => {} } } else { src.push(ch); }
            }
            corpus.push((cfg.to_string(), Case { id: format!("corpus:{n}"), src }));
        }
    }
    // file selection: thorough = all; quick = all "small" files up to a byte budget + a seed-sampled set
    let mut r = Rng::new(seed);
    let budget = a.n; // number of (file, variant) inputs
    let thorough = tier == "thorough";
    let mut chosen: Vec<&PathBuf> = vec![];
    if thorough { chosen = files.iter().collect(); }
    else {
        let mut idx: Vec<usize> = (0..files.len()).collect();
        for i in (1..idx.len()).rev() { let j = r.below(i as u64 + 1) as usize; idx.swap(i, j); }
        for &i in idx.iter().take(budget) { chosen.push(&files[i]); }
        chosen.sort();
    }
    for p in chosen {
        if mode == "kernel" { break; }
        let Ok(src) = std::fs::read_to_string(p) else { continue };
        if src.len() > 400_000 { continue; }
        let id = rel(p);
        let nvar = if thorough { 3 } else { 2 };
        cases.push(Case { id: format!("{id}#orig"), src: src.clone() });
        for _ in 0..nvar {
            let k = 1 + r.below(1000) as usize;
            let (name, v) = variant(&src, &id, k, seed);
            if v != src { cases.push(Case { id: format!("{id}#{name}"), src: v }); }
        }
    }
    let mut n = 0usize;
    if mode == "kernel" {
        for i in 0..a.n { let l = if i % 4 == 3 { nlseq_line(&mut r) } else { nls_line(&mut r) }; writeln!(out, "{l}").unwrap(); }
        out.flush().unwrap();
        eprintln!("sv_c18[kernel]: {} lines", a.n);
        return;
    }
    for (cfg, c) in &corpus {
        let line = if mode == "c19" { c19_line(cfg, c) } else { Some(c18_line(cfg, c)) };
        if let Some(l) = line { writeln!(out, "{l}").unwrap(); n += 1; }
    }
    if mode != "kernel" {
        let g = generated();
        for (gi, c) in g.iter().enumerate() {
            let other = ["w60", "w140", "tabs", "nt2", "win"][gi % 5];
            for cfg in ["default", other] {
                let line = if mode == "c19" { c19_line(cfg, c) } else { Some(c18_line(cfg, c)) };
                if let Some(l) = line { writeln!(out, "{l}").unwrap(); n += 1; }
            }
        }
        eprintln!("sv_c18[{mode}]: {} generated programs", g.len());
    }
    for (ci, c) in cases.iter().enumerate() {
        // default config always; the others rotate (quick) or all (thorough, on the file itself)
        let mut cfgs: Vec<&str> = vec!["default"];
        if thorough && c.id.ends_with("#orig") { cfgs.extend(CONFIGS.iter().skip(1)); }
        else { cfgs.push(CONFIGS[1 + (ci + seed as usize) % (CONFIGS.len() - 1)]); }
        for cfg in cfgs {
            if mode == "c19" && cfg == "reuse" { continue; }
            let line = if mode == "c19" { c19_line(cfg, c) } else { Some(c18_line(cfg, c)) };
            if let Some(l) = line { writeln!(out, "{l}").unwrap(); n += 1; }
        }
    }
    out.flush().unwrap();
    eprintln!("sv_c18[{mode}]: {} inputs, {} lines", cases.len() + corpus.len(), n);
}
