//! C18 / C19: drives the real `swayfmt::Formatter::format` over every `.sw` file of the repository and over
//! whitespace / comment variants of them, under several supported configurations.
//!
//! `--mode c18` (default) writes
//!   `idem <cfg> <id> ;; <status> same=<0|1> len1=<n> len2=<n> [at=<byte> ctx1=<hex> ctx2=<hex>]`
//!   `nls <style> <text cps> ;; <out cps> <out-of-out cps>`      (newline-style kernel, via the verif hook)
//!   `nlseq <len> <threshold> ;; <number of newlines written>`   (newline-sequence clamp kernel, via the verif hook)
//! `--mode c19` writes
//!   `fmt <cfg> <id> <src tokens> ;; <status> <out tokens> parses=<0|1>`
//! tokens (with the comments, in source order): `<k><cp>,<cp>…` joined by `.` (k = p punct, i ident, l literal,
//! d doc comment, o open, c close, m comment), `-` = none.
//! `--show <cfg> <id>` prints src / out1 / out2 of one case (replay aid).
use std::collections::BTreeSet;
use std::io::Write;
use std::path::{Path, PathBuf};
use svharness::{proto::*, rng::*};
use sway_ast::token::{CommentedTokenStream, CommentedTokenTree, CommentedTree};
use sway_error::handler::Handler;
use sway_types::Spanned;
use swayfmt::config::user_def::FieldAlignment;
use swayfmt::config::whitespace::NewlineStyle;
use swayfmt::{Formatter, FormatterError};

pub const CONFIGS: &[&str] = &["default", "win", "unix", "w60", "w140", "tabs", "nt2", "align", "reuse"];

fn mk_formatter(cfg: &str) -> Formatter {
    let mut f = Formatter::default();
    match cfg {
        "default" | "reuse" => {}
        "win" => f.config.whitespace.newline_style = NewlineStyle::Windows,
        "unix" => f.config.whitespace.newline_style = NewlineStyle::Unix,
        "w60" => f.config.whitespace.max_width = 60,
        "w140" => f.config.whitespace.max_width = 140,
        "tabs" => f.config.whitespace.hard_tabs = true,
        "nt2" => f.config.whitespace.newline_threshold = 2,
        "align" => f.config.structures.field_alignment = FieldAlignment::AlignFields(40),
        _ => panic!("unknown config {cfg}"),
    }
    f
}

#[derive(Clone, Debug, PartialEq)]
enum Out { Ok(String), Rej(&'static str), Panic }

fn err_kind(e: &FormatterError) -> &'static str {
    match e {
        FormatterError::ParseFileError(_) => "parse",
        FormatterError::FormatError(_) => "fmtwrite",
        FormatterError::CommentError => "comment",
        FormatterError::NewlineSequenceError => "newline",
        FormatterError::SyntaxError => "syntax",
    }
}

fn fmt_with(f: &mut Formatter, src: &str) -> Out {
    let s = src.to_string();
    match guarded(move || { let r = f.format(s.as_str().into()); r }) {
        None => Out::Panic,
        Some(Ok(o)) => Out::Ok(o),
        Some(Err(e)) => Out::Rej(err_kind(&e)),
    }
}

/// `(fmt src, fmt (fmt src))`; config `reuse` keeps one `Formatter` for both passes (as forc-fmt does for the files
/// of a package), every other config builds a fresh one per pass.
fn fmt_twice(cfg: &str, src: &str) -> (Out, Option<Out>) {
    let mut f = mk_formatter(cfg);
    let o1 = fmt_with(&mut f, src);
    let o2 = match &o1 {
        Out::Ok(s1) => {
            if cfg == "reuse" { Some(fmt_with(&mut f, s1)) } else { let mut g = mk_formatter(cfg); Some(fmt_with(&mut g, s1)) }
        }
        _ => None,
    };
    (o1, o2)
}

fn lex(src: &str) -> Option<CommentedTokenStream> {
    let s = src.to_string();
    guarded(move || {
        let handler = Handler::default();
        let r = sway_parse::lex_commented(&handler, s.as_str().into(), 0, s.len(), &None);
        let (errors, _w, _i) = handler.consume();
        r.ok().filter(|_| errors.is_empty())
    }).flatten()
}

fn parses(src: &str) -> bool {
    let s = src.to_string();
    guarded(move || {
        let handler = Handler::default();
        let r = sway_parse::parse_file(&handler, s.as_str().into(), None, Default::default());
        let (errors, _w, _i) = handler.consume();
        r.is_ok() && errors.is_empty()
    }).unwrap_or(false)
}

/// A token with its byte span in the source.
struct FlatTok { kind: char, text: String, start: usize, end: usize, joint: bool }

fn flatten(ts: &CommentedTokenStream, toks: &mut Vec<FlatTok>) {
    for tt in ts.token_trees() {
        match tt {
            CommentedTokenTree::Comment(c) => toks.push(FlatTok { kind: 'm', text: c.span.as_str().to_string(), start: c.span.start(), end: c.span.end(), joint: false }),
            CommentedTokenTree::Tree(t) => match t {
                CommentedTree::Punct(p) => toks.push(FlatTok {
                    kind: 'p', text: p.kind.as_char().to_string(), start: p.span.start(), end: p.span.end(),
                    joint: p.spacing == sway_ast::token::Spacing::Joint }),
                CommentedTree::Ident(i) => { let sp = i.span(); toks.push(FlatTok { kind: 'i', text: sp.as_str().to_string(), start: sp.start(), end: sp.end(), joint: false }) }
                CommentedTree::Literal(l) => { let sp = l.span(); toks.push(FlatTok { kind: 'l', text: sp.as_str().to_string(), start: sp.start(), end: sp.end(), joint: false }) }
                CommentedTree::DocComment(d) => toks.push(FlatTok { kind: 'd', text: d.span.as_str().to_string(), start: d.span.start(), end: d.span.end(), joint: false }),
                CommentedTree::Group(g) => {
                    let (s, e) = (g.span.start(), g.span.end());
                    toks.push(FlatTok { kind: 'o', text: g.delimiter.as_open_char().to_string(), start: s, end: s + 1, joint: false });
                    flatten(&g.token_stream, toks);
                    toks.push(FlatTok { kind: 'c', text: g.delimiter.as_close_char().to_string(), start: e - 1, end: e, joint: false });
                }
            },
        }
    }
}

/// Tokens and comments of `src` in source order (comments have kind `m`).
fn lex_flat(src: &str) -> Option<Vec<FlatTok>> {
    let ts = lex(src)?;
    let mut t = vec![];
    flatten(&ts, &mut t);
    Some(t)
}

fn enc_toks(t: &[FlatTok]) -> String {
    if t.is_empty() { return "-".into(); }
    t.iter().map(|k| format!("{}{}", k.kind, cps(&k.text))).collect::<Vec<_>>().join(".")
}

// ------------------------------------------------------------------------------------------- inputs

fn repo_root() -> PathBuf { PathBuf::from(std::env::var("VERIF_REPO").unwrap_or_else(|_| "/repo".into())) }

fn walk(dir: &Path, out: &mut Vec<PathBuf>) {
    let Ok(rd) = std::fs::read_dir(dir) else { return };
    let mut es: Vec<_> = rd.filter_map(|e| e.ok()).map(|e| e.path()).collect();
    es.sort();
    for p in es {
        let name = p.file_name().and_then(|n| n.to_str()).unwrap_or("");
        if p.is_dir() {
            if name == "target" || name == ".git" || name == "node_modules" { continue; }
            if p.symlink_metadata().map(|m| m.file_type().is_symlink()).unwrap_or(true) { continue; }
            walk(&p, out);
        } else if name.ends_with(".sw") {
            out.push(p);
        }
    }
}

fn hash64(s: &str, seed: u64) -> u64 {
    let mut h: u64 = 0xcbf29ce484222325 ^ seed.wrapping_mul(0x9E37_79B9_7F4A_7C15);
    for b in s.bytes() { h ^= b as u64; h = h.wrapping_mul(0x100000001b3); }
    h
}

const COMMENT_TEXTS: &[&str] = &["// c", "// x y", "//c", "/* c */", "/* a\n b */", "/*c*/", "// TODO: é", "/* * */"];

/// Variant `k` of `src` (k = 0 is the file itself). Deterministic in (seed, id, k).
fn variant(src: &str, id: &str, k: usize, seed: u64) -> (String, String) {
    if k == 0 { return ("orig".into(), src.to_string()); }
    let mut r = Rng::new(hash64(id, seed) ^ (k as u64).wrapping_mul(0xD6E8_FEB8_6659_FD93));
    match r.below(8) {
        0 => { // extra blank lines
            let n = 1 + r.below(4);
            let mut lines: Vec<String> = src.split('\n').map(|s| s.to_string()).collect();
            for _ in 0..n {
                let at = r.below(lines.len() as u64 + 1) as usize;
                let cnt = 1 + r.below(3);
                for _ in 0..cnt { lines.insert(at.min(lines.len()), String::new()); }
            }
            (format!("blank{k}"), lines.join("\n"))
        }
        1 => { // trailing spaces / tabs at line ends
            let mut out = String::new();
            for l in src.split_inclusive('\n') {
                let (body, nl) = match l.strip_suffix('\n') { Some(b) => (b, "\n"), None => (l, "") };
                out.push_str(body);
                if r.chance(1, 6) { out.push_str(*r.pick(&[" ", "  ", "\t", " \t "])); }
                out.push_str(nl);
            }
            (format!("trail{k}"), out)
        }
        2 => { // leading indentation rewritten to tabs / odd widths
            let mode = r.below(3);
            let mut out = String::new();
            for l in src.split_inclusive('\n') {
                let body = l.trim_start_matches(' ');
                let n = l.len() - body.len();
                match mode {
                    0 => { for _ in 0..n / 4 { out.push('\t'); } for _ in 0..n % 4 { out.push(' '); } }
                    1 => { for _ in 0..(n / 2) { out.push(' '); } }
                    _ => { if r.chance(1, 5) { out.push_str("   "); } for _ in 0..n { out.push(' '); } }
                }
                out.push_str(body);
            }
            (format!("indent{k}"), out)
        }
        3 => (format!("crlf{k}"), src.replace("\r\n", "\n").replace('\n', "\r\n")),
        4 => { // whitespace at token boundaries: extra spaces / newline between tokens
            let Some(toks) = lex_flat(src) else { return (format!("tokws{k}"), src.to_string()) };
            let toks: Vec<FlatTok> = toks.into_iter().filter(|t| t.kind != 'm').collect();
            let n = 1 + r.below(5);
            let mut cuts: BTreeSet<usize> = BTreeSet::new();
            for _ in 0..n { if toks.len() > 1 { let i = 1 + r.below(toks.len() as u64 - 1) as usize; if !toks[i - 1].joint { cuts.insert(toks[i].start); } } }
            let mut out = String::new(); let mut last = 0;
            for c in cuts { out.push_str(&src[last..c]); out.push_str(*r.pick(&[" ", "  ", "\n", "\n\n", "\t", " \n "])); last = c; }
            out.push_str(&src[last..]);
            (format!("tokws{k}"), out)
        }
        5 | 6 => { // comments at arbitrary token boundaries
            let Some(toks) = lex_flat(src) else { return (format!("cmt{k}"), src.to_string()) };
            let toks: Vec<FlatTok> = toks.into_iter().filter(|t| t.kind != 'm').collect();
            let n = 1 + r.below(3);
            let mut cuts: BTreeSet<usize> = BTreeSet::new();
            for _ in 0..n { if toks.len() > 1 { let i = 1 + r.below(toks.len() as u64 - 1) as usize; if !toks[i - 1].joint && toks[i-1].kind != 'd' { cuts.insert(toks[i].start); } } }
            let mut out = String::new(); let mut last = 0;
            for (j, c) in cuts.into_iter().enumerate() {
                out.push_str(&src[last..c]);
                let t = *r.pick(COMMENT_TEXTS);
                let t = t.replacen('c', &format!("c{j}"), 1);
                if t.starts_with("//") { out.push_str(&format!(" {t}\n")); } else { out.push_str(&format!(" {t} ")); }
                last = c;
            }
            out.push_str(&src[last..]);
            (format!("cmt{k}"), out)
        }
        _ => { // comments on their own line / at end of lines / doc comments before items
            let mut out = String::new();
            let mut j = 0;
            for l in src.split_inclusive('\n') {
                let t = l.trim_start();
                let indent = &l[..l.len() - t.len()];
                let is_item = ["fn ", "pub fn ", "struct ", "pub struct ", "enum ", "pub enum ", "const ", "abi ", "impl ", "trait "].iter().any(|p| t.starts_with(p));
                if r.chance(1, 12) {
                    if is_item && r.chance(1, 2) { out.push_str(&format!("{indent}/// doc {j}\n")); }
                    else { out.push_str(&format!("{indent}// own {j}\n")); }
                    j += 1;
                }
                if r.chance(1, 14) && l.ends_with('\n') && !t.starts_with("//") && !l.contains('"') && !l.contains("/*") && !l.contains("*/") {
                    out.push_str(l.trim_end_matches(['\n', '\r']));
                    out.push_str(&format!(" // eol {j}\n"));
                    j += 1;
                } else { out.push_str(l); }
            }
            (format!("linecmt{k}"), out)
        }
    }
}

struct Case { id: String, src: String }

fn first_diff(a: &str, b: &str) -> usize {
    a.bytes().zip(b.bytes()).position(|(x, y)| x != y).unwrap_or(a.len().min(b.len()))
}
fn ctx(s: &str, at: usize) -> String {
    let b = s.as_bytes();
    let lo = at.saturating_sub(24); let hi = (at + 24).min(b.len());
    hexbytes(&b[lo..hi])
}

/// Shape of the first difference between the two passes (routes known findings; not part of the verdict):
/// `<c1><c2>:<p><n>` with c1/c2 the differing characters, p/n the nearest non-blank characters of pass 1
/// before/after the difference; letters and digits are written `a`, newline `n`, space `s`, tab `t`.
fn fingerprint(a: &str, b: &str, at: usize) -> String {
    let cls = |c: Option<char>| -> String { match c {
        None => "$".into(), Some('\n') => "n".into(), Some('\r') => "r".into(), Some(' ') => "s".into(), Some('\t') => "t".into(),
        Some(c) if c.is_alphanumeric() || c == '_' => "a".into(), Some(c) if c.is_ascii() => c.to_string(), Some(_) => "u".into() } };
    let mut at = at; while !a.is_char_boundary(at) || !b.is_char_boundary(at) { at -= 1; }
    let c1 = a[at..].chars().next(); let c2 = b[at..].chars().next();
    let p = a[..at].chars().rev().find(|c| !c.is_whitespace());
    let n = a[at..].chars().find(|c| !c.is_whitespace());
    format!("{}{}:{}{}", cls(c1), cls(c2), cls(p), cls(n))
}

fn status(o1: &Out, o2: &Option<Out>) -> String {
    match (o1, o2) {
        (Out::Rej(k), _) => format!("rej-{k}"),
        (Out::Panic, _) => "panic1".into(),
        (Out::Ok(_), Some(Out::Ok(_))) => "ok".into(),
        (Out::Ok(_), Some(Out::Rej(k))) => format!("rej2-{k}"),
        (Out::Ok(_), Some(Out::Panic)) => "panic2".into(),
        (Out::Ok(_), None) => "ok1".into(),
    }
}

fn c18_line(cfg: &str, c: &Case) -> String {
    let (o1, o2) = fmt_twice(cfg, &c.src);
    let st = status(&o1, &o2);
    match (&o1, &o2) {
        (Out::Ok(a), Some(Out::Ok(b))) => {
            if a == b { format!("idem {cfg} {} ;; {st} same=1 len1={} len2={}", c.id, a.len(), b.len()) }
            else { let at = first_diff(a, b); format!("idem {cfg} {} ;; {st} same=0 len1={} len2={} at={at} ctx1={} ctx2={} fp={}", c.id, a.len(), b.len(), ctx(a, at), ctx(b, at), fingerprint(a, b, at)) }
        }
        (Out::Ok(a), _) => format!("idem {cfg} {} ;; {st} same=0 len1={} len2=0 fp={st}", c.id, a.len()),
        _ => format!("idem {cfg} {} ;; {st} same=1 len1=0 len2=0", c.id),
    }
}

fn c19_line(cfg: &str, c: &Case) -> Option<String> {
    // the statement is about parseable sources
    let st = lex_flat(&c.src)?;
    if !parses(&c.src) { return None; }
    let mut f = mk_formatter(cfg);
    let o1 = fmt_with(&mut f, &c.src);
    let head = format!("fmt {cfg} {} {}", c.id, enc_toks(&st));
    Some(match o1 {
        Out::Rej(k) => format!("{head} ;; rej-{k}"),
        Out::Panic => format!("{head} ;; panic"),
        Out::Ok(o) => match lex_flat(&o) {
            None => format!("{head} ;; nolex - parses=0"),
            Some(ot) => format!("{head} ;; ok {} parses={}", enc_toks(&ot), if parses(&o) { 1 } else { 0 }),
        },
    })
}

// ------------------------------------------------------------------------------------------- kernels

const NL_ALPHABET: &[&str] = &["\n", "\n", "\r\n", "\r\n", "\r", "a", "b", " ", ";", "}", "\t", "é", "//", "\"", "\r\r\n", "\n\r"];

/// Newline-style kernel through the verif hook: `nls <style> <text> <raw> ;; <status> <out> <out of out>`.
fn nls_line(r: &mut Rng) -> String {
    let gen = |r: &mut Rng, max: u64| -> String { let n = r.below(max + 1); (0..n).map(|_| *r.pick(NL_ALPHABET)).collect() };
    let text = gen(r, 14);
    let raw = if r.chance(1, 3) { text.clone() } else { gen(r, 8) };
    let (name, style) = *r.pick(&[("auto", NewlineStyle::Auto), ("windows", NewlineStyle::Windows), ("unix", NewlineStyle::Unix), ("native", NewlineStyle::Native)]);
    let apply = |t: &str| -> Option<String> {
        let (t, raw) = (t.to_string(), raw.clone());
        guarded(move || { let mut o = t; swayfmt::verif_hooks::apply_newline_style(style, &mut o, &raw).ok().map(|_| o) }).flatten()
    };
    let head = format!("nls {name} {} {}", cps(&text), cps(&raw));
    match apply(&text) {
        None => format!("{head} ;; fail"),
        Some(o1) => match apply(&o1) { None => format!("{head} ;; fail2 {}", cps(&o1)), Some(o2) => format!("{head} ;; ok {} {}", cps(&o1), cps(&o2)) },
    }
}

/// Newline-sequence clamp through the verif hook: `nlseq <len> <threshold> ;; <newlines written>|panic`.
fn nlseq_line(r: &mut Rng) -> String {
    let len = if r.chance(1, 10) { 0 } else { r.below(9) } as usize;
    let thr = r.below(5) as usize;
    match guarded(move || swayfmt::verif_hooks::format_newline_sequence(len, thr)) {
        None => format!("nlseq {len} {thr} ;; panic"),
        Some(s) => if s.chars().all(|c| c == '\n') { format!("nlseq {len} {thr} ;; ok {}", s.len()) } else { format!("nlseq {len} {thr} ;; other {}", cps(&s)) },
    }
}

fn main() {
    let a = args();
    if !a.extra.iter().any(|x| x == "--show") { quiet_panics(); }
    let seed = seed_from_env();
    let tier = std::env::var("VERIF_TIER").unwrap_or_else(|_| "quick".into());
    let mode = a.extra.iter().position(|x| x == "--mode").map(|i| a.extra[i + 1].clone()).unwrap_or_else(|| "c18".into());
    let root = repo_root();
    let mut files = vec![];
    walk(&root, &mut files);
    let rel = |p: &Path| p.strip_prefix(&root).unwrap().to_string_lossy().replace(' ', "%20");

    if let Some(i) = a.extra.iter().position(|x| x == "--show") {
        let (cfg, id) = (a.extra[i + 1].clone(), a.extra[i + 2].clone());
        let (path, var) = id.split_once('#').unwrap();
        let src0 = std::fs::read_to_string(root.join(path.replace("%20", " "))).unwrap();
        let k: usize = var.trim_start_matches(|c: char| !c.is_ascii_digit()).parse().unwrap_or(0);
        let (name, src) = variant(&src0, path, k, seed);
        let (o1, o2) = fmt_twice(&cfg, &src);
        println!("=== {path}#{name} cfg={cfg}\n--- src\n{src}\n--- out1 {:?}", status(&o1, &o2));
        if let Out::Ok(s) = &o1 { println!("{s}"); }
        if let Some(Out::Ok(s)) = &o2 { println!("--- out2\n{s}"); }
        return;
    }

    let mut out = std::io::BufWriter::new(std::fs::File::create(&a.out).unwrap());
    let mut cases: Vec<Case> = vec![];
    // corpus: lines `<cfg>|<source with \n \r \t \\ escaped>`; run first, under the named config
    let mut corpus: Vec<(String, Case)> = vec![];
    if let Some(c) = &a.corpus {
        for (n, l) in std::fs::read_to_string(c).unwrap_or_default().lines().enumerate() {
            if l.starts_with('#') || l.trim().is_empty() { continue; }
            let Some((cfg, s)) = l.split_once('|') else { continue };
            let mut src = String::new(); let mut it = s.chars();
            while let Some(ch) = it.next() {
                if ch == '\\' { match it.next() { Some('n') => src.push('\n'), Some('r') => src.push('\r'), Some('t') => src.push('\t'), Some(o) => src.push(o), None => {} } } else { src.push(ch); }
            }
            corpus.push((cfg.to_string(), Case { id: format!("corpus:{n}"), src }));
        }
    }
    // file selection: thorough = all; quick = all "small" files up to a byte budget + a seed-sampled set
    let mut r = Rng::new(seed);
    let budget = a.n; // number of (file, variant) inputs
    let thorough = tier == "thorough";
    let mut chosen: Vec<&PathBuf> = vec![];
    if thorough { chosen = files.iter().collect(); }
    else {
        let mut idx: Vec<usize> = (0..files.len()).collect();
        for i in (1..idx.len()).rev() { let j = r.below(i as u64 + 1) as usize; idx.swap(i, j); }
        for &i in idx.iter().take(budget) { chosen.push(&files[i]); }
        chosen.sort();
    }
    for p in chosen {
        if mode == "kernel" { break; }
        let Ok(src) = std::fs::read_to_string(p) else { continue };
        if src.len() > 400_000 { continue; }
        let id = rel(p);
        let nvar = if thorough { 3 } else { 2 };
        cases.push(Case { id: format!("{id}#orig"), src: src.clone() });
        for _ in 0..nvar {
            let k = 1 + r.below(1000) as usize;
            let (name, v) = variant(&src, &id, k, seed);
            if v != src { cases.push(Case { id: format!("{id}#{name}"), src: v }); }
        }
    }
    let mut n = 0usize;
    if mode == "kernel" {
        for i in 0..a.n { let l = if i % 4 == 3 { nlseq_line(&mut r) } else { nls_line(&mut r) }; writeln!(out, "{l}").unwrap(); }
        out.flush().unwrap();
        eprintln!("sv_c18[kernel]: {} lines", a.n);
        return;
    }
    for (cfg, c) in &corpus {
        let line = if mode == "c19" { c19_line(cfg, c) } else { Some(c18_line(cfg, c)) };
        if let Some(l) = line { writeln!(out, "{l}").unwrap(); n += 1; }
    }
    for (ci, c) in cases.iter().enumerate() {
        // default config always; the others rotate (quick) or all (thorough, on the file itself)
        let mut cfgs: Vec<&str> = vec!["default"];
        if thorough && c.id.ends_with("#orig") { cfgs.extend(CONFIGS.iter().skip(1)); }
        else { cfgs.push(CONFIGS[1 + (ci + seed as usize) % (CONFIGS.len() - 1)]); }
        for cfg in cfgs {
            if mode == "c19" && cfg == "reuse" { continue; }
            let line = if mode == "c19" { c19_line(cfg, c) } else { Some(c18_line(cfg, c)) };
            if let Some(l) = line { writeln!(out, "{l}").unwrap(); n += 1; }
        }
    }
    out.flush().unwrap();
    eprintln!("sv_c18[{mode}]: {} inputs, {} lines", cases.len() + corpus.len(), n);
}
