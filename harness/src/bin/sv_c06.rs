//! C06: compile-time evaluation vs. run-time evaluation, operator by operator.
//!
//! ct side: a one-instruction IR function with two *constant* operands goes through the real
//!          `const-folding` pass (sway-ir `PassManager`); the harness reads back whether the returned value
//!          became a constant and which. Runs in a child process (`--ct-worker`) so that an abort of the
//!          compiler (e.g. a failed allocation, which `catch_unwind` cannot catch) is observed as `abort`.
//! rt side: the instruction the Fuel backend emits for that IR operator is executed by the real FuelVM
//!          (fuel-vm interpreter, script transaction) with the operands loaded from script data.
//!
//! Line: `fold irfold <op> <ty> <a> <b> <route> ;; <ct>/<rt> ct=<hex|-> rt=<hex|-> [raw=<hex>]`
//!       `simp <op> u64 <l|r> <c> <x> ;; <ct>/<rt> ct=<hex|-> rt=<hex|->`      (ct class `arg` = the
//!        rewrite replaced the instruction by its non-constant operand; ct=<x>)
//! ct ∈ fold | decline | abort | cterr ; rt ∈ ok | revert | panic | rterr. Values are hex payloads.
use std::io::{BufRead, BufReader, Write};
use std::process::{Child, ChildStdin, ChildStdout, Command, Stdio};
use svharness::{proto::*, rng::*};

// ------------------------------------------------------------------------------------------- 256-bit helpers

type W = [u64; 4]; // little-endian limbs

fn w_from_u64(x: u64) -> W { [x, 0, 0, 0] }
fn w_pow2(k: u32) -> W { let mut w = [0u64; 4]; if k < 256 { w[(k / 64) as usize] = 1u64 << (k % 64); } w }
fn w_max() -> W { [u64::MAX; 4] }
fn w_add(a: W, b: W) -> W {
    let mut r = [0u64; 4];
    let mut c = 0u128;
    for i in 0..4 { let s = a[i] as u128 + b[i] as u128 + c; r[i] = s as u64; c = s >> 64; }
    r
}
fn w_not(a: W) -> W { [!a[0], !a[1], !a[2], !a[3]] }
fn w_neg(a: W) -> W { w_add(w_not(a), w_from_u64(1)) }
fn w_sub(a: W, b: W) -> W { w_add(a, w_neg(b)) }
fn w_hex(a: W) -> String {
    let s = format!("{:016x}{:016x}{:016x}{:016x}", a[3], a[2], a[1], a[0]);
    let t = s.trim_start_matches('0');
    if t.is_empty() { "0".into() } else { t.into() }
}
fn w_bytes(a: W) -> [u8; 32] {
    let mut b = [0u8; 32];
    for i in 0..4 { b[i * 8..i * 8 + 8].copy_from_slice(&a[3 - i].to_be_bytes()); }
    b
}
fn w_from_bytes(b: &[u8]) -> W {
    let mut w = [0u64; 4];
    for i in 0..4 { w[3 - i] = u64::from_be_bytes(b[i * 8..i * 8 + 8].try_into().unwrap()); }
    w
}
fn w_parse(s: &str) -> Option<W> {
    if s.is_empty() || s.len() > 64 { return None; }
    let p = format!("{:0>64}", s);
    let mut w = [0u64; 4];
    for i in 0..4 { w[3 - i] = u64::from_str_radix(&p[i * 16..i * 16 + 16], 16).ok()?; }
    Some(w)
}
fn bytes_hex_trim(b: &[u8]) -> String {
    let s = hex::encode(b);
    let t = s.trim_start_matches('0');
    if t.is_empty() { "0".into() } else { t.into() }
}

// ------------------------------------------------------------------------------------------- cases

const BIN_OPS: &[&str] = &["add", "sub", "mul", "div", "mod", "and", "or", "xor", "lsh", "rsh"];
const CMP_OPS: &[&str] = &["eq", "lt", "gt"];
const TYPES: &[&str] = &["u8", "u16", "u32", "u64", "u256", "b256"];

fn width(ty: &str) -> u32 {
    match ty { "u8" => 8, "u16" => 16, "u32" => 32, "u64" => 64, "bool" => 1, _ => 256 }
}
fn is_wide(ty: &str) -> bool { ty == "u256" || ty == "b256" }

/// Boundary-biased 64-bit payload for a constant of declared width `w`.
fn gen_u64(r: &mut Rng, w: u32) -> u64 {
    let max = if w >= 64 { u64::MAX } else { (1u64 << w) - 1 };
    match r.below(16) {
        0 => 0,
        1 => 1,
        2 => max,
        3 => max - 1,
        4 => 2,
        5 | 6 => 1u64 << r.below(w as u64),
        7 => (1u64 << r.below(w as u64)).wrapping_add(1) & max,
        8 => (1u64 << r.below(w as u64)).wrapping_sub(1),
        9 => max / 2,
        10 => max / 2 + 1,
        // payload beyond the declared width (the IR allows it: `const u8 300`)
        11 if w < 64 && r.chance(1, 3) => r.next(),
        12 => r.below(256) & max,
        _ => { let bits = 1 + r.below(w as u64); (r.next() >> (64 - bits)) & max }
    }
}

fn gen_w(r: &mut Rng) -> W {
    match r.below(16) {
        0 => w_from_u64(0),
        1 => w_from_u64(1),
        2 => w_max(),
        3 => w_sub(w_max(), w_from_u64(1)),
        4 => w_pow2(255),
        5 | 6 => w_pow2(r.below(256) as u32),
        7 => w_add(w_pow2(r.below(256) as u32), w_from_u64(1)),
        8 => w_sub(w_pow2(r.below(256) as u32), w_from_u64(1)),
        9 => w_from_u64(r.next()),
        10 => w_from_u64(u64::MAX),
        11 => w_pow2(64 * (1 + r.below(3) as u32)),
        12 => w_sub(w_pow2(64 * (1 + r.below(3) as u32)), w_from_u64(1)),
        _ => {
            let bits = 1 + r.below(256) as u32;
            let mut w = [r.next(), r.next(), r.next(), r.next()];
            // keep `bits` low bits, force the top one
            for i in 0..4 {
                let lo = 64 * i as u32;
                if bits <= lo { w[i] = 0; } else if bits < lo + 64 { w[i] &= (1u64 << (bits - lo)) - 1; }
            }
            let t = w_pow2(bits - 1);
            for i in 0..4 { w[i] |= t[i]; }
            w
        }
    }
}

/// Shift amounts, the same family for every stream and every width (incl. u256/b256): around 0, around the
/// width, around 64 and 256, around the u32 boundary (2^31, 2^32-1, 2^32, 2^32+k with k < 64: amounts whose
/// low 32 bits look like a valid shift), huge powers of two, u64::MAX.
fn gen_shift(r: &mut Rng, w: u32, _tier_thorough: bool) -> u64 {
    let w = w as u64;
    match r.below(24) {
        0 => 0,
        1 => 1,
        2 => w - 1,
        3 => w,
        4 => w + 1,
        5 => 63,
        6 => 64,
        7 => 65,
        8 => 255,
        9 => 256,
        10 => 257,
        11 => 1u64 << 31,
        12 => (1u64 << 32) - 1,
        13 => 1u64 << 32,
        14 | 15 => (1u64 << 32) + r.below(64),
        16 => 1u64 << 40,
        17 => 1u64 << 63,
        18 => u64::MAX,
        19 => (1u64 << (33 + r.below(31))) + r.below(64),
        _ => r.below(2 * w + 2),
    }
}

struct Case { kind: &'static str, op: String, ty: String, a: String, b: String, extra: String }

impl Case {
    fn line(&self) -> String {
        match self.kind {
            "fold" => format!("fold {} {} {} {} {} {}", if self.extra == "sway" { "consteval" } else { "irfold" }, self.op, self.ty, self.a, self.b, self.extra),
            _ => format!("simp {} {} {} {} {}", self.op, self.ty, self.extra, self.a, self.b),
        }
    }
}

fn gen_pair_u64(r: &mut Rng, op: &str, w: u32, thorough: bool) -> (u64, u64) {
    let max = if w >= 64 { u64::MAX } else { (1u64 << w) - 1 };
    let a = gen_u64(r, w);
    let b = match op {
        "lsh" | "rsh" => gen_shift(r, w, thorough),
        "add" if r.chance(2, 5) => (u64::MAX - a).wrapping_add(r.below(3)).wrapping_sub(1),
        "add" if r.chance(1, 4) => (max.wrapping_sub(a)).wrapping_add(r.below(3)).wrapping_sub(1),
        "sub" | "eq" | "lt" | "gt" if r.chance(2, 5) => a.wrapping_add(r.below(3)).wrapping_sub(1),
        "mul" if r.chance(2, 5) && a != 0 => (u64::MAX / a).wrapping_add(r.below(3)).wrapping_sub(1),
        "mul" if r.chance(1, 4) => { let k = r.below(65) as u32; return (if k == 64 { 0 } else { 1u64 << k }, if k == 0 { 0 } else { 1u64 << (64 - k) }); }
        "div" | "mod" if r.chance(1, 2) => *r.pick(&[0, 0, 1, 2, max, a, a.wrapping_add(1), a.wrapping_sub(1)]),
        _ => gen_u64(r, w),
    };
    (a, b)
}

fn gen_pair_w(r: &mut Rng, op: &str) -> (W, W) {
    let a = gen_w(r);
    let d = w_sub(w_from_u64(r.below(3)), w_from_u64(1));
    let b = match op {
        "add" if r.chance(2, 5) => w_add(w_not(a), w_add(w_from_u64(1), d)), // 2^256 - a + d
        "sub" | "eq" | "lt" | "gt" if r.chance(2, 5) => w_add(a, d),
        "mul" if r.chance(2, 5) => {
            let k = r.below(257) as u32;
            let x = if k == 256 { w_from_u64(0) } else { w_add(w_pow2(k), if r.chance(1, 3) { d } else { w_from_u64(0) }) };
            let y = if k == 0 { w_from_u64(0) } else { w_add(w_pow2(256 - k), if r.chance(1, 3) { d } else { w_from_u64(0) }) };
            return (x, y);
        }
        "div" | "mod" if r.chance(1, 2) => *r.pick(&[w_from_u64(0), w_from_u64(0), w_from_u64(1), w_from_u64(2), w_max(), a, w_add(a, w_from_u64(1))]),
        _ => gen_w(r),
    };
    (a, b)
}

/// Can the case go through the `const_eval.rs` stream? Operands are written as literals, so they must fit the
/// declared width. A raw intrinsic on u8/u16/u32 whose 64-bit result leaves the declared width is outside the
/// representation invariant of narrow values (std's operators range-check / mask): the constant is truncated
/// when it is materialised. The IR-level stream covers those payloads.
fn sway_ok(c: &Case) -> bool {
    if c.kind != "fold" { return false; }
    if is_wide(&c.ty) || c.ty == "bool" { return true; }
    let w = width(&c.ty);
    let a = u64::from_str_radix(&c.a, 16).unwrap_or(0);
    let b = u64::from_str_radix(&c.b, 16).unwrap_or(0);
    let shift = c.op == "lsh" || c.op == "rsh";
    if w < 64 && (a >> w != 0 || (!shift && b >> w != 0)) { return false; }
    let res = match c.op.as_str() {
        "add" => a.checked_add(b), "sub" => a.checked_sub(b), "mul" => a.checked_mul(b),
        "lsh" => if b < 64 { Some(a << b) } else { None },
        _ => Some(0),
    };
    !(w < 64 && res.map_or(false, |x| x >> w != 0))
}

fn gen_sway_case(r: &mut Rng, thorough: bool) -> Case {
    loop {
        let mut c = gen_case(r, thorough);
        if !sway_ok(&c) { continue; }
        c.extra = "sway".into();
        return c;
    }
}

fn gen_case(r: &mut Rng, thorough: bool) -> Case {
    let route = |r: &mut Rng, ty: &str| if matches!(ty, "u16" | "u32") || r.chance(1, 2) { "api" } else { "text" };
    match r.below(20) {
        // useless-binary-op rewrites: one constant, one non-constant operand
        0 | 1 => {
            let op = *r.pick(&["add", "sub", "mul", "div", "mod", "and", "or", "xor", "lsh", "rsh"]);
            let side = if r.chance(1, 2) { "l" } else { "r" };
            let c = *r.pick(&[0u64, 0, 1, 1, 2, u64::MAX]);
            let x = gen_u64(r, 64);
            Case { kind: "simp", op: op.into(), ty: "u64".into(), a: format!("{:x}", c), b: format!("{:x}", x), extra: side.into() }
        }
        2 | 3 => {
            // unary not, every type
            let ty = *r.pick(&["u8", "u16", "u32", "u64", "u256", "b256"]);
            let a = if is_wide(ty) { w_hex(gen_w(r)) } else { format!("{:x}", gen_u64(r, width(ty))) };
            Case { kind: "fold", op: "not".into(), ty: ty.into(), a, b: "0".into(), extra: route(r, ty).into() }
        }
        4 => {
            // eq on bool
            let a = r.below(2); let b = r.below(2);
            Case { kind: "fold", op: "eq".into(), ty: "bool".into(), a: format!("{:x}", a), b: format!("{:x}", b), extra: route(r, "bool").into() }
        }
        k => {
            let ty = *r.pick(TYPES);
            // the IR verifier admits only bitwise ops, shifts, `not` and comparisons on b256
            let op = if k < 9 { *r.pick(CMP_OPS) } else if ty == "b256" { *r.pick(&BIN_OPS[5..]) } else { *r.pick(BIN_OPS) };
            let (a, b) = if is_wide(ty) {
                if op == "lsh" || op == "rsh" {
                    (w_hex(gen_w(r)), format!("{:x}", gen_shift(r, 256, thorough)))
                } else {
                    let (a, b) = gen_pair_w(r, op);
                    (w_hex(a), w_hex(b))
                }
            } else {
                let (a, b) = gen_pair_u64(r, op, width(ty), thorough);
                (format!("{:x}", a), format!("{:x}", b))
            };
            Case { kind: "fold", op: op.into(), ty: ty.into(), a, b, extra: route(r, ty).into() }
        }
    }
}

// ------------------------------------------------------------------------------------------- ct side (child)

mod ct {
    use super::*;
    use sway_features::ExperimentalFeatures;
    use sway_ir::*;
    use sway_types::{u256::U256, SourceEngine};

    fn ir_ty(ctx: &mut Context, ty: &str) -> Type {
        match ty {
            "bool" => Type::get_bool(ctx),
            "u256" => Type::get_uint256(ctx),
            "b256" => Type::get_b256(ctx),
            t => Type::new_uint(ctx, width(t) as u16),
        }
    }
    fn ir_const(ctx: &mut Context, ty: &str, v: &str) -> Option<Value> {
        Some(match ty {
            "bool" => ConstantContent::get_bool(ctx, u64::from_str_radix(v, 16).ok()? != 0),
            "u256" => ConstantContent::get_uint256(ctx, U256::from_be_bytes(&w_bytes(w_parse(v)?))),
            "b256" => ConstantContent::get_b256(ctx, w_bytes(w_parse(v)?)),
            t => ConstantContent::get_uint(ctx, width(t) as u16, u64::from_str_radix(v, 16).ok()?),
        })
    }
    fn text_const(ty: &str, v: &str) -> Option<String> {
        Some(match ty {
            "bool" => (if u64::from_str_radix(v, 16).ok()? != 0 { "true" } else { "false" }).to_string(),
            "u256" | "b256" => format!("0x{}", hex::encode(w_bytes(w_parse(v)?))),
            _ => format!("{}", u64::from_str_radix(v, 16).ok()?),
        })
    }
    fn bin_kind(op: &str) -> Option<BinaryOpKind> {
        use BinaryOpKind::*;
        Some(match op { "add" => Add, "sub" => Sub, "mul" => Mul, "div" => Div, "mod" => Mod, "and" => And, "or" => Or,
                        "xor" => Xor, "lsh" => Lsh, "rsh" => Rsh, _ => return None })
    }
    fn pred(op: &str) -> Option<Predicate> {
        Some(match op { "eq" => Predicate::Equal, "lt" => Predicate::LessThan, "gt" => Predicate::GreaterThan, _ => return None })
    }
    fn rhs_ty<'a>(op: &str, ty: &'a str) -> &'a str { if op == "lsh" || op == "rsh" { "u64" } else { ty } }
    fn ret_ty<'a>(op: &str, ty: &'a str) -> &'a str { if pred(op).is_some() { "bool" } else { ty } }

    fn fold_and_read(ctx: &mut Context) -> String {
        let mut pm = PassManager::default();
        register_known_passes(&mut pm);
        let mut group = PassGroup::default();
        group.append_pass(CONST_FOLDING_NAME);
        if let Err(e) = pm.run(ctx, &group, &Options { rounds: 1, ..Default::default() }) {
            return format!("cterr pass:{}", format!("{e:?}").replace(' ', "_"));
        }
        let Some(module) = ctx.module_iter().next() else { return "cterr nomodule".into() };
        let Some(func) = module.function_iter(ctx).next() else { return "cterr nofn".into() };
        let entry = func.get_entry_block(ctx);
        let Some(Instruction { op: InstOp::Ret(val, _), .. }) = entry.get_terminator(ctx) else { return "cterr noret".into() };
        let val = *val;
        if let Some(c) = val.get_constant(ctx) {
            return match &c.get_content(ctx).value {
                ConstantValue::Uint(n) => format!("fold {:x}", n),
                ConstantValue::Bool(b) => format!("fold {:x}", *b as u8),
                // LowerHex, not `to_be_bytes` (which asserts 32 bytes): an out-of-range folded value must be reported
                ConstantValue::U256(v) | ConstantValue::B256(v) => {
                    let h = format!("{v:x}");
                    let t = h.trim_start_matches('0');
                    format!("fold {}", if t.is_empty() { "0" } else { t })
                }
                other => format!("cterr const:{}", format!("{other:?}").replace(' ', "_")),
            };
        }
        if func.args_iter(ctx).any(|a| a.value == val) { return "arg".into(); }
        "decline".into()
    }

    pub fn eval(tokens: &[&str]) -> String {
        let source_engine = SourceEngine::default();
        match tokens {
            ["fold", "irfold", op, ty, a, b, route] => {
                if *route == "text" {
                    let (Some(ca), Some(cb)) = (text_const(ty, a), text_const(rhs_ty(op, ty), b)) else { return "cterr operand".into() };
                    let inst = if *op == "not" { "v2 = not v0".to_string() }
                               else if pred(op).is_some() { format!("v2 = cmp {op} v0 v1") }
                               else { format!("v2 = {op} v0, v1") };
                    let text = format!("script {{\n    entry fn main() -> {rt} {{\n        entry():\n        v0 = const {ty} {ca}\n        v1 = const {rty} {cb}\n        {inst}\n        ret {rt} v2\n    }}\n}}\n",
                                       rt = ret_ty(op, ty), rty = rhs_ty(op, ty));
                    let mut ctx = match sway_ir::parser::parse(&text, &source_engine, ExperimentalFeatures::default(), Backtrace::default()) {
                        Ok(c) => c,
                        Err(e) => return format!("cterr parse:{}", format!("{e:?}").replace(' ', "_")),
                    };
                    fold_and_read(&mut ctx)
                } else {
                    let mut ctx = Context::new(&source_engine, ExperimentalFeatures::default(), Backtrace::default());
                    let module = Module::new(&mut ctx, Kind::Script);
                    let rt = ir_ty(&mut ctx, ret_ty(op, ty));
                    let func = Function::new(&mut ctx, module, "main".into(), "main".into(), vec![], rt, None, false, true, false, false, None);
                    let entry = func.get_entry_block(&ctx);
                    let (Some(va), Some(vb)) = (ir_const(&mut ctx, ty, a), ir_const(&mut ctx, rhs_ty(op, ty), b)) else { return "cterr operand".into() };
                    let v = if *op == "not" { entry.append(&mut ctx).unary_op(UnaryOpKind::Not, va) }
                            else if let Some(p) = pred(op) { entry.append(&mut ctx).cmp(p, va, vb) }
                            else if let Some(k) = bin_kind(op) { entry.append(&mut ctx).binary_op(k, va, vb) }
                            else { return "cterr op".into() };
                    entry.append(&mut ctx).ret(v, rt);
                    fold_and_read(&mut ctx)
                }
            }
            ["simp", op, "u64", side, c, x] => {
                // `x` is irrelevant at compile time: the non-constant operand is the function argument
                let _ = x;
                let mut ctx = Context::new(&source_engine, ExperimentalFeatures::default(), Backtrace::default());
                let module = Module::new(&mut ctx, Kind::Script);
                let t = Type::get_uint64(&ctx);
                let func = Function::new(&mut ctx, module, "main".into(), "main".into(),
                                         vec![(IrMutability::Immutable, "x".into(), t, None)], t, None, false, true, false, false, None);
                let entry = func.get_entry_block(&ctx);
                let Some(arg) = func.get_arg(&ctx, "x") else { return "cterr noarg".into() };
                let Ok(c) = u64::from_str_radix(c, 16) else { return "cterr operand".into() };
                let vc = ConstantContent::get_uint(&mut ctx, 64, c);
                let Some(k) = bin_kind(op) else { return "cterr op".into() };
                let v = if *side == "l" { entry.append(&mut ctx).binary_op(k, vc, arg) } else { entry.append(&mut ctx).binary_op(k, arg, vc) };
                entry.append(&mut ctx).ret(v, t);
                fold_and_read(&mut ctx)
            }
            ["fold", "consteval", op, ty, a, b, "sway"] => match super::sway::source(op, ty, a, b) {
                Some(src) => super::sway::compile_run(&src),
                None => "cterr operand".into(),
            },
            ["sway", src_hex] => match hex::decode(src_hex).ok().and_then(|b| String::from_utf8(b).ok()) {
                Some(src) => super::sway::compile_run(&src),
                None => "cterr source".into(),
            },
            _ => "cterr badcase".into(),
        }
    }

    pub fn worker() {
        quiet_panics();
        let stdin = std::io::stdin();
        let stdout = std::io::stdout();
        for line in stdin.lock().lines() {
            let Ok(line) = line else { break };
            let toks: Vec<&str> = line.split_whitespace().collect();
            // a Rust panic inside the pass / the compiler is a crash of the compile-time evaluator
            let res = guarded(|| eval(&toks)).unwrap_or_else(|| "crash".into());
            let mut o = stdout.lock();
            // marker: the pass manager may print to stdout (e.g. the module, on a verification error)
            writeln!(o, "\n@@ {}", res).unwrap();
            o.flush().unwrap();
        }
    }
}

/// The `const_eval.rs` path: a no-std Sway script `const X: T = __op(A, B); fn main() -> T { X }` is compiled by
/// the real compiler (forc-pkg, old encoding so that no std is needed) and run on the VM to read `X` back.
/// A failed compilation is `decline` (the diagnostics are not observable through forc-pkg; a broken
/// template would show up as a model disagreement), a compiler panic is `crash`.
mod sway {
    use super::*;

    fn lit(ty: &str, v: &str) -> Option<String> {
        Some(match ty {
            "bool" => (if u64::from_str_radix(v, 16).ok()? != 0 { "true" } else { "false" }).to_string(),
            "u256" => format!("0x{}u256", hex::encode(w_bytes(w_parse(v)?))),
            "b256" => format!("0x{}", hex::encode(w_bytes(w_parse(v)?))),
            t => { let n = u64::from_str_radix(v, 16).ok()?; if width(t) < 64 && n >> width(t) != 0 { return None; } format!("{}{}", n, t) }
        })
    }

    pub fn source(op: &str, ty: &str, a: &str, b: &str) -> Option<String> {
        let ret = if matches!(op, "eq" | "lt" | "gt") { "bool" } else { ty };
        let la = lit(ty, a)?;
        let expr = if op == "not" {
            // `!x` on u8/u16/u32 is `__and(__not(x), max)` (impl Not in sway-lib-std/src/ops.sw); u16/u32 are u64 in the IR
            match ty { "u8" | "u16" | "u32" => format!("__and(__not({la}), {}{ty})", (1u64 << width(ty)) - 1), _ => format!("__not({la})") }
        } else {
            let lb = lit(if op == "lsh" || op == "rsh" { "u64" } else { ty }, b)?;
            format!("__{op}({la}, {lb})")
        };
        Some(format!("script;\nconst X: {ret} = {expr};\nfn main() -> {ret} {{ X }}\n"))
    }

    pub fn compile_run(src: &str) -> String {
        let dir = std::env::temp_dir().join(format!("sv_c06_pkg_{}", std::process::id()));
        let _ = std::fs::create_dir_all(dir.join("src"));
        if std::fs::write(dir.join("Forc.toml"), "[project]\nauthors = [\"verif\"]\nentry = \"main.sw\"\nlicense = \"Apache-2.0\"\nname = \"c06case\"\nimplicit-std = false\n").is_err()
            || std::fs::write(dir.join("src/main.sw"), src).is_err() { return "cterr write".into(); }
        let opts = forc_pkg::BuildOpts {
            pkg: forc_pkg::PkgOpts { path: Some(dir.to_string_lossy().into_owned()), offline: true, terse: true, ..Default::default() },
            no_experimental: vec![sway_features::Feature::NewEncoding],
            ..Default::default()
        };
        let built = match guarded(|| forc_pkg::build_with_options(&opts, None)) {
            None => return "crash".into(),
            Some(Err(_)) => return "decline".into(),
            Some(Ok(b)) => b,
        };
        let forc_pkg::Built::Package(pkg) = built else { return "cterr workspace".into() };
        let mut vm = rt::Vm::new();
        match vm.run_bytes(pkg.bytecode.bytes.clone(), vec![]) {
            Ok(r) => {
                let (class, val, _) = rt::Vm::classify(&r);
                match (class.as_str(), val) {
                    ("ok", Some(v)) => format!("fold {}", v),
                    (c, _) => format!("cterr run:{}", c),
                }
            }
            Err(e) => format!("cterr run:{}", e.replace(' ', "_").chars().take(60).collect::<String>()),
        }
    }

    pub fn cleanup(pid: u32) {
        let _ = std::fs::remove_dir_all(std::env::temp_dir().join(format!("sv_c06_pkg_{}", pid)));
    }
}

struct CtChild { child: Child, stdin: ChildStdin, stdout: BufReader<ChildStdout> }

fn spawn_ct() -> CtChild {
    let exe = std::env::current_exe().unwrap();
    let mut child = Command::new(exe).arg("--ct-worker").stdin(Stdio::piped()).stdout(Stdio::piped()).stderr(Stdio::null()).spawn().unwrap();
    let stdin = child.stdin.take().unwrap();
    let stdout = BufReader::new(child.stdout.take().unwrap());
    CtChild { child, stdin, stdout }
}

/// Compile-time result of a case; a dead worker means the compiler aborted on that case.
fn ct_eval(w: &mut Option<CtChild>, line: &str) -> String {
    if w.is_none() { *w = Some(spawn_ct()); }
    let c = w.as_mut().unwrap();
    let sent = writeln!(c.stdin, "{}", line).and_then(|_| c.stdin.flush());
    let mut resp = String::new();
    let mut got = 0;
    if sent.is_ok() {
        loop {
            resp.clear();
            got = c.stdout.read_line(&mut resp).unwrap_or(0);
            if got == 0 { break; }
            if let Some(r) = resp.strip_prefix("@@ ") { resp = r.to_string(); break; }
        }
    }
    if got == 0 {
        let _ = c.child.kill();
        let _ = c.child.wait();
        sway::cleanup(c.child.id());
        *w = None;
        return "abort".into();
    }
    resp.trim().to_string()
}

// ------------------------------------------------------------------------------------------- rt side (FuelVM)

mod rt {
    use super::*;
    use fuel_asm::{op, GTFArgs, Instruction, RegId};
    use fuel_tx::{Receipt, Script, TransactionBuilder};
    use fuel_vm::checked_transaction::builder::TransactionBuilderExt;
    use fuel_vm::interpreter::{Interpreter, MemoryInstance};
    use fuel_vm::prelude::SecretKey;
    use fuel_vm::storage::MemoryStorage;

    pub struct Vm { interp: Interpreter<MemoryInstance, MemoryStorage, Script> }

    // immediates as `VirtualImmediate06::{wide_op, wide_cmp, wide_mul, wide_div}` of sway-core encode them
    const IND_RHS: u8 = 32;
    const IND_LHS: u8 = 16;
    fn wide_op_imm(op: &str) -> Option<u8> {
        Some(match op { "add" => 0 | IND_RHS, "sub" => 1 | IND_RHS, "not" => 2, "or" => 3 | IND_RHS, "xor" => 4 | IND_RHS,
                        "and" => 5 | IND_RHS, "lsh" => 6, "rsh" => 7, _ => return None })
    }
    fn wide_cmp_imm(op: &str) -> Option<u8> {
        Some(match op { "eq" => 0 | IND_RHS, "lt" => 2 | IND_RHS, "gt" => 3 | IND_RHS, _ => return None })
    }

    const A: u8 = 0x10; const B: u8 = 0x11; const R: u8 = 0x12; const D: u8 = 0x13; const M: u8 = 0x14;
    const PB: u8 = 0x15; const PZ: u8 = 0x16; const PR: u8 = 0x17; const L: u8 = 0x18;

    /// The instruction `compile_binary_op` / `compile_unary_op` / `compile_cmp` emits for the IR operator.
    fn narrow_instr(opn: &str) -> Option<Instruction> {
        Some(match opn {
            "add" => op::add(R, A, B), "sub" => op::sub(R, A, B), "mul" => op::mul(R, A, B), "div" => op::div(R, A, B),
            "mod" => op::mod_(R, A, B), "and" => op::and(R, A, B), "or" => op::or(R, A, B), "xor" => op::xor(R, A, B),
            "lsh" => op::sll(R, A, B), "rsh" => op::srl(R, A, B), "not" => op::not(R, A),
            "eq" => op::eq(R, A, B), "lt" => op::lt(R, A, B), "gt" => op::gt(R, A, B),
            _ => return None,
        })
    }

    impl Vm {
        pub fn new() -> Self { Vm { interp: Interpreter::<MemoryInstance, MemoryStorage, Script>::with_memory_storage() } }

        fn run(&mut self, code: Vec<Instruction>, data: Vec<u8>) -> Result<Vec<Receipt>, String> {
            self.run_bytes(code.into_iter().collect(), data)
        }

        pub fn run_bytes(&mut self, script: Vec<u8>, data: Vec<u8>) -> Result<Vec<Receipt>, String> {
            let mut tb = TransactionBuilder::script(script, data);
            let secret = SecretKey::try_from(&[7u8; 32][..]).map_err(|e| format!("{e:?}"))?;
            tb.script_gas_limit(1_000_000)
                .add_unsigned_coin_input(secret, Default::default(), 1, Default::default(), Default::default())
                .maturity(1.into());
            let params = tb.get_params().clone();
            let tx = tb.finalize_checked((u32::MAX >> 1).into())
                .into_ready(0, params.gas_costs(), params.fee_params(), None)
                .map_err(|e| format!("{e:?}"))?;
            let t = self.interp.transact(tx).map_err(|e| format!("{e:?}"))?;
            Ok(t.receipts().to_vec())
        }

        pub fn classify(receipts: &[Receipt]) -> (String, Option<String>, Option<String>) {
            let mut raw = None;
            for r in receipts {
                if let Receipt::Log { ra, .. } = r { raw = Some(format!("{:x}", ra)); }
            }
            for r in receipts {
                match r {
                    Receipt::Panic { .. } => return ("panic".into(), None, raw),
                    Receipt::Revert { .. } => return ("revert".into(), None, raw),
                    Receipt::Return { val, .. } => return ("ok".into(), Some(format!("{:x}", val)), raw),
                    Receipt::ReturnData { data, .. } => {
                        let d = data.as_ref().map(|d| d.to_vec()).unwrap_or_default();
                        return ("ok".into(), Some(bytes_hex_trim(&d)), raw);
                    }
                    _ => {}
                }
            }
            ("rterr".into(), None, raw)
        }

        /// (class, value, raw) — `raw` is the bare `NOT` result for the narrow-width `not` recipe.
        pub fn exec(&mut self, opn: &str, ty: &str, a: &str, b: &str) -> (String, Option<String>, Option<String>) {
            let res = if is_wide(ty) { self.exec_wide(opn, a, b) } else { self.exec_narrow(opn, ty, a, b) };
            match res {
                Ok(r) => Self::classify(&r),
                Err(e) => (format!("rterr:{}", e.replace(' ', "_").chars().take(60).collect::<String>()), None, None),
            }
        }

        fn exec_narrow(&mut self, opn: &str, ty: &str, a: &str, b: &str) -> Result<Vec<Receipt>, String> {
            let a = u64::from_str_radix(a, 16).map_err(|e| e.to_string())?;
            let b = u64::from_str_radix(b, 16).map_err(|e| e.to_string())?;
            let w = width(ty);
            let mask = if w >= 64 { u64::MAX } else { (1u64 << w) - 1 };
            let mut data = vec![];
            data.extend(a.to_be_bytes()); data.extend(b.to_be_bytes()); data.extend(mask.to_be_bytes());
            let mut code = vec![
                op::gtf_args(D, RegId::ZERO, GTFArgs::ScriptData),
                op::lw(A, D, 0), op::lw(B, D, 1), op::lw(M, D, 2),
                narrow_instr(opn).ok_or("op")?,
            ];
            if opn == "not" && w < 64 {
                // `impl Not for u8/u16/u32` of sway-lib-std/src/ops.sw: `__and(__not(self), Self::max())`
                code.push(op::log(R, RegId::ZERO, RegId::ZERO, RegId::ZERO));
                code.push(op::and(R, R, M));
            }
            code.push(op::ret(R));
            self.run(code, data)
        }

        fn exec_wide(&mut self, opn: &str, a: &str, b: &str) -> Result<Vec<Receipt>, String> {
            let a = w_parse(a).ok_or("a")?;
            let shift = opn == "lsh" || opn == "rsh";
            let mut data = vec![];
            data.extend(w_bytes(a));
            if shift {
                let s = u64::from_str_radix(b, 16).map_err(|e| e.to_string())?;
                data.extend(s.to_be_bytes()); data.extend([0u8; 24]);
            } else {
                data.extend(w_bytes(w_parse(b).ok_or("b")?));
            }
            data.extend([0u8; 32]); // the `__wide_zero` local of misc_demotion's `mod` lowering
            let mut code = vec![
                op::gtf_args(D, RegId::ZERO, GTFArgs::ScriptData),
                op::addi(PB, D, 32), op::addi(PZ, D, 64),
                op::move_(PR, RegId::SP), op::cfei(32),
                op::lw(B, PB, 0),
            ];
            let to_reg = match opn {
                "eq" | "lt" | "gt" => { code.push(op::wqcm(R, D, PB, wide_cmp_imm(opn).ok_or("op")?)); true }
                "mul" => { code.push(op::wqml(PR, D, PB, IND_LHS | IND_RHS)); false }
                "div" => { code.push(op::wqdv(PR, D, PB, IND_RHS)); false }
                "mod" => { code.push(op::wqam(PR, D, PZ, PB)); false }
                "lsh" | "rsh" => { code.push(op::wqop(PR, D, B, wide_op_imm(opn).ok_or("op")?)); false }
                "not" => { code.push(op::wqop(PR, D, RegId::ZERO, wide_op_imm(opn).ok_or("op")?)); false }
                _ => { code.push(op::wqop(PR, D, PB, wide_op_imm(opn).ok_or("op")?)); false }
            };
            if to_reg { code.push(op::ret(R)); } else { code.push(op::movi(L, 32)); code.push(op::retd(PR, L)); }
            self.run(code, data)
        }
    }
}

// ------------------------------------------------------------------------------------------- main

fn emit(out: &mut dyn Write, vm: &mut rt::Vm, ctw: &mut Option<CtChild>, c: &Case) {
    let line = c.line();
    let ct = ct_eval(ctw, &line);
    let (rt_class, rt_val, raw) = match c.kind {
        "fold" => vm.exec(&c.op, &c.ty, &c.a, &c.b),
        // simp: constant `a` on side `extra`, non-constant `b`
        _ => if c.extra == "l" { vm.exec(&c.op, "u64", &c.a, &c.b) } else { vm.exec(&c.op, "u64", &c.b, &c.a) },
    };
    let mut ct_t = ct.split_whitespace();
    let ct_class = match ct_t.next().unwrap_or("cterr") { "crash" => "abort".to_string(), c => c.to_string() };
    let ct_val = match ct_class.as_str() {
        "fold" => ct_t.next().unwrap_or("-").to_string(),
        "arg" => c.b.clone(),
        "cterr" => { let m = ct_t.next().unwrap_or("-"); m.chars().take(80).collect() }
        _ => "-".to_string(),
    };
    let mut s = format!("{} ;; {}/{} ct={} rt={}", line, ct_class, rt_class, ct_val, rt_val.unwrap_or_else(|| "-".into()));
    if let Some(r) = raw { s.push_str(&format!(" raw={}", r)); }
    writeln!(out, "{}", s).unwrap();
}

fn main() {
    let a = args();
    if a.extra.iter().any(|x| x == "--ct-worker") { ct::worker(); return; }
    quiet_panics();
    let sway_mode = a.extra.iter().any(|x| x == "--sway");
    let thorough = std::env::var("VERIF_TIER").map(|t| t == "thorough").unwrap_or(false);
    let mut r = Rng::new(seed_from_env());
    let mut out = std::io::BufWriter::new(std::fs::File::create(&a.out).unwrap());
    let mut vm = rt::Vm::new();
    let mut ctw: Option<CtChild> = None;
    let mut cases = 0usize;
    // corpus: lines `fold <op> <ty> <a> <b>` / `simp <op> u64 <l|r> <c> <x>` (hex operands), run first
    if let Some(cp) = &a.corpus {
        for l in std::fs::read_to_string(cp).unwrap_or_default().lines() {
            let t: Vec<&str> = l.split_whitespace().collect();
            if l.starts_with('#') || t.is_empty() { continue; }
            let cs: Vec<Case> = match t.as_slice() {
                ["fold", op, ty, x, y] if sway_mode => vec![Case { kind: "fold", op: op.to_string(), ty: ty.to_string(), a: x.to_string(), b: y.to_string(), extra: "sway".into() }],
                ["fold", op, ty, x, y] => ["text", "api"].iter().filter(|rt| !(**rt == "text" && matches!(*ty, "u16" | "u32")))
                    .map(|rt| Case { kind: "fold", op: op.to_string(), ty: ty.to_string(), a: x.to_string(), b: y.to_string(), extra: rt.to_string() }).collect(),
                ["simp", ..] if sway_mode => vec![],
                ["simp", op, "u64", side, c, x] => vec![Case { kind: "simp", op: op.to_string(), ty: "u64".into(), a: c.to_string(), b: x.to_string(), extra: side.to_string() }],
                _ => { eprintln!("sv_c06: bad corpus line: {l}"); continue; }
            };
            for c in cs {
                if sway_mode && !sway_ok(&c) { continue; }
                emit(&mut out, &mut vm, &mut ctw, &c);
                cases += 1;
            }
        }
    }
    while cases < a.n {
        let c = if sway_mode { gen_sway_case(&mut r, thorough) } else { gen_case(&mut r, thorough) };
        emit(&mut out, &mut vm, &mut ctw, &c);
        cases += 1;
    }
    out.flush().unwrap();
    if let Some(mut c) = ctw { drop(c.stdin); let _ = c.child.wait(); sway::cleanup(c.child.id()); }
    eprintln!("sv_c06: {} cases", cases);
}
