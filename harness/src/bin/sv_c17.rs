//! C17: mutation-based crash search through the FULL pipeline (forc_pkg::build_with_options: parse, type
//! check, IR generation, optimisation, asm, bytecode). Mutants of e2e test packages / examples are compiled
//! in child processes (`sv_c17 child <list>`), each compile under catch_unwind with a recording panic hook;
//! process deaths (abort, stack overflow) and hangs are attributed through BEGIN/END markers.
//! One line per mutant: `mut <pkg> <file> <kind> <fingerprint> ;; ok | err | ice <class> | panic <site> | abort <how> | hang`.
use std::io::{BufRead, Write};
use std::path::{Path, PathBuf};
use std::process::{Command, Stdio};
use std::sync::Mutex;
use std::time::{Duration, Instant};
use svharness::{proto::*, rng::*};

static LAST_PANIC: Mutex<String> = Mutex::new(String::new());

fn norm(s: &str) -> String {
    // canonical class of a message: first line, digits collapsed, no absolute scratch paths
    let first = s.lines().next().unwrap_or("");
    let mut out = String::new();
    let mut prev_digit = false;
    for c in first.chars().take(140) {
        if c.is_ascii_digit() { if !prev_digit { out.push('N'); } prev_digit = true; }
        else { prev_digit = false; out.push(if c.is_whitespace() { '_' } else { c }); }
    }
    out
}

fn child(list: &str) {
    std::panic::set_hook(Box::new(|info| {
        let loc = info.location().map(|l| l.file().to_string()).unwrap_or_default();
        let loc = loc.rsplit("/repo/").next().unwrap_or(&loc).to_string();
        let loc = if loc.contains(".cargo/registry") { loc.rsplit("/src/").next().map(|s| format!("dep:{s}")).unwrap_or(loc) } else { loc };
        let msg = if let Some(s) = info.payload().downcast_ref::<&str>() { s.to_string() }
                  else if let Some(s) = info.payload().downcast_ref::<String>() { s.clone() } else { "?".into() };
        *LAST_PANIC.lock().unwrap() = format!("{}:{}", loc, norm(&msg));
    }));
    let f = std::fs::File::open(list).unwrap();
    for line in std::io::BufReader::new(f).lines() {
        let line = line.unwrap();
        let mut it = line.splitn(2, '\t');
        let (id, dir) = (it.next().unwrap().to_string(), it.next().unwrap().to_string());
        eprintln!("@@BEGIN {id}");
        println!("BEGIN {id}");
        std::io::stdout().flush().unwrap();
        let res = guarded(|| {
            let mut o = forc_pkg::BuildOpts::default();
            o.pkg.path = Some(dir.clone());
            o.pkg.offline = true;
            o.pkg.terse = false;
            o.no_output = true;
            o.tests = true;
            forc_pkg::build_with_options(&o, None).map(|_| ()).map_err(|e| format!("{e:#}"))
        });
        let r = match res {
            Some(Ok(())) => "ok".to_string(),
            Some(Err(e)) => if e.to_lowercase().contains("internal compiler error") { format!("ice {}", norm(&e)) } else { "err".into() },
            None => format!("panic {}", LAST_PANIC.lock().unwrap().clone()),
        };
        eprintln!("@@END {id}");
        println!("RES {id} {r}");
        std::io::stdout().flush().unwrap();
    }
}

fn stage(orig: &Path, dst: &Path) -> Option<()> {
    std::fs::create_dir_all(dst).ok()?;
    let toml = std::fs::read_to_string(orig.join("Forc.toml")).ok()?;
    let mut out = String::new();
    for line in toml.lines() {
        if let Some(i) = line.find("path = \"") {
            let rest = &line[i + 8..];
            let j = rest.find('"')?;
            let p = &rest[..j];
            let abs = if Path::new(p).is_absolute() { PathBuf::from(p) } else { orig.join(p).canonicalize().ok()? };
            out.push_str(&format!("{}path = \"{}\"{}\n", &line[..i], abs.display(), &rest[j + 1..]));
        } else { out.push_str(line); out.push('\n'); }
    }
    std::fs::write(dst.join("Forc.toml"), out).ok()?;
    fn cp(a: &Path, b: &Path) -> Option<()> {
        std::fs::create_dir_all(b).ok()?;
        for e in std::fs::read_dir(a).ok()? {
            let e = e.ok()?;
            let t = b.join(e.file_name());
            if e.path().is_dir() { cp(&e.path(), &t)?; } else { std::fs::copy(e.path(), t).ok()?; }
        }
        Some(())
    }
    cp(&orig.join("src"), &dst.join("src"))
}

fn candidates(with_std: bool) -> Vec<PathBuf> {
    let mut v = vec![];
    fn walk(d: &Path, v: &mut Vec<PathBuf>, depth: usize, with_std: bool) {
        if depth > 8 { return; }
        if d.join("Forc.toml").exists() && d.join("src").is_dir() {
            let t = std::fs::read_to_string(d.join("Forc.toml")).unwrap_or_default();
            if t.contains("[workspace]") || t.contains("git =") || t.contains("ipfs") || t.contains("reduced_std_libs") { return; }
            let has_dep = t.contains("path =");
            if with_std { if t.contains("sway-lib-std\"") && t.matches("path =").count() == 1 { v.push(d.to_path_buf()); } }
            else if !has_dep { v.push(d.to_path_buf()); }
            return;
        }
        if let Ok(rd) = std::fs::read_dir(d) {
            let mut es: Vec<_> = rd.filter_map(|e| e.ok()).map(|e| e.path()).filter(|p| p.is_dir()).collect();
            es.sort();
            for p in es { walk(&p, v, depth + 1, with_std); }
        }
    }
    for root in ["/repo/test/src/e2e_vm_tests/test_programs/should_pass", "/repo/test/src/e2e_vm_tests/test_programs/should_fail", "/repo/examples"] {
        walk(Path::new(root), &mut v, 0, with_std);
    }
    v
}

const TYPES: &[&str] = &["u8", "u16", "u32", "u64", "u256", "b256", "bool", "str", "()", "[u64; 2]", "(u64, bool)", "raw_ptr", "Self", "!", "[u8; 0]", "&u64", "&mut u64", "str[3]", "u64<u64>", "Vec<u64>"];
const LITS: &[&str] = &["0", "1", "255", "256", "65536", "18446744073709551615", "18446744073709551616", "0u8", "256u8", "0x00", "0b1", "true", "\"s\"", "0x0000000000000000000000000000000000000000000000000000000000000001", "1_000", "340282366920938463463374607431768211456u256"];
const NASTY: &[&str] = &[
    "\nstruct SvA { a: SvA }\n", "\ntype SvT = SvT;\n", "\nconst SVX: u64 = SVX;\n", "\nfn sv_f() { sv_f() }\n",
    "\nenum SvE { A: SvE }\n", "\ntrait SvTr { fn f(self) -> Self; }\nimpl SvTr for u64 { fn f(self) -> Self { self } }\nimpl SvTr for u64 { fn f(self) -> Self { self } }\n",
    "\nfn sv_g<T>(x: T) -> T where T: SvNo { x }\n", "\nimpl<T> T { fn sv_h(self) {} }\n", "\nconst SVY: [u64; 0] = [];\n",
    "\nfn sv_m(x: u64) -> u64 { match x { } }\n", "\nfn sv_n() -> ! { }\n", "\nabi SvAbi { fn f(); } impl SvAbi for Contract { fn f() {} fn g() {} }\n",
    "\nconfigurable { SVC: u64 = SVC }\n", "\nstorage { sv: u64 = sv }\n", "\nfn sv_p(a: u64, a: u64) {}\n", "\nstruct SvG<T> { t: T } fn sv_q() -> SvG { SvG { t: 1 } }\n",
    "\nfn sv_r() { let x = [1u64; 18446744073709551615]; }\n", "\nfn sv_s() { let x: [u64; 3] = [1, 2]; }\n", "\nfn sv_t() { let (a, b) = (1, 2, 3); }\n",
    "\nfn sv_u() { asm(r1: 0) { zzz r1; r1: u64 }; }\n", "\nfn sv_v() -> u64 { __size_of::<SvNope>() }\n", "\nfn sv_w() { let a = __addr_of(1); }\n",
    "\nimpl u64 { const SVK: u64 = Self::SVK; }\n", "\nfn sv_x() { while true { break; continue; } break; }\n", "\nuse ::sv_nope::*;\n", "\nmod sv_nomod;\n",
    "\n#[test(should_revert = 1)] fn sv_y() {}\n", "\n#[inline(always, never)] fn sv_z() {}\n", "\nfn sv_aa() { let x = 1u8 << 300; let y = 1 / 0; }\n",
];

/// A second module with public items, and snippets for the main file that MISUSE them across the module boundary
/// (non-existent / private fields in patterns and expressions, wrong arity, wrong generic count, missing trait method…).
const XMOD: &str = "library;\npub struct SvPoint { pub x: u64, pub y: u64 }\npub struct SvPriv { pub a: u64, b: u64 }\npub struct SvGen<T> { pub t: T }\npub enum SvEn { A: u64, B: (u64, bool), C: () }\npub trait SvTr { fn m(self) -> u64; }\nimpl SvTr for SvPoint { fn m(self) -> u64 { self.x } }\npub fn sv_fn(a: u64, b: bool) -> u64 { if b { a } else { 0 } }\npub const SV_C: u64 = 7;\npub fn sv_mk() -> SvPriv { SvPriv { a: 1, b: 2 } }\n";
const XUSE: &[&str] = &[
    "fn sv_x1(p: SvPoint) -> u64 { match p { SvPoint { x, z } => x, } }",
    "fn sv_x2(p: SvPoint) -> u64 { let SvPoint { x, w } = p; x }",
    "fn sv_x3(p: SvPriv) -> u64 { match p { SvPriv { a, b } => a, } }",
    "fn sv_x4(p: SvPriv) -> u64 { p.b }",
    "fn sv_x5() -> SvPriv { SvPriv { a: 1, b: 2 } }",
    "fn sv_x6(p: SvPoint) -> u64 { p.q }",
    "fn sv_x7(e: SvEn) -> u64 { match e { SvEn::A(x, y) => x, SvEn::D => 0, _ => 1, } }",
    "fn sv_x8(e: SvEn) -> u64 { match e { SvEn::B((a, b, c)) => a, _ => 0, } }",
    "fn sv_x9() -> u64 { sv_fn(1) }",
    "fn sv_x10() -> u64 { sv_fn(1, true, 2) }",
    "fn sv_x11(g: SvGen) -> u64 { 0 }",
    "fn sv_x12(g: SvGen<u64, bool>) -> u64 { g.t }",
    "fn sv_x13(p: SvPoint) -> u64 { p.n() }",
    "impl SvTr for SvPriv { }",
    "impl SvTr for SvEn { fn m(self) -> u64 { 0 } fn k(self) -> u64 { 1 } }",
    "fn sv_x14() -> u64 { SV_C(1) }",
    "fn sv_x15(p: SvPoint) -> u64 { match p { SvPoint { x: SvPoint { x, y }, .. } => x, } }",
    "fn sv_x16(p: SvPoint) -> u64 { match p { SvGen { t } => t, } }",
    "fn sv_x17(e: SvEn) -> u64 { let SvEn::A(v) = e; v }",
    "fn sv_x18(p: SvPriv) -> u64 { match p { SvPriv { a, .. } | SvPriv { b, .. } => 1, } }",
];

fn idents(src: &str) -> Vec<(usize, usize)> {
    let b = src.as_bytes();
    let mut v = vec![];
    let mut i = 0;
    while i < b.len() {
        if b[i].is_ascii_alphabetic() || b[i] == b'_' {
            let s = i;
            while i < b.len() && (b[i].is_ascii_alphanumeric() || b[i] == b'_') { i += 1; }
            v.push((s, i));
        } else { i += 1; }
    }
    v
}

fn numbers(src: &str) -> Vec<(usize, usize)> {
    let b = src.as_bytes();
    let mut v = vec![];
    let mut i = 0;
    while i < b.len() {
        if b[i].is_ascii_digit() && (i == 0 || !(b[i - 1].is_ascii_alphanumeric() || b[i - 1] == b'_')) {
            let s = i;
            while i < b.len() && (b[i].is_ascii_alphanumeric() || b[i] == b'_') { i += 1; }
            v.push((s, i));
        } else { i += 1; }
    }
    v
}

/// Returns (kind, mutated source).
fn mutate(r: &mut Rng, src: &str) -> (String, String) {
    let lines: Vec<&str> = src.lines().collect();
    let ids = idents(src);
    for _ in 0..20 {
        match r.below(13) {
            0 if lines.len() > 2 => { let k = r.below(lines.len() as u64) as usize; let mut l = lines.clone(); l.remove(k); return ("del_line".into(), l.join("\n")); }
            1 if lines.len() > 1 => { let k = r.below(lines.len() as u64) as usize; let mut l = lines.clone(); l.insert(k, lines[k]); return ("dup_line".into(), l.join("\n")); }
            2 if lines.len() > 2 => { let a = r.below(lines.len() as u64) as usize; let b = r.below(lines.len() as u64) as usize; let mut l = lines.clone(); l.swap(a, b); return ("swap_lines".into(), l.join("\n")); }
            3 if ids.len() > 1 => { let (s, e) = *r.pick(&ids); let (s2, e2) = *r.pick(&ids); return ("ident_to_ident".into(), format!("{}{}{}", &src[..s], &src[s2..e2], &src[e..])); }
            4 if !ids.is_empty() => {
                let tys: Vec<_> = ids.iter().filter(|(s, e)| matches!(&src[*s..*e], "u8" | "u16" | "u32" | "u64" | "u256" | "b256" | "bool" | "str" | "Self")).collect();
                if tys.is_empty() { continue; }
                let (s, e) = **r.pick(&tys);
                return ("type_swap".into(), format!("{}{}{}", &src[..s], r.pick(TYPES), &src[e..]));
            }
            5 => { let ns = numbers(src); if ns.is_empty() { continue; } let (s, e) = *r.pick(&ns); return ("literal".into(), format!("{}{}{}", &src[..s], r.pick(LITS), &src[e..])); }
            6 => {
                let pos: Vec<usize> = src.char_indices().filter(|(_, c)| "{}()[]<>;,:".contains(*c)).map(|(i, _)| i).collect();
                if pos.is_empty() { continue; }
                let p = *r.pick(&pos);
                return ("del_punct".into(), format!("{}{}", &src[..p], &src[p + 1..]));
            }
            7 => {
                let pos: Vec<usize> = src.char_indices().filter(|(_, c)| " \n".contains(*c)).map(|(i, _)| i).collect();
                if pos.is_empty() { continue; }
                let p = *r.pick(&pos);
                let ins = *r.pick(&["{", "}", "(", ")", "<", ">", "::", ";", "mut", "ref", "pub", "&", "*", "!", "-", "=>", "..", "#[", "'", "\""]);
                return ("ins_token".into(), format!("{} {} {}", &src[..p], ins, &src[p..]));
            }
            8 => {
                for (a, bb) in [("script;", "contract;"), ("contract;", "script;"), ("library;", "predicate;"), ("predicate;", "library;"), ("script;", "library;")] {
                    if src.contains(a) { return ("program_kind".into(), src.replacen(a, bb, 1)); }
                }
            }
            9 => { return ("nasty_append".into(), format!("{}{}", src, r.pick(NASTY))); }
            10 if !ids.is_empty() => {
                let kws: Vec<_> = ids.iter().filter(|(s, e)| matches!(&src[*s..*e], "fn" | "struct" | "enum" | "impl" | "trait" | "let" | "mut" | "pub" | "match" | "if" | "while" | "return" | "const" | "use" | "abi" | "for" | "where" | "self" | "ref")).collect();
                if kws.is_empty() { continue; }
                let (s, e) = **r.pick(&kws);
                let rep = *r.pick(&["fn", "struct", "enum", "impl", "trait", "let", "", "match", "while", "const", "self", "Self", "abi", "storage", "configurable"]);
                return ("keyword_swap".into(), format!("{}{}{}", &src[..s], rep, &src[e..]));
            }
            11 if ids.len() > 0 => { let (s, e) = *r.pick(&ids); return ("del_ident".into(), format!("{}{}", &src[..s], &src[e..])); }
            12 if ids.len() > 0 => { let (_, e) = *r.pick(&ids); let g = *r.pick(&["<T>", "<u64>", "::<u64>", "<T, T>", "()", "[0]", ".0", "?", "::new()"]); return ("ins_suffix".into(), format!("{}{}{}", &src[..e], g, &src[e..])); }
            _ => {}
        }
    }
    ("nasty_append".into(), format!("{}{}", src, r.pick(NASTY)))
}

fn main() {
    let av: Vec<String> = std::env::args().collect();
    if av.len() >= 3 && av[1] == "child" { child(&av[2]); return; }
    let a = args();
    let mut r = Rng::new(seed_from_env());
    let workers: usize = std::env::var("SV_C17_WORKERS").ok().and_then(|s| s.parse().ok()).unwrap_or(12);
    let std_share: u64 = std::env::var("SV_C17_STD_PCT").ok().and_then(|s| s.parse().ok()).unwrap_or(12);
    let per_compile_cap = Duration::from_secs(std::env::var("SV_C17_CAP_S").ok().and_then(|s| s.parse().ok()).unwrap_or(90));
    let nodep = candidates(false);
    let withstd = candidates(true);
    let scratch = svharness::swayrun::scratch_dir("c17");
    let faildir = PathBuf::from(format!("{}.failing", a.out));
    let _ = std::fs::remove_dir_all(&faildir);
    std::fs::create_dir_all(&faildir).unwrap();
    // ---- generate mutants
    struct M { id: usize, pkg: String, file: String, kind: String, fp: String, dir: PathBuf, src: String }
    let mut ms: Vec<M> = vec![];
    // corpus of replay sources first: files in --corpus dir named *.sw are compiled as stand-alone no-std packages
    if let Some(c) = &a.corpus {
        if let Ok(rd) = std::fs::read_dir(c) {
            let mut fs: Vec<_> = rd.filter_map(|e| e.ok()).map(|e| e.path()).filter(|p| p.extension().map(|x| x == "sw").unwrap_or(false)).collect();
            fs.sort();
            for f in fs {
                let id = ms.len();
                let dir = scratch.join(format!("m{id}"));
                let src = std::fs::read_to_string(&f).unwrap();
                let with_std = src.contains("// needs-std");
                svharness::swayrun::write_pkg(&dir, "corpus_pkg", &src, with_std, "").unwrap();
                ms.push(M { id, pkg: format!("corpus/{}", f.file_name().unwrap().to_string_lossy()), file: "main.sw".into(), kind: "corpus".into(), fp: "0".into(), dir, src });
            }
        }
    }
    let mut guard = 0;
    while ms.len() < a.n && guard < a.n * 20 + 100 {
        guard += 1;
        // cross-module misuse family: a fresh two-module library (no dependencies), 1-3 misuse snippets
        if r.chance(1, 7) {
            let id = ms.len();
            let dir = scratch.join(format!("m{id}"));
            let mut t = String::from("library;\nmod svxmod;\nuse svxmod::*;\n");
            let nsn = if r.chance(2, 3) { 1 } else { 2 + r.below(2) };   // mostly ONE misuse, so no other error hides it
            for _ in 0..nsn { t.push('\n'); t.push_str(*r.pick(XUSE)); t.push('\n'); }
            svharness::swayrun::write_pkg(&dir, "xmodpkg", &t, false, "").unwrap();
            std::fs::write(dir.join("src").join("svxmod.sw"), XMOD).unwrap();
            use sha2::Digest;
            let fp = hex::encode(sha2::Sha256::digest(t.as_bytes()))[..12].to_string();
            ms.push(M { id, pkg: "gen/xmod".into(), file: "main.sw".into(), kind: "xmod_misuse".into(), fp, dir, src: t });
            continue;
        }
        let use_std = r.below(100) < std_share && !withstd.is_empty();
        let pool = if use_std { &withstd } else { &nodep };
        if pool.is_empty() { continue; }
        let orig = r.pick(pool).clone();
        let mut files: Vec<PathBuf> = vec![];
        fn sw(d: &Path, v: &mut Vec<PathBuf>) { if let Ok(rd) = std::fs::read_dir(d) { for e in rd.filter_map(|e| e.ok()) { let p = e.path(); if p.is_dir() { sw(&p, v) } else if p.extension().map(|x| x == "sw").unwrap_or(false) { v.push(p) } } } }
        sw(&orig.join("src"), &mut files);
        files.sort();
        if files.is_empty() { continue; }
        let f = r.pick(&files).clone();
        let Ok(src) = std::fs::read_to_string(&f) else { continue };
        if src.len() > 60_000 { continue; }
        let (mut kind, mut m) = mutate(&mut r, &src);
        if r.chance(1, 4) { let (k2, m2) = mutate(&mut r, &m); kind = format!("{kind}+{k2}"); m = m2; }
        let xmod = false;
        if m == src { continue; }
        let id = ms.len();
        let dir = scratch.join(format!("m{id}"));
        if stage(&orig, &dir).is_none() { continue; }
        let rel = f.strip_prefix(orig.join("src")).unwrap().to_path_buf();
        std::fs::write(dir.join("src").join(&rel), &m).unwrap();
        if xmod { std::fs::write(dir.join("src").join("svxmod.sw"), XMOD).unwrap(); }
        use sha2::Digest;
        let fp = hex::encode(sha2::Sha256::digest(m.as_bytes()))[..12].to_string();
        ms.push(M { id, pkg: orig.strip_prefix("/repo").unwrap_or(&orig).display().to_string(), file: rel.display().to_string(), kind, fp, dir, src: m });
    }
    // ---- run in child processes
    let exe = std::env::current_exe().unwrap();
    let mut results: Vec<Option<String>> = vec![None; ms.len()];
    let mut queues: Vec<Vec<usize>> = vec![vec![]; workers];
    for m in &ms { queues[m.id % workers].push(m.id); }
    std::thread::scope(|sc| {
        let mut hs = vec![];
        for (w, q) in queues.into_iter().enumerate() {
            let ms = &ms; let exe = &exe; let scratch = &scratch;
            hs.push(sc.spawn(move || {
                let mut out: Vec<(usize, String)> = vec![];
                let mut todo = q;
                let mut round = 0;
                while !todo.is_empty() {
                    round += 1;
                    let list = scratch.join(format!("list-{w}-{round}.txt"));
                    std::fs::write(&list, todo.iter().map(|i| format!("{}\t{}\n", i, ms[*i].dir.display())).collect::<String>()).unwrap();
                    let errf = scratch.join(format!("stderr-{w}-{round}.txt"));
                    let mut ch = Command::new(exe).arg("child").arg(&list).stdout(Stdio::piped()).stderr(Stdio::from(std::fs::File::create(&errf).unwrap()))
                        .env("RUST_MIN_STACK", "8388608").spawn().unwrap();
                    let so = ch.stdout.take().unwrap();
                    let (tx, rx) = std::sync::mpsc::channel::<String>();
                    std::thread::spawn(move || { for l in std::io::BufReader::new(so).lines().flatten() { if tx.send(l).is_err() { break; } } });
                    let mut current: Option<usize> = None;
                    let mut started = Instant::now();
                    let mut done: Vec<usize> = vec![];
                    loop {
                        match rx.recv_timeout(Duration::from_millis(500)) {
                            Ok(l) => {
                                if let Some(id) = l.strip_prefix("BEGIN ") { current = id.trim().parse().ok(); started = Instant::now(); }
                                else if let Some(rest) = l.strip_prefix("RES ") {
                                    let mut it = rest.splitn(2, ' ');
                                    let id: usize = it.next().unwrap().parse().unwrap();
                                    out.push((id, it.next().unwrap_or("").to_string()));
                                    done.push(id); current = None;
                                }
                            }
                            Err(std::sync::mpsc::RecvTimeoutError::Timeout) => {
                                if current.is_some() && started.elapsed() > per_compile_cap {
                                    let _ = ch.kill();
                                    let id = current.take().unwrap();
                                    out.push((id, "hang".into())); done.push(id);
                                    break;
                                }
                            }
                            Err(_) => { // child exited
                                let st = ch.wait().ok();
                                if let Some(id) = current.take() {
                                    use std::os::unix::process::ExitStatusExt;
                                    let mut how = st.map(|s| s.signal().map(|x| format!("signal{x}")).unwrap_or(format!("exit{}", s.code().unwrap_or(-1)))).unwrap_or("?".into());
                                    let tail = std::fs::read(&errf).map(|b| String::from_utf8_lossy(&b[b.len().saturating_sub(600)..]).to_string()).unwrap_or_default();
                                    if tail.contains("overflowed its stack") { how = format!("{how}_stack_overflow"); }
                                    else if tail.contains("memory allocation of") { how = format!("{how}_alloc_failure"); }
                                    else if tail.contains("panic in a function that cannot unwind") || tail.contains("panicked while") { how = format!("{how}_double_panic"); }
                                    out.push((id, format!("abort {how}"))); done.push(id);
                                }
                                break;
                            }
                        }
                    }
                    let _ = ch.kill(); let _ = ch.wait();
                    let before = todo.len();
                    todo.retain(|i| !done.contains(i));
                    if todo.len() == before { break; }
                }
                out
            }));
        }
        for h in hs { for (id, r) in h.join().unwrap() { results[id] = Some(r); } }
    });
    // a compile that exceeded the cap is re-run alone with 8x the cap before it is called a hang
    for i in 0..ms.len() {
        if results[i].as_deref() == Some("hang") {
            let list = scratch.join(format!("rerun-{i}.txt"));
            std::fs::write(&list, format!("{}\t{}\n", i, ms[i].dir.display())).unwrap();
            let mut ch = Command::new(&exe).arg("child").arg(&list).stdout(Stdio::piped()).stderr(Stdio::null()).spawn().unwrap();
            let t0 = Instant::now();
            let mut verdict = "hang".to_string();
            loop {
                if let Ok(Some(_)) = ch.try_wait() {
                    let mut sout = String::new();
                    use std::io::Read;
                    let _ = ch.stdout.take().unwrap().read_to_string(&mut sout);
                    verdict = sout.lines().find_map(|l| l.strip_prefix(&format!("RES {i} ")).map(|x| x.to_string())).unwrap_or("abort rerun".into());
                    break;
                }
                if t0.elapsed() > per_compile_cap * 8 { let _ = ch.kill(); let _ = ch.wait(); break; }
                std::thread::sleep(Duration::from_millis(300));
            }
            results[i] = Some(verdict);
        }
    }
    let mut out = std::io::BufWriter::new(std::fs::File::create(&a.out).unwrap());
    for m in &ms {
        let res = results[m.id].clone().unwrap_or_else(|| "notrun".into());
        if !(res == "ok" || res == "err" || res == "notrun") {
            std::fs::write(faildir.join(format!("{}-{}.sw", m.id, m.fp)), &m.src).unwrap();
        }
        writeln!(out, "mut {} {} {} {} ;; {}", m.pkg, m.file, m.kind, m.fp, res).unwrap();
    }
    out.flush().unwrap();
    let _ = std::fs::remove_dir_all(&scratch);
}
