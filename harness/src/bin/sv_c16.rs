//! C16: drives the real `sway_parse::lex_commented` and `sway_parse::parse_file` on every `.sw` file of the
//! repository, on mutations of them and on random token soups.
//!
//! Line kinds
//!   `lex <chars> ;; lex=<ok|fail|panic|hang> toks=<..> errs=<..> parse=<ok|err|panic|hang> badspans=<n> tokbad=<n> render=<n> ndiag=<n> src=<tag>`
//!       <chars> = `-` or `,`-joined `hexcp[:classhex]`, class bits 1=char::is_whitespace 2=XID_Start 4=XID_Continue
//!       8=bidi format char; the Lean driver runs the lexer model on exactly this text.
//!   `whole <len> <fnv64> ;; lex=.. ntoks=<n> nerrs=<n> parse=.. badspans=.. tokbad=.. render=.. ndiag=.. src=<tag>`
//!       text larger than the window bound: the property predicate is evaluated here (Rust) only; a failing one is
//!       re-emitted as a `lex` line so that the failing input is always concrete.
//!   `nest <kind> <depth> <stackMiB> ;; parse=<ok|err|panic|abort> lex=.. badspans=.. ndiag=..`
//!       the nested input `nested(kind, depth)` run in a child process on a thread with the given stack; `abort` =
//!       the child died (stack overflow aborts the process; it is not a catchable panic).
//! Span predicate (Rust side): `span.src().text.get(start..end).is_some()` (in range, start<=end, both char boundaries).
use std::collections::HashMap;
use std::io::Write;
use std::sync::mpsc;
use std::sync::Arc;
use std::time::Duration;
use svharness::{proto::*, rng::*};
use sway_ast::literal::Literal;
use sway_ast::token::{CommentKind, CommentedTokenStream, CommentedTokenTree, CommentedTree, DocStyle, Spacing};
use sway_error::diagnostic::ToDiagnostic;
use sway_error::error::CompileError;
use sway_error::handler::Handler;
use sway_error::lex_error::LexErrorKind;
use sway_types::ast::Delimiter;
use sway_types::span::Source;
use sway_types::{SourceEngine, Span, Spanned};

// ------------------------------------------------------------------------------------------ char classes

const BIDI: [u32; 12] = [0x061C, 0x2068, 0x202A, 0x2066, 0x200E, 0x202D, 0x202C, 0x2069, 0x202B, 0x2067, 0x200F, 0x202E];

/// Classes obtained from the functions the lexer itself calls: `char::is_whitespace` (std) and
/// `UnicodeXID::is_xid_start/is_xid_continue` reached through the public `sway_parse::is_valid_identifier_or_path`
/// (single identifier `c` is valid iff c is XID_Start or `_`, and not just `_`; `a`+c is valid iff c is XID_Continue).
struct Classes(HashMap<char, u8>);
impl Classes {
    fn get(&mut self, c: char) -> u8 {
        if let Some(v) = self.0.get(&c) { return *v; }
        let mut f = 0u8;
        if c.is_whitespace() { f |= 1; }
        let mut b = [0u8; 4];
        if c != '_' && sway_parse::is_valid_identifier_or_path(c.encode_utf8(&mut b)) { f |= 2; }
        let mut s = String::from("a"); s.push(c);
        if sway_parse::is_valid_identifier_or_path(&s) { f |= 4; }
        if BIDI.contains(&(c as u32)) { f |= 8; }
        self.0.insert(c, f);
        f
    }
    fn encode(&mut self, s: &str) -> String {
        if s.is_empty() { return "-".into(); }
        let mut o = String::with_capacity(s.len() * 5);
        for (i, c) in s.chars().enumerate() {
            if i > 0 { o.push(','); }
            let f = self.get(c);
            if f == 0 { o.push_str(&format!("{:x}", c as u32)); } else { o.push_str(&format!("{:x}:{:x}", c as u32, f)); }
        }
        o
    }
}

// ------------------------------------------------------------------------------------------ running the real code

fn span_ok(sp: &Span) -> bool { sp.src().text.get(sp.start()..sp.end()).is_some() }

fn delim(d: Delimiter) -> char { match d { Delimiter::Parenthesis => 'p', Delimiter::Brace => 'b', Delimiter::Bracket => 'k' } }

fn hexcps(s: &str) -> String { s.chars().map(|c| format!("{:x}", c as u32)).collect::<Vec<_>>().join(".") }

/// In-order flattening of the token tree. A group contributes `o<d>@group.start-inner.start`, its children,
/// and `x<d>@inner.end-group.end`.
fn flatten(ts: &CommentedTokenStream, out: &mut Vec<String>, bad: &mut usize) {
    macro_rules! chk { ($sp:expr) => { if !span_ok($sp) { *bad += 1; } } }
    chk!(&ts.full_span);
    for tt in ts.token_trees() {
        match tt {
            CommentedTokenTree::Comment(c) => {
                chk!(&c.span);
                let k = match c.comment_kind { CommentKind::Newlined => 'n', CommentKind::Trailing => 't', CommentKind::Inlined => 'i', CommentKind::Multilined => 'm' };
                out.push(format!("k{}@{}-{}", k, c.span.start(), c.span.end()));
            }
            CommentedTokenTree::Tree(t) => match t {
                CommentedTree::Punct(p) => {
                    chk!(&p.span);
                    out.push(format!("p{:x}{}@{}-{}", p.kind.as_char() as u32, if p.spacing == Spacing::Joint { 'j' } else { 'a' }, p.span.start(), p.span.end()));
                }
                CommentedTree::Ident(i) => {
                    let sp = i.span();
                    chk!(&sp);
                    out.push(format!("{}@{}-{}", if i.is_raw_ident() { 'r' } else { 'i' }, sp.start(), sp.end()));
                }
                CommentedTree::Group(g) => {
                    chk!(&g.span);
                    let d = delim(g.delimiter);
                    out.push(format!("o{}@{}-{}", d, g.span.start(), g.token_stream.full_span.start()));
                    flatten(&g.token_stream, out, bad);
                    out.push(format!("x{}@{}-{}", d, g.token_stream.full_span.end(), g.span.end()));
                }
                CommentedTree::Literal(l) => match l {
                    Literal::String(s) => { chk!(&s.span); out.push(format!("s@{}-{}={}", s.span.start(), s.span.end(), hexcps(&s.parsed))); }
                    Literal::Char(c) => { chk!(&c.span); out.push(format!("c@{}-{}={:x}", c.span.start(), c.span.end(), c.parsed as u32)); }
                    Literal::Int(i) => {
                        chk!(&i.span);
                        out.push(format!("n@{}-{}={}", i.span.start(), i.span.end(), i.parsed.to_str_radix(16)));
                        if let Some((ty, sp)) = &i.ty_opt {
                            chk!(sp);
                            out.push(format!("t{}@{}-{}", format!("{:?}", ty).to_lowercase(), sp.start(), sp.end()));
                        }
                    }
                    Literal::Bool(b) => { chk!(&b.span); out.push(format!("bool@{}-{}", b.span.start(), b.span.end())); }
                },
                CommentedTree::DocComment(d) => {
                    chk!(&d.span);
                    chk!(&d.content_span);
                    // content_span is (span.start+3, span.end) in the code; transmitted so that the model's value is compared
                    out.push(format!("d{}@{}-{}+{}", if d.doc_style == DocStyle::Inner { 'i' } else { 'o' }, d.span.start(), d.span.end(), d.content_span.start()));
                    if d.content_span.end() != d.span.end() { *bad += 1; }
                }
            },
        }
    }
}

fn lex_err_code(k: &LexErrorKind) -> &'static str {
    use LexErrorKind::*;
    match k {
        UnclosedMultilineComment { .. } => "UMC",
        UnexpectedCloseDelimiter { .. } => "UCD",
        MismatchedDelimiters { .. } => "MMD",
        UnclosedDelimiter { .. } => "UD",
        UnclosedStringLiteral { .. } => "USL",
        UnclosedCharLiteral { .. } => "UCL",
        ExpectedCloseQuote { .. } => "ECQ",
        IncompleteHexIntLiteral { .. } => "IHX",
        IncompleteBinaryIntLiteral { .. } => "IBN",
        IncompleteOctalIntLiteral { .. } => "IOC",
        InvalidIntSuffix { .. } => "IIS",
        InvalidCharacter { .. } => "IC",
        InvalidHexEscape => "IHE",
        UnicodeEscapeMissingBrace { .. } => "UMB",
        InvalidUnicodeEscapeDigit { .. } => "IUD",
        UnicodeEscapeOutOfRange { .. } => "UOR",
        UnicodeEscapeInvalidCharValue { .. } => "UIV",
        UnicodeTextDirInLiteral { .. } => "BIDI",
        InvalidEscapeCode { .. } => "IEC",
    }
}

#[derive(Clone, Default)]
struct Outcome {
    lex: &'static str, toks: Vec<String>, errs: Vec<String>, tokbad: usize,
    parse: &'static str, badspans: usize, render: usize, ndiag: usize, foreign: usize,
}

fn run_real(text: &str) -> Outcome {
    let mut o = Outcome::default();
    // 1. the lexer with comments
    let src: Source = text.into();
    let h = Handler::default();
    let n = text.len();
    let r = guarded(|| sway_parse::lex_commented(&h, src.clone(), 0, n, &None));
    match r {
        None => { o.lex = "panic"; }
        Some(res) => {
            match res {
                Ok(ts) => { o.lex = "ok"; flatten(&ts, &mut o.toks, &mut o.tokbad); }
                Err(_) => { o.lex = "fail"; }
            }
            let (errs, _, _) = h.consume();
            for e in errs {
                if let CompileError::Lex { error } = &e {
                    let sp = error.span_ref();
                    o.errs.push(format!("{}@{}-{}", lex_err_code(&error.kind), sp.start(), sp.end()));
                    if let LexErrorKind::UnicodeEscapeInvalidCharValue { span } = &error.kind { if !span_ok(span) { o.tokbad += 1; } }
                    if let LexErrorKind::InvalidIntSuffix { suffix } = &error.kind { if !span_ok(&suffix.span()) { o.tokbad += 1; } }
                } else {
                    o.errs.push("OTHER@0-0".into());
                }
            }
        }
    }
    // 2. the parser: every diagnostic (errors, warnings, infos), its labels, and its rendering
    let h2 = Handler::default();
    let src2: Source = text.into();
    let keep = src2.clone();
    let r2 = guarded(|| sway_parse::parse_file(&h2, src2, None, sway_features::ExperimentalFeatures::default()).is_ok());
    match r2 {
        None => { o.parse = "panic"; }
        Some(ok) => {
            o.parse = if ok { "ok" } else { "err" };
            let (errs, warns, infos) = h2.consume();
            let se = SourceEngine::default();
            let mut check = |sp: &Span, o: &mut Outcome| {
                if !Arc::ptr_eq(&sp.src().text, &keep.text) { o.foreign += 1; }
                if !span_ok(sp) { o.badspans += 1; }
            };
            for e in &errs {
                o.ndiag += 1;
                check(&e.span(), &mut o);
                let rendered = guarded(|| { let _ = format!("{}", e); let d = e.to_diagnostic(&se); d.labels_spans() });
                match rendered { None => o.render += 1, Some(sps) => for sp in sps { check(&sp, &mut o); } }
            }
            for w in &warns {
                o.ndiag += 1;
                check(&w.span(), &mut o);
                let rendered = guarded(|| { let _ = format!("{}", w.warning_content); let d = w.to_diagnostic(&se); d.labels_spans() });
                match rendered { None => o.render += 1, Some(sps) => for sp in sps { check(&sp, &mut o); } }
            }
            for i in &infos { o.ndiag += 1; check(&i.span(), &mut o); }
        }
    }
    o
}

trait LabelSpans { fn labels_spans(&self) -> Vec<Span>; }
impl LabelSpans for sway_error::diagnostic::Diagnostic {
    fn labels_spans(&self) -> Vec<Span> {
        let mut v = vec![self.issue.span().clone()];
        for h in &self.hints { v.push(h.span().clone()); }
        v
    }
}

/// `run_real` runs in a worker thread (512 MiB stack) watched by the caller: 20 s, then once more with 200 s on a
/// fresh worker before the input is called a hang. A worker that timed out is abandoned.
struct Worker { tx: mpsc::Sender<String>, rx: mpsc::Receiver<Outcome> }
impl Worker {
    fn new() -> Worker {
        let (tx, wrx) = mpsc::channel::<String>();
        let (wtx, rx) = mpsc::channel::<Outcome>();
        std::thread::Builder::new().stack_size(512 << 20).spawn(move || {
            while let Ok(t) = wrx.recv() { if wtx.send(run_real(&t)).is_err() { break; } }
        }).unwrap();
        Worker { tx, rx }
    }
}
fn run_watched(w: &mut Worker, text: &str) -> Outcome {
    for (attempt, secs) in [(0, 20u64), (1, 200u64)] {
        w.tx.send(text.to_string()).unwrap();
        match w.rx.recv_timeout(Duration::from_secs(secs)) {
            Ok(o) => return o,
            Err(_) => {
                *w = Worker::new();
                if attempt == 1 { let mut o = Outcome::default(); o.lex = "hang"; o.parse = "hang"; return o; }
            }
        }
    }
    unreachable!()
}

/// Upper bound of the delimiter nesting depth (counts every opening delimiter character, also inside literals).
fn open_delims(s: &str) -> usize { s.bytes().filter(|b| matches!(b, b'(' | b'[' | b'{')).count() }

/// One nested input in a child process (`--nest`), on a thread with `mb` MiB of stack. A stack overflow aborts the child.
fn nest_probe(out: &mut dyn Write, kind: &str, depth: usize, mb: usize) {
    let exe = std::env::current_exe().unwrap();
    let res = std::process::Command::new(exe).args(["--nest", kind, &depth.to_string(), &mb.to_string()]).output();
    let line = match res {
        Ok(o) if o.status.success() => {
            let t = String::from_utf8_lossy(&o.stdout).to_string();
            let f = |k: &str| t.split_whitespace().find_map(|w| w.strip_prefix(k).map(|v| v.to_string())).unwrap_or_else(|| "?".into());
            format!("parse={} lex={} badspans={} ndiag={}", f("parse="), f("lex="), f("badspans="), f("ndiag="))
        }
        Ok(o) => format!("parse=abort lex=? badspans=0 ndiag=0 status={}", o.status.to_string().replace(' ', "_")),
        Err(_) => "parse=spawnfail lex=? badspans=0 ndiag=0".to_string(),
    };
    writeln!(out, "nest {} {} {} ;; {}", kind, depth, mb, line).unwrap();
}

fn fnv64(s: &str) -> u64 { let mut h = 0xcbf29ce484222325u64; for b in s.bytes() { h ^= b as u64; h = h.wrapping_mul(0x100000001b3); } h }

fn join(v: &[String]) -> String { if v.is_empty() { "-".into() } else { v.join(",") } }

struct Emitter { out: std::io::BufWriter<std::fs::File>, cls: Classes, window: usize, cases: usize, fulls: usize, wholes: usize, skipped_deep: usize, worker: Worker }
impl Emitter {
    fn tail(o: &Outcome, tag: &str) -> String {
        format!("parse={} badspans={} tokbad={} render={} ndiag={} foreign={} src={}", o.parse, o.badspans, o.tokbad, o.render, o.ndiag, o.foreign, tag)
    }
    fn failing(o: &Outcome) -> bool {
        o.lex == "panic" || o.lex == "hang" || o.parse == "panic" || o.parse == "hang" || o.badspans > 0 || o.tokbad > 0 || o.render > 0
    }
    fn full(&mut self, text: &str, o: &Outcome, tag: &str) {
        writeln!(self.out, "lex {} ;; lex={} toks={} errs={} {}", self.cls.encode(text), o.lex, join(&o.toks), join(&o.errs), Self::tail(o, tag)).unwrap();
        self.cases += 1; self.fulls += 1;
    }
    /// One input. Small enough: full line. Otherwise a `whole` line (+ the caller adds windows).
    fn case(&mut self, text: &str, tag: &str) {
        // the parser recurses per nesting level: keep far below what the worker's 512 MiB stack takes
        if open_delims(text) > 3000 { self.skipped_deep += 1; return; }
        let o = run_watched(&mut self.worker, text);
        if text.len() <= self.window || Self::failing(&o) {
            self.full(text, &o, tag);
        } else {
            writeln!(self.out, "whole {} {:016x} ;; lex={} ntoks={} nerrs={} {}", text.len(), fnv64(text), o.lex, o.toks.len(), o.errs.len(), Self::tail(&o, tag)).unwrap();
            self.cases += 1; self.wholes += 1;
        }
    }
}

// ------------------------------------------------------------------------------------------ inputs

fn walk(dir: &std::path::Path, out: &mut Vec<std::path::PathBuf>) {
    let Ok(rd) = std::fs::read_dir(dir) else { return };
    let mut es: Vec<_> = rd.filter_map(|e| e.ok()).collect();
    es.sort_by_key(|e| e.file_name());
    for e in es {
        let p = e.path();
        let name = e.file_name().to_string_lossy().to_string();
        let Ok(ft) = e.file_type() else { continue };
        if ft.is_dir() {
            if name == "target" || name == ".git" || name == "node_modules" { continue; }
            walk(&p, out);
        } else if ft.is_file() && name.ends_with(".sw") {
            out.push(p);
        }
    }
}

fn floor_boundary(s: &str, mut i: usize) -> usize { if i > s.len() { i = s.len(); } while !s.is_char_boundary(i) { i -= 1; } i }

/// A window of at most `max` bytes starting at a line start (or anywhere, 1 in 4), cut at char boundaries.
fn window<'a>(r: &mut Rng, s: &'a str, max: usize) -> &'a str {
    if s.len() <= max { return s; }
    let mut a = floor_boundary(s, r.below((s.len() - max / 2) as u64) as usize);
    if !r.chance(1, 4) { if let Some(p) = s[..a].rfind('\n') { a = p + 1; } else { a = 0; } }
    let b = floor_boundary(s, a + max);
    &s[a..b]
}

const SPECIAL_CHARS: &[char] = &[
    'é', 'ß', 'ø', '€', '日', '😀', '𝄞', '\u{0301}', '\u{202E}', '\u{2066}', '\u{2069}', '\u{200E}', '\u{061C}', '\u{202C}',
    '\u{00A0}', '\u{FEFF}', '\u{2028}', '\u{2029}', '\u{0085}', '\u{3000}', '\u{200B}', '\0', '\r', '\n', '\t', '\u{7eb}', '\u{10FFFF}',
    '"', '\'', '\\', '/', '*', '(', ')', '{', '}', '[', ']', '_', '#', '0', 'x', 'u', 'r', '!', '٣', 'ⅷ', '·', '\u{00B7}', '\u{FF10}',
];

const FRAGMENTS: &[&str] = &[
    "/*", "*/", "/**/", "/***/", "/*/", "//", "///", "//!", "////", "// é\n", "/// 日\n", "/* /* */", "/* é", "\"", "'", "\\", "\"\\", "'\\", "'ab'", "'é", "'éb'", "'😀b'", "'\\u{", "'\\u{1F600}b'",
    "\"\\x", "\"\\x4", "\"\\xé0\"", "\"\\xZZ\"", "\"\\u\"", "\"\\ué\"", "\"\\u{}\"", "\"\\u{110000}\"", "\"\\u{D800}\"", "\"\\u{FFFFFFFFF}\"", "\"\\u{12G}\"", "\"\\q\"", "\"\\é\"", "\"\\0\\n\\r\\t\\\\\\'\\\"\"",
    "\"\u{202E}\"", "'\u{202E}'", "'\u{2066}x'", "''", "'''", "'\\''", "'a", "'\\", "'\\n", "' '", "'a b'",
    "0x", "0b", "0o", "0x_", "0x_1", "0b2", "0o8", "0xg", "0xé", "0b102", "0x1F_u8", "0_", "0_1", "00", "01", "0u8", "0é", "0", "1_000u64", "1u7", "1u256", "1i64", "1_", "1__2", "1e5", "1.5", "1..2", "0xFFu8é", "9u",
    "99999999999999999999999999999999999999999999999999999999999999999999999999999999999999", "0xFFFFFFFFFFFFFFFFFFFFFFFFFFFFFFFFFFFFFFFFFFFFFFFFFFFFFFFFFFFFFFFFFF", "0b1111111111111111111111111111111111111111111111111111111111111111111",
    "r#", "r#1", "r#fn", "r#é", "r#😀", "r# ", "r", "r#_", "r#__x", "_", "__", "_a", "_1", "_é", "__x", "føø", "日本", "ªb", "a\u{0301}", "x\u{200D}y",
    "(", ")", "{", "}", "[", "]", "(]", "{)", "[}", "((((((((", "))))", "{{{{", "}}", "(}{)", "#[", "#![", "::", "->", "=>", "==", "!=", "<=", ">=", "&&", "||", "+=", "<<", ">>", "...", "..", ".", ";", ",", ":", "#", "@", "$", "`", "?", "~", "\u{00A0}", "\u{FEFF}", "\u{2028}",
];

const SOUP_WORDS: &[&str] = &[
    "script", "contract", "predicate", "library", "fn", "let", "mut", "struct", "enum", "impl", "trait", "abi", "use", "mod", "pub", "const", "storage", "configurable", "if", "else", "match", "while", "for", "in", "return", "break", "continue",
    "asm", "self", "Self", "true", "false", "as", "where", "ref", "deref", "type", "dep", "main", "x", "y", "foo", "Bar", "u64", "u8", "b256", "str", "bool", "Vec", "Option", "Some", "None",
    "0", "1", "42", "0x1f", "0b101", "0o17", "1_000", "7u8", "255u8", "0x0000000000000000000000000000000000000000000000000000000000000001", "\"s\"", "\"a\\nb\"", "'c'", "\"\"",
    "// c\n", "/// d\n", "//! m\n", "/* b */", "/* a\n b */",
];

fn mutate(r: &mut Rng, base: &str, other: &str) -> (String, &'static str) {
    let cs: Vec<char> = base.chars().collect();
    let n = cs.len();
    let pos = |r: &mut Rng| r.below(n as u64 + 1) as usize;
    let put = |v: &[char]| v.iter().collect::<String>();
    match r.below(16) {
        0 | 1 => { // insert a special char
            let p = pos(r); let c = *r.pick(SPECIAL_CHARS);
            (format!("{}{}{}", put(&cs[..p]), c, put(&cs[p..])), "inschar")
        }
        2 => { // replace a char
            if n == 0 { return (r.pick(FRAGMENTS).to_string(), "frag"); }
            let p = r.below(n as u64) as usize; let c = *r.pick(SPECIAL_CHARS);
            (format!("{}{}{}", put(&cs[..p]), c, put(&cs[p + 1..])), "replchar")
        }
        3 => { // delete a range
            let p = pos(r); let q = (p + 1 + r.below(12) as usize).min(n);
            (format!("{}{}", put(&cs[..p]), put(&cs[q..])), "delrange")
        }
        4 => { // truncate (unterminated strings, comments, groups)
            let p = pos(r);
            (put(&cs[..p]), "truncate")
        }
        5 | 6 | 7 => { // insert a fragment
            let p = pos(r); let f = *r.pick(FRAGMENTS);
            (format!("{}{}{}", put(&cs[..p]), f, put(&cs[p..])), "insfrag")
        }
        8 => { // fragment at the very end (EOF handling)
            let f = *r.pick(FRAGMENTS); let c = *r.pick(SPECIAL_CHARS);
            if r.chance(1, 2) { (format!("{}{}", base, f), "endfrag") } else { (format!("{}{}{}", base, f, c), "endfrag") }
        }
        9 => { // duplicate a range
            let p = pos(r); let q = (p + 1 + r.below(40) as usize).min(n);
            (format!("{}{}{}", put(&cs[..q]), put(&cs[p..q]), put(&cs[q..])), "duprange")
        }
        10 => { // splice a piece of another file
            let os: Vec<char> = other.chars().collect();
            let a = r.below(os.len() as u64 + 1) as usize; let b = (a + 1 + r.below(60) as usize).min(os.len());
            let p = pos(r);
            (format!("{}{}{}", put(&cs[..p]), put(&os[a..b]), put(&cs[p..])), "splice")
        }
        11 => { // unbalance: delete one delimiter
            let idx: Vec<usize> = cs.iter().enumerate().filter(|(_, c)| "(){}[]".contains(**c)).map(|(i, _)| i).collect();
            if idx.is_empty() { return (format!("{}{}", base, r.pick(FRAGMENTS)), "endfrag"); }
            let p = *r.pick(&idx);
            (format!("{}{}", put(&cs[..p]), put(&cs[p + 1..])), "deldelim")
        }
        12 => { // unbalance: swap one delimiter for another
            let idx: Vec<usize> = cs.iter().enumerate().filter(|(_, c)| "(){}[]".contains(**c)).map(|(i, _)| i).collect();
            if idx.is_empty() { return (format!("{}{}", r.pick(FRAGMENTS), base), "startfrag"); }
            let p = *r.pick(&idx); let c = *r.pick(&['(', ')', '{', '}', '[', ']']);
            (format!("{}{}{}", put(&cs[..p]), c, put(&cs[p + 1..])), "swapdelim")
        }
        13 => { // something inside a string / char literal
            let idx: Vec<usize> = cs.iter().enumerate().filter(|(_, c)| **c == '"' || **c == '\'').map(|(i, _)| i).collect();
            let ins: String = match r.below(6) { 0 => "\\u{".into(), 1 => "\\x".into(), 2 => "\\".into(), 3 => "\\u{1F600}".into(), 4 => r.pick(SPECIAL_CHARS).to_string(), _ => "\\ué".into() };
            let p = if idx.is_empty() { pos(r) } else { *r.pick(&idx) + 1 };
            (format!("{}{}{}", put(&cs[..p]), ins, put(&cs[p..])), "inlit")
        }
        14 => { // two mutations
            let (a, _) = mutate(r, base, other);
            let (b, _) = mutate(r, &a, other);
            (b, "double")
        }
        _ => { // fragment at the start (BOM, shebang-like, whitespace-only prefixes)
            let f = *r.pick(FRAGMENTS);
            (format!("{}{}", f, base), "startfrag")
        }
    }
}

/// Token-level mutation using the real lexer's own (flattened) token spans of `base`.
fn mutate_tokens(r: &mut Rng, base: &str, other: &str) -> Option<(String, &'static str)> {
    let spans = |s: &str| -> Vec<(usize, usize)> {
        let o = run_real_lex_spans(s);
        o.into_iter().filter(|(a, b)| a < b && s.get(*a..*b).is_some()).collect()
    };
    let sp = spans(base);
    if sp.len() < 2 { return None; }
    let i = r.below(sp.len() as u64) as usize;
    let (a, b) = sp[i];
    Some(match r.below(4) {
        0 => (format!("{}{}", &base[..a], &base[b..]), "tokdel"),
        1 => (format!("{}{} {}", &base[..b], &base[a..b], &base[b..]), "tokdup"),
        2 => { let j = r.below(sp.len() as u64) as usize; let (c, d) = sp[j];
               if d <= a { (format!("{}{}{}{}{}", &base[..c], &base[a..b], &base[d..a], &base[c..d], &base[b..]), "tokswap") }
               else if b <= c { (format!("{}{}{}{}{}", &base[..a], &base[c..d], &base[b..c], &base[a..b], &base[d..]), "tokswap") }
               else { (format!("{}{}", &base[..a], &base[b..]), "tokdel") } }
        _ => { let so = spans(other); if so.is_empty() { return None; }
               let (c, d) = so[r.below(so.len() as u64) as usize];
               (format!("{}{}{}", &base[..a], &other[c..d], &base[b..]), "toksplice") }
    })
}

fn run_real_lex_spans(s: &str) -> Vec<(usize, usize)> {
    let h = Handler::default();
    let src: Source = s.into();
    let n = s.len();
    let mut v = vec![];
    if let Some(Ok(ts)) = guarded(|| sway_parse::lex_commented(&h, src, 0, n, &None)) {
        let mut toks = vec![]; let mut bad = 0;
        flatten(&ts, &mut toks, &mut bad);
        for t in toks {
            if let Some(at) = t.find('@') {
                let rest = &t[at + 1..];
                let rest = rest.split(|c| c == '=' || c == '+').next().unwrap();
                let mut it = rest.split('-');
                if let (Some(a), Some(b)) = (it.next().and_then(|x| x.parse().ok()), it.next().and_then(|x| x.parse().ok())) { v.push((a, b)); }
            }
        }
    }
    v
}

/// Deeply nested inputs (kinds: paren, brace, bracket, unary, block, ifelse, ty, pat, comment).
fn nested(kind: &str, depth: usize) -> String {
    let (pre, open, mid, close, post) = match kind {
        "paren" => ("script; fn main() { let x = ", "(", "0", ")", "; }"),
        "brace" => ("script; fn main() ", "{", "", "}", ""),
        "bracket" => ("script; fn main() { let x = ", "[", "0", "]", "; }"),
        "unary" => ("script; fn main() { let x = ", "!", "true", "", "; }"),
        "neg" => ("script; fn main() { let x = ", "&", "y", "", "; }"),
        "ifelse" => ("script; fn main() { ", "if a { } else ", "{ }", "", " }"),
        "ty" => ("script; fn main() { let x: ", "Option<", "u64", ">", " = 0; }"),
        "tuplety" => ("script; fn main() { let x: ", "(", "u64", ",)", " = 0; }"),
        "pat" => ("script; fn main() { let ", "(", "x", ",)", " = 0; }"),
        "comment" => ("script; ", "/*", "x", "*/", " fn main() {}"),
        "binop" => ("script; fn main() { let x = 1", " + 1", "", "", "; }"),
        "call" => ("script; fn main() { let x = ", "f(", "0", ")", "; }"),
        "field" => ("script; fn main() { let x = a", ".b", "", "", "; }"),
        "unclosed" => ("script; fn main() { let x = ", "(", "0", "", ""),
        _ => ("", "(", "", ")", ""),
    };
    let mut s = String::from(pre);
    for _ in 0..depth { s.push_str(open); }
    s.push_str(mid);
    for _ in 0..depth { s.push_str(close); }
    s.push_str(post);
    s
}

fn soup(r: &mut Rng) -> String {
    let n = 1 + r.below(40);
    let mut s = String::new();
    for _ in 0..n {
        match r.below(10) {
            0 | 1 | 2 | 3 => s.push_str(*r.pick(SOUP_WORDS)),
            4 | 5 => s.push_str(*r.pick(FRAGMENTS)),
            6 => s.push(*r.pick(SPECIAL_CHARS)),
            7 => { let k = r.below(30); for _ in 0..k { s.push(*r.pick(&['(', '[', '{', ')', ']', '}', 'x', ',', ';'])); } }
            _ => s.push_str(*r.pick(&["+", "-", "*", "/", "=", "<", ">", "!", "&", "|", "^", "%", ".", ",", ";", ":", "::", "->", "=>", "#", "_"])),
        }
        match r.below(6) { 0 => {}, 1 => s.push('\n'), 2 => s.push_str("  "), 3 => s.push('\t'), _ => s.push(' ') }
    }
    s
}

fn main() {
    let a = args();
    quiet_panics();
    let mut r = Rng::new(seed_from_env());
    let thorough = std::env::var("VERIF_TIER").map(|t| t == "thorough").unwrap_or(false);
    let repo = std::env::var("VERIF_REPO").unwrap_or_else(|_| "/repo".into());
    // exploration aid: `--nest <kind> <depth> <stack MiB>` runs one deeply nested input on a thread with the given stack
    if let Some(i) = a.extra.iter().position(|x| x == "--nest") {
        let kind = a.extra[i + 1].as_str(); let depth: usize = a.extra[i + 2].parse().unwrap(); let mb: usize = a.extra[i + 3].parse().unwrap();
        let text = nested(kind, depth);
        let h = std::thread::Builder::new().stack_size(mb << 20).spawn(move || run_real(&text)).unwrap();
        let o = h.join().unwrap();
        println!("nest kind={} depth={} stack={}MiB lex={} parse={} badspans={} ndiag={}", kind, depth, mb, o.lex, o.parse, o.badspans + o.tokbad + o.render, o.ndiag);
        return;
    }
    let window: usize = a.extra.iter().position(|x| x == "--window").and_then(|i| a.extra.get(i + 1)).and_then(|x| x.parse().ok()).unwrap_or(16384);
    let mut em = Emitter { out: std::io::BufWriter::new(std::fs::File::create(&a.out).unwrap()), cls: Classes(HashMap::new()), window, cases: 0, fulls: 0, wholes: 0, skipped_deep: 0, worker: Worker::new() };

    // corpus: one input per line, Rust-style escapes \n \r \t \\ \u{..}; `#` comments
    if let Some(c) = &a.corpus {
        for l in std::fs::read_to_string(c).unwrap_or_default().lines() {
            if l.starts_with('#') || l.is_empty() { continue; }
            em.case(&unescape(l), "corpus");
        }
    }

    // the repository's .sw files
    let mut files = vec![];
    walk(std::path::Path::new(&repo), &mut files);
    let mut texts: Vec<String> = vec![];
    for f in &files { if let Ok(t) = std::fs::read_to_string(f) { texts.push(t); } }
    let nfiles_total = texts.len();
    let chosen: Vec<usize> = if thorough { (0..texts.len()).collect() } else {
        // ~400 sampled by seed, plus every file of at most 200 bytes
        let mut idx: Vec<usize> = (0..texts.len()).collect();
        for i in (1..idx.len()).rev() { let j = r.below(i as u64 + 1) as usize; idx.swap(i, j); }
        let mut take: Vec<usize> = idx.iter().copied().take(400).collect();
        for i in 0..texts.len() { if texts[i].len() <= 200 && !take.contains(&i) { take.push(i); } }
        take.sort();
        take
    };
    let budget_files = if thorough { usize::MAX } else { a.n / 3 };
    let mut nfiles = 0usize;
    for &i in &chosen {
        if nfiles >= budget_files { break; }
        let t = &texts[i];
        em.case(t, "file");
        nfiles += 1;
        if t.len() > window {
            // the lexer comparison on bounded windows of the large file
            let k = if thorough { 1 + t.len() / (4 * window) } else { 1 };
            for _ in 0..k { let w = window_of(&mut r, t, window); em.case(&w, "filewin"); }
        }
    }

    // nested inputs in child processes with the stack of a main thread (8 MiB)
    for kind in ["paren", "brace", "bracket", "call", "unclosed", "unary", "neg", "ifelse", "ty", "tuplety", "pat", "comment", "binop", "field"] {
        let depths: &[usize] = if thorough { &[32, 128, 512, 2048, 4096, 16384] } else { &[32, 128, 512, 4096] };
        for &d in depths { nest_probe(&mut em.out, kind, d, 8); em.cases += 1; }
    }

    // mutations and soups
    let mut_window = 3000usize;
    if texts.is_empty() { texts.push("script; fn main() {}".into()); }
    let mut k = 0usize;
    while em.cases < a.n {
        k += 1;
        // thorough: walk all files round-robin so that every file is mutated; quick: random file
        let fi = if thorough { k % texts.len() } else { r.below(texts.len() as u64) as usize };
        let oi = r.below(texts.len() as u64) as usize;
        match r.below(20) {
            0 | 1 | 2 => { let s = soup(&mut r); em.case(&s, "soup"); }
            3 => { // mutation of a whole file (evaluated in Rust when larger than the window bound)
                let (m, tag) = mutate(&mut r, &texts[fi], &texts[oi]);
                em.case(&m, tag_static("whole", tag));
            }
            4 | 5 | 6 | 7 => {
                let b = window_of(&mut r, &texts[fi], mut_window); let o = window_of(&mut r, &texts[oi], mut_window);
                match mutate_tokens(&mut r, &b, &o) { Some((m, tag)) => em.case(&m, tag), None => { let (m, tag) = mutate(&mut r, &b, &o); em.case(&m, tag); } }
            }
            8 => { // tiny inputs: fragments alone or in pairs
                let mut s = (*r.pick(FRAGMENTS)).to_string();
                if r.chance(1, 2) { s.push_str(*r.pick(FRAGMENTS)); }
                if r.chance(1, 3) { s.push(*r.pick(SPECIAL_CHARS)); }
                em.case(&s, "tiny");
            }
            _ => {
                let wsz = if r.chance(1, 3) { 300 } else { mut_window };
                let b = window_of(&mut r, &texts[fi], wsz); let o = window_of(&mut r, &texts[oi], mut_window);
                let (m, tag) = mutate(&mut r, &b, &o);
                em.case(&m, tag);
            }
        }
    }
    em.out.flush().unwrap();
    eprintln!("sv_c16: {} cases ({} full, {} whole-only, {} skipped as too deeply nested), files run {} of {} in repo, window bound {} bytes", em.cases, em.fulls, em.wholes, em.skipped_deep, nfiles, nfiles_total, window);
}

fn window_of(r: &mut Rng, s: &str, max: usize) -> String { window(r, s, max).to_string() }

fn tag_static(a: &'static str, b: &'static str) -> &'static str {
    // small closed set; leak is bounded
    static CACHE: std::sync::Mutex<Vec<(&'static str, &'static str, &'static str)>> = std::sync::Mutex::new(vec![]);
    let mut c = CACHE.lock().unwrap();
    for (x, y, z) in c.iter() { if *x == a && *y == b { return z; } }
    let z: &'static str = Box::leak(format!("{}-{}", a, b).into_boxed_str());
    c.push((a, b, z));
    z
}

fn unescape(l: &str) -> String {
    let mut o = String::new();
    let cs: Vec<char> = l.chars().collect();
    let mut i = 0;
    while i < cs.len() {
        if cs[i] == '\\' && i + 1 < cs.len() {
            match cs[i + 1] {
                'n' => { o.push('\n'); i += 2; }
                'r' => { o.push('\r'); i += 2; }
                't' => { o.push('\t'); i += 2; }
                '\\' => { o.push('\\'); i += 2; }
                'u' if i + 2 < cs.len() && cs[i + 2] == '{' => {
                    let mut j = i + 3; let mut v = 0u32;
                    while j < cs.len() && cs[j] != '}' { v = v * 16 + cs[j].to_digit(16).unwrap_or(0); j += 1; }
                    o.push(char::from_u32(v).unwrap_or('?')); i = j + 1;
                }
                _ => { o.push('\\'); i += 1; }
            }
        } else { o.push(cs[i]); i += 1; }
    }
    o
}
