//! C15: build the same package several times in FRESH processes (different std RandomState seeds,
//! different thread timings) and compare bytecode, JSON ABI and storage-slots JSON byte for byte.
//! `sv_c15 child <dir> <release>` prints three sha256 digests; the parent spawns children in parallel.
use sha2::{Digest, Sha256};
use std::io::Write;
use std::path::{Path, PathBuf};
use std::process::Command;
use svharness::{proto::*, rng::*};

fn sha(b: &[u8]) -> String { hex::encode(Sha256::digest(b))[..24].to_string() }

fn child(dir: &str, release: bool) {
    let mut o = forc_pkg::BuildOpts::default();
    o.pkg.path = Some(dir.to_string());
    o.pkg.offline = true;
    o.pkg.terse = true;
    o.release = release;
    o.no_output = true;
    o.tests = false;
    match forc_pkg::build_with_options(&o, None) {
        Ok(forc_pkg::Built::Package(p)) => {
            let abi = match &p.program_abi {
                sway_core::asm_generation::ProgramABI::Fuel(a) => serde_json::to_string(a).unwrap(),
                _ => "non-fuel".into(),
            };
            let slots = serde_json::to_string(&p.storage_slots).unwrap();
            println!("RESULT ok {} {} {} {}", sha(&p.bytecode.bytes), sha(abi.as_bytes()), sha(slots.as_bytes()), p.bytecode.bytes.len());
        }
        Ok(_) => println!("RESULT workspace"),
        Err(e) => println!("RESULT err {}", sha(format!("{e:#}").as_bytes())),
    }
}

/// Copy a package to scratch, making every `path = "…"` dependency absolute (relative to the original).
fn stage(orig: &Path, dst: &Path) -> Option<()> {
    std::fs::create_dir_all(dst.join("src")).ok()?;
    let toml = std::fs::read_to_string(orig.join("Forc.toml")).ok()?;
    let mut out = String::new();
    for line in toml.lines() {
        if let Some(i) = line.find("path = \"") {
            let rest = &line[i + 8..];
            let j = rest.find('"')?;
            let p = &rest[..j];
            let abs = if Path::new(p).is_absolute() { PathBuf::from(p) } else { orig.join(p).canonicalize().ok()? };
            out.push_str(&format!("{}path = \"{}\"{}\n", &line[..i], abs.display(), &rest[j + 1..]));
        } else {
            out.push_str(line);
            out.push('\n');
        }
    }
    if out.contains("git = ") || out.contains("version = \"") && out.contains("[dependencies]") && out.contains("registry") { return None; }
    std::fs::write(dst.join("Forc.toml"), out).ok()?;
    fn cp(a: &Path, b: &Path) -> Option<()> {
        std::fs::create_dir_all(b).ok()?;
        for e in std::fs::read_dir(a).ok()? {
            let e = e.ok()?;
            let t = b.join(e.file_name());
            if e.path().is_dir() { cp(&e.path(), &t)?; } else { std::fs::copy(e.path(), t).ok()?; }
        }
        Some(())
    }
    cp(&orig.join("src"), &dst.join("src"))
}

fn candidates() -> Vec<PathBuf> {
    let mut v = vec![];
    fn walk(d: &Path, v: &mut Vec<PathBuf>, depth: usize) {
        if depth > 8 { return; }
        if d.join("Forc.toml").exists() && d.join("src").is_dir() {
            let t = std::fs::read_to_string(d.join("Forc.toml")).unwrap_or_default();
            if !t.contains("[workspace]") && !t.contains("git =") && !t.contains("ipfs") && !t.contains("reduced_std_libs") && t.contains("sway-lib-std\"") { v.push(d.to_path_buf()); }
            return;
        }
        if let Ok(rd) = std::fs::read_dir(d) {
            let mut es: Vec<_> = rd.filter_map(|e| e.ok()).map(|e| e.path()).filter(|p| p.is_dir()).collect();
            es.sort();
            for p in es { walk(&p, v, depth + 1); }
        }
    }
    for root in ["/repo/test/src/e2e_vm_tests/test_programs/should_pass", "/repo/examples"] {
        walk(Path::new(root), &mut v, 0);
    }
    v
}

fn main() {
    let av: Vec<String> = std::env::args().collect();
    if av.len() >= 4 && av[1] == "child" { child(&av[2], av[3] == "1"); return; }
    let a = args();
    let mut r = Rng::new(seed_from_env());
    let runs: usize = std::env::var("SV_C15_RUNS").ok().and_then(|s| s.parse().ok()).unwrap_or(3);
    let cands = candidates();
    let scratch = svharness::swayrun::scratch_dir("c15");
    // fixed heavy packages first (large code: spilling, dedup, data section), then seed-chosen ones
    let mut chosen: Vec<PathBuf> = vec![];
    for fixed in ["/repo/test/src/e2e_vm_tests/test_programs/should_pass/test_contracts/basic_storage", "/repo/test/src/e2e_vm_tests/test_programs/should_pass/language/args_on_stack"] {
        if Path::new(fixed).join("Forc.toml").exists() { chosen.push(PathBuf::from(fixed)); }
    }
    let mut guard = 0;
    while chosen.len() < a.n && guard < 10 * a.n + 50 && !cands.is_empty() {
        guard += 1;
        let c = r.pick(&cands).clone();
        if !chosen.contains(&c) { chosen.push(c); }
    }
    // generated high-register-pressure packages (no std: fast to build): k long-lived values kept alive across n
    // short-lived temporaries inside a loop; k and n are swept around the number of allocatable registers, where the
    // order in which the allocator simplifies/spills nodes starts to matter
    let npress: usize = std::env::var("SV_C15_PRESSURE").ok().and_then(|s| s.parse().ok()).unwrap_or(if a.n >= 20 { 40 } else { 6 });
    for _ in 0..npress {
        let k = 5 + r.below(7) as usize;      // 5..11 long-lived
        let n = 18 + r.below(20) as usize;    // 18..37 temporaries
        let d = scratch.join(format!("gen_pressure_{k}_{n}"));
        if d.exists() { continue; }
        std::fs::create_dir_all(d.join("src")).unwrap();
        std::fs::write(d.join("Forc.toml"), "[project]\nauthors = [\"verif\"]\nentry = \"main.sw\"\nlicense = \"Apache-2.0\"\nname = \"pressure\"\nimplicit-std = false\nexperimental = { new_encoding = false }\n").unwrap();
        std::fs::write(d.join("src/main.sw"), pressure_src(k, n)).unwrap();
        chosen.push(d);
    }
    let exe = std::env::current_exe().unwrap();
    let mut out = std::io::BufWriter::new(std::fs::File::create(&a.out).unwrap());
    let mut jobs = vec![];
    for (i, orig) in chosen.iter().enumerate() {
        let dst = scratch.join(format!("p{i}"));
        if stage(orig, &dst).is_none() { continue; }
        for release in [false, true] {
            let mut kids = vec![];
            for k in 0..runs {
                // a private copy per run so that concurrent builds do not share Forc.lock / out dirs
                let d = scratch.join(format!("p{i}-{}-{k}", release as u8));
                let _ = stage(&dst, &d);
                let c = Command::new(&exe).arg("child").arg(&d).arg(if release { "1" } else { "0" })
                    .env("RAYON_NUM_THREADS", format!("{}", 1 + (k * 3) % 5))
                    .stdout(std::process::Stdio::piped()).stderr(std::process::Stdio::null()).spawn().unwrap();
                kids.push(c);
            }
            jobs.push((orig.clone(), release, kids));
            // bound parallelism: wait when 4 package-profiles are in flight
            if jobs.len() >= 4 { flush_jobs(&mut jobs, &mut out); }
        }
    }
    flush_jobs(&mut jobs, &mut out);
    out.flush().unwrap();
    let _ = std::fs::remove_dir_all(&scratch);
}

fn pressure_src(k: usize, n: usize) -> String {
    let cs: Vec<String> = (0..k).map(|i| format!("c{i}")).collect();
    let fs: Vec<String> = (0..n).map(|i| format!("f{i}")).collect();
    let mut regs = vec!["m: m".to_string(), "x: x".to_string()];
    regs.extend(cs.iter().cloned()); regs.push("s".into()); regs.extend(fs.iter().cloned());
    let mut body = String::new();
    for c in &cs { body.push_str(&format!("            add {c} x x;\n")); }
    body.push_str("            add s m m;\n");
    for f in &fs { body.push_str(&format!("            add {f} x x;\n            add s s {f};\n")); }
    for c in &cs { body.push_str(&format!("            add s s {c};\n")); }
    format!("script;\n\n#[inline(never)]\nfn run(seed: u64, x: u64) -> u64 {{\n    let mut m = seed;\n    let mut i = 0;\n    while __lt(i, 3) {{\n        let s = asm({}) {{\n{}            s: u64\n        }};\n        m = __add(s, i);\n        i = __add(i, 1);\n    }}\n    m\n}}\n\nfn main() -> u64 {{\n    __add(run(1, 2), run(3, 4))\n}}\n", regs.join(", "), body)
}

fn flush_jobs(jobs: &mut Vec<(PathBuf, bool, Vec<std::process::Child>)>, out: &mut dyn Write) {
    for (orig, release, kids) in jobs.drain(..) {
        let mut res = vec![];
        for k in kids {
            let o = k.wait_with_output().unwrap();
            let s = String::from_utf8_lossy(&o.stdout).to_string();
            let line = s.lines().find(|l| l.starts_with("RESULT ")).map(|l| l[7..].replace(' ', ":")).unwrap_or_else(|| format!("crash:{:?}", o.status.code()));
            res.push(line);
        }
        let name = if orig.file_name().map(|f| f.to_string_lossy().starts_with("gen_pressure_")).unwrap_or(false) { format!("gen/{}", orig.file_name().unwrap().to_string_lossy()) } else { orig.strip_prefix("/repo").unwrap_or(&orig).display().to_string() };
        writeln!(out, "build {} {} ;; {}", name, if release { "release" } else { "debug" }, res.join(" ")).unwrap();
    }
}
