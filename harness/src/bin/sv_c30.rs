//! C30: fault injection into the real git-dependency fetch of forc-pkg (hook H5).
//!
//! Parent mode (`--out FILE --n CASES [--corpus FILE]`): builds local git repositories holding a small
//! Sway library, a dependent package with `deplib = { git = "file://…" }`, and for every fault point
//! (enumerated by a clean run through `SWAY_VERIF_FAULT_LOG`) and both modes (`err`, `abort`) runs
//!   1. the faulted fetch in a CHILD process (this executable re-executed with `--child`), private HOME,
//!   2. a snapshot of `$HOME/.forc/git/checkouts`,
//!   3. a fresh "later build" in another child, no fault.
//! Lines:
//!   `points <n> <m> <e> ;; <name#k> …`                         the points passed by a clean fetch, in order
//!   `fault <name#k> <mode> <n> <m> <e> <lock> <ref> ;; after=F:<tree>,S:<tree>,T:<0|1> first=<..> next=<..> …`
//! `<n>` files in the dependency's commit (sorted in checkout order), `<m>`/`<e>` the positions of its
//! `Forc.toml` / `src/lib.sw`. `<tree>` = `-` (directory absent) or one letter per file (`c` complete,
//! `p` present with other content, `a` absent) `.` marker (`.forc_index`: `c` valid, `p` present but
//! invalid, `a` absent). F = the final checkout directory of the pinned commit, S = the staging directory
//! inside the temporary clone, T = whether anything is left in `checkouts/tmp`.
//! next = `refetch` (later build fetched again and ended with a complete checkout) | `complete` (used the
//! existing checkout, which equals the commit) | `partial` (plan built on a checkout that differs from the
//! commit) | `error` (later build failed).
use forc_pkg::manifest::GenericManifestFile;
use forc_pkg::{BuildOpts, BuildPlan, PkgOpts};
use std::collections::BTreeMap;
use std::io::Write;
use std::path::{Path, PathBuf};
use std::process::{Command, Stdio};
use svharness::{proto::*, rng::*};

const STAGING_DIR_NAME: &str = "checkout";

// ------------------------------------------------------------------------------------------ child

#[cfg(unix)]
mod wfail {
    #[repr(C)]
    pub struct RLimit { pub cur: u64, pub max: u64 }
    extern "C" {
        fn getrlimit(resource: i32, rlim: *mut RLimit) -> i32;
        fn setrlimit(resource: i32, rlim: *const RLimit) -> i32;
        fn signal(signum: i32, handler: usize) -> usize;
    }
    const RLIMIT_FSIZE: i32 = 1;
    const SIGXFSZ: i32 = 25;
    const SIG_IGN: usize = 1;
    static SAVED: std::sync::Mutex<Option<u64>> = std::sync::Mutex::new(None);
    /// `true`: every further write to a regular file fails with EFBIG (a real I/O error inside libgit2's
    /// checkout); `false`: back to normal.
    pub fn set(on: bool) {
        let mut saved = SAVED.lock().unwrap();
        unsafe {
            let mut l = RLimit { cur: 0, max: 0 };
            if getrlimit(RLIMIT_FSIZE, &mut l) != 0 { return; }
            if on {
                if saved.is_none() { *saved = Some(l.cur); }
                signal(SIGXFSZ, SIG_IGN);
                l.cur = 0;
                setrlimit(RLIMIT_FSIZE, &l);
            } else if let Some(c) = saved.take() {
                l.cur = c;
                setrlimit(RLIMIT_FSIZE, &l);
            }
        }
    }
}

fn classify(msg: &str) -> &'static str {
    if msg.contains("injected fault") { "injected" }
    else if msg.contains("failed to find package") { "nomanifest" }
    else if msg.contains("failed to validate path from entry") { "noentry" }
    else if msg.contains("File too large") || msg.contains("could not write") || msg.contains("error writing") || msg.contains("failed to write") { "writefail" }
    else { "other" }
}

/// `--child <proj> <compile:0|1>`: one build-plan construction with the real forc-pkg.
fn child(proj: &str, compile: bool) {
    #[cfg(unix)]
    forc_pkg::source::git::verif::set_write_failure_handler(Box::new(wfail::set));
    if std::env::var("SV_C30_DEBUG").is_err() { quiet_panics(); }
    let opts = PkgOpts { path: Some(proj.to_string()), offline: false, terse: true, locked: false, output_directory: None, ipfs_node: Default::default() };
    let o2 = opts.clone();
    let res = guarded(move || BuildPlan::from_pkg_opts(&o2));
    #[cfg(unix)]
    wfail::set(false);
    let line = match res {
        None => "RESULT panic".to_string(),
        Some(Err(e)) => {
            let m = format!("{e:#}");
            eprintln!("child error: {m}");
            format!("RESULT err {}", classify(&m))
        }
        Some(Ok(plan)) => {
            let dep = plan.manifest_map().values().find(|m| m.project.name == "deplib").map(|m| m.dir().to_path_buf());
            let mut s = match dep {
                Some(d) => format!("RESULT ok {}", d.display()),
                None => "RESULT ok -".to_string(),
            };
            if compile {
                let bo = BuildOpts { pkg: opts, build_profile: "debug".into(), no_output: true, ..Default::default() };
                let r = guarded(move || forc_pkg::build_with_options(&bo, None));
                s.push_str(match r {
                    Some(Ok(_)) => " compiled=ok",
                    Some(Err(e)) => { eprintln!("child compile error: {e:#}"); " compiled=err" }
                    None => " compiled=panic",
                });
            }
            s
        }
    };
    println!("{line}");
}

// ------------------------------------------------------------------------------------------ parent

struct Cfg {
    /// (path, content) sorted by path bytes = checkout order
    files: Vec<(String, String)>,
    m: usize,
    e: usize,
    reference: &'static str, // branch | tag | rev
}

const BEFORE: &[&str] = &[".gitignore", "0.txt", "A.md", "CHANGELOG.md", "Docs/x.md"];
const BETWEEN: &[&str] = &["LICENSE", "README.md", "assets/logo.txt", "src/a.sw", "src/b/inner.txt"];
const AFTER: &[&str] = &["src/m1.sw", "src/zz.sw", "tests/data.txt", "z.txt", "src/lib.sw.orig"];

fn make_cfg(extra: &[String], reference: &'static str) -> Cfg {
    let mut names: Vec<String> = extra.to_vec();
    names.retain(|n| n != "Forc.toml" && n != "src/lib.sw");
    names.push("Forc.toml".into());
    names.push("src/lib.sw".into());
    names.sort_by(|a, b| a.as_bytes().cmp(b.as_bytes()));
    names.dedup();
    let mods: Vec<String> = names.iter().filter_map(|n| {
        let s = n.strip_prefix("src/")?.strip_suffix(".sw")?;
        if s == "lib" || s.contains('/') || s.contains('.') { None } else { Some(s.to_string()) }
    }).collect();
    let files = names.iter().map(|n| {
        let c = if n == "Forc.toml" {
            "[project]\nauthors = [\"verif\"]\nentry = \"lib.sw\"\nlicense = \"Apache-2.0\"\nname = \"deplib\"\nimplicit-std = false\n".to_string()
        } else if n == "src/lib.sw" {
            let mut s = String::from("library;\n");
            for m in &mods { s.push_str(&format!("pub mod {m};\n")); }
            s.push_str("pub fn dep_value() -> u64 {\n");
            for (i, m) in mods.iter().enumerate() { s.push_str(&format!("    let _x{i} = {m}::value();\n")); }
            s.push_str("    40\n}\n");
            s
        } else if n.ends_with(".sw") {
            "library;\npub fn value() -> u64 {\n    1\n}\n".to_string()
        } else {
            format!("content of {n}\n")
        };
        (n.clone(), c)
    }).collect::<Vec<_>>();
    let m = names.iter().position(|n| n == "Forc.toml").unwrap();
    let e = names.iter().position(|n| n == "src/lib.sw").unwrap();
    Cfg { files, m, e, reference }
}

fn random_cfg(r: &mut Rng) -> Cfg {
    let mut extra = vec![];
    for pool in [BEFORE, BETWEEN, AFTER] {
        let k = r.below(3);
        for _ in 0..k { extra.push(r.pick(pool).to_string()); }
    }
    let reference = *r.pick(&["branch", "branch", "tag", "rev"]);
    make_cfg(&extra, reference)
}

fn git(dir: &Path, home: &Path, args: &[&str]) -> String {
    let o = Command::new("git").current_dir(dir).args(args)
        .env("HOME", home).env("GIT_CONFIG_NOSYSTEM", "1")
        .env("GIT_AUTHOR_DATE", "2024-01-01T00:00:00Z").env("GIT_COMMITTER_DATE", "2024-01-01T00:00:00Z")
        .output().expect("git CLI");
    if !o.status.success() { panic!("git {:?} failed: {}", args, String::from_utf8_lossy(&o.stderr)); }
    String::from_utf8_lossy(&o.stdout).trim().to_string()
}

struct World {
    root: PathBuf,
    home: PathBuf,
    proj: PathBuf,
    commit: String,
    lock_text: Option<String>,
}

fn rm(p: &Path) { if p.exists() { let _ = std::fs::remove_dir_all(p); } }

fn setup_world(root: &Path, cfg: &Cfg) -> World {
    let src = root.join("srcrepo");
    let ghome = root.join("githome");
    std::fs::create_dir_all(&src).unwrap();
    std::fs::create_dir_all(&ghome).unwrap();
    git(&src, &ghome, &["init", "-q", "-b", "main"]);
    for (n, c) in &cfg.files {
        let p = src.join(n);
        std::fs::create_dir_all(p.parent().unwrap()).unwrap();
        std::fs::write(p, c).unwrap();
    }
    // `-f`: a `.gitignore` among the files must not hide anything
    git(&src, &ghome, &["add", "-f", "."]);
    git(&src, &ghome, &["-c", "user.name=verif", "-c", "user.email=verif@example.com", "commit", "-q", "-m", "init"]);
    git(&src, &ghome, &["tag", "v1"]);
    let commit = git(&src, &ghome, &["rev-parse", "HEAD"]);
    let proj = root.join("app");
    std::fs::create_dir_all(proj.join("src")).unwrap();
    let refspec = match cfg.reference {
        "branch" => "branch = \"main\"".to_string(),
        "tag" => "tag = \"v1\"".to_string(),
        _ => format!("rev = \"{commit}\""),
    };
    std::fs::write(proj.join("Forc.toml"), format!(
        "[project]\nauthors = [\"verif\"]\nentry = \"main.sw\"\nlicense = \"Apache-2.0\"\nname = \"app\"\nimplicit-std = false\n\n[dependencies]\ndeplib = {{ git = \"file://{}\", {} }}\n",
        src.display(), refspec)).unwrap();
    std::fs::write(proj.join("src/main.sw"), "library;\nuse deplib::dep_value;\npub fn app_value() -> u64 {\n    dep_value()\n}\n").unwrap();
    World { root: root.to_path_buf(), home: root.join("home"), proj, commit, lock_text: None }
}

struct ChildOut { status: String, result: String, log: Vec<String> }

fn run_child(w: &World, fault: Option<&str>, compile: bool) -> ChildOut {
    let log = w.root.join("points.log");
    let _ = std::fs::remove_file(&log);
    let exe = std::env::current_exe().unwrap();
    let mut c = Command::new(exe);
    c.arg("--child").arg(&w.proj).arg(if compile { "1" } else { "0" })
        .env("HOME", &w.home).env("GIT_CONFIG_NOSYSTEM", "1")
        .env("SWAY_VERIF_FAULT_LOG", &log)
        .env_remove("SWAY_VERIF_FAULT")
        .stdin(Stdio::null()).stdout(Stdio::piped()).stderr(Stdio::piped());
    if let Some(f) = fault { c.env("SWAY_VERIF_FAULT", f); }
    let o = c.output().expect("spawn child");
    let status = if o.status.success() { "exit0".to_string() } else {
        #[cfg(unix)]
        { use std::os::unix::process::ExitStatusExt; match o.status.signal() { Some(s) => format!("signal{s}"), None => format!("exit{}", o.status.code().unwrap_or(-1)) } }
        #[cfg(not(unix))]
        { format!("exit{}", o.status.code().unwrap_or(-1)) }
    };
    let stdout = String::from_utf8_lossy(&o.stdout).to_string();
    let result = stdout.lines().rev().find_map(|l| l.strip_prefix("RESULT ").map(|s| s.to_string())).unwrap_or_else(|| "none".into());
    if std::env::var("SV_C30_DEBUG").is_ok() {
        eprintln!("child fault={fault:?} status={status} result={result}\n{}", String::from_utf8_lossy(&o.stderr));
    }
    let log = std::fs::read_to_string(&log).unwrap_or_default().lines().map(|s| s.to_string()).collect();
    ChildOut { status, result, log }
}

fn reset_home(w: &World, with_lock: bool) {
    rm(&w.home);
    std::fs::create_dir_all(&w.home).unwrap();
    let lock = w.proj.join("Forc.lock");
    let _ = std::fs::remove_file(&lock);
    if with_lock { std::fs::write(&lock, w.lock_text.as_ref().expect("lock text")).unwrap(); }
    rm(&w.proj.join("out"));
}

/// All regular files under `dir`, relative path -> content.
fn read_tree(dir: &Path) -> BTreeMap<String, Vec<u8>> {
    fn go(base: &Path, d: &Path, out: &mut BTreeMap<String, Vec<u8>>) {
        if let Ok(rd) = std::fs::read_dir(d) {
            for e in rd.flatten() {
                let p = e.path();
                if p.is_dir() { go(base, &p, out); } else {
                    let rel = p.strip_prefix(base).unwrap().to_string_lossy().to_string();
                    out.insert(rel, std::fs::read(&p).unwrap_or_default());
                }
            }
        }
    }
    let mut out = BTreeMap::new();
    go(dir, dir, &mut out);
    out
}

/// (`<files>.<marker>` | `-`, number of unexpected extra files)
fn tree_summary(dir: &Path, cfg: &Cfg, commit: &str) -> (String, usize) {
    if !dir.is_dir() { return ("-".into(), 0); }
    let t = read_tree(dir);
    let mut s = String::new();
    for (n, c) in &cfg.files {
        s.push(match t.get(n) { None => 'a', Some(b) if b == c.as_bytes() => 'c', Some(_) => 'p' });
    }
    s.push('.');
    s.push(match t.get(".forc_index") {
        None => 'a',
        Some(b) => match serde_json::from_slice::<serde_json::Value>(b) {
            Ok(v) if v["head_with_time"][0].as_str() == Some(commit) => 'c',
            _ => 'p',
        },
    });
    let extra = t.keys().filter(|k| k.as_str() != ".forc_index" && !cfg.files.iter().any(|(n, _)| n == *k)).count();
    (s, extra)
}

fn checkouts_dir(w: &World) -> PathBuf { w.home.join(".forc/git/checkouts") }

/// The final checkout directory: `checkouts/dep-<urlhash>/<commit>`.
fn final_dir(w: &World) -> Option<PathBuf> {
    let rd = std::fs::read_dir(checkouts_dir(w)).ok()?;
    for e in rd.flatten() {
        let name = e.file_name().to_string_lossy().to_string();
        if name.starts_with("deplib-") { return Some(e.path().join(&w.commit)); }
    }
    None
}

fn fs_summary(w: &World, cfg: &Cfg) -> (String, usize) {
    let (f, fx) = match final_dir(w) { Some(d) => tree_summary(&d, cfg, &w.commit), None => ("-".into(), 0) };
    let tmp = checkouts_dir(w).join("tmp");
    let tmp_entries: Vec<PathBuf> = std::fs::read_dir(&tmp).map(|rd| rd.flatten().map(|e| e.path()).collect()).unwrap_or_default();
    let mut s = ("-".to_string(), 0);
    for t in &tmp_entries {
        let st = t.join(STAGING_DIR_NAME);
        if st.is_dir() { s = tree_summary(&st, cfg, &w.commit); }
    }
    (format!("F:{},S:{},T:{}", f, s.0, if tmp_entries.is_empty() { 0 } else { 1 }), fx + s.1)
}

/// One fault case: faulted build, snapshot, later build. Returns the protocol line.
fn run_case(w: &World, cfg: &Cfg, p: &str, mode: &str, with_lock: bool) -> String {
    let n = cfg.files.len();
    reset_home(w, with_lock);
    let first = run_child(w, Some(&format!("{p}:{mode}")), false);
    let (after, extra) = fs_summary(w, cfg);
    // the later build: fresh process, no fault
    let later = run_child(w, None, false);
    let refetched = later.log.iter().any(|l| l.starts_with("fetch_needed#"));
    let (after2, _) = fs_summary(w, cfg);
    let fin = final_dir(w);
    let fin_complete = after2.starts_with(&format!("F:{}.", "c".repeat(n)));
    let uses_final = fin.as_ref().map(|f| later.result.contains(f.to_string_lossy().as_ref())).unwrap_or(false);
    let next = if later.result.starts_with("ok ") {
        if !uses_final { "elsewhere" } else if !fin_complete { "partial" } else if refetched { "refetch" } else { "complete" }
    } else { "error" };
    // a plan on a partial tree: does the real compiler go through with it?
    let compiled = if next == "partial" {
        let again = run_child(w, None, true);
        again.result.split(' ').find_map(|t| t.strip_prefix("compiled=")).unwrap_or("-").to_string()
    } else { "-".to_string() };
    let why = if later.result.starts_with("err ") { later.result[4..].to_string() } else { "-".into() };
    let first_r = match first.result.split(' ').collect::<Vec<_>>().as_slice() {
        ["ok", ..] => "ok".to_string(),
        ["err", c] => format!("err_{c}"),
        _ => first.result.clone(),
    };
    format!("fault {} {} {} {} {} {} {} ;; after={} extra={} first={}_{} next={} why={} compiled={} refetched={}",
            p, mode, n, cfg.m, cfg.e, if with_lock { 1 } else { 0 }, cfg.reference,
            after, extra, first.status, first_r, next, why, compiled, if refetched { 1 } else { 0 })
}

/// Clean run (point enumeration, `Forc.lock` text, sanity), then every selected (point, mode, lock) case.
/// Cases are spread over `SV_C30_JOBS` workers, each with its own copy of the world (own source
/// repository, project, HOME); the output order does not depend on the number of workers.
fn sweep(root: &Path, cfg: &Cfg, only: Option<(&str, &str, bool)>, modes_for: &mut dyn FnMut(&str) -> Vec<&'static str>,
         out: &mut dyn Write, cases: &mut usize) {
    let n = cfg.files.len();
    let mut w = setup_world(&root.join("k0"), cfg);
    reset_home(&w, false);
    let base = run_child(&w, None, false);
    let comp = run_child(&w, None, true);
    let (sum, extra) = fs_summary(&w, cfg);
    let fin = final_dir(&w);
    let ok = base.result.starts_with("ok ") && fin.as_ref().map(|f| base.result.contains(f.to_string_lossy().as_ref())).unwrap_or(false);
    w.lock_text = std::fs::read_to_string(w.proj.join("Forc.lock")).ok();
    writeln!(out, "points {} {} {} ;; {}", n, cfg.m, cfg.e, base.log.join(" ")).unwrap();
    writeln!(out, "clean {} {} {} {} ;; after={} extra={} status={} result={}", n, cfg.m, cfg.e, cfg.reference, sum, extra, base.status,
             if ok { comp.result.split(' ').filter(|t| !t.starts_with('/')).collect::<Vec<_>>().join("_") } else { format!("unexpected_{}", base.result.replace(' ', "_")) }).unwrap();
    *cases += 2;
    if w.lock_text.is_none() { return; }
    let mut tasks: Vec<(String, &'static str, bool)> = vec![];
    for p in &base.log {
        for mode in modes_for(p) {
            for with_lock in [false, true] {
                if let Some((op, om, ol)) = only { if op != p || om != mode || ol != with_lock { continue; } }
                tasks.push((p.clone(), mode, with_lock));
            }
        }
    }
    let jobs = std::env::var("SV_C30_JOBS").ok().and_then(|s| s.parse::<usize>().ok()).unwrap_or(4).clamp(1, 16).min(tasks.len().max(1));
    let results: std::sync::Mutex<Vec<Option<String>>> = std::sync::Mutex::new(vec![None; tasks.len()]);
    std::thread::scope(|sc| {
        for k in 0..jobs {
            let (tasks, results, w0) = (&tasks, &results, &w);
            sc.spawn(move || {
                let own;
                let wk: &World = if k == 0 { w0 } else {
                    let mut x = setup_world(&root.join(format!("k{k}")), cfg);
                    reset_home(&x, false);
                    let _ = run_child(&x, None, false);
                    x.lock_text = std::fs::read_to_string(x.proj.join("Forc.lock")).ok();
                    own = x;
                    &own
                };
                for (i, (p, mode, with_lock)) in tasks.iter().enumerate() {
                    if i % jobs != k { continue; }
                    let line = if wk.lock_text.is_some() { run_case(wk, cfg, p, mode, *with_lock) }
                               else { format!("fault {} {} {} {} {} {} {} ;; after=? extra=0 first=? next=noworld", p, mode, n, cfg.m, cfg.e, *with_lock as u8, cfg.reference) };
                    results.lock().unwrap()[i] = Some(line);
                }
            });
        }
    });
    for l in results.into_inner().unwrap().into_iter().flatten() {
        writeln!(out, "{l}").unwrap();
        *cases += 1;
    }
}

fn main() {
    let argv: Vec<String> = std::env::args().collect();
    if argv.len() >= 4 && argv[1] == "--child" {
        child(&argv[2], argv[3] == "1");
        return;
    }
    let a = args();
    let mut r = Rng::new(seed_from_env());
    let thorough = std::env::var("VERIF_TIER").map(|t| t == "thorough").unwrap_or(false);
    let mut out = std::io::BufWriter::new(std::fs::File::create(&a.out).unwrap());
    let mut cases = 0usize;
    let tmp = tempfile::Builder::new().prefix("sv_c30_").tempdir().unwrap();
    let mut idx = 0;
    // corpus: `<ref> <lock:0|1> <point> <mode> <extra file> …` (Forc.toml and src/lib.sw are always present)
    if let Some(c) = &a.corpus {
        for l in std::fs::read_to_string(c).unwrap_or_default().lines() {
            if l.starts_with('#') || l.trim().is_empty() { continue; }
            let f: Vec<&str> = l.split_whitespace().collect();
            if f.len() < 4 { continue; }
            let reference = match f[0] { "tag" => "tag", "rev" => "rev", _ => "branch" };
            let extra: Vec<String> = f[4..].iter().map(|s| s.to_string()).collect();
            let cfg = make_cfg(&extra, reference);
            let root = tmp.path().join(format!("w{idx}")); idx += 1;
            let mode: &'static str = if f[3] == "err" { "err" } else { "abort" };
            sweep(&root, &cfg, Some((f[2], mode, f[1] == "1")), &mut |_| vec![mode], &mut out, &mut cases);
            rm(&root);
        }
    }
    while cases < a.n {
        let cfg = random_cfg(&mut r);
        let root = tmp.path().join(format!("w{idx}")); idx += 1;
        // quick: every point in one mode (seed-chosen per repository), plus the other mode for a seed-chosen
        // third of the points; thorough: every point in both modes
        let primary = if r.chance(1, 2) { "abort" } else { "err" };
        let other = if primary == "abort" { "err" } else { "abort" };
        let mut r2 = Rng::new(r.next());
        sweep(&root, &cfg, None, &mut |_p| {
            if thorough { return vec!["abort", "err"]; }
            if r2.chance(1, 3) { vec![primary, other] } else { vec![primary] }
        }, &mut out, &mut cases);
        rm(&root);
    }
    out.flush().unwrap();
    eprintln!("sv_c30: {} cases", cases);
}
