//! C28: a contract with StorageVec / StorageMap / StorageBytes / StorageString fields, random
//! operation histories executed in-VM (one `#[test]` = one transaction = one history) against the
//! REAL std library compiled by the REAL compiler, through forc-test.
//!
//! Line: `hist fields=<kind:fid,..> h=<pre:dig,..> ops=<op,op,..> ;; st=<state> obs=<tok,tok,..>`
//!   kinds: V<elem bytes> | M<value bytes> | B | S ; ops use field indices into `fields`.
//!   ops:  vpush.f.hex vpop.f vget.f.i vset.f.i.hex vlen.f vremove.f.i vinsert.f.i.hex vswap.f.i.j
//!         vswaprm.f.i vclear.f minsert.f.k.hex mget.f.k mremove.f.k bwrite.f.len.seed bread.f blen.f
//!         bclear.f raw.keyhex
//!   obs:  u (unit) | n (None) | s<hex> (value / Some) | d<dec> | b0 | b1 | R (transaction reverted here)
use sha2::{Digest, Sha256};
use std::io::Write;
use svharness::{proto::*, rng::*, swayrun::*};

fn sha(b: &[u8]) -> [u8; 32] { let mut h = Sha256::new(); h.update(b); h.finalize().into() }

#[derive(Clone, Copy, PartialEq)]
enum Kind { V8, V24, M8, M40, B, S }

struct FieldDef { kind: Kind, access: &'static str, path: &'static str }

const FIELDS: &[FieldDef] = &[
    FieldDef { kind: Kind::V8, access: "storage.v0", path: "storage.v0" },
    FieldDef { kind: Kind::V8, access: "storage::na.v1", path: "storage::na.v1" },
    FieldDef { kind: Kind::V24, access: "storage.vt", path: "storage.vt" },
    FieldDef { kind: Kind::M8, access: "storage.m0", path: "storage.m0" },
    FieldDef { kind: Kind::M8, access: "storage::na.m1", path: "storage::na.m1" },
    FieldDef { kind: Kind::M40, access: "storage.mt", path: "storage.mt" },
    FieldDef { kind: Kind::B, access: "storage.b0", path: "storage.b0" },
    FieldDef { kind: Kind::B, access: "storage::na.b1", path: "storage::na.b1" },
    FieldDef { kind: Kind::S, access: "storage.s0", path: "storage.s0" },
];

fn kind_tok(k: Kind) -> &'static str { match k { Kind::V8 => "V8", Kind::V24 => "V24", Kind::M8 => "M8", Kind::M40 => "M40", Kind::B => "B", Kind::S => "S" } }

fn fid(i: usize) -> [u8; 32] {
    let mut pre = vec![0u8];
    pre.extend_from_slice(FIELDS[i].path.as_bytes());
    sha(&pre)
}

const T3: [u64; 3] = [0, 0xAAAA_AAAA_AAAA_AAAA, 0xFFFF_FFFF_FFFF_FFFF];
const T5: [u64; 5] = [0, 0x1111_1111_1111_1111, 0x2222_2222_2222_2222, 0x4444_4444_4444_4444, 0x8888_8888_8888_8888];

/// memory image (= ABI bytes here: tuples of u64) of the element/value the contract builds from `v`
fn elem_bytes(k: Kind, v: u64) -> Vec<u8> {
    let masks: &[u64] = match k { Kind::V8 | Kind::M8 => &[0], Kind::V24 => &T3, Kind::M40 => &T5, _ => &[] };
    masks.iter().flat_map(|m| (v ^ m).to_be_bytes()).collect()
}

fn contract_source() -> String {
    let mut s = String::from(r#"contract;
use std::storage::storage_vec::*;
use std::storage::storage_bytes::*;
use std::storage::storage_string::*;
use std::storage::storage_api::read_quads;
use std::bytes::Bytes;
use std::string::String;
use std::hash::*;

storage {
    v0: StorageVec<u64> = StorageVec {},
    vt: StorageVec<(u64, u64, u64)> = StorageVec {},
    m0: StorageMap<u64, u64> = StorageMap {},
    mt: StorageMap<u64, (u64, u64, u64, u64, u64)> = StorageMap {},
    b0: StorageBytes = StorageBytes {},
    s0: StorageString = StorageString {},
    na {
        v1: StorageVec<u64> = StorageVec {},
        m1: StorageMap<u64, u64> = StorageMap {},
        b1: StorageBytes = StorageBytes {},
    },
}

fn e8(v: u64) -> u64 { v }
fn e24(v: u64) -> (u64, u64, u64) { (v, v ^ 0xAAAAAAAAAAAAAAAA, v ^ 0xFFFFFFFFFFFFFFFF) }
fn e40(v: u64) -> (u64, u64, u64, u64, u64) { (v, v ^ 0x1111111111111111, v ^ 0x2222222222222222, v ^ 0x4444444444444444, v ^ 0x8888888888888888) }
fn to_u8(x: u64) -> u8 { asm(r: x) { r: u8 } }
fn mk_bytes(len: u64, seed: u64, printable: bool) -> Bytes {
    let mut b = Bytes::new();
    let mut i = 0;
    while i < len {
        if printable { b.push(to_u8(32 + (seed + i * 7) % 95)); } else { b.push(to_u8((seed + i * 7) % 256)); }
        i += 1;
    }
    b
}

abi A {
    #[storage(read, write)] fn vpush(f: u64, v: u64);
    #[storage(read, write)] fn vpop(f: u64);
    #[storage(read)] fn vget(f: u64, i: u64);
    #[storage(read, write)] fn vset(f: u64, i: u64, v: u64);
    #[storage(read)] fn vlen(f: u64);
    #[storage(read, write)] fn vremove(f: u64, i: u64);
    #[storage(read, write)] fn vinsert(f: u64, i: u64, v: u64);
    #[storage(read, write)] fn vswap(f: u64, i: u64, j: u64);
    #[storage(read, write)] fn vswaprm(f: u64, i: u64);
    #[storage(read, write)] fn vclear(f: u64);
    #[storage(read, write)] fn minsert(f: u64, k: u64, v: u64);
    #[storage(read)] fn mget(f: u64, k: u64);
    #[storage(read, write)] fn mremove(f: u64, k: u64);
    #[storage(read, write)] fn bwrite(f: u64, len: u64, seed: u64);
    #[storage(read)] fn bread(f: u64);
    #[storage(read)] fn blen(f: u64);
    #[storage(read, write)] fn bclear(f: u64);
    #[storage(read)] fn raw(k: b256);
}

impl A for Contract {
"#);
    let vecs: Vec<(usize, &FieldDef)> = FIELDS.iter().enumerate().filter(|(_, f)| matches!(f.kind, Kind::V8 | Kind::V24)).collect();
    let maps: Vec<(usize, &FieldDef)> = FIELDS.iter().enumerate().filter(|(_, f)| matches!(f.kind, Kind::M8 | Kind::M40)).collect();
    let slices: Vec<(usize, &FieldDef)> = FIELDS.iter().enumerate().filter(|(_, f)| matches!(f.kind, Kind::B | Kind::S)).collect();
    let mk = |k: Kind| match k { Kind::V8 | Kind::M8 => "e8(v)", Kind::V24 => "e24(v)", Kind::M40 => "e40(v)", _ => "" };
    let chain = |items: &Vec<(usize, &FieldDef)>, body: &dyn Fn(&FieldDef) -> String| -> String {
        let mut o = String::new();
        for (n, (i, f)) in items.iter().enumerate() {
            o.push_str(&format!("{}if f == {i} {{ {} }}", if n == 0 { "        " } else { " else " }, body(f)));
        }
        o.push_str(" else { revert(77); }\n");
        o
    };
    let opt = |e: String| format!("match {e} {{ Some(x) => {{ log(1u64); log(x); }}, None => {{ log(0u64); }}, }}");
    s.push_str("    #[storage(read, write)] fn vpush(f: u64, v: u64) {\n");
    s.push_str(&chain(&vecs, &|f| format!("{}.push({}); log(7u64);", f.access, mk(f.kind))));
    s.push_str("    }\n    #[storage(read, write)] fn vpop(f: u64) {\n");
    s.push_str(&chain(&vecs, &|f| opt(format!("{}.pop()", f.access))));
    s.push_str("    }\n    #[storage(read)] fn vget(f: u64, i: u64) {\n");
    s.push_str(&chain(&vecs, &|f| format!("match {}.get(i) {{ Some(k) => {{ let x = k.read(); log(1u64); log(x); }}, None => {{ log(0u64); }}, }}", f.access)));
    s.push_str("    }\n    #[storage(read, write)] fn vset(f: u64, i: u64, v: u64) {\n");
    s.push_str(&chain(&vecs, &|f| format!("{}.set(i, {}); log(7u64);", f.access, mk(f.kind))));
    s.push_str("    }\n    #[storage(read)] fn vlen(f: u64) {\n");
    s.push_str(&chain(&vecs, &|f| format!("log({}.len());", f.access)));
    s.push_str("    }\n    #[storage(read, write)] fn vremove(f: u64, i: u64) {\n");
    s.push_str(&chain(&vecs, &|f| format!("let x = {}.remove(i); log(x);", f.access)));
    s.push_str("    }\n    #[storage(read, write)] fn vinsert(f: u64, i: u64, v: u64) {\n");
    s.push_str(&chain(&vecs, &|f| format!("{}.insert(i, {}); log(7u64);", f.access, mk(f.kind))));
    s.push_str("    }\n    #[storage(read, write)] fn vswap(f: u64, i: u64, j: u64) {\n");
    s.push_str(&chain(&vecs, &|f| format!("{}.swap(i, j); log(7u64);", f.access)));
    s.push_str("    }\n    #[storage(read, write)] fn vswaprm(f: u64, i: u64) {\n");
    s.push_str(&chain(&vecs, &|f| format!("let x = {}.swap_remove(i); log(x);", f.access)));
    s.push_str("    }\n    #[storage(read, write)] fn vclear(f: u64) {\n");
    s.push_str(&chain(&vecs, &|f| format!("let b = {}.clear(); log(if b {{ 1u64 }} else {{ 0u64 }});", f.access)));
    s.push_str("    }\n    #[storage(read, write)] fn minsert(f: u64, k: u64, v: u64) {\n");
    s.push_str(&chain(&maps, &|f| format!("{}.insert(k, {}); log(7u64);", f.access, mk(f.kind))));
    s.push_str("    }\n    #[storage(read)] fn mget(f: u64, k: u64) {\n");
    s.push_str(&chain(&maps, &|f| opt(format!("{}.get(k).try_read()", f.access))));
    s.push_str("    }\n    #[storage(read, write)] fn mremove(f: u64, k: u64) {\n");
    s.push_str(&chain(&maps, &|f| format!("let b = {}.remove(k); log(if b {{ 1u64 }} else {{ 0u64 }});", f.access)));
    s.push_str("    }\n    #[storage(read, write)] fn bwrite(f: u64, len: u64, seed: u64) {\n");
    s.push_str(&chain(&slices, &|f| if f.kind == Kind::B { format!("{}.write_slice(mk_bytes(len, seed, false)); log(7u64);", f.access) } else { format!("{}.write_slice(String::from_ascii(mk_bytes(len, seed, true))); log(7u64);", f.access) }));
    s.push_str("    }\n    #[storage(read)] fn bread(f: u64) {\n");
    s.push_str(&chain(&slices, &|f| opt(format!("{}.read_slice()", f.access))));
    s.push_str("    }\n    #[storage(read)] fn blen(f: u64) {\n");
    s.push_str(&chain(&slices, &|f| format!("log({}.len());", f.access)));
    s.push_str("    }\n    #[storage(read, write)] fn bclear(f: u64) {\n");
    s.push_str(&chain(&slices, &|f| format!("let b = {}.clear(); log(if b {{ 1u64 }} else {{ 0u64 }});", f.access)));
    s.push_str("    }\n    #[storage(read)] fn raw(k: b256) {\n        ");
    s.push_str(&opt("read_quads::<b256>(k, 0)".to_string()));
    s.push_str("\n    }\n}\n\n");
    s
}

#[derive(Clone, Debug)]
enum Op {
    VPush(usize, u64), VPop(usize), VGet(usize, u64), VSet(usize, u64, u64), VLen(usize), VRemove(usize, u64),
    VInsert(usize, u64, u64), VSwap(usize, u64, u64), VSwapRm(usize, u64), VClear(usize),
    MInsert(usize, u64, u64), MGet(usize, u64), MRemove(usize, u64),
    BWrite(usize, u64, u64), BRead(usize), BLen(usize), BClear(usize), Raw([u8; 32]),
}

/// kind of observation an op logs
enum ObsKind { Unit, Opt, Val, Num, Bool }

impl Op {
    fn call(&self) -> String {
        match self {
            Op::VPush(f, v) => format!("c.vpush({f}, {v});"), Op::VPop(f) => format!("c.vpop({f});"),
            Op::VGet(f, i) => format!("c.vget({f}, {i});"), Op::VSet(f, i, v) => format!("c.vset({f}, {i}, {v});"),
            Op::VLen(f) => format!("c.vlen({f});"), Op::VRemove(f, i) => format!("c.vremove({f}, {i});"),
            Op::VInsert(f, i, v) => format!("c.vinsert({f}, {i}, {v});"), Op::VSwap(f, i, j) => format!("c.vswap({f}, {i}, {j});"),
            Op::VSwapRm(f, i) => format!("c.vswaprm({f}, {i});"), Op::VClear(f) => format!("c.vclear({f});"),
            Op::MInsert(f, k, v) => format!("c.minsert({f}, {k}, {v});"), Op::MGet(f, k) => format!("c.mget({f}, {k});"),
            Op::MRemove(f, k) => format!("c.mremove({f}, {k});"),
            Op::BWrite(f, l, s) => format!("c.bwrite({f}, {l}, {s});"), Op::BRead(f) => format!("c.bread({f});"),
            Op::BLen(f) => format!("c.blen({f});"), Op::BClear(f) => format!("c.bclear({f});"),
            Op::Raw(k) => format!("c.raw(0x{});", hex::encode(k)),
        }
    }
    fn tok(&self) -> String {
        let eb = |f: &usize, v: &u64| hex::encode(elem_bytes(FIELDS[*f].kind, *v));
        match self {
            Op::VPush(f, v) => format!("vpush.{f}.{}", eb(f, v)), Op::VPop(f) => format!("vpop.{f}"),
            Op::VGet(f, i) => format!("vget.{f}.{i}"), Op::VSet(f, i, v) => format!("vset.{f}.{i}.{}", eb(f, v)),
            Op::VLen(f) => format!("vlen.{f}"), Op::VRemove(f, i) => format!("vremove.{f}.{i}"),
            Op::VInsert(f, i, v) => format!("vinsert.{f}.{i}.{}", eb(f, v)), Op::VSwap(f, i, j) => format!("vswap.{f}.{i}.{j}"),
            Op::VSwapRm(f, i) => format!("vswaprm.{f}.{i}"), Op::VClear(f) => format!("vclear.{f}"),
            Op::MInsert(f, k, v) => format!("minsert.{f}.{k}.{}", eb(f, v)), Op::MGet(f, k) => format!("mget.{f}.{k}"),
            Op::MRemove(f, k) => format!("mremove.{f}.{k}"),
            Op::BWrite(f, l, s) => format!("bwrite.{f}.{l}.{s}"), Op::BRead(f) => format!("bread.{f}"),
            Op::BLen(f) => format!("blen.{f}"), Op::BClear(f) => format!("bclear.{f}"),
            Op::Raw(k) => format!("raw.{}", hex::encode(k)),
        }
    }
    fn obs_kind(&self) -> ObsKind {
        match self {
            Op::VPush(..) | Op::VSet(..) | Op::VInsert(..) | Op::VSwap(..) | Op::MInsert(..) | Op::BWrite(..) => ObsKind::Unit,
            Op::VPop(_) | Op::VGet(..) | Op::MGet(..) | Op::BRead(_) | Op::Raw(_) => ObsKind::Opt,
            Op::VRemove(..) | Op::VSwapRm(..) => ObsKind::Val,
            Op::VLen(_) | Op::BLen(_) => ObsKind::Num,
            Op::VClear(_) | Op::MRemove(..) | Op::BClear(_) => ObsKind::Bool,
        }
    }
    fn is_slice_read(&self) -> bool { matches!(self, Op::BRead(_)) }
}

fn add_key(k: &[u8; 32], n: u64) -> [u8; 32] {
    let mut r = *k;
    let mut carry = n as u128;
    for i in (0..32).rev() {
        let s = r[i] as u128 + (carry & 0xff);
        r[i] = (s & 0xff) as u8;
        carry = (carry >> 8) + (s >> 8);
    }
    r
}

fn map_slot(f: usize, k: u64) -> (Vec<u8>, [u8; 32]) {
    let mut pre = vec![1u8];
    pre.extend_from_slice(&k.to_be_bytes());
    pre.extend_from_slice(&fid(f));
    let d = sha(&pre);
    (pre, d)
}

const KEYS: &[u64] = &[0, 1, 2, 5, 255, u64::MAX];
const LENS: &[u64] = &[0, 0, 0, 1, 7, 31, 32, 33, 64, 70, 100];

fn gen_v(r: &mut Rng) -> u64 { match r.below(6) { 0 => 0, 1 => u64::MAX, 2 => r.below(300), _ => r.next() } }

/// Scripted motifs around EMPTY values (empty slice after a non-empty one, clear then read, vector
/// drained / cleared and reused, pops and gets on an empty vector, map entry removed twice and
/// re-inserted); `lens` tracks vector lengths for the random ops that follow.
fn gen_motif(r: &mut Rng, lens: &mut [u64; 9], ops: &mut Vec<Op>) {
    match r.below(8) {
        0 => { // non-empty slice overwritten by the empty one, then by a shorter one
            let f = *r.pick(&[6usize, 7, 8]);
            let big = *r.pick(&[33u64, 64, 70, 100]);
            ops.push(Op::BWrite(f, big, r.below(256))); ops.push(Op::BRead(f));
            ops.push(Op::BWrite(f, 0, r.below(256))); ops.push(Op::BRead(f)); ops.push(Op::BLen(f));
            if r.chance(1, 2) { ops.push(Op::BWrite(f, *r.pick(&[1u64, 7, 31, 32]), r.below(256))); ops.push(Op::BRead(f)); ops.push(Op::BLen(f)); }
        }
        1 => { // clear then read, then reuse
            let f = *r.pick(&[6usize, 7, 8]);
            if r.chance(2, 3) { ops.push(Op::BWrite(f, *r.pick(LENS), r.below(256))); }
            ops.push(Op::BClear(f)); ops.push(Op::BRead(f)); ops.push(Op::BLen(f));
            ops.push(Op::BWrite(f, *r.pick(&[0u64, 1, 32, 33]), r.below(256))); ops.push(Op::BRead(f));
        }
        2 => { // empty written first (fresh field), neighbours untouched
            let f = *r.pick(&[6usize, 7, 8]);
            ops.push(Op::BWrite(f, 0, 0)); ops.push(Op::BRead(f)); ops.push(Op::BLen(f));
            ops.push(Op::BRead(6 + (f - 6 + 1) % 3)); ops.push(Op::BClear(f)); ops.push(Op::BLen(f));
        }
        3 => { // vector filled, drained by pops, popped once more, reused
            let f = *r.pick(&[0usize, 1, 2]);
            let k = 1 + r.below(4);
            for _ in 0..k { ops.push(Op::VPush(f, gen_v(r))); lens[f] += 1; }
            while lens[f] > 0 { ops.push(Op::VPop(f)); lens[f] -= 1; }
            ops.push(Op::VPop(f)); ops.push(Op::VLen(f)); ops.push(Op::VGet(f, 0));
            ops.push(Op::VPush(f, gen_v(r))); lens[f] += 1; ops.push(Op::VGet(f, 0)); ops.push(Op::VLen(f));
        }
        4 => { // vector cleared and reused
            let f = *r.pick(&[0usize, 1, 2]);
            let k = r.below(4);
            for _ in 0..k { ops.push(Op::VPush(f, gen_v(r))); lens[f] += 1; }
            ops.push(Op::VClear(f)); lens[f] = 0;
            ops.push(Op::VGet(f, 0)); ops.push(Op::VLen(f)); ops.push(Op::VPop(f));
            ops.push(Op::VPush(f, gen_v(r))); lens[f] += 1; ops.push(Op::VGet(f, 0)); ops.push(Op::VGet(f, 1));
        }
        5 => { // vector emptied by remove / swap_remove, insert at 0 into the empty vector
            let f = *r.pick(&[0usize, 1, 2]);
            while lens[f] > 0 { if r.chance(1, 2) { ops.push(Op::VRemove(f, 0)); } else { ops.push(Op::VSwapRm(f, lens[f] - 1)); } lens[f] -= 1; if ops.len() > 40 { break; } }
            ops.push(Op::VPush(f, gen_v(r))); ops.push(Op::VRemove(f, 0));
            ops.push(Op::VLen(f)); ops.push(Op::VInsert(f, 0, gen_v(r))); lens[f] += 1; ops.push(Op::VGet(f, 0)); ops.push(Op::VLen(f));
        }
        6 => { // untouched collections read as empty
            ops.push(Op::VLen(*r.pick(&[0usize, 1, 2]))); ops.push(Op::VPop(*r.pick(&[0usize, 1, 2])));
            ops.push(Op::BRead(*r.pick(&[6usize, 7, 8]))); ops.push(Op::MGet(*r.pick(&[3usize, 4, 5]), *r.pick(KEYS)));
        }
        _ => { // map entry removed twice and re-inserted; zero value is a present value
            let f = *r.pick(&[3usize, 4, 5]);
            let k = *r.pick(KEYS);
            ops.push(Op::MInsert(f, k, 0)); ops.push(Op::MGet(f, k)); ops.push(Op::MRemove(f, k)); ops.push(Op::MGet(f, k));
            ops.push(Op::MRemove(f, k)); ops.push(Op::MInsert(f, k, gen_v(r))); ops.push(Op::MGet(f, k));
        }
    }
}

fn gen_history(r: &mut Rng, maxops: u64) -> Vec<Op> {
    let nops = 3 + r.below(maxops - 2);
    // focus on a few fields so that interactions between neighbours are frequent
    let vecs: Vec<usize> = vec![0, 1, 2];
    let maps: Vec<usize> = vec![3, 4, 5];
    let slices: Vec<usize> = vec![6, 7, 8];
    let mode = r.below(5); // 0 vec-heavy, 1 map-heavy, 2 slice-heavy, else mixed
    let mut lens = [0u64; 9];
    let mut ops = vec![];
    let end_with_revert = r.chance(1, 10);
    // one or two motifs around empty values in 3 of 5 histories (before / in the middle of the random calls)
    let motif_at: Vec<u64> = if r.chance(3, 5) { if r.chance(1, 3) { vec![0, nops / 2] } else { vec![r.below(nops)] } } else { vec![] };
    for n in 0..nops {
        if motif_at.contains(&n) { gen_motif(r, &mut lens, &mut ops); }
        let cls = match mode { 0 => if r.chance(4, 5) { 0 } else { r.below(4) }, 1 => if r.chance(4, 5) { 1 } else { r.below(4) }, 2 => if r.chance(4, 5) { 2 } else { r.below(4) }, _ => r.below(4) };
        let last = n + 1 == nops;
        match cls {
            0 => {
                let f = *r.pick(&vecs);
                let len = lens[f];
                let idx = |r: &mut Rng| if len == 0 { 0 } else { r.below(len) };
                if last && end_with_revert {
                    let bad = len + r.below(2);
                    ops.push(match r.below(4) { 0 => Op::VSet(f, bad, 1), 1 => Op::VRemove(f, bad), 2 => Op::VInsert(f, len + 1 + r.below(2), 2), _ => Op::VSwap(f, bad, 0) });
                    continue;
                }
                match r.below(14) {
                    0 | 1 | 2 | 3 => { ops.push(Op::VPush(f, gen_v(r))); lens[f] += 1; }
                    4 => { ops.push(Op::VPop(f)); if len > 0 { lens[f] -= 1; } }
                    5 | 6 => { let i = if r.chance(1, 6) { len + r.below(2) } else { idx(r) }; ops.push(Op::VGet(f, i)); }
                    7 => { if len > 0 { ops.push(Op::VSet(f, idx(r), gen_v(r))); } else { ops.push(Op::VLen(f)); } }
                    8 => ops.push(Op::VLen(f)),
                    9 => { if len > 0 { ops.push(Op::VRemove(f, idx(r))); lens[f] -= 1; } else { ops.push(Op::VPop(f)); } }
                    10 => { let i = r.below(len + 1); ops.push(Op::VInsert(f, i, gen_v(r))); lens[f] += 1; }
                    11 => { if len > 0 { ops.push(Op::VSwap(f, idx(r), idx(r))); } else { ops.push(Op::VGet(f, 0)); } }
                    12 => { if len > 0 { ops.push(Op::VSwapRm(f, idx(r))); lens[f] -= 1; } else { ops.push(Op::VLen(f)); } }
                    _ => { if r.chance(1, 3) { ops.push(Op::VClear(f)); lens[f] = 0; } else { ops.push(Op::VGet(f, idx(r))); } }
                }
            }
            1 => {
                let f = *r.pick(&maps);
                let k = *r.pick(KEYS);
                match r.below(7) {
                    0 | 1 | 2 => ops.push(Op::MInsert(f, k, gen_v(r))),
                    3 | 4 | 5 => ops.push(Op::MGet(f, k)),
                    _ => ops.push(Op::MRemove(f, k)),
                }
            }
            2 => {
                let f = *r.pick(&slices);
                match r.below(8) {
                    0 | 1 | 2 => ops.push(Op::BWrite(f, *r.pick(LENS), r.below(256))),
                    3 | 4 | 5 => ops.push(Op::BRead(f)),
                    6 => ops.push(Op::BLen(f)),
                    _ => ops.push(Op::BClear(f)),
                }
            }
            _ => {
                // raw slot read at a derived key
                let key = match r.below(4) {
                    0 => fid(*r.pick(&[0usize, 1, 2, 6, 7, 8])),
                    1 => { let f = *r.pick(&[0usize, 1, 2, 6, 7, 8]); add_key(&sha(&fid(f)), r.below(3)) }
                    2 => { let f = *r.pick(&maps); add_key(&map_slot(f, *r.pick(KEYS)).1, if f == 5 { r.below(2) } else { 0 }) }
                    _ => fid(*r.pick(&maps)),
                };
                ops.push(Op::Raw(key));
            }
        }
    }
    ops
}

fn parse_corpus_op(t: &str) -> Option<Op> {
    let f: Vec<&str> = t.split('.').collect();
    let n = |i: usize| f.get(i).and_then(|s| s.parse::<u64>().ok());
    let u = |i: usize| n(i).map(|x| x as usize);
    Some(match f[0] {
        "vpush" => Op::VPush(u(1)?, n(2)?), "vpop" => Op::VPop(u(1)?), "vget" => Op::VGet(u(1)?, n(2)?),
        "vset" => Op::VSet(u(1)?, n(2)?, n(3)?), "vlen" => Op::VLen(u(1)?), "vremove" => Op::VRemove(u(1)?, n(2)?),
        "vinsert" => Op::VInsert(u(1)?, n(2)?, n(3)?), "vswap" => Op::VSwap(u(1)?, n(2)?, n(3)?),
        "vswaprm" => Op::VSwapRm(u(1)?, n(2)?), "vclear" => Op::VClear(u(1)?),
        "minsert" => Op::MInsert(u(1)?, n(2)?, n(3)?), "mget" => Op::MGet(u(1)?, n(2)?), "mremove" => Op::MRemove(u(1)?, n(2)?),
        "bwrite" => Op::BWrite(u(1)?, n(2)?, n(3)?), "bread" => Op::BRead(u(1)?), "blen" => Op::BLen(u(1)?), "bclear" => Op::BClear(u(1)?),
        _ => return None,
    })
}

fn hash_table(ops: &[Op]) -> String {
    let mut t: Vec<(Vec<u8>, [u8; 32])> = vec![];
    for (i, f) in FIELDS.iter().enumerate() {
        if !matches!(f.kind, Kind::M8 | Kind::M40) { let p = fid(i).to_vec(); let d = sha(&p); t.push((p, d)); }
    }
    for o in ops {
        match o { Op::MInsert(f, k, _) | Op::MGet(f, k) | Op::MRemove(f, k) => { let (p, d) = map_slot(*f, *k); if !t.iter().any(|x| x.0 == p) { t.push((p, d)); } } _ => {} }
    }
    t.iter().map(|(p, d)| format!("{}:{}", hex::encode(p), hex::encode(d))).collect::<Vec<_>>().join(",")
}

fn obs_tokens(ops: &[Op], state: &str, logs: &[Vec<u8>]) -> Vec<String> {
    let mut it = logs.iter();
    let mut out = vec![];
    let word = |d: &Vec<u8>| -> Option<u64> { if d.len() == 8 { Some(u64::from_be_bytes(d[..].try_into().unwrap())) } else { None } };
    for o in ops {
        let first = match it.next() { Some(d) => d, None => { out.push("R".to_string()); return out; } };
        let tok = match o.obs_kind() {
            ObsKind::Unit => if word(first) == Some(7) { "u".to_string() } else { format!("bad{}", hex::encode(first)) },
            ObsKind::Num => word(first).map(|n| format!("d{n}")).unwrap_or("bad".into()),
            ObsKind::Bool => match word(first) { Some(0) => "b0".into(), Some(1) => "b1".into(), _ => "bad".to_string() },
            ObsKind::Val => format!("s{}", hex::encode(first)),
            ObsKind::Opt => match word(first) {
                Some(0) => "n".to_string(),
                Some(1) => match it.next() {
                    Some(d) => if o.is_slice_read() { if d.len() >= 8 { format!("s{}", hexbytes(&d[8..])) } else { "bad".into() } } else { format!("s{}", hex::encode(d)) },
                    None => "bad".to_string(),
                },
                _ => "bad".to_string(),
            },
        };
        out.push(tok);
    }
    if state.starts_with("revert") || state == "other" { out.push("R".into()); }
    out
}

fn run_pkg(hists: &[Vec<Op>], tag: &str) -> Result<Vec<String>, String> {
    let dir = scratch_dir(&format!("c28-{tag}"));
    let mut src = contract_source();
    for (i, h) in hists.iter().enumerate() {
        src.push_str(&format!("#[test]\nfn h{i}() {{\n    let c = abi(A, CONTRACT_ID);\n"));
        for o in h { src.push_str(&format!("    {}\n", o.call())); }
        src.push_str("}\n");
    }
    write_pkg(&dir, "c28pkg", &src, true, "").map_err(|e| e.to_string())?;
    let _ = std::fs::create_dir_all("/verif/work/C28");
    let res = guarded(|| build_and_test(&dir, false));
    let (outs, _built) = match res {
        None => { let _ = std::fs::write(format!("/verif/work/C28/last_failed_{tag}.sw"), &src); return Err("compiler panic".into()); }
        Some(Err(e)) => { let _ = std::fs::write(format!("/verif/work/C28/last_failed_{tag}.sw"), &src); return Err(format!("build error: {e:#}")); }
        Some(Ok(x)) => x,
    };
    let _ = std::fs::remove_dir_all(&dir);
    let fields = FIELDS.iter().enumerate().map(|(i, f)| format!("{}:{}", kind_tok(f.kind), hex::encode(fid(i)))).collect::<Vec<_>>().join(",");
    let mut lines = vec![];
    for (i, h) in hists.iter().enumerate() {
        let t = outs.iter().find(|o| o.name == format!("h{i}"));
        let (st, logs): (String, Vec<Vec<u8>>) = match t {
            None => ("missing".into(), vec![]),
            Some(o) => (o.state.clone(), o.logs.iter().map(|l| match l { Log::Data { data, .. } => data.clone(), Log::Word { val, .. } => val.to_be_bytes().to_vec() }).collect()),
        };
        let obs = obs_tokens(h, &st, &logs);
        lines.push(format!("hist fields={} h={} ops={} ;; st={} obs={}", fields, hash_table(h), h.iter().map(|o| o.tok()).collect::<Vec<_>>().join(","),
            if st.starts_with("revert") { "revert".to_string() } else { st.clone() }, obs.join(",")));
    }
    Ok(lines)
}

fn main() {
    let v: Vec<String> = std::env::args().collect();
    if v.len() >= 2 && v[1] == "--show" { println!("{}", contract_source()); return; }
    if v.len() >= 6 && v[1] == "--worker" {
        quiet_panics();
        let (seed, idx, nh): (u64, u64, usize) = (v[2].parse().unwrap(), v[3].parse().unwrap(), v[4].parse().unwrap());
        let mut hists: Vec<Vec<Op>> = vec![];
        if idx == 0 {
            // corpus histories (file given in env) first
            if let Ok(c) = std::env::var("SV_C28_CORPUS") {
                for l in std::fs::read_to_string(c).unwrap_or_default().lines() {
                    let l = l.trim();
                    if l.starts_with('#') || l.is_empty() { continue; }
                    let ops: Vec<Op> = l.split_whitespace().filter_map(parse_corpus_op).collect();
                    if !ops.is_empty() { hists.push(ops); }
                }
            }
        }
        let mut r = Rng::new(seed.wrapping_mul(2_000_003).wrapping_add(idx));
        while hists.len() < nh { hists.push(gen_history(&mut r, 20)); }
        match run_pkg(&hists, &format!("{seed}-{idx}")) {
            Ok(lines) => { std::fs::write(&v[5], lines.join("\n") + "\n").unwrap(); std::process::exit(0); }
            Err(e) => { eprintln!("sv_c28 worker seed={seed} idx={idx}: {e}"); std::process::exit(3); }
        }
    }
    let a = args();
    let seed = seed_from_env();
    let per: usize = std::env::var("SV_C28_PER_PKG").ok().and_then(|s| s.parse().ok()).unwrap_or(45);
    let npk = ((a.n + per - 1) / per).max(1);
    let par: usize = std::env::var("VERIF_JOBS").ok().and_then(|s| s.parse().ok()).unwrap_or(4);
    let exe = std::env::current_exe().unwrap();
    let tmp = scratch_dir("c28-out");
    let mut running: Vec<(usize, std::process::Child)> = vec![];
    let mut rcs: Vec<Option<i32>> = vec![None; npk];
    let mut next = 0;
    while next < npk || !running.is_empty() {
        while running.len() < par && next < npk {
            let outp = tmp.join(format!("{next}.lines"));
            let mut cmd = std::process::Command::new(&exe);
            cmd.args(["--worker", &seed.to_string(), &next.to_string(), &per.to_string(), outp.to_str().unwrap()]).stdout(std::process::Stdio::null());
            if let Some(c) = &a.corpus { cmd.env("SV_C28_CORPUS", c); }
            running.push((next, cmd.spawn().unwrap()));
            next += 1;
        }
        let (j, mut ch) = running.remove(0);
        rcs[j] = Some(ch.wait().unwrap().code().unwrap_or(9));
    }
    let mut out = std::io::BufWriter::new(std::fs::File::create(&a.out).unwrap());
    let (mut cases, mut failed) = (0, 0);
    for (j, rc) in rcs.iter().enumerate() {
        if *rc != Some(0) { failed += 1; eprintln!("sv_c28: package {j} failed rc={rc:?}"); continue; }
        for l in std::fs::read_to_string(tmp.join(format!("{j}.lines"))).unwrap_or_default().lines() { writeln!(out, "{l}").unwrap(); cases += 1; }
    }
    out.flush().unwrap();
    let _ = std::fs::remove_dir_all(&tmp);
    eprintln!("sv_c28: {cases} cases from {npk} packages ({failed} failed)");
    if failed > 0 { std::process::exit(2); }
}
