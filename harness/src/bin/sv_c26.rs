//! C26: drives a REAL in-process sway-lsp `ServerState` with edit histories over small multi-module
//! packages and compares, after every settled edit, what the server shows (diagnostics per file,
//! semantic tokens, token names, document symbols) with what a FRESH server shows for the same text.
//!
//! Protocol lines (one per settled edit, plus one per recorded cache decision):
//!   `step <hist> <k> <pkg> <op…> ;; incr=<digest> fresh=<digest> nondet=<0|1> settle=<…> ev=<events> cache=<entries> dl=<diff summary> diff=<first differing line>`
//!   `dec <ty|parse> <path> fv=<…> e=<…> ;; <0|1>`
//! `dl` lists `<D|T|M|S><i|f>:<file>` = a diagnostic / token / semantic-token digest / symbol line of <file>
//! that only the incremental (i) or only the fresh (f) server shows.
//! ops: `[!]ins:<file>:<f|s|c>:<n>` `[!]del:<file>:<name>` `[!]ren:<file>:<old>:<new>` `[!]brk:<file>:<name>`
//! `[!]fix:<file>:<name>` `[!]syn:<file>` `[!]unsyn:<file>` `[!]use:<file>:<mod>:<name>:<n>` `[!]ws:<file>:<n>`
//! `[!]save:<file>` `[!]cut:<file>:<mod>` `[!]uncut:<file>:<mod>`; a leading `!` = do not wait for the compilation before the next op (rapid typing).
//! events: `R<file>` root module, `O<file>#<cid>~<submodules>~<imports>` text at open, `E<file>@<v>#<cid>~<submodules>~<imports>`
//! edit sent (cid = content id: equal text <=> equal id within the history), `S<file>` save sent,
//! `J<file>@<v>|-:<ok|tyerr|reused|err>:<retrigger>` a compile_to_ast of the package ended (from hook
//! `sway_core::verif_hooks::cache`, in trace order).
use lsp_types::*;
use sha2::{Digest, Sha256};
use std::collections::BTreeMap;
use std::io::Write;
use std::path::{Path, PathBuf};
use std::sync::atomic::Ordering;
use std::sync::Arc;
use std::time::{Duration, Instant};
use svharness::{proto::*, rng::*};
use sway_core::verif_hooks::cache as hook;
use sway_lsp::capabilities;
use sway_lsp::core::session;
use sway_lsp::handlers::notification;
use sway_lsp::server_state::ServerState;
use tower_lsp::LanguageServer;

// ------------------------------------------------------------------------------------------ packages

#[derive(Clone)]
struct Pkg { name: String, entry: String, files: BTreeMap<String, Vec<String>> }

fn manifest(name: &str, entry: &str) -> String {
    format!("[project]\nauthors = [\"verif\"]\nentry = \"{entry}\"\nlicense = \"Apache-2.0\"\nname = \"{name}\"\nimplicit-std = false\n\n[dependencies]\n")
}

/// p1: script, two sibling submodules, b and main import from a.
/// p2: library, nested submodule (a declares `mod deep;`), b imports from a and a::deep.
fn base_pkg(which: &str) -> Pkg {
    let mut files = BTreeMap::new();
    let v = |xs: &[&str]| xs.iter().map(|s| s.to_string()).collect::<Vec<_>>();
    match which {
        "p2" => {
            files.insert("lib.sw".into(), v(&["library;\nmod a;\nmod b;\nuse ::a::add1;\nuse ::b::twice;",
                "pub fn top(x: u64) -> u64 { twice(add1(x)) }"]));
            files.insert("a.sw".into(), v(&["library;\nmod deep;\nuse ::a::deep::D;",
                "pub struct P { pub x: u64 }", "pub const K: u64 = 7;",
                "pub fn add1(x: u64) -> u64 { __add(x, 1) }", "pub fn mk() -> D { D { d: K } }"]));
            files.insert("a/deep.sw".into(), v(&["library;", "pub struct D { pub d: u64 }", "pub fn dd(v: D) -> u64 { v.d }"]));
            files.insert("b.sw".into(), v(&["library;\nuse ::a::{add1, P, K};\nuse ::a::deep::{D, dd};",
                "pub fn twice(x: u64) -> u64 { let p = P { x: add1(x) }; __add(p.x, K) }",
                "pub fn viad(x: u64) -> u64 { dd(D { d: x }) }"]));
            Pkg { name: "c26p2".into(), entry: "lib.sw".into(), files }
        }
        "p3" => {
            // a library root that declares itself as its submodule: `dependencies` of the root contains the root
            files.insert("lib.sw".into(), v(&["library;\nmod lib;", "pub fn f() -> u64 { 1 }"]));
            Pkg { name: "c26p3".into(), entry: "lib.sw".into(), files }
        }
        _ => {
            files.insert("main.sw".into(), v(&["script;\nmod a;\nmod b;\nuse ::a::add1;\nuse ::b::twice;",
                "fn main() -> u64 { twice(add1(1)) }"]));
            files.insert("a.sw".into(), v(&["library;", "pub struct P { pub x: u64 }", "pub const K: u64 = 7;",
                "pub fn add1(x: u64) -> u64 { __add(x, 1) }"]));
            files.insert("b.sw".into(), v(&["library;\nuse ::a::{add1, P, K};",
                "pub fn twice(x: u64) -> u64 { let p = P { x: add1(x) }; __add(p.x, K) }"]));
            Pkg { name: "c26p1".into(), entry: "main.sw".into(), files }
        }
    }
}

fn render(chunks: &[String]) -> String { let mut s = chunks.join("\n"); s.push('\n'); s }

fn write_pkg(dir: &Path, p: &Pkg) {
    let _ = std::fs::remove_dir_all(dir);
    std::fs::create_dir_all(dir.join("src")).unwrap();
    std::fs::write(dir.join("Forc.toml"), manifest(&p.name, &p.entry)).unwrap();
    for (f, chunks) in &p.files {
        let path = dir.join("src").join(f);
        std::fs::create_dir_all(path.parent().unwrap()).unwrap();
        std::fs::write(path, render(chunks)).unwrap();
    }
}

// ------------------------------------------------------------------------------------------ edits

fn is_ident_char(c: char) -> bool { c.is_ascii_alphanumeric() || c == '_' }
fn replace_word(s: &str, old: &str, new: &str) -> String {
    let mut out = String::new();
    let b: Vec<char> = s.chars().collect();
    let o: Vec<char> = old.chars().collect();
    let mut i = 0;
    while i < b.len() {
        if i + o.len() <= b.len() && b[i..i + o.len()] == o[..]
            && (i == 0 || !is_ident_char(b[i - 1])) && (i + o.len() == b.len() || !is_ident_char(b[i + o.len()])) {
            out.push_str(new); i += o.len();
        } else { out.push(b[i]); i += 1; }
    }
    out
}
fn defines(chunk: &str, name: &str) -> bool {
    ["pub fn ", "fn ", "pub struct ", "pub const "].iter().any(|k| {
        chunk.starts_with(k) && chunk[k.len()..].starts_with(name)
            && !chunk[k.len() + name.len()..].starts_with(|c: char| is_ident_char(c))
    })
}
const BRK: &str = "{ let e: bool = 7u64; ";
const SYN: &str = "fn broken( {";

/// Applies an op to the package text; `None` = not applicable (the history generator skips it).
fn apply_op(p: &mut Pkg, op: &str) -> Option<String> {
    let op = op.trim_start_matches('!');
    let f: Vec<&str> = op.split(':').collect();
    let file = f.get(1)?.to_string();
    let chunks = p.files.get_mut(&file)?;
    match f[0] {
        "ins" => {
            let n = f.get(3)?;
            chunks.push(match *f.get(2)? {
                "f" => format!("pub fn f_{n}(x: u64) -> u64 {{ __add(x, {n}) }}"),
                "s" => format!("pub struct S_{n} {{ pub v: u64 }}"),
                _ => format!("pub const C_{n}: u64 = {n};"),
            });
        }
        "del" => { let i = chunks.iter().position(|c| defines(c, f[2]))?; if i == 0 { return None; } chunks.remove(i); }
        "ren" => {
            let (old, new) = (*f.get(2)?, *f.get(3)?);
            if !chunks.iter().any(|c| replace_word(c, old, new) != *c) { return None; }
            for c in chunks.iter_mut() { *c = replace_word(c, old, new); }
        }
        "brk" => {
            let i = chunks.iter().position(|c| defines(c, f[2]) && c.contains(" fn ") | c.starts_with("fn "))?;
            if chunks[i].contains(BRK) || !chunks[i].contains("{ ") { return None; }
            chunks[i] = chunks[i].replacen("{ ", BRK, 1);
        }
        "fix" => { let i = chunks.iter().position(|c| defines(c, f[2]) && c.contains(BRK))?; chunks[i] = chunks[i].replacen(BRK, "{ ", 1); }
        "syn" => { if chunks.iter().any(|c| c == SYN) { return None; } chunks.push(SYN.into()); }
        "unsyn" => { let i = chunks.iter().position(|c| c == SYN)?; chunks.remove(i); }
        "use" => {
            let (m, name, n) = (*f.get(2)?, *f.get(3)?, *f.get(4)?);
            chunks.push(format!("pub fn u_{n}(x: u64) -> u64 {{ ::{}::{name}(x) }}", m.replace('/', "::")));
        }
        "ws" => { chunks.push(format!("// note {}", f.get(2)?)); }
        "save" => {}
        "cut" | "uncut" => {
            // comments out / restores the `mod <m>;` declaration and the `use ::<m>::…` lines of the header chunk
            let m = *f.get(2)?;
            let (md, us) = (format!("mod {m};"), format!("use ::{m}::"));
            let lines: Vec<String> = chunks[0].lines().map(|l| {
                if f[0] == "cut" && (l == md || l.starts_with(&us)) { format!("// {l}") }
                else if f[0] == "uncut" && l.starts_with("// ") && (l[3..] == md || l[3..].starts_with(&us)) { l[3..].to_string() }
                else { l.to_string() }
            }).collect();
            let new = lines.join("\n");
            if new == chunks[0] { return None; }
            chunks[0] = new;
        }
        _ => return None,
    }
    Some(file)
}

// ------------------------------------------------------------------------------------------ server

struct Live { state: Arc<ServerState>, dir: PathBuf, entry_uri: Url, version: i32 }

fn ws_uri(dir: &Path, file: &str) -> Url { Url::from_file_path(dir.join("src").join(file)).unwrap() }

async fn open(dir: &Path, p: &Pkg) -> Option<Live> {
    write_pkg(dir, p);
    let state = Arc::new(ServerState::default());
    if std::env::var_os("C26_GC_OFF").is_some() { state.config.write().garbage_collection.gc_enabled = false; }
    let entry_uri = ws_uri(dir, &p.entry);
    let params = DidOpenTextDocumentParams { text_document: TextDocumentItem {
        uri: entry_uri.clone(), language_id: "sway".into(), version: 1, text: render(&p.files[&p.entry]) } };
    let r = tokio::time::timeout(Duration::from_secs(120), notification::handle_did_open_text_document(&state, params)).await;
    match r {
        Ok(Ok(())) => {}
        Ok(Err(e)) => { eprintln!("sv_c26: did_open error: {e}"); }
        Err(_) => { eprintln!("sv_c26: did_open did not return within 120s"); return None; }
    }
    Some(Live { state, dir: dir.to_path_buf(), entry_uri, version: 1 })
}

fn close(l: Live) { let _ = l.state.shutdown_server(); }

fn rel_of(path: &str) -> String {
    match path.find("/src/") { Some(i) => path[i + 5..].to_string(), None => path.rsplit('/').next().unwrap_or(path).to_string() }
}
/// Removes absolute scratch/temp directory prefixes from a message.
fn strip_paths(msg: &str) -> String {
    let mut out = String::new();
    for (i, part) in msg.split('/').enumerate() { if i > 0 { out.push('/'); } out.push_str(part); }
    // any token containing "/src/" is reduced to the part after it
    out.split(' ').map(|t| if t.contains("/src/") { rel_of(t) } else { t.to_string() }).collect::<Vec<_>>().join(" ")
}
fn rng_s(r: &Range) -> String { format!("{}:{}-{}:{}", r.start.line, r.start.character, r.end.line, r.end.character) }

fn flat_symbols(out: &mut Vec<String>, rel: &str, depth: usize, syms: &[DocumentSymbol]) {
    for s in syms {
        out.push(format!("S {rel} {depth} {:?} {} {} {}", s.kind, s.name.replace(' ', "_"), rng_s(&s.range), s.detail.clone().unwrap_or_default().replace(' ', "_")));
        if let Some(ch) = &s.children { flat_symbols(out, rel, depth + 1, ch); }
    }
}

/// Canonical observation of what the server shows for all files of the package.
/// Semantic token TYPES of tokens on `use` and `mod` lines are left out (their ranges and names are
/// compared): the token map holds one entry per traversal (lexed / parsed / typed) for such an
/// identifier and which one the semantic-token request reports differs from run to run — for `use`
/// lines observed between two fresh servers on the same text.
fn observe(l: &Live, p: &Pkg) -> Vec<String> {
    let mut out = vec![];
    let Ok((_entry_tmp, sess)) = l.state.uri_and_session_from_workspace(&l.entry_uri) else { return vec!["noworkspace".into()] };
    for (f, chunks) in &p.files {
        let Ok(tmp) = l.state.uri_from_workspace(&ws_uri(&l.dir, f)) else { out.push(format!("nouri {f}")); continue };
        let text = render(chunks);
        let use_lines: Vec<bool> = text.lines().map(|x| { let x = x.trim_start(); x.starts_with("use ") || x.starts_with("mod ") }).collect();
        // diagnostics as `ServerState::diagnostics` selects them (warnings and errors of the file)
        let mut ds = vec![];
        if let Some(d) = sess.diagnostics.read().get(&PathBuf::from(tmp.path())) {
            for x in d.warnings.iter().chain(d.errors.iter()) {
                ds.push(format!("D {f} {} {} {}", x.severity.map(|s| format!("{s:?}")).unwrap_or_default(), rng_s(&x.range), strip_paths(&x.message).replace('\n', "\\n")));
            }
        }
        ds.sort();
        out.extend(ds);
        // tokens
        let mut ts: Vec<String> = l.state.token_map.tokens_for_file(&tmp).map(|t| format!("T {f} {} {}", rng_s(&t.key().range), t.key().name.replace(' ', "_"))).collect();
        ts.sort();
        ts.dedup();
        out.extend(ts);
        if let Some(SemanticTokensResult::Tokens(st)) = capabilities::semantic_tokens::semantic_tokens_full(&l.state.token_map, &tmp) {
            let mut h = Sha256::new();
            let (mut line, mut col) = (0u32, 0u32);
            let mut n = 0;
            for t in &st.data {
                if t.delta_line > 0 { line += t.delta_line; col = t.delta_start; } else { col += t.delta_start; }
                if use_lines.get(line as usize).copied().unwrap_or(false) { continue; }
                n += 1;
                h.update(format!("{line}:{col}+{},{},{};", t.length, t.token_type, t.token_modifiers_bitset));
                if std::env::var_os("C26_FULL_TOKENS").is_some() { out.push(format!("m {f} {line}:{col}+{} ty={} mod={}", t.length, t.token_type, t.token_modifiers_bitset)); }
            }
            out.push(format!("M {f} {n} {}", &hex::encode(h.finalize())[..12]));
        }
        // document symbols (panics if the typed program is absent)
        let st = l.state.clone();
        let tmp2 = tmp.clone();
        match guarded(move || session::document_symbols(&tmp2, &st.token_map, &st.engines.read(), &st.compiled_programs)) {
            Some(Some(syms)) => { let mut v = vec![]; flat_symbols(&mut v, f, 0, &syms); out.extend(v); }
            Some(None) => out.push(format!("S {f} none")),
            None => out.push(format!("S {f} panic")),
        }
    }
    out
}

fn digest(obs: &[String]) -> String {
    let mut h = Sha256::new();
    for l in obs { h.update(l.as_bytes()); h.update(b"\n"); }
    hex::encode(h.finalize())[..16].to_string()
}
/// (summary `<kind><side>:<file>,…`, first differing line — diagnostics first)
fn diff_of(a: &[String], b: &[String]) -> (String, String) {
    use std::collections::BTreeSet;
    let sa: BTreeSet<&String> = a.iter().collect();
    let sb: BTreeSet<&String> = b.iter().collect();
    let mut dl: BTreeSet<String> = BTreeSet::new();
    let mut firsts: Vec<(bool, String)> = vec![];
    for (side, x, y) in [("i", &sa, &sb), ("f", &sb, &sa)] {
        for s in x.difference(y) {
            let t: Vec<&str> = s.splitn(3, ' ').collect();
            if t.len() >= 2 { dl.insert(format!("{}{side}:{}", t[0], t[1])); }
            firsts.push((!s.starts_with("D "), format!("{}-only:{}", if side == "i" { "incr" } else { "fresh" }, s.replace(' ', "_"))));
        }
    }
    firsts.sort();
    let dl_s = if dl.is_empty() { "-".to_string() } else { dl.into_iter().collect::<Vec<_>>().join(",") };
    (dl_s, firsts.first().map(|x| x.1.clone()).unwrap_or_else(|| "order".into()))
}

/// A hook trace line with absolute paths reduced to the part after `/src/`.
fn canon_trace_line(l: &str) -> String {
    l.split(' ').map(|tok| {
        let mut s = String::new();
        let mut cur = String::new();
        for ch in tok.chars() {
            if matches!(ch, ',' | ';' | '|' | '=' | '@') { s.push_str(&canon_piece(&cur)); s.push(ch); cur.clear(); } else { cur.push(ch); }
        }
        s.push_str(&canon_piece(&cur));
        s
    }).collect::<Vec<_>>().join(" ")
}
fn canon_piece(p: &str) -> String { if p.contains("/src/") { rel_of(p) } else { p.to_string() } }

#[derive(PartialEq, Debug)]
enum Settle { Done, Dropped, Timeout, Panic }

static PANICS: std::sync::Mutex<Vec<String>> = std::sync::Mutex::new(Vec::new());
fn panics_seen() -> usize { PANICS.lock().unwrap_or_else(|e| e.into_inner()).len() }
fn last_panic() -> String { PANICS.lock().unwrap_or_else(|e| e.into_inner()).last().cloned().unwrap_or_default() }

/// Waits until the compile job for `(file, version)` (or, for a save, a job without a modified
/// file) that began after trace index `from` has ended and the worker has gone idle.
fn settle(l: &Live, from: usize, expect: &str, panics0: usize) -> Settle {
    let t0 = Instant::now();
    let want = format!(" mod={expect} ");
    loop {
        // a panic of the compilation thread kills it: `is_compiling` stays set, nothing is compiled any more
        if panics_seen() > panics0 { std::thread::sleep(Duration::from_millis(20)); return Settle::Panic; }
        let lines = hook::since(from);
        let ended = lines.iter().rev().find(|x| x.starts_with("end ") && canon_trace_line(x).contains(&want)).cloned();
        if let Some(e) = ended {
            // the worker resets `is_compiling` after traversal and the engines swap
            let t1 = Instant::now();
            while l.state.is_compiling.load(Ordering::SeqCst) {
                if panics_seen() > panics0 { std::thread::sleep(Duration::from_millis(20)); return Settle::Panic; }
                if t1.elapsed() > Duration::from_secs(60) { return Settle::Timeout; }
                std::thread::sleep(Duration::from_millis(1));
            }
            std::thread::sleep(Duration::from_millis(3));
            if l.state.is_compiling.load(Ordering::SeqCst) { continue; }
            return if e.ends_with("retrigger=1") { Settle::Dropped } else { Settle::Done };
        }
        if t0.elapsed() > Duration::from_secs(60) { return Settle::Timeout; }
        std::thread::sleep(Duration::from_millis(1));
    }
}

/// The committed module cache of the server, tracked files only: `<file>|pv|tv`.
fn committed_cache(l: &Live, p: &Pkg) -> String {
    let eng = l.state.engines.read();
    let cache = eng.qe().module_cache.read();
    let mut v = vec![];
    for (k, e) in cache.iter() {
        let ps = k.path.display().to_string();
        if !ps.contains("/src/") || !p.files.contains_key(&rel_of(&ps)) { continue; }
        let o = |x: Option<u64>| x.map_or("n".to_string(), |x| x.to_string());
        v.push(format!("{}|pv={}|tv={}", rel_of(&ps), o(e.parsed.version), e.typed.as_ref().map_or("-".to_string(), |t| o(t.version))));
    }
    v.sort();
    if v.is_empty() { "-".into() } else { v.join(";") }
}

struct Ctx { scratch: PathBuf, out: std::io::BufWriter<std::fs::File>, cases: usize, explore: bool, fresh_n: usize, discarded: usize, write_races: usize, pending: String }

async fn fresh_obs(cx: &mut Ctx, p: &Pkg) -> Vec<String> {
    cx.fresh_n += 1;
    let dir = cx.scratch.join(format!("fresh{}", cx.fresh_n % 2)).join(&p.name);
    match open(&dir, p).await {
        Some(l) => {
            // did_open returns after wait_for_parsing; make sure the worker is idle
            let t = Instant::now();
            while l.state.is_compiling.load(Ordering::SeqCst) && t.elapsed() < Duration::from_secs(60) { std::thread::sleep(Duration::from_millis(1)); }
            let o = observe(&l, p);
            close(l);
            o
        }
        None => vec!["fresh-timeout".into()],
    }
}

/// Submodule files declared by the text of `file` and the files it imports from (`::<m>::`).
fn content_facts(p: &Pkg, file: &str) -> (Vec<String>, Vec<String>) {
    let text: String = render(&p.files[file]).lines().filter(|l| !l.trim_start().starts_with("//")).collect::<Vec<_>>().join("\n");
    let stem = file.trim_end_matches(".sw");
    let mut deps = vec![];
    for l in text.lines() {
        if let Some(m) = l.trim().strip_prefix("mod ").and_then(|x| x.strip_suffix(';')) {
            deps.push(if *file == p.entry { format!("{m}.sw") } else { format!("{stem}/{m}.sw") });
        }
    }
    let mut imps = vec![];
    for g in p.files.keys() {
        if g == file || *g == p.entry { continue; }
        let pat = format!("::{}::", g.trim_end_matches(".sw").replace('/', "::"));
        if text.contains(&pat) { imps.push(g.clone()); }
    }
    (deps, imps)
}

struct Interner(BTreeMap<String, usize>);
impl Interner { fn id(&mut self, file: &str, text: &str) -> usize { let n = self.0.len(); *self.0.entry(format!("{file}\u{0}{text}")).or_insert(n) } }

fn content_token(p: &Pkg, file: &str, it: &mut Interner) -> String {
    let (d, i) = content_facts(p, file);
    format!("#{}~{}~{}", it.id(file, &render(&p.files[file])), d.join("+"), i.join("+"))
}

/// Runs one history; emits one `step` line per settled op and the decisions taken meanwhile.
async fn run_history(cx: &mut Ctx, hist: &str, pkg: &str, ops: &[String]) {
    let mut p = base_pkg(pkg);
    let dir = cx.scratch.join("live").join(&p.name);
    hook::take();
    hook::set_delay_ms(0);
    let mut it = Interner(BTreeMap::new());
    let mut events: Vec<String> = vec![format!("R{}", p.entry)];
    for f in p.files.keys() { events.push(format!("O{f}{}", content_token(&p, f, &mut it))); }
    let Some(mut l) = open(&dir, &p).await else { eprintln!("sv_c26: open failed for {hist}"); return };
    let entry_rel = p.entry.clone();
    let mut consumed = 0usize;
    // fold the jobs that ended meanwhile into the event list, in trace order
    let absorb = |events: &mut Vec<String>, consumed: &mut usize| {
        let lines = hook::since(*consumed);
        *consumed += lines.len();
        for x in lines {
            let c = canon_trace_line(&x);
            if c.starts_with("end ") && c.contains(&format!("root={entry_rel} ")) {
                let g = |key: &str| c.split(' ').find_map(|t| t.strip_prefix(key)).unwrap_or("?").to_string();
                events.push(format!("J{}:{}:{}", g("mod="), g("res="), g("retrigger=")));
            }
        }
    };
    {
        let t = Instant::now();
        while l.state.is_compiling.load(Ordering::SeqCst) && t.elapsed() < Duration::from_secs(60) { std::thread::sleep(Duration::from_millis(1)); }
    }
    absorb(&mut events, &mut consumed);
    let mut done_ops: Vec<String> = vec![];
    let mut step_mark = hook::len();
    let mut pending_rapid: Vec<(usize, String)> = vec![]; // (trace index, expected `mod=`) of rapid requests not yet known to be cancelled
    let mut lines_out: Vec<String> = vec![];
    let mut discard = false;
    let mut races_seen = cx.write_races;
    let panics0 = panics_seen();
    for (k, op) in ops.iter().enumerate() {
        let rapid = op.starts_with('!');
        let mut q = p.clone();
        let Some(file) = apply_op(&mut q, op) else { continue };
        p = q;
        done_ops.push(op.clone());
        let uri = ws_uri(&l.dir, &file);
        let is_save = op.trim_start_matches('!').starts_with("save:");
        let mark = hook::len();
        {
            // what stands if the process dies while this request (or one sent just before it) is compiled
            let mut evp = events.clone();
            if is_save { evp.push(format!("S{file}")); evp.push("J-:err:0".into()); }
            else { evp.push(format!("E{file}@{}{}", l.version + 1, content_token(&p, &file, &mut it))); evp.push(format!("J{file}@{}:err:0", l.version + 1)); }
            let mut pend = lines_out.clone();
            pend.push(format!("step {hist} {k} {pkg} {} ;; crash incr=abort fresh=- nondet=0 settle=Abort ev={} cache=- dl=- diff=abort:", done_ops.join(" "), evp.join(",")));
            let _ = std::fs::write(&cx.pending, pend.join("\n") + "\n");
        }
        // a rapid op must still be compiling when the next request arrives: its compile_to_ast sleeps
        // until the next request has been sent (the delay is reset below), at most 5 s
        let prev_rapid = !pending_rapid.is_empty();
        if !prev_rapid { hook::set_delay_ms(if rapid { 5000 } else { 0 }); }
        let expect;
        if is_save {
            events.push(format!("S{file}"));
            let locks = cx.scratch.join("home").join(".forc").join(".lsp-locks");
            let count_locks = || std::fs::read_dir(&locks).map(|d| d.count()).unwrap_or(0);
            let locks0 = count_locks();
            let st = l.state.clone();
            let u = uri.clone();
            // the handler waits for the compilation itself (and may wait for ever, see C24): run it in the background
            let t_sp = Instant::now();
            let tr = std::env::var_os("C26_TRACE").is_some();
            tokio::spawn(async move { if tr { eprintln!("TRACE save task started after {:?}", t_sp.elapsed()); } let _ = tokio::time::timeout(Duration::from_secs(60), st.did_save(DidSaveTextDocumentParams { text_document: TextDocumentIdentifier { uri: u }, text: None })).await; });
            expect = "-".to_string();
            // the handler runs in the background. Before it sends its request it removes the dirty-flag file of
            // the document (which runs `ps`): wait for that file to go, then a little more
            let t_w = Instant::now();
            while count_locks() >= locks0 && locks0 > 0 && t_w.elapsed() < Duration::from_millis(1500) {
                tokio::time::sleep(Duration::from_millis(2)).await;
            }
            tokio::time::sleep(Duration::from_millis(if locks0 > 0 && count_locks() < locks0 { 25 } else { 150 })).await;
            if tr { eprintln!("TRACE after sleep {:?} sched={:?}", t_sp.elapsed(), sway_lsp::verif_sched::with(|i| i.trace.iter().rev().take(14).rev().cloned().collect::<Vec<_>>())); }
        } else {
            l.version += 1;
            events.push(format!("E{file}@{}{}", l.version, content_token(&p, &file, &mut it)));
            let text = render(&p.files[&file]);
            let params = DidChangeTextDocumentParams {
                text_document: VersionedTextDocumentIdentifier { uri: uri.clone(), version: l.version },
                content_changes: vec![TextDocumentContentChangeEvent { range: None, range_length: None, text: text.clone() }] };
            if let Err(e) = notification::handle_did_change_text_document(&l.state, params).await { eprintln!("sv_c26: did_change error: {e}"); }
            // the compiler reads the temp file: is the new text there when the handler returns?
            if let Ok(tmp) = l.state.uri_from_workspace(&uri) {
                if std::fs::read_to_string(tmp.path()).map(|t| t != text).unwrap_or(true) { cx.write_races += 1; }
            }
            expect = format!("{file}@{}", l.version);
        }
        if prev_rapid && std::env::var_os("C26_TRACE").is_some() {
            eprintln!("TRACE before wake ({op}): compiling={} {:?}", l.state.is_compiling.load(Ordering::SeqCst), hook::since(mark.saturating_sub(3)).iter().map(|x| canon_trace_line(x).chars().take(60).collect::<String>()).collect::<Vec<_>>());
        }
        if prev_rapid {
            // the request is in: wake the compilation of the previous request (it finds the retrigger flag set);
            // the compilation of this one sleeps again if this one is rapid too
            hook::set_delay_ms(if rapid { 5000 } else { 0 });
            hook::wake();
        }
        if rapid {
            // wait until the worker is inside compile_to_ast for this request (its `begin` line), then go on
            let want = format!(" mod={expect}");
            let t = Instant::now();
            loop {
                let began = hook::since(mark).iter().any(|x| x.starts_with("begin ") && canon_trace_line(x).ends_with(&want));
                if began { break; }
                // a request that replaces a queued one never begins; one that follows a finished job begins soon
                if t.elapsed() > Duration::from_millis(1500) { break; }
                std::thread::sleep(Duration::from_millis(1));
            }
            pending_rapid.push((mark, expect.clone()));
            continue;
        }
        let s = settle(&l, mark, &expect, panics0);
        hook::set_delay_ms(0);
        hook::wake();
        absorb(&mut events, &mut consumed);
        if s == Settle::Panic {
            // the server is dead: this is the last step of the history
            let msg = last_panic();
            lines_out.push(format!("step {hist} {k} {pkg} {} ;; crash incr=panic fresh=- nondet=0 settle=Panic ev={} cache=- dl=- diff=panic:{}",
                done_ops.join(" "), events.join(","), msg.replace(' ', "_")));
            if cx.explore { eprintln!("== {hist} step {k} {op}  PANIC of the compilation thread: {msg}\n   ev={}", events.join(",")); }
            break;
        }
        // a rapid request whose job ended without being cancelled read the disk at an unknown point: discard the history
        for (m, e) in pending_rapid.drain(..) {
            let want = format!(" mod={e} ");
            if hook::since(m).iter().any(|x| x.starts_with("end ") && canon_trace_line(x).contains(&want) && x.ends_with("retrigger=0")) {
                discard = true;
                if cx.explore || std::env::var_os("C26_DEBUG").is_some() { eprintln!("sv_c26: {hist}: request {e} was sent without waiting but its compilation was not cancelled; ev={}", events.join(",")); }
            }
        }
        if s == Settle::Timeout { eprintln!("sv_c26: {hist} step {k}: no end of the compilation within 60s"); discard = true; }
        if discard { break; }
        let incr = observe(&l, &p);
        let cache = committed_cache(&l, &p);
        let decisions: Vec<String> = hook::since(step_mark).iter().map(|x| canon_trace_line(x)).filter(|c| c.starts_with("ty ") || c.starts_with("parse ")).collect();
        let fresh = fresh_obs(cx, &p).await;
        let fresh2 = fresh_obs(cx, &p).await;
        if fresh.iter().chain(fresh2.iter()).any(|x| x == "fresh-timeout") { discard = true; break; }
        // the fresh servers wrote to the trace as well: skip their lines
        consumed = hook::len();
        step_mark = hook::len();
        let (di, df) = (digest(&incr), digest(&fresh));
        let nondet = digest(&fresh2) != df;
        let (dl, diff) = if di == df { ("-".to_string(), "-".to_string()) } else { diff_of(&incr, &fresh) };
        lines_out.push(format!("step {hist} {k} {pkg} {} ;; {} incr={di} fresh={df} nondet={} settle={:?} races={} ev={} cache={} dl={} diff={}",
            done_ops.join(" "), if di == df { "eq" } else { "ne" }, nondet as u8, s, cx.write_races - races_seen, events.join(","), cache, dl, diff));
        races_seen = cx.write_races;
        let mut seen = std::collections::BTreeSet::new();
        for d in decisions {
            // `ty <path> tests=1 res=<r> fv=… e=…`  =>  `dec ty <path> fv=… e=… ;; <r>`
            let t: Vec<&str> = d.split(' ').collect();
            if t.len() >= 6 {
                let line = format!("dec {} {} {} {} ;; {}", t[0], t[1], t[4], t[5], t[3].trim_start_matches("res="));
                if seen.insert(line.clone()) { lines_out.push(line); }
            }
        }
        if cx.explore {
            eprintln!("== {hist} step {k} {op}  settle={s:?} incr={di} fresh={df} nondet={nondet} dl={dl}\n   ev={}\n   cache={cache}", events.join(","));
            if di != df {
                for x in &incr { if !fresh.contains(x) { eprintln!("   incr-only  {x}"); } }
                for x in &fresh { if !incr.contains(x) { eprintln!("   fresh-only {x}"); } }
            }
        }
    }
    hook::set_delay_ms(0);
    close(l);
    if discard { cx.discarded += 1; return; }
    for x in lines_out { writeln!(cx.out, "{x}").unwrap(); cx.cases += 1; }
}

// ------------------------------------------------------------------------------------------ generator

fn gen_history(r: &mut Rng, pkg: &str) -> Vec<String> {
    let p0 = base_pkg(pkg);
    let files: Vec<String> = p0.files.keys().cloned().collect();
    let subs: Vec<String> = files.iter().filter(|f| **f != p0.entry).cloned().collect();
    let n = r.range(8, 20);
    let mut p = p0.clone();
    let mut ops: Vec<String> = vec![];
    let mut ctr = 0u64;
    let mut guard = 0;
    while (ops.len() as u64) < n && guard < 400 {
        guard += 1;
        ctr += 1;
        let file = if r.chance(1, 4) { p.entry.clone() } else { r.pick(&subs).clone() };
        let names: Vec<String> = p.files[&file].iter().skip(1).filter_map(|c| {
            ["pub fn ", "fn ", "pub struct ", "pub const "].iter().find_map(|k| c.strip_prefix(k)).map(|rest| rest.chars().take_while(|c| is_ident_char(*c)).collect::<String>())
        }).filter(|s| !s.is_empty() && s != "main").collect();
        let cand: Vec<String> = match r.below(12) {
            0 | 1 => vec![format!("ins:{file}:{}:{ctr}", *r.pick(&["f", "s", "c"]))],
            2 => names.is_empty().then(Vec::new).unwrap_or_else(|| vec![format!("del:{file}:{}", r.pick(&names))]),
            3 | 4 => {
                // rename a definition, then (usually) the uses in the other files: consistent rename in several edits
                if names.is_empty() { vec![] } else {
                    let old = r.pick(&names).clone();
                    let new = format!("{}_r{ctr}", old.split("_r").next().unwrap());
                    let mut v = vec![format!("ren:{file}:{old}:{new}")];
                    if r.chance(3, 4) { for g in &files { if *g != file { v.push(format!("ren:{g}:{old}:{new}")); } } }
                    v
                }
            }
            5 => names.is_empty().then(Vec::new).unwrap_or_else(|| vec![format!("brk:{file}:{}", r.pick(&names))]),
            6 => {
                // fix something that is broken anywhere
                let mut v = vec![];
                for (g, cs) in &p.files { for c in cs { if c.contains(BRK) {
                    if let Some(nm) = ["pub fn ", "fn "].iter().find_map(|k| c.strip_prefix(k)) { v.push(format!("fix:{g}:{}", nm.chars().take_while(|c| is_ident_char(*c)).collect::<String>())); } } }
                    if cs.iter().any(|c| c == SYN) { v.push(format!("unsyn:{g}")); } }
                v.into_iter().take(1).collect()
            }
            7 => vec![format!("syn:{file}")],
            8 => {
                // a use of an item of another module
                let m = r.pick(&subs).clone();
                let fns: Vec<String> = p.files[&m].iter().filter_map(|c| c.strip_prefix("pub fn ")).map(|s| s.chars().take_while(|c| is_ident_char(*c)).collect::<String>()).filter(|n| n != "mk" && n != "dd" && n != "viad").collect();
                if m == file || fns.is_empty() { vec![] } else { vec![format!("use:{file}:{}:{}:{ctr}", m.trim_end_matches(".sw"), r.pick(&fns))] }
            }
            9 => vec![format!("ws:{file}:{ctr}")],
            10 => vec![format!("save:{file}")],
            _ => vec![format!("ws:{}:{ctr}", r.pick(&subs)), format!("ws:{}:{ctr}", p.entry)],
        };
        for (i, c) in cand.iter().enumerate() {
            let mut q = p.clone();
            if apply_op(&mut q, c).is_none() { continue; }
            p = q;
            // rapid: within a multi-edit group mostly, otherwise sometimes
            let rapid = if i + 1 < cand.len() { r.chance(1, 2) } else { r.chance(1, 6) };
            ops.push(if rapid { format!("!{c}") } else { c.clone() });
        }
    }
    // always end settled, with everything repaired half of the time
    if r.chance(1, 2) {
        for (g, cs) in p.files.clone() { if cs.iter().any(|c| c == SYN) { ops.push(format!("unsyn:{g}")); } }
    }
    if let Some(last) = ops.last_mut() { *last = last.trim_start_matches('!').to_string(); }
    ops
}

/// Runs one history in this process (`--child <id> <pkg> <op…>`): lines go to `--out`, and before
/// every request the line that stands if the process dies on it goes to `<out>.pending`.
fn child_main(a: &Args, hist: &[String]) {
    let scratch = PathBuf::from(format!("/var/tmp/sv_c26_{}", std::process::id()));
    let _ = std::fs::remove_dir_all(&scratch);
    std::fs::create_dir_all(scratch.join("home")).unwrap();
    std::env::set_var("HOME", scratch.join("home"));
    std::env::set_var("SWAY_VERIF_CACHE_TRACE", "1");
    if std::env::var_os("C26_TRACE").is_some() { std::env::set_var("SWAY_VERIF_SCHED", "1"); } else { std::env::remove_var("SWAY_VERIF_SCHED"); }
    let explore = a.extra.iter().any(|x| x == "--explore");
    std::panic::set_hook(Box::new(|info| {
        let loc = info.location().map(|l| format!("{}:{}", l.file().rsplit("/repo/").next().unwrap_or(l.file()), l.line())).unwrap_or_default();
        let msg = info.payload().downcast_ref::<&str>().map(|s| s.to_string()).or_else(|| info.payload().downcast_ref::<String>().cloned()).unwrap_or_default();
        PANICS.lock().unwrap_or_else(|e| e.into_inner()).push(format!("{loc}:{}", msg.lines().next().unwrap_or("")));
    }));
    let out = std::io::BufWriter::new(std::fs::File::create(&a.out).unwrap());
    let mut cx = Ctx { scratch: scratch.clone(), out, cases: 0, explore, fresh_n: 0, discarded: 0, write_races: 0, pending: format!("{}.pending", a.out) };
    let rt = tokio::runtime::Builder::new_multi_thread().worker_threads(2).enable_all().build().unwrap();
    rt.block_on(run_history(&mut cx, &hist[0], &hist[1], &hist[2..]));
    cx.out.flush().unwrap();
    let _ = std::fs::remove_file(&cx.pending);
    let _ = std::fs::remove_dir_all(&scratch);
    eprintln!("child: lines={} discarded={} fresh={} races={}", cx.cases, cx.discarded, cx.fresh_n, cx.write_races);
    std::process::exit(0);
}

/// The parent: every history runs in a child process, because the compiler can take the whole process
/// down (stack overflow in the compilation thread is an abort, not a panic).
fn main() {
    let a = args();
    if let Some(i) = a.extra.iter().position(|x| x == "--child") { return child_main(&a, &a.extra[i + 1..]); }
    let mut r = Rng::new(seed_from_env());
    let explore = a.extra.iter().any(|x| x == "--explore");
    let debug = explore || std::env::var_os("C26_DEBUG").is_some();
    let mut out = std::io::BufWriter::new(std::fs::File::create(&a.out).unwrap());
    let exe = std::env::current_exe().unwrap();
    let (cases, discarded, fresh_n, races, aborted) = (std::cell::Cell::new(0usize), std::cell::Cell::new(0usize), std::cell::Cell::new(0usize), std::cell::Cell::new(0usize), std::cell::Cell::new(0usize));
    let tmp = format!("{}.child", a.out);
    let run_one = |hist: &[String], out: &mut std::io::BufWriter<std::fs::File>| {
        let _ = std::fs::remove_file(&tmp);
        let _ = std::fs::remove_file(format!("{tmp}.pending"));
        let mut cmd = std::process::Command::new(&exe);
        cmd.arg("--out").arg(&tmp);
        if explore { cmd.arg("--explore"); }
        cmd.arg("--child").args(hist);
        cmd.stdin(std::process::Stdio::null()).stdout(std::process::Stdio::null()).stderr(std::process::Stdio::piped());
        let Ok(mut ch) = cmd.spawn() else { eprintln!("sv_c26: cannot start a child process"); return };
        let mut stderr = ch.stderr.take().unwrap();
        let rd = std::thread::spawn(move || { let mut s = String::new(); let _ = std::io::Read::read_to_string(&mut stderr, &mut s); s });
        let t0 = Instant::now();
        let status = loop {
            match ch.try_wait() {
                Ok(Some(st)) => break Some(st),
                Ok(None) => { if t0.elapsed() > Duration::from_secs(600) { let _ = ch.kill(); let _ = ch.wait(); break None; } std::thread::sleep(Duration::from_millis(5)); }
                Err(_) => break None,
            }
        };
        let err = rd.join().unwrap_or_default();
        // a child that aborted or was killed cannot remove its scratch directory itself
        let _ = std::fs::remove_dir_all(format!("/var/tmp/sv_c26_{}", ch.id()));
        if explore { eprint!("{err}"); }
        let ok = status.is_some_and(|s| s.success());
        if ok {
            for l in std::fs::read_to_string(&tmp).unwrap_or_default().lines() { writeln!(out, "{l}").unwrap(); cases.set(cases.get() + 1); }
            if let Some(l) = err.lines().rev().find(|l| l.starts_with("child: ")) {
                let g = |k: &str| l.split(' ').find_map(|t| t.strip_prefix(k)).and_then(|v| v.parse::<usize>().ok()).unwrap_or(0);
                discarded.set(discarded.get() + g("discarded=")); fresh_n.set(fresh_n.get() + g("fresh=")); races.set(races.get() + g("races="));
            }
        } else if status.is_none() {
            // no verdict within the time limit (overloaded machine): nothing is claimed about this history
            discarded.set(discarded.get() + 1);
            if debug { eprintln!("sv_c26: history {} was given up after 600 s", hist.join(" ")); }
        } else {
            // the process died: the pending line names the request it died on
            aborted.set(aborted.get() + 1);
            let why = err.lines().rev().find(|l| l.contains("fatal runtime error") || l.contains("overflowed its stack")).unwrap_or(if status.is_none() { "hung" } else { "died" }).replace(' ', "_");
            if let Ok(p) = std::fs::read_to_string(format!("{tmp}.pending")) {
                for l in p.lines() { if l.contains(" incr=abort ") { writeln!(out, "{l}{why}").unwrap(); } else { writeln!(out, "{l}").unwrap(); } cases.set(cases.get() + 1); }
            }
            if debug { eprintln!("sv_c26: history {} took the process down: {why}", hist.join(" ")); }
        }
    };
    if let Some(c) = &a.corpus {
        for line in std::fs::read_to_string(c).unwrap_or_default().lines() {
            if line.starts_with('#') || line.trim().is_empty() { continue; }
            let t: Vec<String> = line.split_whitespace().map(|s| s.to_string()).collect();
            if t.len() < 3 { continue; }
            run_one(&t, &mut out);
        }
    }
    let only_corpus = a.extra.iter().any(|x| x == "--only-corpus");
    let t0 = Instant::now();
    let mut hist_id = 0usize;
    loop {
        if only_corpus || cases.get() >= a.n || hist_id > 10_000 { break; }
        hist_id += 1;
        let pkg = if hist_id % 3 == 0 { "p2" } else { "p1" };
        let ops = gen_history(&mut r, pkg);
        if debug { eprintln!("sv_c26: history g{hist_id} {pkg} {}", ops.join(" ")); }
        let mut h = vec![format!("g{hist_id}"), pkg.to_string()];
        h.extend(ops);
        run_one(&h, &mut out);
    }
    out.flush().unwrap();
    let _ = std::fs::remove_file(&tmp);
    let _ = std::fs::remove_file(format!("{tmp}.pending"));
    eprintln!("sv_c26: {} lines, {} generated histories ({} discarded, {} took the process down), {} fresh servers, {} did_change returned before the text was on disk, {:.1}s",
        cases.get(), hist_id, discarded.get(), aborted.get(), fresh_n.get(), races.get(), t0.elapsed().as_secs_f64());
    std::process::exit(0);
}
