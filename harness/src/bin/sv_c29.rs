//! C29: unit tests run isolated and report exactly their outcome.
//!
//! Generates Sway packages (a CONTRACT with two storage slots, and a LIBRARY) whose `#[test]`
//! functions mix passing / failing / reverting (with and without declared codes) / storage-writing
//! / logging / VM-panicking behaviour, builds each package ONCE with the real compiler
//! (`forc_pkg::build_with_options`, exactly what `forc_test::build` does) and runs it repeatedly
//! through the real `forc_test::BuiltTests::run` (rayon runner, `TestFilter`, `TestExecutor`):
//!   alone   : every test on its own (exact filter on its name), 1 runner
//!   whole   : all tests, 4 runners (parallel)
//!   serial  : all tests, 1 runner
//!   filter  : several exact / contains filters
//!   perm    : the same tests declared in a permuted order (source regenerated, rebuilt)
//!
//! Lines:
//!   `suite kind=<c|l> init=<a>,<b> run=<…> filter=<none|exact:<p>|contains:<p>> <name:cond:ops>… ;; ok <name:cond:state:passed:logs>…` (or `;; error` when the run itself failed)
//!   `test kind=<c|l> init=<a>,<b> <name> <cond> <ops> ;; ok cond=<…> state=<…> passed=<0|1> logs=<…>
//!        sawInitialStorage=<0|1|-> sameAlone=<0|1> sameFiltered=<0|1> samePermuted=<0|1> sameSerial=<0|1>`
//! cond: `none` | `any` | `code.<dec>`; state: `return` | `returndata` | `revert.<dec>`;
//! ops: `-` or comma list of `log.v rd.k wr.k.v xi.k clog.v rv.c af div0 oob oog`; logs: `-` or `.`-joined decimals.
use anyhow::Result;
use forc_pkg as pkg;
use forc_test::{BuiltTests, GasCostsSource, TestFilter, TestGasLimit, TestOpts, TestRunnerCount, Tested};
use fuel_tx::Receipt;
use std::collections::BTreeMap;
use std::io::Write;
use std::path::Path;
use std::sync::Arc;
use svharness::{proto::*, rng::*, swayrun::{scratch_dir, test_opts, write_pkg}};

const INIT: [u64; 2] = [1000, 2000];
const ASSERT_CODE: u64 = 0xffff_ffff_ffff_0004;
const GAS_LIMIT: u64 = 30_000_000;

#[derive(Clone, Debug, PartialEq)]
enum Cond { None, Any, Code(u64) }

#[derive(Clone, Debug, PartialEq)]
enum Op { Log(u64), Read(u8), Write(u8, u64), ExpectInit(u8), CLog(u64), Revert(u64), AssertFalse, Div0, Oob, Oog }

#[derive(Clone, Debug)]
struct T { name: String, cond: Cond, ops: Vec<Op> }

#[derive(Clone, Debug, PartialEq)]
struct R { name: String, cond: String, state: String, passed: bool, logs: Vec<String> }

fn cond_tok(c: &Cond) -> String {
    match c { Cond::None => "none".into(), Cond::Any => "any".into(), Cond::Code(c) => format!("code.{c}") }
}
fn op_tok(o: &Op) -> String {
    match o {
        Op::Log(v) => format!("log.{v}"), Op::Read(k) => format!("rd.{k}"), Op::Write(k, v) => format!("wr.{k}.{v}"),
        Op::ExpectInit(k) => format!("xi.{k}"), Op::CLog(v) => format!("clog.{v}"), Op::Revert(c) => format!("rv.{c}"),
        Op::AssertFalse => "af".into(), Op::Div0 => "div0".into(), Op::Oob => "oob".into(), Op::Oog => "oog".into(),
    }
}
fn ops_tok(ops: &[Op]) -> String {
    if ops.is_empty() { "-".into() } else { ops.iter().map(op_tok).collect::<Vec<_>>().join(",") }
}
fn parse_cond(s: &str) -> Option<Cond> {
    match s { "none" => Some(Cond::None), "any" => Some(Cond::Any),
        _ => s.strip_prefix("code.").and_then(|c| c.parse().ok()).map(Cond::Code) }
}
fn parse_ops(s: &str) -> Option<Vec<Op>> {
    if s == "-" { return Some(vec![]); }
    s.split(',').map(|t| {
        let f: Vec<&str> = t.split('.').collect();
        Some(match f.as_slice() {
            ["log", v] => Op::Log(v.parse().ok()?), ["rd", k] => Op::Read(k.parse().ok()?),
            ["wr", k, v] => Op::Write(k.parse().ok()?, v.parse().ok()?), ["xi", k] => Op::ExpectInit(k.parse().ok()?),
            ["clog", v] => Op::CLog(v.parse().ok()?), ["rv", c] => Op::Revert(c.parse().ok()?),
            ["af"] => Op::AssertFalse, ["div0"] => Op::Div0, ["oob"] => Op::Oob, ["oog"] => Op::Oog,
            _ => return None,
        })
    }).collect()
}
fn is_storage_op(o: &Op) -> bool { matches!(o, Op::Read(_) | Op::Write(..) | Op::ExpectInit(_) | Op::CLog(_)) }

// ------------------------------------------------------------------------------------ Sway source

fn sway_body(t: &T, contract: bool) -> String {
    let mut s = String::new();
    if contract && t.ops.iter().any(is_storage_op) { s.push_str("    let c = abi(Store, CONTRACT_ID);\n"); }
    for (i, o) in t.ops.iter().enumerate() {
        let l = match o {
            Op::Log(v) => format!("log({v}u64);"),
            Op::Read(k) => format!("log(c.get({k}));"),
            Op::Write(k, v) => format!("c.set({k}, {v});"),
            Op::ExpectInit(k) => format!("assert(c.get({k}) == {});", INIT[*k as usize]),
            Op::CLog(v) => format!("c.emit({v});"),
            Op::Revert(c) => format!("revert({c});"),
            Op::AssertFalse => "assert(false);".to_string(),
            Op::Div0 => format!("let z{i} = asm(a: 1u64, b: 0u64, r) {{ div r a b; r: u64 }}; log(z{i});"),
            Op::Oob => format!("let z{i} = asm(p: 0xFFFFFFFFFFFFu64, r) {{ lw r p i0; r: u64 }}; log(z{i});"),
            Op::Oog => format!("let mut i{i} = 0u64; while i{i} < 0xFFFFFFFFFFFFFFFF {{ i{i} += 1; }} log(i{i});"),
        };
        s.push_str("    "); s.push_str(&l); s.push('\n');
    }
    s
}

fn sway_source(tests: &[T], contract: bool) -> String {
    let mut s = String::new();
    if contract {
        s.push_str(&format!(r#"contract;

abi Store {{
    #[storage(read)] fn get(k: u64) -> u64;
    #[storage(write)] fn set(k: u64, v: u64);
    fn emit(v: u64);
}}

storage {{
    s0: u64 = {},
    s1: u64 = {},
}}

impl Store for Contract {{
    #[storage(read)] fn get(k: u64) -> u64 {{ if k == 0 {{ storage.s0.read() }} else {{ storage.s1.read() }} }}
    #[storage(write)] fn set(k: u64, v: u64) {{ if k == 0 {{ storage.s0.write(v) }} else {{ storage.s1.write(v) }} }}
    fn emit(v: u64) {{ log(v); }}
}}
"#, INIT[0], INIT[1]));
    } else {
        s.push_str("library;\n");
    }
    for t in tests {
        let attr = match &t.cond {
            Cond::None => "#[test]".to_string(),
            Cond::Any => "#[test(should_revert)]".to_string(),
            Cond::Code(c) => format!("#[test(should_revert = \"{c}\")]"),
        };
        s.push_str(&format!("\n{attr}\nfn {}() {{\n{}}}\n", t.name, sway_body(t, contract)));
    }
    s
}

// ------------------------------------------------------------------------------------ real runner

struct Built { pkg: Arc<pkg::BuiltPackage>, plan: pkg::BuildPlan }

fn build(dir: &Path) -> Result<Built> {
    // identical to forc_test::build, but keeps the Arc<BuiltPackage> so the package can be run repeatedly
    let opts: TestOpts = test_opts(dir, false);
    let build_opts: pkg::BuildOpts = opts.into();
    let plan = pkg::BuildPlan::from_pkg_opts(&build_opts.pkg)?;
    match pkg::build_with_options(&build_opts, None)? {
        pkg::Built::Package(p) => Ok(Built { pkg: p, plan }),
        pkg::Built::Workspace(_) => anyhow::bail!("workspace?"),
    }
}

fn state_str(s: &fuel_vm::state::ProgramState) -> String {
    use fuel_vm::state::ProgramState::*;
    match s {
        Return(_) => "return".into(),
        ReturnData(_) => "returndata".into(),
        Revert(c) => format!("revert.{c}"),
        _ => "other".into(),
    }
}

fn run_once(b: &Built, filter: Option<(&str, bool)>, runners: usize) -> Result<Vec<R>> {
    let built = BuiltTests::from_built(pkg::Built::Package(b.pkg.clone()), &b.plan)?;
    let f = filter.map(|(p, e)| TestFilter { filter_phrase: p, exact_match: e });
    let tested = built.run(
        TestRunnerCount::Manual(runners),
        f,
        GasCostsSource::BuiltIn.provide_gas_costs()?,
        TestGasLimit::Limited(GAS_LIMIT),
    )?;
    let p = match tested { Tested::Package(p) => *p, Tested::Workspace(mut v) => v.remove(0) };
    Ok(p.tests.iter().map(|t| {
        let logs = t.logs.iter().map(|r| match r {
            Receipt::Log { ra, .. } => format!("{ra}"),
            Receipt::LogData { data, .. } => {
                let d = data.clone().map(|d| d.to_vec()).unwrap_or_default();
                if d.len() == 8 { format!("{}", u64::from_be_bytes(d.try_into().unwrap())) } else { format!("x{}", hex::encode(d)) }
            }
            _ => "other".into(),
        }).collect();
        let cond = match &t.condition {
            pkg::TestPassCondition::ShouldNotRevert => "none".to_string(),
            pkg::TestPassCondition::ShouldRevert(None) => "any".to_string(),
            pkg::TestPassCondition::ShouldRevert(Some(c)) => format!("code.{c}"),
        };
        R { name: t.name.clone(), cond, state: state_str(&t.state), passed: t.passed(), logs }
    }).collect())
}

fn logs_tok(l: &[String]) -> String { if l.is_empty() { "-".into() } else { l.join(".") } }
fn res_tok(r: &R) -> String { format!("{}:{}:{}:{}:{}", r.name, r.cond, r.state, r.passed as u8, logs_tok(&r.logs)) }

fn suite_line(kind: char, run: &str, filter: Option<(&str, bool)>, tests: &[T], res: &Result<Vec<R>>) -> String {
    let f = match filter { None => "none".to_string(), Some((p, true)) => format!("exact:{p}"), Some((p, false)) => format!("contains:{p}") };
    let ts: Vec<String> = tests.iter().map(|t| format!("{}:{}:{}", t.name, cond_tok(&t.cond), ops_tok(&t.ops))).collect();
    let rs = match res {
        Ok(v) => format!("ok {}", v.iter().map(res_tok).collect::<Vec<_>>().join(" ")),
        Err(_) => "error".to_string(),
    };
    format!("suite kind={kind} init={},{} run={run} filter={f} {} ;; {}", INIT[0], INIT[1], ts.join(" "), rs)
}

// ------------------------------------------------------------------------------------ generation

fn gen_cond(r: &mut Rng, natural: Option<u64>) -> Cond {
    // `natural` = the code this behaviour reverts with (None = does not revert)
    match r.below(10) {
        0..=3 => Cond::None,
        4..=5 => Cond::Any,
        6..=7 => Cond::Code(natural.unwrap_or(*r.pick(&[0, 7, ASSERT_CODE]))),
        _ => Cond::Code(*r.pick(&[0, 1, 7, 42, ASSERT_CODE, u64::MAX])),
    }
}

fn gen_test(r: &mut Rng, idx: usize, contract: bool) -> T {
    let base = (idx as u64 + 1) * 10_000 + r.below(1000) * 7;
    let k = r.below(2) as u8;
    let term_choices: &[u8] = if contract { &[0, 0, 0, 1, 2, 3, 4, 5] } else { &[0, 0, 1, 2, 3, 4, 5] };
    let term = *r.pick(term_choices);
    let (term_op, natural): (Option<Op>, Option<u64>) = match term {
        0 => (None, None),
        1 => { let c = *r.pick(&[0u64, 1, 7, 42, 65535, u64::MAX]); (Some(Op::Revert(c)), Some(c)) }
        2 => (Some(Op::AssertFalse), Some(ASSERT_CODE)),
        3 => (Some(Op::Div0), Some(0)),
        4 => (Some(Op::Oob), Some(0)),
        _ => (Some(Op::Oog), Some(0)),
    };
    let mut ops = vec![];
    let shape = if contract { r.below(6) } else { r.below(2) };
    let tag;
    match shape {
        0 => { tag = "p"; }
        1 => { tag = "l"; for j in 0..1 + r.below(3) { ops.push(Op::Log(base + j)); } }
        2 | 3 => { tag = "w"; ops.extend([Op::Read(k), Op::ExpectInit(k), Op::Write(k, base + 5), Op::Log(base + 6), Op::Read(k)]); }
        4 => { tag = "w"; ops.extend([Op::Read(0), Op::Read(1), Op::Write(0, base + 1), Op::Write(1, base + 2), Op::CLog(base + 3), Op::Read(0), Op::Read(1)]); }
        _ => { tag = "r"; ops.extend([Op::Read(k), Op::ExpectInit(1 - k), Op::CLog(base + 4)]); }
    }
    if let Some(o) = term_op { ops.push(o); }
    let ttag = match term { 0 => "", 1 => "rv", 2 => "af", 3 | 4 => "vp", _ => "og" };
    let name = if idx == 1 { "t1".to_string() } else { format!("t{idx}{tag}{ttag}") };
    T { name, cond: gen_cond(r, natural), ops }
}

fn uses_initial(t: &T) -> bool {
    matches!(t.ops.first(), Some(Op::Read(_)))
}

// ------------------------------------------------------------------------------------ one suite

fn by_name(v: &[R]) -> BTreeMap<String, R> { v.iter().map(|r| (r.name.clone(), r.clone())).collect() }

fn run_suite(kind: char, tests: &[T], r: &mut Rng, out: &mut dyn Write, tag: &str) -> usize {
    let contract = kind == 'c';
    let mut lines = 0usize;
    let dir = scratch_dir(&format!("c29{tag}"));
    let name = if contract { "c29pkg" } else { "c29lib" };
    write_pkg(&dir, name, &sway_source(tests, contract), true, "").unwrap();
    let built = match build(&dir) {
        Ok(b) => b,
        Err(e) => {
            // a generated package must compile; report as a broken run (no prop verdict is fabricated)
            eprintln!("c29: build failed: {e:#}\n{}", sway_source(tests, contract));
            std::process::exit(3);
        }
    };
    let mut emit = |l: String, lines: &mut usize| { writeln!(out, "{l}").unwrap(); *lines += 1; };

    // (d) alone first (fresh process state for the first of them)
    let mut alone: BTreeMap<String, Option<R>> = BTreeMap::new();
    for t in tests {
        let f = Some((t.name.as_str(), true));
        let res = guarded(|| run_once(&built, f, 1)).unwrap_or_else(|| Err(anyhow::anyhow!("panic")));
        emit(suite_line(kind, "alone", f, tests, &res), &mut lines);
        let one = res.ok().and_then(|v| if v.len() == 1 && v[0].name == t.name { Some(v[0].clone()) } else { None });
        alone.insert(t.name.clone(), one);
    }
    // (a) whole, parallel and serial
    let whole = guarded(|| run_once(&built, None, 4)).unwrap_or_else(|| Err(anyhow::anyhow!("panic")));
    emit(suite_line(kind, "whole", None, tests, &whole), &mut lines);
    let serial = guarded(|| run_once(&built, None, 1)).unwrap_or_else(|| Err(anyhow::anyhow!("panic")));
    emit(suite_line(kind, "serial", None, tests, &serial), &mut lines);
    // (b) filters
    let mut filters: Vec<(String, bool)> = vec![
        ("t1".into(), true), ("t1".into(), false), ("t".into(), true), ("t".into(), false),
        ("".into(), false), ("".into(), true), ("w".into(), false), ("rv".into(), false), ("nomatch".into(), false),
    ];
    for _ in 0..3 {
        let t = r.pick(tests).name.clone();
        let a = r.below(t.len() as u64) as usize;
        let b = a + 1 + r.below((t.len() - a) as u64) as usize;
        filters.push((t[a..b].to_string(), r.chance(1, 2)));
        filters.push((t.clone(), false));
    }
    let mut filtered: Vec<Vec<R>> = vec![];
    let mut filter_ok = true;
    for (p, e) in &filters {
        let f = Some((p.as_str(), *e));
        let res = guarded(|| run_once(&built, f, 3)).unwrap_or_else(|| Err(anyhow::anyhow!("panic")));
        emit(suite_line(kind, "filter", f, tests, &res), &mut lines);
        match res { Ok(v) => filtered.push(v), Err(_) => filter_ok = false }
    }
    // (c) permuted declaration order
    let mut perm: Vec<T> = tests.to_vec();
    for i in (1..perm.len()).rev() { let j = r.below(i as u64 + 1) as usize; perm.swap(i, j); }
    let pdir = scratch_dir(&format!("c29{tag}p"));
    write_pkg(&pdir, name, &sway_source(&perm, contract), true, "").unwrap();
    let permuted = match build(&pdir) {
        Ok(pb) => guarded(|| run_once(&pb, None, 4)).unwrap_or_else(|| Err(anyhow::anyhow!("panic"))),
        Err(e) => { eprintln!("c29: permuted build failed: {e:#}"); std::process::exit(3); }
    };
    emit(suite_line(kind, "perm", None, &perm, &permuted), &mut lines);

    // per-test lines
    let whole_m = whole.as_ref().map(|v| by_name(v)).unwrap_or_default();
    let serial_m = serial.as_ref().map(|v| by_name(v)).unwrap_or_default();
    let perm_m = permuted.as_ref().map(|v| by_name(v)).unwrap_or_default();
    for t in tests {
        let head = format!("test kind={kind} init={},{} {} {} {}", INIT[0], INIT[1], t.name, cond_tok(&t.cond), ops_tok(&t.ops));
        let Some(w) = whole_m.get(&t.name) else {
            emit(format!("{head} ;; missing"), &mut lines);
            continue;
        };
        let saw = if contract && uses_initial(t) {
            let k = match t.ops[0] { Op::Read(k) => k as usize, _ => 0 };
            if w.logs.first().map(|s| s.as_str()) == Some(INIT[k].to_string().as_str()) { "1" } else { "0" }
        } else { "-" };
        let same_alone = alone.get(&t.name).and_then(|o| o.as_ref()) == Some(w);
        let same_filtered = filter_ok && filtered.iter().all(|v| v.iter().filter(|x| x.name == t.name).all(|x| x == w));
        let same_perm = perm_m.get(&t.name) == Some(w);
        let same_serial = serial_m.get(&t.name) == Some(w);
        emit(format!("{head} ;; ok cond={} state={} passed={} logs={} sawInitialStorage={} sameAlone={} sameFiltered={} samePermuted={} sameSerial={}",
            w.cond, w.state, w.passed as u8, logs_tok(&w.logs), saw, same_alone as u8, same_filtered as u8, same_perm as u8, same_serial as u8), &mut lines);
    }
    let _ = std::fs::remove_dir_all(&dir);
    let _ = std::fs::remove_dir_all(&pdir);
    lines
}

fn main() {
    let a = args();
    quiet_panics();
    let mut r = Rng::new(seed_from_env());
    let mut out = std::io::BufWriter::new(std::fs::File::create(&a.out).unwrap());
    // corpus: lines `<c|l> <cond> <ops>` — fixed tests always included in the first suite of that kind
    let mut fixed: Vec<(char, Cond, Vec<Op>)> = vec![];
    if let Some(c) = &a.corpus {
        for l in std::fs::read_to_string(c).unwrap_or_default().lines() {
            if l.starts_with('#') || l.trim().is_empty() { continue; }
            let f: Vec<&str> = l.split_whitespace().collect();
            if f.len() != 3 { continue; }
            if let (Some(c), Some(o)) = (parse_cond(f[1]), parse_ops(f[2])) {
                fixed.push((f[0].chars().next().unwrap(), c, o));
            }
        }
    }
    let mut lines = 0usize;
    let mut round = 0usize;
    while lines < a.n || round == 0 {
        for kind in ['c', 'l'] {
            let mut tests: Vec<T> = vec![];
            if round == 0 {
                for (k, c, o) in fixed.iter().filter(|(k, ..)| *k == kind) {
                    let _ = k;
                    let name = if tests.len() == 1 { "t1".to_string() } else { format!("t{}fx", tests.len()) };
                    tests.push(T { name, cond: c.clone(), ops: o.clone() });
                }
            }
            let extra = if kind == 'c' { 12 } else { 11 };
            for _ in 0..extra { let i = tests.len(); tests.push(gen_test(&mut r, i, kind == 'c')); }
            lines += run_suite(kind, &tests, &mut r, &mut out, &format!("{kind}{round}"));
            out.flush().unwrap();
        }
        round += 1;
    }
}
