//! C07: assembly-level optimisations preserve behaviour.
//!
//! Lines:
//! * `pass <name> <before> ;; ok <after> src=<syn|harvest|corpus>` | `;; panic src=..`
//!   one REAL optimisation pass (`dce`, `cfg` = simplify_cfg, `seqjump`, `moves`, `ops`) of
//!   `sway-core/src/asm_generation/fuel/optimizations` on an op list in the abstract text form of
//!   `sway_core::verif_hooks::{regalloc, asmopt}`. `syn`: random op lists pushed through the real pass by
//!   `asmopt::run_pass`; `harvest`: before/after pairs recorded inside real compilations
//!   (`SWAY_VERIF_ASMOPT_DUMP`) of the packages built for the `prog` lines.
//! * `round <0|1> <before> ;; ok <after> src=syn`   the whole `optimize` (Opt0 / Opt1 round loop).
//! * `prog <pkg> <test> <profile> ;; vm opt=<digest> noopt=<digest> ...`
//!   whole-program validation: the package is built in child processes with and without
//!   `SWAY_VERIF_NO_ASM_OPT=1`, every `#[test]` runs on the real VM, digest = sha256 of
//!   (state, panic reason, logs); gas is not compared.
//!
//! * `addr <constidx|constprop|optimize0> <before> ;; ok <after> src=..`  address-arithmetic op lists (with the
//!   ops' Display text) through the two UNMODELLED passes; the driver executes both lists.
//!
//! Corpus lines: `ops <oplist>` (all five passes + both rounds), `addrops <oplist>`, `pkg <in_language test package>`,
//! `swfile <file under /verif/corpus>` (a library of `#[test]`s, built with std).
use sha2::{Digest, Sha256};
use std::collections::BTreeMap;
use std::io::Write;
use std::path::{Path, PathBuf};
use std::process::{Child, Command, Stdio};
use std::time::{Duration, Instant};
use svharness::{proggen, proto::*, rng::*, swayrun};
use sway_core::verif_hooks::asmopt as ao;

const MODEL_PASSES: [&str; 5] = ["dce", "cfg", "seqjump", "moves", "ops"];
const STD_TESTS: &str = "/repo/test/src/in_language_tests/test_programs";

// ------------------------------------------------------------------------------------------------
// synthetic op lists

struct Gen<'a> {
    r: &'a mut Rng,
    ops: Vec<String>,
    nregs: usize,
    defined: Vec<usize>,
}

impl Gen<'_> {
    fn fresh(&mut self) -> usize {
        self.nregs += 1;
        self.nregs - 1
    }
    fn pick_use(&mut self) -> String {
        if self.defined.is_empty() || self.r.chance(1, 10) {
            return format!("c{}", *self.r.pick(&[0usize, 1, 5, 20, 21]));
        }
        let n = self.defined.len();
        let k = if self.r.chance(2, 3) { n - 1 - self.r.below(n.min(5) as u64) as usize } else { self.r.below(n as u64) as usize };
        format!("v{}", self.defined[k])
    }
    /// destination: a fresh register (often never read again => dead), or an existing one
    fn def_target(&mut self) -> usize {
        if !self.defined.is_empty() && self.r.chance(1, 4) {
            *self.r.pick(&self.defined)
        } else {
            let f = self.fresh();
            if self.r.chance(3, 5) { self.defined.push(f); }
            f
        }
    }
    fn body_op(&mut self, flags_pct: u64) {
        match self.r.below(28) {
            0..=5 => {
                let (a, b) = (self.pick_use(), self.pick_use());
                let d = self.def_target();
                let mn = *self.r.pick(&["ADD", "SUB", "MUL", "LT", "EQ"]);
                self.ops.push(format!("other.{mn}:v{d}:{a},{b}"));
                if self.r.chance(flags_pct, 100) {
                    // read a flag register right after (as asm blocks do)
                    let f = self.def_target();
                    self.ops.push(format!("move:v{f}:c{}", *self.r.pick(&[2usize, 8])));
                }
            }
            6..=9 => {
                let s = self.pick_use();
                let d = self.def_target();
                self.ops.push(format!("move:v{d}:{s}"));
            }
            10 => {
                // MOVE r r
                if let Some(d) = self.defined.last().copied() { self.ops.push(format!("move:v{d}:v{d}")); }
            }
            11 | 12 => self.ops.push("other.NOOP:-:-".into()),
            13 => {
                let (a, b) = (self.pick_use(), self.pick_use());
                match self.r.below(4) {
                    0 => self.ops.push(format!("other.MCP.0:-:{a},{b},c0")),
                    1 => { let c = self.pick_use(); self.ops.push(format!("other.MCP:-:{a},{b},{c}")) }
                    2 => self.ops.push(format!("other.MCPI.0:-:{a},{b}")),
                    _ => self.ops.push(format!("other.MCPI.{}:-:{a},{b}", 8 * self.r.range(1, 4))),
                }
            }
            14 | 15 => {
                let d = self.def_target();
                let imm = self.r.below(100);
                self.ops.push(format!("other.MOVI.{imm}:v{d}:-"));
            }
            16 | 17 => {
                let a = self.pick_use();
                let d = self.def_target();
                self.ops.push(format!("other.LW.{}:v{d}:{a}", self.r.below(8)));
            }
            18 | 19 => {
                let (a, b) = (self.pick_use(), self.pick_use());
                self.ops.push(format!("other.SW.{}:-:{a},{b}", self.r.below(8)));
            }
            20 => {
                let a = self.pick_use();
                let d1 = self.def_target();
                let d2 = self.fresh();
                if self.r.chance(1, 3) { self.defined.push(d2); }
                self.ops.push(format!("other.SRW:v{d1},v{d2}:{a}"));
            }
            21 => {
                let (a, b, c, d) = (self.pick_use(), self.pick_use(), self.pick_use(), self.pick_use());
                self.ops.push(format!("other.LOG:-:{a},{b},{c},{d}"));
            }
            22 => {
                // argument passing: MOVE to a constant register, then a call
                let a = self.pick_use();
                self.ops.push(format!("move:c21:{a}"));
                self.ops.push(format!("call.{}:-:-", 900 + self.r.below(3)));
                let d = self.def_target();
                self.ops.push(format!("move:v{d}:c18"));
            }
            23 => {
                // a flag read that is NOT adjacent to the defining op
                let d = self.def_target();
                self.ops.push(format!("move:v{d}:c{}", *self.r.pick(&[2usize, 8])));
            }
            24 => {
                let a = self.pick_use();
                let d = self.def_target();
                self.ops.push(format!("other.NOT:v{d}:{a}"));
            }
            25 => self.ops.push("comment:-:-".into()),
            _ => {
                let a = self.pick_use();
                let d = self.def_target();
                self.ops.push(format!("other.ADDI.{}:v{d}:{a}", self.r.below(16)));
            }
        }
    }
}

fn gen_ops(r: &mut Rng) -> String {
    let blocks = r.range(1, 7) as usize;
    let per_block = r.range(1, 9) as usize;
    let flags_pct = *r.pick(&[0u64, 0, 0, 10, 40]);
    let mut g = Gen { r, ops: vec![], nregs: 0, defined: vec![] };
    g.ops.push("label.0:-:-".into());
    if g.r.chance(2, 3) { g.ops.push(format!("other.CFEI.{}:c5:c5", 8 * g.r.below(5))); }
    for b in 1..=blocks {
        g.ops.push(format!("label.{b}:-:-"));
        if g.r.chance(1, 12) { g.ops.push(format!("label.{}:-:-", 100 + b)); }
        let n = g.r.below(per_block as u64 + 1);
        for _ in 0..n { g.body_op(flags_pct); }
        // block end
        let tgt = |g: &mut Gen, b: usize| -> usize {
            match g.r.below(5) { 0 | 1 => (b + 1).min(blocks), 2 => g.r.range(1, blocks as u64) as usize, 3 => b, _ => (b + 2).min(blocks) }
        };
        match g.r.below(12) {
            0 | 1 => { let t = tgt(&mut g, b); g.ops.push(format!("jump.{t}:-:-")); }
            2..=4 => { let t = tgt(&mut g, b); let c = g.pick_use(); g.ops.push(format!("jnz.{t}:-:{c}")); }
            5 => { let c = g.pick_use(); g.ops.push(format!("rvrt:-:{c}")); }
            6 => {
                // unreachable tail
                let t = tgt(&mut g, b);
                g.ops.push(format!("jump.{t}:-:-"));
                let k = g.r.range(1, 3);
                for _ in 0..k { g.body_op(flags_pct); }
            }
            7 => {
                if g.r.chance(1, 6) { let c = g.pick_use(); g.ops.push(format!("jmpaddr:-:{c}")); }
                else { g.ops.push("retcall:-:c0,c17".into()); }
            }
            _ => {}
        }
    }
    // observe some registers at the end
    let k = g.r.below(4);
    for _ in 0..k { let a = g.pick_use(); let b = g.pick_use(); g.ops.push(format!("other.SW.0:-:{a},{b}")); }
    match g.r.below(4) {
        0 => { let a = g.pick_use(); g.ops.push(format!("other.RET:-:{a}")); }
        1 => g.ops.push("retcall:-:c0,c17".into()),
        2 => { let a = g.pick_use(); g.ops.push(format!("rvrt:-:{a}")); }
        _ => {}
    }
    g.ops.join("|")
}


// ------------------------------------------------------------------------------------------------
// address-arithmetic op lists for the two UNMODELLED passes (executed before/after by the driver)

const ADDR_OFFS: [u64; 7] = [0, 1, 7, 8, 16, 24, 4088];

fn gen_addr_ops(r: &mut Rng) -> String {
    let mut ops: Vec<String> = vec!["label.0:-:-".into()];
    let mut n = 0usize;
    let mut fresh = |n: &mut usize| { *n += 1; *n - 1 };
    // a value register to store
    let val = fresh(&mut n);
    ops.push(format!("other.MOVI.{}:v{val}:-", 1000 + r.below(1000)));
    let mut ptrs: Vec<usize> = vec![];
    let nbases = r.range(1, 3);
    for _ in 0..nbases {
        let b = fresh(&mut n);
        match r.below(6) {
            0 => ops.push(format!("other.MOVI.{}:v{b}:-", 8 * r.range(100, 4000) + if r.chance(1, 6) { 1 } else { 0 })),
            1 => ops.push(format!("other.ADDI.{}:v{b}:c5", *r.pick(&ADDR_OFFS))),
            2 => ops.push(format!("other.ADDI.{}:v{b}:c7", *r.pick(&ADDR_OFFS))),
            3 => ops.push(format!("other.LW.{}:v{b}:c5", r.below(4))),
            4 => { ops.push("call.900:-:-".into()); ops.push(format!("move:v{b}:c18")); }
            _ => { ops.push(format!("other.LW.{}:v{b}:c7", r.below(4))); ops.push(format!("label.{}:-:-", 10 + b)); }
        }
        ptrs.push(b);
    }
    let steps = r.range(3, 14);
    let mut logged: Vec<usize> = vec![];
    for _ in 0..steps {
        let p = *r.pick(&ptrs);
        match r.below(16) {
            0..=3 => ops.push(format!("other.ADDI.{}:v{p}:v{p}", *r.pick(&ADDR_OFFS))),
            4 => { let d = fresh(&mut n); ops.push(format!("other.ADDI.{}:v{d}:v{p}", *r.pick(&ADDR_OFFS))); ptrs.push(d); }
            5 | 6 => {
                let c = fresh(&mut n);
                ops.push(format!("other.MOVI.{}:v{c}:-", *r.pick(&ADDR_OFFS)));
                if r.chance(2, 3) { ops.push(format!("other.ADD:v{p}:v{p},v{c}")); }
                else { let d = fresh(&mut n); ops.push(format!("other.ADD:v{d}:v{p},v{c}")); ptrs.push(d); }
            }
            7 => ops.push(format!("other.SUBI.{}:v{p}:v{p}", *r.pick(&[0u64, 8, 16]))),
            8 => { let i = fresh(&mut n); ops.push(format!("other.LW.0:v{i}:c5")); ops.push(format!("other.MULI.{}:v{i}:v{i}", *r.pick(&[8u64, 16, 24]))); ops.push(format!("other.ADD:v{p}:v{p},v{i}")); }
            9 => { let d = fresh(&mut n); ops.push(format!("move:v{d}:v{p}")); ptrs.push(d); }
            10..=12 => { let x = fresh(&mut n); ops.push(format!("other.LW.{}:v{x}:v{p}", *r.pick(&[0u64, 0, 1, 2, 3, 511, 4095]))); logged.push(x); }
            13 | 14 => ops.push(format!("other.SW.{}:-:v{p},v{val}", *r.pick(&[0u64, 0, 1, 2, 3, 511]))),
            _ => {
                if r.chance(1, 2) { let x = fresh(&mut n); ops.push(format!("other.LB.{}:v{x}:v{p}", r.below(9))); logged.push(x); }
                else { ops.push(format!("other.SB.{}:-:v{p},v{val}", r.below(9))); }
            }
        }
        if r.chance(1, 14) { ops.push(format!("label.{}:-:-", 100 + n)); }
    }
    // observe the loaded values and the final pointers
    for c in logged.chunks(4).chain(ptrs.clone().chunks(4)) {
        let l: Vec<String> = c.iter().map(|x| format!("v{x}")).collect();
        ops.push(format!("other.LOG:-:{}", l.join(",")));
    }
    ops.push(format!("other.RET:-:v{val}"));
    ops.join("|")
}

fn addr_lines(out: &mut impl Write, text: &str, src: &str) -> usize {
    let Ok(ops) = ao::from_text(text) else { return 0 };
    let mut n = 0;
    for p in ["constidx", "constprop", "optimize0"] {
        match guarded(|| ao::run_pass_asm(p, &ops)) {
            Some(Ok(rep)) => { writeln!(out, "addr {p} {} ;; ok {} src={src}", rep.before, rep.after).unwrap(); n += 1; }
            Some(Err(e)) => eprintln!("sv_c07: {e}"),
            None => { writeln!(out, "addr {p} {} ;; panic src={src}", text).unwrap(); n += 1; }
        }
    }
    n
}

// ------------------------------------------------------------------------------------------------
// generated pointer-walk tests: asm blocks bumping a pointer in place + compiler-generated accesses

fn gen_ptrwalk_test(r: &mut Rng, k: usize) -> String {
    let n = r.range(6, 12) as usize;
    let vals: Vec<u64> = (0..n).map(|_| r.below(1000)).collect();
    let start = r.below(3) as usize;
    let mut pos = start;
    let mut body = String::new();
    let mut expect: u64 = 0;
    let mut consts: Vec<u64> = vec![];
    let steps = r.range(2, 6);
    for _ in 0..steps {
        // bump in place by 8*d while staying in bounds
        let room = n - 1 - pos;
        if room > 0 {
            let d = r.range(1, room.min(3) as u64) as usize;
            match r.below(3) {
                0 => body.push_str(&format!("        addi p p i{};\n", 8 * d)),
                1 => { if !consts.contains(&(8 * d as u64)) { consts.push(8 * d as u64); } body.push_str(&format!("        add p p c{};\n", 8 * d)); }
                _ => { for _ in 0..d { body.push_str("        addi p p i8;\n"); } }
            }
            pos += d;
        } else if pos >= 2 && r.chance(1, 2) {
            body.push_str("        subi p p i16;\n");
            pos -= 2;
        }
        let w = r.below((n - pos).min(3) as u64) as usize;
        body.push_str(&format!("        lw a p i{w};\n        add acc acc a;\n"));
        expect += vals[pos + w];
    }
    let cinit: String = consts.iter().map(|c| format!("c{c}: {c}u64, ")).collect();
    let heap = r.chance(1, 3);
    let arr = format!("[{}]", vals.iter().map(|v| format!("{v}u64")).collect::<Vec<_>>().join(", "));
    let (j1, j2) = (r.below(n as u64) as usize, r.below(n as u64) as usize);
    let base_setup = if heap {
        // copy the array to the heap and keep the pointer in memory: the asm block re-loads it
        format!("    let v: Vec<u64> = Vec::new();\n    let mut v = v;\n    let mut i = 0;\n    while i < {n} {{ v.push(arr[i]); i += 1; }}\n    let base = v.ptr();\n")
    } else {
        "    let base = __addr_of(arr);\n".to_string()
    };
    format!(
        "#[test]\nfn pw_{k}() {{\n    let arr = {arr};\n{base_setup}    let idx = opq({start});\n    let r = asm(base: base, idx: idx, {cinit}p, a, acc) {{\n        muli p idx i8;\n        add p base p;\n        movi acc i0;\n{body}        acc: u64\n    }};\n    log(r);\n    log(arr[{j1}] + arr[{j2}]);\n    let s = S {{ x: arr[{j1}], y: (arr[{j2}], [r, 1u64, 2u64]) }};\n    log(s.y.1[0] + s.y.0 + s.x);\n    assert(r == {expect});\n}}\n\n"
    )
}

fn gen_ptrwalk_pkg(r: &mut Rng, tests: usize) -> String {
    let mut s = String::from("library;\n\nstruct S { x: u64, y: (u64, [u64; 3]) }\n\n#[inline(never)]\nfn opq(x: u64) -> u64 { x }\n\n");
    for k in 0..tests { s.push_str(&gen_ptrwalk_test(r, k)); }
    s
}

// ------------------------------------------------------------------------------------------------
// kernel lines

fn pass_lines(out: &mut impl Write, text: &str, src: &str, rounds: bool) -> usize {
    let Ok(ops) = ao::from_text(text) else { return 0 };
    let mut n = 0;
    for p in MODEL_PASSES {
        match guarded(|| ao::run_pass(p, &ops)) {
            Some(Ok(rep)) => writeln!(out, "pass {p} {} ;; ok {} src={src}", rep.before, rep.after).unwrap(),
            Some(Err(e)) => { eprintln!("sv_c07: {e}"); continue; }
            None => {
                // the dumper itself may be what panicked (missing label); give the input text
                let before = guarded(|| ao::text(&ops)).unwrap_or_else(|| text.to_string());
                writeln!(out, "pass {p} {before} ;; panic src={src}").unwrap()
            }
        }
        n += 1;
    }
    if rounds {
        for (lvl, p) in [(0, "optimize0"), (1, "optimize1")] {
            if let Some(Ok(rep)) = guarded(|| ao::run_pass(p, &ops)) {
                writeln!(out, "round {lvl} {} ;; ok {} src={src}", rep.before, rep.after).unwrap();
                n += 1;
            }
        }
    }
    n
}

// ------------------------------------------------------------------------------------------------
// whole programs

fn digest(parts: &[String]) -> String {
    let mut h = Sha256::new();
    for p in parts { h.update(p.as_bytes()); h.update([0u8]); }
    hex::encode(&h.finalize()[..8])
}

/// `--child <dir> <debug|release> <outfile>`
fn child_main(dir: &str, profile: &str, outfile: &str) {
    quiet_panics();
    let mut out = String::new();
    match guarded(|| swayrun::build_and_test(Path::new(dir), profile == "release")) {
        Some(Ok((tests, _))) => {
            for t in tests {
                let logs: Vec<String> = t.logs.iter().map(|l| match l {
                    swayrun::Log::Word { val, id } => format!("w{val}:{id}"),
                    swayrun::Log::Data { id, data } => format!("d{id}:{}", hex::encode(data)),
                }).collect();
                let panic = t.panic.clone().unwrap_or_else(|| "-".into());
                if std::env::var("VERIF_C07_SHOWLOGS").map(|n| n == t.name).unwrap_or(false) {
                    eprintln!("{} state={} panic={panic} logs={}", t.name, t.state, logs.join(" "));
                }
                let d = digest(&[t.state.clone(), panic.clone(), logs.join(",")]);
                out.push_str(&format!("t {} {d} {} {} {} {}\n", t.name.replace(' ', "_"), t.state, panic.replace(' ', "_"), t.logs.len(), t.passed as u8));
            }
            out.push_str("done\n");
        }
        Some(Err(e)) => {
            if std::env::var("VERIF_C07_VERBOSE").is_ok() {
                // show the compiler's diagnostics
                let mut o = swayrun::test_opts(Path::new(dir), profile == "release");
                o.pkg.terse = false;
                o.no_output = false;
                let _ = forc_test::build(o);
            }
            let msg = format!("{e:#}");
            out.push_str(&format!("builderr {}\n", digest(&[msg])));
        }
        None => out.push_str("childpanic\n"),
    }
    std::fs::write(outfile, out).unwrap();
}

struct Pkg {
    name: String,
    /// directory holding Forc.toml + src (a template that is copied per build)
    template: PathBuf,
}

fn copy_dir(from: &Path, to: &Path) -> std::io::Result<()> {
    std::fs::create_dir_all(to)?;
    for e in std::fs::read_dir(from)? {
        let e = e?;
        let (p, q) = (e.path(), to.join(e.file_name()));
        if p.is_dir() {
            if e.file_name() != "out" { copy_dir(&p, &q)?; }
        } else if e.file_name() != "Forc.lock" {
            std::fs::copy(&p, &q)?;
        }
    }
    Ok(())
}

/// copy of an in-language test package with the std path made absolute
fn std_pkg_template(name: &str, scratch: &Path) -> Option<Pkg> {
    let src = Path::new(STD_TESTS).join(name);
    let toml = std::fs::read_to_string(src.join("Forc.toml")).ok()?;
    let dst = scratch.join(format!("tmpl-{name}"));
    copy_dir(&src, &dst).ok()?;
    let toml = toml.replace("../../../../../sway-lib-std", swayrun::STD_PATH);
    std::fs::write(dst.join("Forc.toml"), toml).ok()?;
    Some(Pkg { name: name.to_string(), template: dst })
}

fn src_pkg_template(name: &str, src: &str, scratch: &Path) -> Option<Pkg> {
    let dst = scratch.join(format!("tmpl-{name}"));
    swayrun::write_pkg(&dst, name, src, true, "").ok()?;
    Some(Pkg { name: name.to_string(), template: dst })
}

struct Job {
    pkg: usize,
    profile: &'static str,
    opt: bool,
    dir: PathBuf,
    outfile: PathBuf,
    dump: Option<PathBuf>,
}

enum JobResult { Tests(BTreeMap<String, Vec<String>>), BuildErr(String), Failed(String) }

fn read_result(f: &Path) -> JobResult {
    let Ok(s) = std::fs::read_to_string(f) else { return JobResult::Failed("no-output".into()) };
    let mut tests = BTreeMap::new();
    let mut done = false;
    for l in s.lines() {
        let t: Vec<&str> = l.split(' ').collect();
        match t[0] {
            "t" if t.len() >= 7 => { tests.insert(t[1].to_string(), t[2..].iter().map(|x| x.to_string()).collect()); }
            "done" => done = true,
            "builderr" => return JobResult::BuildErr(t.get(1).unwrap_or(&"?").to_string()),
            _ => return JobResult::Failed(l.to_string()),
        }
    }
    if done { JobResult::Tests(tests) } else { JobResult::Failed("truncated".into()) }
}

/// `deadline`: no new child is started after it (the package is then skipped, never reported), so
/// that a loaded machine shrinks the sample instead of running into the check's timeout.
fn run_jobs(jobs: &[Job], parallel: usize, timeout: Duration, deadline: Instant) -> Vec<JobResult> {
    let exe = std::env::current_exe().unwrap();
    let mut results: Vec<Option<JobResult>> = jobs.iter().map(|_| None).collect();
    let mut running: Vec<(usize, Child, Instant)> = vec![];
    let mut next = 0;
    while next < jobs.len() || !running.is_empty() {
        while running.len() < parallel && next < jobs.len() {
            if Instant::now() > deadline {
                results[next] = Some(JobResult::Failed("time budget exhausted".into()));
                next += 1;
                continue;
            }
            let j = &jobs[next];
            let mut c = Command::new(&exe);
            c.arg("--child").arg(&j.dir).arg(j.profile).arg(&j.outfile).stdout(Stdio::null()).stderr(Stdio::null());
            c.env_remove("SWAY_VERIF_NO_ASM_OPT").env_remove("SWAY_VERIF_ASMOPT_DUMP").env_remove("SWAY_VERIF_DUMP");
            if !j.opt { c.env("SWAY_VERIF_NO_ASM_OPT", "1"); }
            if let Some(d) = &j.dump { c.env("SWAY_VERIF_ASMOPT_DUMP", d).env("SWAY_VERIF_ASMOPT_DUMP_EVERY", "3"); }
            match c.spawn() {
                Ok(ch) => running.push((next, ch, Instant::now())),
                Err(e) => results[next] = Some(JobResult::Failed(format!("spawn:{e}"))),
            }
            next += 1;
        }
        let mut i = 0;
        while i < running.len() {
            let (ix, ch, t0) = &mut running[i];
            match ch.try_wait() {
                Ok(Some(st)) => {
                    results[*ix] = Some(if st.success() { read_result(&jobs[*ix].outfile) } else { JobResult::Failed(format!("exit:{st}")) });
                    running.swap_remove(i);
                }
                Ok(None) if t0.elapsed() > timeout => {
                    let _ = ch.kill();
                    let _ = ch.wait();
                    results[*ix] = Some(JobResult::Failed("timeout".into()));
                    running.swap_remove(i);
                }
                Ok(None) => i += 1,
                Err(e) => { results[*ix] = Some(JobResult::Failed(format!("wait:{e}"))); running.swap_remove(i); }
            }
        }
        std::thread::sleep(Duration::from_millis(40));
    }
    results.into_iter().map(|r| r.unwrap_or(JobResult::Failed("lost".into()))).collect()
}

fn prog_lines(out: &mut impl Write, pkgs: &[Pkg], scratch: &Path, profiles: &[&'static str], parallel: usize, dump: &Path, deadline: Instant) -> usize {
    let mut jobs = vec![];
    for (pi, p) in pkgs.iter().enumerate() {
        for prof in profiles {
            for opt in [true, false] {
                let dir = scratch.join(format!("b-{}-{prof}-{}", p.name, if opt { "opt" } else { "noopt" }));
                if copy_dir(&p.template, &dir).is_err() { continue; }
                let outfile = dir.join("child.out");
                // harvest op lists from the optimised debug build only (release repeats them ~20x)
                let dump = (opt && *prof == "debug").then(|| dump.to_path_buf());
                jobs.push(Job { pkg: pi, profile: prof, opt, dir, outfile, dump });
            }
        }
    }
    let timeout = Duration::from_secs(std::env::var("VERIF_C07_TIMEOUT").ok().and_then(|s| s.parse().ok()).unwrap_or(700));
    let res = run_jobs(&jobs, parallel, timeout, deadline);
    let mut n = 0;
    // pair up opt / noopt
    let mut k = 0;
    while k + 1 < jobs.len() {
        let (a, b) = (&jobs[k], &jobs[k + 1]);
        if a.pkg != b.pkg || a.profile != b.profile || !a.opt || b.opt { k += 1; continue; }
        let name = &pkgs[a.pkg].name;
        match (&res[k], &res[k + 1]) {
            (JobResult::Failed(x), _) | (_, JobResult::Failed(x)) => eprintln!("sv_c07: package {name} {} skipped: {x}", a.profile),
            (JobResult::Tests(to), JobResult::Tests(tn)) => {
                let names: std::collections::BTreeSet<&String> = to.keys().chain(tn.keys()).collect();
                for t in names {
                    let d = |m: &BTreeMap<String, Vec<String>>| m.get(t).map(|v| v[0].clone()).unwrap_or_else(|| "missing".into());
                    let info = to.get(t).or(tn.get(t)).cloned().unwrap_or_default();
                    let g = |i: usize| info.get(i).cloned().unwrap_or_else(|| "?".into());
                    writeln!(out, "prog {name} {t} {} ;; vm opt={} noopt={} state={} panic={} nlogs={} passed={}", a.profile, d(to), d(tn), g(1), g(2), g(3), g(4)).unwrap();
                    n += 1;
                }
            }
            (x, y) => {
                let s = |r: &JobResult| match r { JobResult::BuildErr(h) => format!("builderr:{h}"), _ => "built".into() };
                writeln!(out, "prog {name} @build {} ;; vm opt={} noopt={} state=builderr panic=- nlogs=0 passed=0", a.profile, s(x), s(y)).unwrap();
                n += 1;
            }
        }
        k += 2;
    }
    n
}

fn harvest_lines(out: &mut impl Write, dump: &Path, r: &mut Rng, max_lines: usize) -> usize {
    let mut files: Vec<PathBuf> = std::fs::read_dir(dump).map(|d| d.filter_map(|e| e.ok().map(|e| e.path())).collect()).unwrap_or_default();
    files.sort();
    // deterministic shuffle
    for i in (1..files.len()).rev() { let j = r.below(i as u64 + 1) as usize; files.swap(i, j); }
    let mut n = 0;
    let mut seen = std::collections::HashSet::new();
    for f in files {
        if n >= max_lines { break; }
        let Ok(s) = std::fs::read_to_string(&f) else { continue };
        for l in s.lines() {
            let t: Vec<&str> = l.split(' ').collect();
            if t.len() != 4 || t[0] != "pass" || !MODEL_PASSES.contains(&t[1]) { continue; }
            // skip exact repeats and the (very common) trivial identity on tiny lists
            if !seen.insert(digest(&[t[1].to_string(), t[2].to_string()])) { continue; }
            writeln!(out, "pass {} {} ;; ok {} src=harvest", t[1], t[2], t[3]).unwrap();
            n += 1;
        }
    }
    n
}

fn main() {
    let argv: Vec<String> = std::env::args().collect();
    if argv.len() == 5 && argv[1] == "--child" {
        child_main(&argv[2], &argv[3], &argv[4]);
        return;
    }
    quiet_panics();
    let t_start = Instant::now();
    let a = args();
    let tier = std::env::var("VERIF_TIER").unwrap_or_else(|_| "quick".into());
    let thorough = tier == "thorough";
    let mut r = Rng::new(seed_from_env());
    let mut out = std::io::BufWriter::new(std::fs::File::create(&a.out).unwrap());
    let scratch = swayrun::scratch_dir("c07");
    let dump = scratch.join("dump");
    let _ = std::fs::create_dir_all(&dump);
    let no_progs = a.extra.iter().any(|x| x == "--no-progs");
    let only_progs = a.extra.iter().any(|x| x == "--only-progs");

    // corpus first
    let mut pkgs: Vec<Pkg> = vec![];
    let mut n_kernel = 0;
    if let Some(c) = &a.corpus {
        for l in std::fs::read_to_string(c).unwrap_or_default().lines() {
            let l = l.trim();
            if l.is_empty() || l.starts_with('#') { continue; }
            let (k, v) = l.split_once(' ').unwrap_or((l, ""));
            match k {
                "ops" if !only_progs => n_kernel += pass_lines(&mut out, v.trim(), "corpus", true),
                "addrops" if !only_progs => n_kernel += addr_lines(&mut out, v.trim(), "corpus"),
                "pkg" => if let Some(p) = std_pkg_template(v.trim(), &scratch) { pkgs.push(p) },
                "swfile" => {
                    let path = Path::new("/verif/corpus").join(v.trim());
                    if let Ok(src) = std::fs::read_to_string(&path) {
                        let name = path.file_stem().map(|s| s.to_string_lossy().to_string()).unwrap_or_else(|| "swfile".into());
                        if let Some(p) = src_pkg_template(&name, &src, &scratch) { pkgs.push(p) }
                    }
                }
                _ => {}
            }
        }
    }

    // synthetic op lists
    if !only_progs {
        for _ in 0..a.n {
            let text = gen_ops(&mut r);
            n_kernel += pass_lines(&mut out, &text, "syn", true);
        }
        // address arithmetic through the two unmodelled passes (executed by the driver)
        for _ in 0..(2 * a.n) {
            let text = gen_addr_ops(&mut r);
            n_kernel += addr_lines(&mut out, &text, "syn");
        }
    }

    // whole programs
    let mut n_prog = 0;
    let mut n_harvest = 0;
    if !no_progs {
        let mut all: Vec<String> = std::fs::read_dir(STD_TESTS).map(|d| d.filter_map(|e| e.ok()).filter(|e| e.path().join("Forc.toml").exists())
            .map(|e| e.file_name().to_string_lossy().to_string()).collect()).unwrap_or_default();
        all.sort();
        all.retain(|n| !pkgs.iter().any(|p| &p.name == n));
        let want = if thorough { all.len() } else { std::env::var("VERIF_C07_PKGS").ok().and_then(|s| s.parse().ok()).unwrap_or(1) };
        for i in (1..all.len()).rev() { let j = r.below(i as u64 + 1) as usize; all.swap(i, j); }
        for n in all.iter().take(want) { if let Some(p) = std_pkg_template(n, &scratch) { pkgs.push(p) } }
        // generated packages (random well-typed programs: loops, structs, arrays, constant indices);
        // small ones, so that a program the compiler rejects costs one package only
        let no_gen = a.extra.iter().any(|x| x == "--no-gen");
        let gens = if no_gen { 0 } else if thorough { 12 } else { 2 };
        let per = 10;
        for g in 0..gens {
            let mut src = proggen::package_prelude();
            for k in 0..per { src.push_str(&proggen::gen_plain_program(&mut r, g * per + k).to_sw()); }
            if let Some(p) = src_pkg_template(&format!("c07gen{g}"), &src, &scratch) { pkgs.push(p) }
        }
        let pws = if no_gen { 0 } else if thorough { 4 } else { 1 };
        for g in 0..pws {
            let src = gen_ptrwalk_pkg(&mut r, if thorough { 24 } else { 14 });
            if let Some(p) = src_pkg_template(&format!("c07ptr{g}"), &src, &scratch) { pkgs.insert(pkgs.len().min(4), p) }
        }
        let parallel = std::env::var("VERIF_C07_JOBS").ok().and_then(|s| s.parse().ok()).unwrap_or(6);
        // time budget for starting child builds (a started child may still take VERIF_C07_TIMEOUT)
        let budget = std::env::var("VERIF_C07_BUDGET_S").ok().and_then(|s| s.parse().ok()).unwrap_or(if thorough { 1500 } else { 150 });
        let deadline = t_start + Duration::from_secs(budget);
        n_prog = prog_lines(&mut out, &pkgs, &scratch, &["debug", "release"], parallel, &dump, deadline);
        if !only_progs {
            n_harvest = harvest_lines(&mut out, &dump, &mut r, if thorough { 6 * a.n } else { 2 * a.n });
        }
    }
    out.flush().unwrap();
    eprintln!("sv_c07: kernel={n_kernel} harvest={n_harvest} prog={n_prog} packages={}", pkgs.len());
    if std::env::var("VERIF_C07_KEEP").is_err() { let _ = std::fs::remove_dir_all(&scratch); }
}
