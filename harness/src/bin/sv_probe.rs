//! Smoke test of the Sway-on-VM runner.
use svharness::swayrun::*;
fn main() {
    let d = scratch_dir("probe");
    let src = r#"library;
#[test]
fn t_add() { let a: u64 = 40; let b: u64 = 2; log(a + b); }
#[test(should_revert)]
fn t_ovf() { let a: u8 = 255; let b: u8 = 1; log(a + b); }
#[test]
fn t_enc() { let v: (u8, bool, u64) = (7u8, true, 9u64); log(v); }
"#;
    write_pkg(&d, "probe", src, true, "").unwrap();
    let t0 = std::time::Instant::now();
    for release in [false, true] {
        match build_and_test(&d, release) {
            Ok((outs, _)) => for o in outs { println!("release={release} {:?}", o); },
            Err(e) => println!("ERR {e:#}"),
        }
        println!("elapsed {:?}", t0.elapsed());
    }
    let _ = std::fs::remove_dir_all(&d);
}
