fn main() { println!("svharness ok"); }
