//! C08: drives the real register allocator of sway-core (through `sway_core::verif_hooks::regalloc`).
//!
//! Lines:
//! * `alloc <ops> ;; status=<ok|err|panic> K=<pool> stages=<ok|panic> live=<..> edges=<..> cops=<..> clive=<..> cedges=<..>
//!   final=<ops> assign=<v=k,..> spilled=<rounds> dc=<0|1> src=<syn|harvest|corpus>`
//!   every stage of `allocate_registers::try_color` on `<ops>` and the whole `allocate_registers`.
//! * `slots <locals> <regs> ;; ok <v=off,..>`          the real `spill_offsets`
//! * `assign <nodes> <edges> <stack> ;; ok <v=k,..> | err`   the real `assign_registers` on an arbitrary graph/stack
//! * `vm <package> <test> ;; pass|fail|builderr`      generated Sway functions (high register pressure; loops that shift/rotate/swap
//!   loop-carried values) compiled in release mode and run on the real VM
//!
//! Op lists come from (a) the corpus file, (b) real compilations harvested with SWAY_VERIF_DUMP
//! (generated packages and a few e2e test programs), (c) a random generator of op lists with
//! realistic def/use shapes, loops, moves and up to ~70 simultaneously live values.
use std::io::Write;
use svharness::{proto::*, rng::*, swayrun};
use sway_core::verif_hooks::regalloc as ra;

// ------------------------------------------------------------------------------------------------
// synthetic op lists

struct Gen<'a> {
    r: &'a mut Rng,
    ops: Vec<String>,
    nregs: usize,
    /// registers defined so far
    defined: Vec<usize>,
}

impl Gen<'_> {
    fn fresh(&mut self) -> usize {
        self.nregs += 1;
        self.nregs - 1
    }
    fn some_defined(&mut self) -> Option<usize> {
        if self.defined.is_empty() { None } else { Some(*self.r.pick(&self.defined)) }
    }
    /// a register to read: mostly recent ones, sometimes any
    fn pick_use(&mut self) -> String {
        if self.defined.is_empty() || self.r.chance(1, 12) {
            return format!("c{}", *self.r.pick(&[0usize, 1, 20, 21, 22]));
        }
        let n = self.defined.len();
        let k = if self.r.chance(2, 3) { n - 1 - self.r.below(n.min(6) as u64) as usize } else { self.r.below(n as u64) as usize };
        format!("v{}", self.defined[k])
    }
    fn def_target(&mut self, redefine_pct: u64) -> usize {
        if !self.defined.is_empty() && self.r.chance(redefine_pct, 100) {
            self.some_defined().unwrap()
        } else {
            let f = self.fresh();
            self.defined.push(f);
            f
        }
    }
    fn body_op(&mut self, redefine_pct: u64) {
        match self.r.below(20) {
            0..=6 => {
                let (a, b) = (self.pick_use(), self.pick_use());
                let d = self.def_target(redefine_pct);
                let mn = *self.r.pick(&["ADD", "SUB", "MUL", "LT", "EQ"]);
                self.ops.push(format!("other.{mn}:v{d}:{a},{b}"));
            }
            7..=9 => {
                // MOVE, sometimes from a constant register, sometimes onto an existing register
                let s = self.pick_use();
                let d = self.def_target(redefine_pct + 10);
                self.ops.push(format!("move:v{d}:{s}"));
            }
            10 | 11 => {
                let d = self.def_target(redefine_pct);
                let imm = self.r.below(1000);
                self.ops.push(format!("other.MOVI.{imm}:v{d}:-"));
            }
            12 | 13 => {
                let a = self.pick_use();
                let d = self.def_target(redefine_pct);
                let imm = self.r.below(64);
                self.ops.push(format!("other.LW.{imm}:v{d}:{a}"));
            }
            14 | 15 => {
                let (a, b) = (self.pick_use(), self.pick_use());
                self.ops.push(format!("other.SW.{}:-:{a},{b}", self.r.below(64)));
            }
            16 => {
                let a = self.pick_use();
                let d = self.def_target(redefine_pct);
                self.ops.push(format!("other.NOT:v{d}:{a}"));
            }
            17 => {
                // two definitions, the second one usually dead
                let a = self.pick_use();
                let d1 = self.def_target(0);
                let d2 = self.fresh();
                if self.r.chance(1, 3) { self.defined.push(d2); }
                self.ops.push(format!("other.SRW:v{d1},v{d2}:{a}"));
            }
            18 => {
                let (a, b, c, d) = (self.pick_use(), self.pick_use(), self.pick_use(), self.pick_use());
                self.ops.push(format!("other.LOG:-:{a},{b},{c},{d}"));
            }
            _ => {
                let l = 900 + self.r.below(5);
                self.ops.push(format!("call.{l}:-:-"));
            }
        }
    }
}

/// `pressure` = number of values kept live until the end of the function.
fn gen_ops(r: &mut Rng, pressure: usize, blocks: usize, per_block: usize) -> String {
    let locals = 8 * r.below(6) + if r.chance(1, 4) { r.below(8) } else { 0 };
    let mut g = Gen { r, ops: vec![], nregs: 0, defined: vec![] };
    g.ops.push("label.0:-:-".into());
    g.ops.push(format!("other.CFEI.{locals}:c5:c5"));
    g.ops.push("move:c20:c5".into());
    // values that stay live to the end
    let mut keep = vec![];
    for i in 0..pressure {
        let d = g.fresh();
        g.defined.push(d);
        keep.push(d);
        if i % 3 == 0 {
            g.ops.push(format!("other.MOVI.{}:v{d}:-", i));
        } else if i % 3 == 1 {
            let a = g.pick_use();
            g.ops.push(format!("other.LW.{}:v{d}:{a}", i % 60));
        } else {
            let (a, b) = (g.pick_use(), g.pick_use());
            g.ops.push(format!("other.ADD:v{d}:{a},{b}"));
        }
    }
    let redefine = *g.r.pick(&[0u64, 5, 25]);
    for b in 1..=blocks {
        g.ops.push(format!("label.{b}:-:-"));
        let n = 1 + g.r.below(per_block as u64 + 1);
        for _ in 0..n {
            g.body_op(redefine);
        }
        // block end
        match g.r.below(6) {
            0 | 1 => {
                let c = g.pick_use();
                let t = 1 + g.r.below(blocks as u64 + 1); // may be the exit label blocks+1
                g.ops.push(format!("jnz.{t}:-:{c}"));
            }
            2 => {
                let t = b as u64 + 1 + g.r.below((blocks - b) as u64 + 1);
                g.ops.push(format!("jump.{t}:-:-"));
            }
            _ => {}
        }
    }
    g.ops.push(format!("label.{}:-:-", blocks + 1));
    // consume the kept values (and a few others) so that they are live throughout
    let acc = g.fresh();
    g.ops.push(format!("other.MOVI.0:v{acc}:-"));
    let mut tail: Vec<usize> = keep.clone();
    for _ in 0..g.r.below(4) {
        if let Some(d) = g.some_defined() { tail.push(d); }
    }
    for v in tail {
        g.ops.push(format!("other.ADD:v{acc}:v{acc},v{v}"));
    }
    g.ops.push(format!("move:c18:v{acc}"));
    g.ops.push(format!("other.CFSI.{locals}:c5:c5"));
    match g.r.below(4) {
        0 => g.ops.push(format!("rvrt:-:v{acc}")),
        1 => g.ops.push("jmpaddr:-:c17".into()),
        _ => g.ops.push("retcall:-:c0,c17".into()),
    }
    g.ops.join("|")
}


/// Loops that shift / rotate / swap loop-carried values through MOVEs at the back edge, and moves
/// whose source (or destination) is redefined while the other end stays live: the shapes where the
/// two ends of a coalescing candidate interfere in ONE direction only (`src→dst` or `dst→src`).
fn gen_rotate(r: &mut Rng) -> String {
    let locals = 8 * r.below(4);
    let mut g = Gen { r, ops: vec![], nregs: 0, defined: vec![] };
    g.ops.push("label.0:-:-".into());
    g.ops.push(format!("other.CFEI.{locals}:c5:c5"));
    g.ops.push("move:c20:c5".into());
    // background pressure: none, moderate, or close to / beyond the pool (Briggs/George decide)
    let pressure = match g.r.below(5) { 0 | 1 => 0, 2 => 5 + g.r.below(10), 3 => 28 + g.r.below(8), _ => 36 + g.r.below(14) } as usize;
    let mut keep = vec![];
    for i in 0..pressure {
        let d = g.fresh();
        keep.push(d);
        g.ops.push(format!("other.MOVI.{i}:v{d}:-"));
    }
    let nloops = 1 + g.r.below(2);
    let mut carried_all = vec![];
    for lp in 0..nloops {
        let k = 2 + g.r.below(3) as usize;
        let mut c: Vec<usize> = (0..k).map(|_| g.fresh()).collect();
        // definition order decides which direction the initial edges have
        let mut order: Vec<usize> = (0..k).collect();
        for i in (1..k).rev() { let j = g.r.below(i as u64 + 1) as usize; order.swap(i, j); }
        for &i in &order {
            if g.r.chance(1, 2) { g.ops.push(format!("other.MOVI.{}:v{}:-", i + 1, c[i])); }
            else { g.ops.push(format!("other.LW.{}:v{}:c20", i, c[i])); }
        }
        let n = g.fresh();
        g.ops.push(format!("other.MOVI.{}:v{n}:-", 3 + lp));
        let head = 10 + lp;
        g.ops.push(format!("label.{head}:-:-"));
        let nvar = 1 + g.r.below(2);
        for _ in 0..nvar {
            match g.r.below(6) {
                0 | 1 => {
                    // fib-like shift: t = c0 + c1; c0 = c1; c1 = c2; …; c[k-1] = t
                    let t = g.fresh();
                    g.ops.push(format!("other.ADD:v{t}:v{},v{}", c[0], c[1]));
                    for i in 0..k - 1 { g.ops.push(format!("move:v{}:v{}", c[i], c[i + 1])); }
                    g.ops.push(format!("move:v{}:v{t}", c[k - 1]));
                }
                2 => {
                    // rotation through a temporary
                    let t = g.fresh();
                    g.ops.push(format!("move:v{t}:v{}", c[0]));
                    for i in 0..k - 1 { g.ops.push(format!("move:v{}:v{}", c[i], c[i + 1])); }
                    g.ops.push(format!("move:v{}:v{t}", c[k - 1]));
                }
                3 => {
                    // swap of two of them through a temporary
                    let t = g.fresh();
                    let (a, b) = (c[0], c[k - 1]);
                    g.ops.push(format!("move:v{t}:v{a}"));
                    g.ops.push(format!("move:v{a}:v{b}"));
                    g.ops.push(format!("move:v{b}:v{t}"));
                }
                4 => {
                    // copy, then the SOURCE is redefined while the copy is still live
                    let d = g.fresh();
                    let s0 = c[g.r.below(k as u64) as usize];
                    g.ops.push(format!("move:v{d}:v{s0}"));
                    if g.r.chance(1, 2) { g.ops.push(format!("other.SW.1:-:c20,v{d}")); }
                    if g.r.chance(1, 2) { g.ops.push(format!("other.ADDI.1:v{s0}:v{s0}")); }
                    else { g.ops.push(format!("other.MOVI.9:v{s0}:-")); }
                    g.ops.push(format!("other.SW.2:-:c20,v{d}"));
                    c.push(d);
                }
                _ => {
                    // copy, then the DESTINATION is redefined while the source is still live
                    let d = g.fresh();
                    let s0 = c[g.r.below(k as u64) as usize];
                    g.ops.push(format!("move:v{d}:v{s0}"));
                    g.ops.push(format!("other.ADDI.1:v{d}:v{d}"));
                    g.ops.push(format!("other.SW.3:-:v{s0},v{d}"));
                }
            }
            if g.r.chance(1, 3) {
                g.defined = c.clone();
                g.body_op(0);
            }
        }
        g.ops.push(format!("other.ADDI.1:v{n}:v{n}"));
        g.ops.push(format!("jnz.{head}:-:v{n}"));
        carried_all.extend(c);
    }
    let acc = g.fresh();
    g.ops.push(format!("other.MOVI.0:v{acc}:-"));
    for v in carried_all.iter().chain(keep.iter()) {
        g.ops.push(format!("other.ADD:v{acc}:v{acc},v{v}"));
    }
    g.ops.push(format!("move:c18:v{acc}"));
    g.ops.push(format!("other.CFSI.{locals}:c5:c5"));
    g.ops.push("retcall:-:c0,c17".into());
    g.ops.join("|")
}

/// Release-profile Sway functions whose loops shift, rotate and swap loop-carried values
/// (block-argument MOVEs after mem2reg); each `#[test]` asserts the value computed here.
fn loops_pkg(r: &mut Rng) -> String {
    let mut s = String::from("library;\n");
    s += "#[inline(never)]\nfn fib(n: u64) -> u64 { let mut a = 0; let mut b = 1; let mut i = 0; while i < n { let t = a + b; a = b; b = t; i = i + 1; } a }\n";
    s += "#[inline(never)]\nfn trib(n: u64, x: u64) -> u64 { let mut a = x; let mut b = 1; let mut c = 2; let mut i = 0; while i < n { let t = a + b + c; a = b; b = c; c = t; i = i + 1; } a + 3 * b + 7 * c }\n";
    s += "#[inline(never)]\nfn rot3(n: u64, x: u64, y: u64, z: u64) -> u64 { let mut a = x; let mut b = y; let mut c = z; let mut i = 0; while i < n { let t = a; a = b; b = c; c = t + i; i = i + 1; } a * 1000003 + b * 1009 + c }\n";
    s += "#[inline(never)]\nfn rot4(n: u64, x: u64, y: u64) -> u64 { let mut a = x; let mut b = y; let mut c = x + y; let mut d = x * y; let mut i = 0; while i < n { let t = d; d = c; c = b; b = a; a = t ^ i; i = i + 1; } a + 31 * b + 961 * c + 29791 * d }\n";
    s += "#[inline(never)]\nfn gcd(x: u64, y: u64) -> u64 { let mut a = x; let mut b = y; while b != 0 { let t = b; b = a % b; a = t; } a }\n";
    s += "#[inline(never)]\nfn swapn(n: u64, x: u64, y: u64) -> u64 { let mut a = x; let mut b = y; let mut i = 0; while i < n { let t = a; a = b; b = t + 1; i = i + 1; } a * 1000 + b }\n";
    let fib = |n: u64| { let (mut a, mut b) = (0u64, 1u64); for _ in 0..n { let t = a + b; a = b; b = t; } a };
    let trib = |n: u64, x: u64| { let (mut a, mut b, mut c) = (x, 1u64, 2u64); for _ in 0..n { let t = a + b + c; a = b; b = c; c = t; } a + 3 * b + 7 * c };
    let rot3 = |n: u64, x: u64, y: u64, z: u64| { let (mut a, mut b, mut c) = (x, y, z); for i in 0..n { let t = a; a = b; b = c; c = t + i; } a * 1000003 + b * 1009 + c };
    let rot4 = |n: u64, x: u64, y: u64| { let (mut a, mut b, mut c, mut d) = (x, y, x + y, x * y); for i in 0..n { let t = d; d = c; c = b; b = a; a = t ^ i; } a + 31 * b + 961 * c + 29791 * d };
    let gcd = |x: u64, y: u64| { let (mut a, mut b) = (x, y); while b != 0 { let t = b; b = a % b; a = t; } a };
    let swapn = |n: u64, x: u64, y: u64| { let (mut a, mut b) = (x, y); for _ in 0..n { let t = a; a = b; b = t + 1; } a * 1000 + b };
    let n1 = 5 + r.below(40);
    s += &format!("#[test]\nfn t_fib() {{ assert(fib({n1}) == {}); }}\n", fib(n1));
    let (n2, x2) = (3 + r.below(25), r.below(9));
    s += &format!("#[test]\nfn t_trib() {{ assert(trib({n2}, {x2}) == {}); }}\n", trib(n2, x2));
    let (n3, x3, y3, z3) = (1 + r.below(20), r.below(90), r.below(90), r.below(90));
    s += &format!("#[test]\nfn t_rot3() {{ assert(rot3({n3}, {x3}, {y3}, {z3}) == {}); }}\n", rot3(n3, x3, y3, z3));
    let (n4, x4, y4) = (1 + r.below(20), 1 + r.below(90), 1 + r.below(90));
    s += &format!("#[test]\nfn t_rot4() {{ assert(rot4({n4}, {x4}, {y4}) == {}); }}\n", rot4(n4, x4, y4));
    let (x5, y5) = (1 + r.below(100000), 1 + r.below(100000));
    s += &format!("#[test]\nfn t_gcd() {{ assert(gcd({x5}, {y5}) == {}); }}\n", gcd(x5, y5));
    let (n6, x6, y6) = (1 + r.below(30), r.below(900), r.below(900));
    s += &format!("#[test]\nfn t_swapn() {{ assert(swapn({n6}, {x6}, {y6}) == {}); }}\n", swapn(n6, x6, y6));
    s
}

// ------------------------------------------------------------------------------------------------
// harvested op lists + VM runs

/// A Sway library whose functions keep `width` values live at once; each `#[test]` asserts the value
/// computed here with the same arithmetic.
fn pressure_pkg(r: &mut Rng, funcs: usize, width: usize) -> String {
    const M: u64 = 1_000_003;
    let mut s = String::from("library;\n");
    for f in 0..funcs {
        let (a, b) = (2 + r.below(50), 3 + r.below(50));
        let mut vals: Vec<u64> = vec![];
        let mut body = String::new();
        for i in 0..width {
            let k = 1 + r.below(97);
            let (expr, val) = if i < 2 {
                (format!("(a * {k} + b + {i}) % {M}"), (a * k + b + i as u64) % M)
            } else {
                let (p, q) = (r.below(i as u64) as usize, r.below(i as u64) as usize);
                match r.below(3) {
                    0 => (format!("(x{p} * {k} + x{q}) % {M}"), (vals[p] * k + vals[q]) % M),
                    1 => (format!("(x{p} + x{q} * {k} + a) % {M}"), (vals[p] + vals[q] * k + a) % M),
                    _ => (format!("(x{p} ^ x{q}) + {k}"), (vals[p] ^ vals[q]) + k),
                }
            };
            body += &format!("    let x{i}: u64 = {expr};\n");
            vals.push(val);
        }
        // a loop in the middle keeps everything live across a back edge
        body += "    let mut i = 0;\n    let mut acc: u64 = b;\n    while i < 3 {\n        acc = (acc * 7 + a + i) % 1000003;\n        i += 1;\n    }\n";
        let mut acc = b;
        for i in 0..3u64 { acc = (acc * 7 + a + i) % M; }
        let mut expr = String::from("acc");
        let mut total = acc;
        for i in 0..width {
            let k = 1 + (i as u64 % 5);
            expr += &format!(" + x{i} * {k}");
            total += vals[i] * k;
        }
        s += &format!("#[inline(never)]\nfn f{f}(a: u64, b: u64) -> u64 {{\n{body}    {expr}\n}}\n");
        s += &format!("#[test]\nfn t{f}() {{ assert(f{f}({a}, {b}) == {total}); }}\n");
    }
    s
}

const E2E: &[&str] = &["while_loops", "complex_ir_cfg", "break_and_continue", "b256_ops", "chess", "args_on_stack"];

fn read_dumps(dir: &std::path::Path, max_ops: usize, skipped: &mut usize) -> Vec<String> {
    let mut files: Vec<_> = std::fs::read_dir(dir).map(|d| d.filter_map(|e| e.ok()).map(|e| e.path()).collect()).unwrap_or_default();
    files.sort();
    let mut out = vec![];
    for f in files {
        for l in std::fs::read_to_string(&f).unwrap_or_default().lines() {
            if let Some(t) = l.strip_prefix("ops ") {
                let n = t.matches('|').count() + 1;
                if n > max_ops { *skipped += 1; continue; }
                // drop the 7th (asm) field
                let t: Vec<String> = t.split('|').map(|op| op.split(':').take(6).collect::<Vec<_>>().join(":")).collect();
                out.push(t.join("|"));
            }
        }
        let _ = std::fs::remove_file(&f);
    }
    out
}

// ------------------------------------------------------------------------------------------------

fn alloc_line(text: &str, src: &str) -> Option<String> {
    let ops = ra::OpList::from_text(text).ok()?;
    let canon = ops.text(false);
    let st = guarded(|| ra::stages(&ops));
    let al = guarded(|| ra::allocate(&ops));
    let mut res = String::new();
    match &al {
        Some(a) if a.status == "ok" => res += "status=ok",
        Some(_) => res += "status=err",
        None => res += "status=panic",
    }
    res += &format!(" K={}", ra::NUM_ALLOCATABLE_REGISTERS);
    match st {
        Some(s) => res += &format!(
            " stages=ok live={} edges={} cops={} clive={} cedges={} cmap={}",
            s.live_out, s.edges, s.coalesced_ops, s.coalesced_live_out, s.coalesced_edges, s.coalesced_map
        ),
        None => res += " stages=panic",
    }
    match al {
        Some(a) if a.status == "ok" => res += &format!(
            " pre={} rmap={} replay={} final={} assign={} spilled={} dc={}",
            if a.pre_ops == canon { "same" } else { a.pre_ops.as_str() }, a.regmap, a.replayed as u8,
            a.final_ops, a.assign, a.spilled, a.defs_consistent as u8
        ),
        _ => {}
    }
    Some(format!("alloc {canon} ;; {res} src={src}"))
}

fn main() {
    let a = args();
    quiet_panics();
    let tier_thorough = std::env::var("VERIF_TIER").map(|t| t == "thorough").unwrap_or(false);
    let mut r = Rng::new(seed_from_env());
    let mut out = std::io::BufWriter::new(std::fs::File::create(&a.out).unwrap());
    let mut cases = 0usize;

    // (1) corpus
    if let Some(c) = &a.corpus {
        for l in std::fs::read_to_string(c).unwrap_or_default().lines() {
            let l = l.trim();
            if l.is_empty() || l.starts_with('#') { continue; }
            if let Some(line) = alloc_line(l, "corpus") {
                writeln!(out, "{line}").unwrap();
                cases += 1;
            }
        }
    }

    // (2) harvest from real compilations + VM runs of high-pressure functions
    if !a.extra.iter().any(|x| x == "--no-harvest") {
        let scratch = swayrun::scratch_dir("c08");
        let dump = scratch.join("dump");
        std::fs::create_dir_all(&dump).unwrap();
        std::env::set_var("SWAY_VERIF_DUMP", &dump);
        let max_ops = if tier_thorough { 6000 } else { 1500 };
        let mut skipped = 0usize;
        let mut harvested: Vec<String> = vec![];
        let npk = if tier_thorough { 4 } else { 1 };
        for p in 0..npk {
            let dir = scratch.join(format!("press{p}"));
            let width = 44 + 8 * p;
            let src = pressure_pkg(&mut r, if tier_thorough { 4 } else { 3 }, width);
            swayrun::write_pkg(&dir, &format!("press{p}"), &src, true, "").unwrap();
            match guarded(|| swayrun::build_and_test(&dir, true)) {
                Some(Ok((outs, _))) => {
                    for o in outs {
                        writeln!(out, "vm press{p}w{width} {} ;; {}", o.name, if o.passed { "pass" } else { "fail" }).unwrap();
                        cases += 1;
                    }
                }
                other => {
                    match other {
                        Some(Err(e)) => eprintln!("sv_c08: press{p} does not build: {e:#}"),
                        _ => eprintln!("sv_c08: press{p}: the compiler panicked"),
                    }
                    writeln!(out, "vm press{p}w{width} build ;; builderr").unwrap();
                    cases += 1;
                }
            }
            harvested.extend(read_dumps(&dump, max_ops, &mut skipped));
        }
        // loops that shift / rotate / swap loop-carried values, release profile, run on the VM
        for p in 0..(if tier_thorough { 3 } else { 1 }) {
            let dir = scratch.join(format!("loops{p}"));
            let src = loops_pkg(&mut r);
            swayrun::write_pkg(&dir, &format!("loops{p}"), &src, true, "").unwrap();
            match guarded(|| swayrun::build_and_test(&dir, true)) {
                Some(Ok((outs, _))) => {
                    for o in outs {
                        writeln!(out, "vm loops{p} {} ;; {}", o.name, if o.passed { "pass" } else { "fail" }).unwrap();
                        cases += 1;
                    }
                }
                other => {
                    match other {
                        Some(Err(e)) => eprintln!("sv_c08: loops{p} does not build: {e:#}"),
                        _ => eprintln!("sv_c08: loops{p}: the compiler panicked"),
                    }
                    writeln!(out, "vm loops{p} build ;; builderr").unwrap();
                    cases += 1;
                }
            }
            harvested.extend(read_dumps(&dump, max_ops, &mut skipped));
        }
        let ne2e = if tier_thorough { E2E.len() } else { 0 };
        for k in 0..ne2e {
            let name = E2E[(k + r.below(E2E.len() as u64) as usize * (!tier_thorough as usize)) % E2E.len()];
            let srcp = format!("/repo/test/src/e2e_vm_tests/test_programs/should_pass/language/{name}/src/main.sw");
            let Ok(src) = std::fs::read_to_string(&srcp) else { continue };
            let dir = scratch.join(format!("e2e_{name}"));
            swayrun::write_pkg(&dir, name, &src, true, "").unwrap();
            let _ = guarded(|| forc_test::build(swayrun::test_opts(&dir, k % 2 == 0)).map(|_| ()));
            harvested.extend(read_dumps(&dump, max_ops, &mut skipped));
        }
        std::env::remove_var("SWAY_VERIF_DUMP");
        // std's own functions dominate: keep the biggest and a random sample of the rest
        harvested.sort_by_key(|t| std::cmp::Reverse(t.len()));
        harvested.dedup();
        let cap = if tier_thorough { 400 } else { 60 };
        let mut chosen: Vec<String> = harvested.iter().take(cap / 3).cloned().collect();
        let rest: Vec<String> = harvested.iter().skip(cap / 3).cloned().collect();
        for _ in 0..(cap - cap / 3).min(rest.len()) {
            chosen.push(r.pick(&rest).clone());
        }
        chosen.dedup();
        eprintln!("sv_c08: harvested {} op lists ({} too big), using {}", harvested.len(), skipped, chosen.len());
        for t in chosen {
            if let Some(line) = alloc_line(&t, "harvest") {
                writeln!(out, "{line}").unwrap();
                cases += 1;
            }
        }
        let _ = std::fs::remove_dir_all(&scratch);
    }

    // (3) synthetic
    while cases < a.n {
        match r.below(10) {
            0 => {
                // spill_offsets on a random set (not sorted, possibly with repeats)
                let n = r.below(20);
                let regs: Vec<usize> = (0..n).map(|_| r.below(60) as usize).collect();
                let locals = 8 * r.below(40) as u32;
                let res = guarded(|| ra::spill_offsets(&regs, locals));
                let rs = if regs.is_empty() { "-".into() } else { regs.iter().map(|k| format!("v{k}")).collect::<Vec<_>>().join(",") };
                let txt = match res {
                    Some(v) if v.is_empty() => "ok -".to_string(),
                    Some(v) => format!("ok {}", v.iter().map(|(k, o)| format!("v{k}={o}")).collect::<Vec<_>>().join(",")),
                    None => "panic".into(),
                };
                writeln!(out, "slots {locals} {rs} ;; {txt}").unwrap();
            }
            1 | 2 => {
                // assign_registers on a random graph and an arbitrary stack (any order, maybe partial, maybe repeats)
                let dense = r.chance(1, 3);
                let n = if dense { 38 + r.below(8) as usize } else { 2 + r.below(30) as usize };
                let mut edges = vec![];
                for x in 0..n { for y in 0..n {
                    if x != y && (if dense { r.chance(9, 10) } else { r.chance(1, 5) }) { edges.push((x, y)); }
                } }
                let mut stack: Vec<usize> = (0..n).collect();
                for i in (1..n).rev() { let j = r.below(i as u64 + 1) as usize; stack.swap(i, j); }
                if r.chance(1, 5) { stack.truncate(n / 2); }
                if r.chance(1, 8) { let d = stack[0]; stack.push(d); }
                let res = guarded(|| ra::assign_on_graph(n, &edges, &stack));
                let es = if edges.is_empty() { "-".into() } else { edges.iter().map(|(x, y)| format!("v{x}>v{y}")).collect::<Vec<_>>().join(",") };
                let ss = stack.iter().map(|k| format!("v{k}")).collect::<Vec<_>>().join(",");
                let txt = match res {
                    Some(Ok(v)) if v.is_empty() => "ok -".to_string(),
                    Some(Ok(v)) => format!("ok {}", v.iter().map(|(k, c)| format!("v{k}={c}")).collect::<Vec<_>>().join(",")),
                    Some(Err(_)) => "err".into(),
                    None => "panic".into(),
                };
                writeln!(out, "assign {n} {es} {ss} K={} ;; {txt}", ra::NUM_ALLOCATABLE_REGISTERS).unwrap();
            }
            3 | 4 | 5 => {
                let text = gen_rotate(&mut r);
                if let Some(line) = alloc_line(&text, "rot") { writeln!(out, "{line}").unwrap(); }
            }
            _ => {
                let pressure = match r.below(6) { 0 => 0, 1 => r.below(10), 2 => 20 + r.below(20), 3 => 36 + r.below(6), _ => 49 + r.below(22) } as usize;
                let blocks = 1 + r.below(6) as usize;
                let per_block = *r.pick(&[2usize, 6, 14]);
                let text = gen_ops(&mut r, pressure, blocks, per_block);
                if let Some(line) = alloc_line(&text, "syn") { writeln!(out, "{line}").unwrap(); }
            }
        }
        cases += 1;
    }
    out.flush().unwrap();
    eprintln!("sv_c08: {} cases", cases);
}
