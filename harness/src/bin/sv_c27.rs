//! C27: std numerics and collections on the REAL FuelVM.
//!
//! Generates Sway library packages whose `#[test]` functions each perform ONE numeric std operation
//! (operands read through `#[inline(never)]` + `asm` so nothing is constant-folded) or ONE random
//! operation sequence on `Vec<u64>` / `Bytes` / `String`, logging every observable result. The
//! packages are compiled with the real compiler against `/repo/sway-lib-std` and run on the real VM
//! through `forc-test` (see `swayrun.rs`). Protocol lines:
//!
//!   num <op> <ty> <mode> <a> <b> ;; ok <hex of all logged bytes> | revert <code>
//!   col <kind> <op> <op> ...     ;; ok <obs>... | revert <code> <obs before the revert>...
//!
//! `mode`: bit0 = `disable_panic_on_overflow()`, bit1 = `disable_panic_on_unsafe_math()` before the op.
//! Modes: `--raw FILE` (debug: run a hand-written test file), `--worker DIR` (internal).
use std::fmt::Write as _;
use std::io::Write;
use svharness::{proto::*, rng::*, swayrun::*};

// ------------------------------------------------------------------------------------------ bigint
/// little helper: unsigned big numbers as Vec<u64> limbs, most significant first, fixed 4 limbs.
#[derive(Clone, Copy, PartialEq, Eq, Debug)]
struct B([u64; 4]);
impl B {
    fn from_u64(x: u64) -> B { B([0, 0, 0, x]) }
    fn from_u128(x: u128) -> B { B([0, 0, (x >> 64) as u64, x as u64]) }
    fn hex(&self) -> String {
        let s: String = self.0.iter().map(|l| format!("{:016x}", l)).collect();
        let t = s.trim_start_matches('0');
        if t.is_empty() { "0".into() } else { t.into() }
    }
    fn parse(h: &str) -> Option<B> {
        if h.is_empty() || h.len() > 64 { return None; }
        let p = format!("{:0>64}", h);
        let mut l = [0u64; 4];
        for i in 0..4 { l[i] = u64::from_str_radix(&p[i * 16..i * 16 + 16], 16).ok()?; }
        Some(B(l))
    }
    fn bit(k: u32) -> B { let mut l = [0u64; 4]; l[3 - (k / 64) as usize] = 1u64 << (k % 64); B(l) }
    fn add(self, o: B) -> B {
        let mut r = [0u64; 4]; let mut c = 0u128;
        for i in (0..4).rev() { let s = self.0[i] as u128 + o.0[i] as u128 + c; r[i] = s as u64; c = s >> 64; }
        B(r)
    }
    fn sub(self, o: B) -> B {
        let mut r = [0u64; 4]; let mut brw = 0i128;
        for i in (0..4).rev() {
            let mut s = self.0[i] as i128 - o.0[i] as i128 - brw;
            if s < 0 { s += 1i128 << 64; brw = 1 } else { brw = 0 }
            r[i] = s as u64;
        }
        B(r)
    }
    /// truncate to `w` bits
    fn trunc(self, w: u32) -> B {
        let mut l = self.0;
        for i in 0..4 {
            let lo = (3 - i as u32) * 64; // bit index of limb i's lsb
            if lo >= w { l[i] = 0 } else if lo + 64 > w { l[i] &= (1u64 << (w - lo)) - 1 }
        }
        B(l)
    }
    fn mul_small(self, m: u64) -> B {
        let mut r = [0u64; 4]; let mut c = 0u128;
        for i in (0..4).rev() { let s = self.0[i] as u128 * m as u128 + c; r[i] = s as u64; c = s >> 64; }
        B(r)
    }
    fn sq_u128(x: u128) -> B {
        // (hi*2^64+lo)^2 fits 256 bits
        let hi = (x >> 64) as u64 as u128; let lo = x as u64 as u128;
        let ll = B::from_u128(lo * lo);
        let hl = hi * lo; // < 2^128
        let hh = hi * hi;
        // ll + (2*hl << 64) + (hh << 128)
        let hl2 = B([0, (hl >> 127) as u64, (hl >> 63) as u64, (hl << 1) as u64]); // 2*hl as 192-bit
        let hl2s = B([hl2.0[1], hl2.0[2], hl2.0[3], 0]);
        let hhs = B([(hh >> 64) as u64, hh as u64, 0, 0]);
        ll.add(hl2s).add(hhs)
    }
}

fn width(ty: &str) -> u32 { match ty { "u8" => 8, "u16" => 16, "u32" => 32, "u64" => 64, "u128" => 128, "u256" => 256, _ => 64 } }

/// boundary-biased operand of `w` bits
fn operand(r: &mut Rng, w: u32) -> B {
    let max = B([u64::MAX; 4]).trunc(w);
    let one = B::from_u64(1);
    let v = match r.below(16) {
        0 => B::from_u64(0),
        1 => one,
        2 => B::from_u64(2 + r.below(3)),
        3 => max,
        4 => max.sub(one),
        5 => B::bit(r.below(w as u64) as u32),
        6 => B::bit(r.below(w as u64) as u32).add(one),
        7 => B::bit(r.below(w as u64) as u32).sub(one),
        8 | 9 => {
            // perfect square (+-1)
            let half = (w / 2).max(1);
            let s: u128 = match r.below(4) {
                0 => if half >= 128 { u128::MAX } else { (1u128 << half) - 1 },
                1 => 1u128 << r.below(half as u64),
                _ => { let bits = 1 + r.below(half as u64) as u32; let x = ((r.next() as u128) << 64) | r.next() as u128; if bits >= 128 { x } else { x & ((1u128 << bits) - 1) } }
            };
            let q = B::sq_u128(s);
            match r.below(3) { 0 => q, 1 => q.add(one), _ => q.sub(one) }
        }
        10 => B::from_u64(r.below(20)),
        11 => B::bit(w / 2).add(B::from_u64(r.below(3))).sub(one),
        _ => {
            let bits = 1 + r.below(w as u64) as u32;
            B([r.next(), r.next(), r.next(), r.next()]).trunc(bits)
        }
    };
    v.trunc(w)
}

/// LIMB-PATTERN family: every 64-bit limb from the carry/borrow-relevant set (or random).
const LIMBS: &[u64] = &[0, 1, 2, (1 << 63) - 1, 1 << 63, (1 << 63) + 1, u64::MAX - 1, u64::MAX];
fn limb(r: &mut Rng) -> u64 { if r.chance(1, 9) { r.next() } else { *r.pick(LIMBS) } }

/// A pair of `w`-bit operands (w = 128 or 256) built limb by limb so that, in every limb position
/// independently, the per-limb sum / difference / product lands in one of the classes
/// {far from the boundary, exactly MAX (a carry/borrow coming in tips it over), exactly 2^64, beyond}.
/// All combinations over the limb positions occur: carry in low only, high only, both, and the carry
/// chain (low carry makes a high sum of MAX overflow).
fn limb_pair(r: &mut Rng, w: u32, op: &str) -> (B, B) {
    let n = (w / 64) as usize;
    let mut a = [0u64; 4];
    let mut b = [0u64; 4];
    for i in (4 - n)..4 {
        let x = limb(r);
        let y = match op {
            "sub" | "wsub" | "cmp" => match r.below(7) {
                0 => x,                      // equal limbs: the borrow decision moves to the next limb
                1 => x.wrapping_add(1),      // borrow by one (or wrap to 0 when x = MAX)
                2 => x.wrapping_sub(1),
                3 => 0,
                4 => u64::MAX,
                _ => limb(r),
            },
            "mul" | "wmul" | "div" | "mod" => match r.below(6) {
                0 => 0,
                1 => 1,
                2 => if x == 0 { u64::MAX } else { u64::MAX / x },          // product just below 2^64
                3 => if x == 0 { 1 } else { (u64::MAX / x).wrapping_add(1) }, // product just above
                _ => limb(r),
            },
            _ => match r.below(7) {
                0 => 0,
                1 => u64::MAX - x,                   // sum = MAX: overflows only with a carry in
                2 => (u64::MAX - x).wrapping_add(1), // sum = 2^64 exactly
                3 => (u64::MAX - x).wrapping_add(2),
                4 => u64::MAX,
                _ => limb(r),
            },
        };
        a[i] = x;
        b[i] = y;
    }
    // multiplication / division: mostly keep one operand short so that not everything overflows
    if matches!(op, "mul" | "wmul" | "div" | "mod") && r.chance(2, 3) {
        let keep = 1 + r.below(n as u64 - 1) as usize; // limbs kept (from the low end)
        let which = r.chance(1, 2);
        for i in (4 - n)..(4 - keep) { if which { a[i] = 0 } else { b[i] = 0 } }
        if r.chance(1, 2) { for i in (4 - n)..(4 - n + keep.min(n - 1)) { if which { b[i] = 0 } else { a[i] = 0 } } }
    }
    if r.chance(1, 2) { (B(a), B(b)) } else { (B(b), B(a)) }
}

#[derive(Clone, Debug)]
struct NumCase { op: String, ty: String, mode: u32, a: B, b: B }


fn gen_num(r: &mut Rng) -> NumCase {
    // weights: the std-implemented paths (u128, u256 pow/sqrt/log, narrow ops) get most of the budget
    let ty: &str = match r.below(20) { 0 => "u8", 1 => "u16", 2 | 3 => "u32", 4 | 5 | 6 => "u64", 7..=13 => "u128", _ => "u256" };
    let w = width(ty);
    let mut ops: Vec<&str> = vec!["add", "sub", "mul", "div", "mod", "pow", "pow", "sqrt", "sqrt", "log", "log", "log2"];
    if ty != "u128" { ops.extend(["wadd", "wsub", "wmul"]); }
    // (`u8::try_from(U128)` &c. do not resolve in this compiler version, so `TryFrom<U128>` is not driven)
    if ty == "u128" { ops.extend(["lsh", "rsh", "cmp", "add", "add", "add", "sub", "sub", "sub", "mul", "mul", "mul", "div", "div"]); }
    if ty == "u64" { ops.extend(["oadd", "omul", "try8", "try16", "try32", "tas8", "tas16", "tas32"]); }
    if ty == "u256" { ops.extend(["try8", "try16", "try32", "try64", "add", "sub", "mul"]); }
    if ty == "u32" { ops.extend(["try8", "try16", "tas8", "tas16"]); }
    if ty == "u16" { ops.extend(["try8", "tas8"]); }
    let op = *r.pick(&ops);
    let mode = if r.chance(3, 4) { 0 } else { r.below(4) as u32 };
    let mut a = operand(r, w);
    let mut b = operand(r, w);
    // ~40% of the wide binary-operation budget goes to the limb-pattern family
    let wide_binary = (ty == "u128" || ty == "u256")
        && matches!(op, "add" | "sub" | "mul" | "div" | "mod" | "wadd" | "wsub" | "wmul" | "cmp");
    let limb_family = wide_binary && r.chance(2, 5);
    if limb_family { let (x, y) = limb_pair(r, w, op); a = x; b = y; }
    match op {
        "pow" => {
            // base biased small, exponent near the overflow edge
            if r.chance(2, 3) {
                a = match r.below(8) { 0 => B::from_u64(0), 1 => B::from_u64(1), 2 => B::from_u64(2), 3 => B::from_u64(3), 4 => B::from_u64(10),
                    5 => B::bit(r.below((w / 2) as u64) as u32).add(B::from_u64(r.below(2))), 6 => B::bit(w / 2).sub(B::from_u64(r.below(2))), _ => B::from_u64(r.below(300)) }.trunc(w);
            }
            let e = match r.below(6) {
                0 => r.below(4),
                1 => { // edge: smallest e with a^e >= 2^w, +-1
                    let bits = 256 - a.0.iter().fold((0u32, true), |(z, lead), l| if lead { if *l == 0 { (z + 64, true) } else { (z + l.leading_zeros(), false) } } else { (z, false) }).0;
                    if bits <= 1 { r.below(100) } else { let e = (w as u64) / (bits as u64 - 1).max(1); (e + r.below(3)).saturating_sub(1) }
                }
                2 => r.below(70),
                3 => 1u64 << r.below(9),
                4 => (1u64 << r.below(9)) + 1,
                _ => r.below(300),
            };
            b = B::from_u64(e & 0xffff_ffff);
        }
        "log" => {
            if r.chance(3, 4) {
                b = match r.below(8) { 0 => B::from_u64(0), 1 => B::from_u64(1), 2 | 3 => B::from_u64(2), 4 => B::from_u64(3), 5 => B::from_u64(10), 6 => B::bit(r.below(w as u64) as u32), _ => B::from_u64(2 + r.below(40)) }.trunc(w);
            }
            if r.chance(1, 2) {
                // a = b^k (+-1) as far as it fits
                let k = r.below(w as u64 + 2);
                let mut p = B::from_u64(1);
                if b.0[0] == 0 && b.0[1] == 0 && b.0[2] == 0 && b.0[3] >= 2 {
                    for _ in 0..k { let q = p.mul_small(b.0[3]); if q.trunc(w) != q || q.0[0] >> 56 != 0 { break; } p = q; }
                    a = match r.below(3) { 0 => p, 1 => p.add(B::from_u64(1)), _ => p.sub(B::from_u64(1)) }.trunc(w);
                }
            }
        }
        "lsh" | "rsh" => { b = match r.below(6) { 0 => B::from_u64(0), 1 => B::from_u64(63 + r.below(3)), 2 => B::from_u64(127 + r.below(3)), 3 => operand(r, 64), _ => B::from_u64(r.below(130)) }; }
        _ if limb_family => {}
        "div" | "mod" => { if r.chance(1, 8) { b = B::from_u64(0); } else if r.chance(1, 4) { b = B::from_u64(1 + r.below(10)); } }
        "sub" => { if r.chance(1, 3) { if r.chance(1, 2) { b = a } else { b = a.add(B::from_u64(1)).trunc(w) } } }
        "add" => { if r.chance(1, 3) { let max = B([u64::MAX; 4]).trunc(w); b = max.sub(a).add(B::from_u64(r.below(3))).sub(B::from_u64(1)).trunc(w); } }
        "sqrt" | "log2" | "try8" | "try16" | "try32" | "try64" | "tas8" | "tas16" | "tas32" => { b = B::from_u64(0); }
        _ => {}
    }
    NumCase { op: op.into(), ty: ty.into(), mode, a, b }
}

fn num_case_str(c: &NumCase) -> String { format!("num {} {} {} {} {}", c.op, c.ty, c.mode, c.a.hex(), c.b.hex()) }

fn parse_num_case(t: &[&str]) -> Option<NumCase> {
    if t.len() != 6 || t[0] != "num" { return None; }
    Some(NumCase { op: t[1].into(), ty: t[2].into(), mode: t[3].parse().ok()?, a: B::parse(t[4])?, b: B::parse(t[5])? })
}

fn operand_expr(ty: &str, v: &B) -> String {
    match ty {
        "u8" => format!("o8(0x{:x})", v.0[3]),
        "u16" => format!("o16(0x{:x})", v.0[3]),
        "u32" => format!("o32(0x{:x})", v.0[3]),
        "u64" => format!("o(0x{:x})", v.0[3]),
        "u128" => format!("U128::from((o(0x{:x}), o(0x{:x})))", v.0[2], v.0[3]),
        _ => format!("o256(0x{:x}, 0x{:x}, 0x{:x}, 0x{:x})", v.0[0], v.0[1], v.0[2], v.0[3]),
    }
}

const PRELUDE: &str = r#"library;
use std::u128::U128;
use std::flags::*;
use std::bytes::Bytes;
use std::string::String;
use std::convert::TryFrom;

#[inline(never)]
fn o(x: u64) -> u64 { asm(r: x) { r: u64 } }
#[inline(never)]
fn o8(x: u64) -> u8 { asm(r: x) { r: u8 } }
#[inline(never)]
fn o16(x: u64) -> u16 { asm(r: x) { r: u16 } }
#[inline(never)]
fn o32(x: u64) -> u32 { asm(r: x) { r: u32 } }
#[inline(never)]
fn o256(a: u64, b: u64, c: u64, d: u64) -> u256 { u256::from((o(a), o(b), o(c), o(d))) }
fn b01(x: bool) -> u64 { if x { 1 } else { 0 } }
"#;

fn narrow_ty(bits: &str) -> &'static str { match bits { "8" => "u8", "16" => "u16", "32" => "u32", _ => "u64" } }

fn num_test_body(c: &NumCase) -> Option<String> {
    let mut s = String::new();
    if c.mode & 1 != 0 { s.push_str("    let _ = disable_panic_on_overflow();\n"); }
    if c.mode & 2 != 0 { s.push_str("    let _ = disable_panic_on_unsafe_math();\n"); }
    let ty = c.ty.as_str();
    let sty = if ty == "u128" { "U128" } else { ty };
    writeln!(s, "    let a: {} = {};", sty, operand_expr(ty, &c.a)).unwrap();
    let bin = |s: &mut String, e: &str| { writeln!(s, "    let b: {} = {};", sty, operand_expr(ty, &c.b)).unwrap(); writeln!(s, "    log({});", e).unwrap(); };
    match c.op.as_str() {
        "add" => bin(&mut s, "a + b"),
        "sub" => bin(&mut s, "a - b"),
        "mul" => bin(&mut s, "a * b"),
        "div" => bin(&mut s, "a / b"),
        "mod" => bin(&mut s, "a % b"),
        "wadd" => bin(&mut s, "a.wrapping_add(b)"),
        "wsub" => bin(&mut s, "a.wrapping_sub(b)"),
        "wmul" => bin(&mut s, "a.wrapping_mul(b)"),
        "log" => bin(&mut s, "a.log(b)"),
        "pow" => { writeln!(s, "    let b: u32 = o32(0x{:x});\n    log(a.pow(b));", c.b.0[3]).unwrap(); }
        "sqrt" => s.push_str("    log(a.sqrt());\n"),
        "log2" => s.push_str("    log(a.log2());\n"),
        "lsh" => { writeln!(s, "    let b: u64 = o(0x{:x});\n    log(a << b);", c.b.0[3]).unwrap(); }
        "rsh" => { writeln!(s, "    let b: u64 = o(0x{:x});\n    log(a >> b);", c.b.0[3]).unwrap(); }
        "cmp" => bin(&mut s, "b01(a < b) + 2 * b01(a > b) + 4 * b01(a == b) + 8 * b01(a >= b)"),
        "oadd" => bin(&mut s, "a.overflowing_add(b)"),
        "omul" => bin(&mut s, "a.overflowing_mul(b)"),
        op if op.starts_with("try") => {
            let t = narrow_ty(&op[3..]);
            writeln!(s, "    let r: Option<{}> = {}::try_from(a);\n    match r {{ Some(x) => {{ log(1u64); log(x); }}, None => {{ log(0u64); }}, }};", t, t).unwrap();
        }
        op if op.starts_with("tas") => {
            let t = narrow_ty(&op[3..]);
            writeln!(s, "    match a.try_as_{}() {{ Some(x) => {{ log(1u64); log(x); }}, None => {{ log(0u64); }}, }};", t).unwrap();
        }
        _ => return None,
    }
    Some(s)
}

// ------------------------------------------------------------------------------------------ collections
#[derive(Clone, Debug)]
struct ColCase { kind: String, ops: Vec<String> }

fn col_case_str(c: &ColCase) -> String { format!("col {} {}", c.kind, c.ops.join(" ")) }

fn gen_col(r: &mut Rng) -> ColCase {
    let kind = *r.pick(&["vec", "vec", "vec", "bytes", "bytes", "string"]);
    let mut ops: Vec<String> = vec![];
    let mut len: i64 = 0; // tracked only to bias indices around the boundary
    if kind == "string" {
        let n = 1 + r.below(8);
        for _ in 0..n {
            match r.below(6) {
                0 | 1 => { let l = r.below(7); let bs: Vec<String> = (0..l).map(|_| format!("{:x}", *r.pick(b"abcxyz019 _"))).collect(); ops.push(format!("str:{}", if bs.is_empty() { "-".into() } else { bs.join(",") })); }
                2 => ops.push("clear".into()),
                3 => ops.push("len".into()),
                4 => ops.push("isempty".into()),
                _ => ops.push("iter".into()),
            }
        }
        ops.push("iter".into());
        return ColCase { kind: kind.into(), ops };
    }
    if r.chance(1, 3) { ops.push(format!("cap:{:x}", r.below(6))); } else { ops.push("new".into()); }
    let n = 1 + r.below(20);
    let maxv: u64 = if kind == "bytes" { 256 } else { u64::MAX };
    let val = |r: &mut Rng| -> u64 { match r.below(4) { 0 => r.below(4), 1 => if maxv == 256 { 255 } else { u64::MAX - r.below(2) }, _ => if maxv == 256 { r.below(256) } else { r.next() >> r.below(64) } } };
    for _ in 0..n {
        // index biased to len-1, len, len+1, 0
        let idx = |r: &mut Rng, len: i64| -> u64 { match r.below(32) { 0 => len.max(0) as u64, 1 => (len + 1).max(0) as u64, 2 | 3 => (len - 1).max(0) as u64, 4 | 5 => 0, 6 => r.below(40), _ => r.below(len.max(1) as u64) } };
        let pick = r.below(if kind == "bytes" { 26 } else { 23 });
        match pick {
            0..=5 => { ops.push(format!("push:{:x}", val(r))); len += 1; }
            6 => { ops.push("pop".into()); len = (len - 1).max(0); }
            7 | 8 => ops.push(format!("get:{:x}", idx(r, len))),
            9 => ops.push(format!("set:{:x}:{:x}", idx(r, len), val(r))),
            10 | 11 | 12 => { ops.push(format!("insert:{:x}:{:x}", idx(r, len), val(r))); len += 1; }
            13 | 14 | 15 => { ops.push(format!("remove:{:x}", idx(r, len))); len = (len - 1).max(0); }
            16 => ops.push(format!("swap:{:x}:{:x}", idx(r, len), idx(r, len))),
            17 => { if r.chance(1, 3) { ops.push("clear".into()); len = 0; } else { ops.push("len".into()); } }
            18 => ops.push("isempty".into()),
            19 => ops.push(if kind == "bytes" { "len".into() } else { "last".into() }),
            20 => { let nl = r.below(12); ops.push(format!("resize:{:x}:{:x}", nl, val(r))); len = nl as i64; }
            21 | 22 => ops.push("iter".into()),
            23 | 24 => { let l = r.below(5); let bs: Vec<String> = (0..l).map(|_| format!("{:x}", r.below(256))).collect(); ops.push(format!("append:{}", if bs.is_empty() { "-".into() } else { bs.join(",") })); len += l as i64; }
            _ => ops.push(format!("splitat:{:x}", idx(r, len))),
        }
    }
    ops.push("iter".into());
    ColCase { kind: kind.into(), ops }
}

fn parse_col_case(t: &[&str]) -> Option<ColCase> {
    if t.len() < 3 || t[0] != "col" { return None; }
    Some(ColCase { kind: t[1].into(), ops: t[2..].iter().map(|s| s.to_string()).collect() })
}

fn hexlist(s: &str) -> Option<Vec<u64>> {
    if s == "-" { return Some(vec![]); }
    s.split(',').map(|x| u64::from_str_radix(x, 16).ok()).collect()
}

fn col_test_body(c: &ColCase) -> Option<String> {
    let mut s = String::new();
    let bytes = c.kind == "bytes";
    let (ov, lg) = if bytes { ("o8", ".as_u64()") } else { ("o", "") };
    let opt = |e: &str| format!("    match {} {{ Some(x) => {{ log(1u64); log(x{}); }}, None => {{ log(0u64); }}, }};\n", e, lg);
    if c.kind == "string" {
        s.push_str("    let mut s = String::new();\n");
        for (i, op) in c.ops.iter().enumerate() {
            let f: Vec<&str> = op.split(':').collect();
            match f[0] {
                "str" => { let bs = hexlist(f.get(1)?)?; let lit: String = bs.iter().map(|b| *b as u8 as char).collect(); if !lit.chars().all(|ch| ch.is_ascii_alphanumeric() || ch == ' ' || ch == '_') { return None; } writeln!(s, "    s = String::from_ascii_str(\"{}\");\n    log(s.len());", lit).unwrap(); }
                "clear" => s.push_str("    s.clear();\n    log(s.len());\n"),
                "len" => s.push_str("    log(s.len());\n"),
                "isempty" => s.push_str("    log(b01(s.is_empty()));\n"),
                "iter" => { writeln!(s, "    let b{i} = s.as_bytes();\n    for x in b{i}.iter() {{ log(x.as_u64()); }}\n    log(b{i}.len());").unwrap(); }
                _ => return None,
            }
        }
        return Some(s);
    }
    let tyname = if bytes { "Bytes" } else { "Vec<u64>" };
    let ctor = if bytes { "Bytes" } else { "Vec" };
    for (i, op) in c.ops.iter().enumerate() {
        let f: Vec<&str> = op.split(':').collect();
        let a = |k: usize| -> Option<u64> { u64::from_str_radix(f.get(k)?, 16).ok() };
        match f[0] {
            "new" => writeln!(s, "    let mut v: {tyname} = {ctor}::new();").unwrap(),
            "cap" => writeln!(s, "    let mut v: {tyname} = {ctor}::with_capacity(o(0x{:x}));", a(1)?).unwrap(),
            "push" => writeln!(s, "    v.push({ov}(0x{:x}));\n    log(v.len());", a(1)?).unwrap(),
            "pop" => s.push_str(&opt("v.pop()")),
            "get" => s.push_str(&opt(&format!("v.get(o(0x{:x}))", a(1)?))),
            "set" => writeln!(s, "    v.set(o(0x{:x}), {ov}(0x{:x}));\n    log(v.len());", a(1)?, a(2)?).unwrap(),
            "insert" => writeln!(s, "    v.insert(o(0x{:x}), {ov}(0x{:x}));\n    log(v.len());", a(1)?, a(2)?).unwrap(),
            "remove" => writeln!(s, "    log(v.remove(o(0x{:x})){lg});", a(1)?).unwrap(),
            "swap" => writeln!(s, "    v.swap(o(0x{:x}), o(0x{:x}));\n    log(v.len());", a(1)?, a(2)?).unwrap(),
            "clear" => s.push_str("    v.clear();\n    log(v.len());\n"),
            "len" => s.push_str("    log(v.len());\n"),
            "isempty" => s.push_str("    log(b01(v.is_empty()));\n"),
            "last" => { if bytes { return None; } s.push_str(&opt("v.last()")) }
            "resize" => writeln!(s, "    v.resize(o(0x{:x}), {ov}(0x{:x}));\n    log(v.len());", a(1)?, a(2)?).unwrap(),
            "iter" => writeln!(s, "    for x in v.iter() {{ log(x{lg}); }}\n    log(v.len());").unwrap(),
            "append" => {
                if !bytes { return None; }
                writeln!(s, "    let mut w{i} = Bytes::new();").unwrap();
                for b in hexlist(f.get(1)?)? { writeln!(s, "    w{i}.push(o8(0x{:x}));", b).unwrap(); }
                writeln!(s, "    v.append(w{i});\n    log(v.len());").unwrap();
            }
            "splitat" => {
                if !bytes { return None; }
                writeln!(s, "    let (l{i}, r{i}) = v.split_at(o(0x{:x}));\n    for x in l{i}.iter() {{ log(x.as_u64()); }}\n    log(l{i}.len());\n    for x in r{i}.iter() {{ log(x.as_u64()); }}\n    log(r{i}.len());", a(1)?).unwrap();
            }
            _ => return None,
        }
    }
    Some(s)
}

// ------------------------------------------------------------------------------------------ running
enum Case { Num(NumCase), Col(ColCase) }
impl Case {
    fn line(&self) -> String { match self { Case::Num(c) => num_case_str(c), Case::Col(c) => col_case_str(c) } }
    fn body(&self) -> Option<String> { match self { Case::Num(c) => num_test_body(c), Case::Col(c) => col_test_body(c) } }
}

/// Type-check only, printing the compiler's errors (forc reports them through `tracing`, which the
/// harness has no subscriber for).
fn diagnose(dir: &std::path::Path) {
    let opts = test_opts(dir, false);
    let Ok(plan) = forc_pkg::BuildPlan::from_pkg_opts(&opts.pkg) else { println!("DIAG: no build plan"); return; };
    let engines = sway_core::Engines::default();
    match forc_pkg::check(&plan, sway_core::BuildTarget::Fuel, true, None, true, &engines, None, &[], &[], sway_core::DbgGeneration::None) {
        Ok(res) => for (_, h) in res {
            let (errs, _, _) = h.consume();
            for e in errs.iter().take(8) {
                use sway_types::Spanned;
                let sp = e.span();
                println!("DIAG: {} @ line {}: {}", e, sp.start_line_col_one_index().line, sp.as_str().chars().take(120).collect::<String>().replace('\n', " "));
            }
        },
        Err(e) => println!("DIAG: check failed: {e:#}"),
    }
}

fn worker(dir: &str) {
    match build_and_test(std::path::Path::new(dir), false) {
        Ok((outs, _)) => {
            for o in outs {
                let logs: Vec<String> = o.logs.iter().map(|l| match l { Log::Data { data, .. } => hexbytes(data), Log::Word { val, .. } => format!("w{:x}", val) }).collect();
                println!("T\t{}\t{}\t{}", o.name, o.state, logs.join(" "));
            }
            println!("DONE");
        }
        Err(e) => { diagnose(std::path::Path::new(dir)); println!("ERR {e:#}"); std::process::exit(3); }
    }
}

fn main() {
    let v: Vec<String> = std::env::args().collect();
    if v.len() >= 3 && v[1] == "--raw" {
        let src = std::fs::read_to_string(&v[2]).unwrap();
        let d = scratch_dir("c27raw");
        write_pkg(&d, "c27raw", &src, true, "").unwrap();
        match build_and_test(&d, false) {
            Ok((outs, _)) => for o in outs { println!("{:?}", o); },
            Err(e) => { diagnose(&d); println!("ERR {e:#}") }
        }
        let _ = std::fs::remove_dir_all(&d);
        return;
    }
    if v.len() >= 3 && v[1] == "--worker" { worker(&v[2]); return; }

    let a = args();
    let mut r = Rng::new(seed_from_env());
    let mut per_pkg = 150usize;
    let mut jobs = 3usize;
    let mut only: Option<String> = None;
    let mut i = 0;
    while i < a.extra.len() {
        match a.extra[i].as_str() {
            "--per-pkg" => { per_pkg = a.extra[i + 1].parse().unwrap(); i += 2; }
            "--jobs" => { jobs = a.extra[i + 1].parse().unwrap(); i += 2; }
            "--only" => { only = Some(a.extra[i + 1].clone()); i += 2; }
            _ => i += 1,
        }
    }
    let mut cases: Vec<Case> = vec![];
    if let Some(c) = &a.corpus {
        for l in std::fs::read_to_string(c).unwrap_or_default().lines() {
            let l = l.split(";;").next().unwrap().trim();
            if l.starts_with('#') || l.is_empty() { continue; }
            let t: Vec<&str> = l.split_whitespace().collect();
            if let Some(c) = parse_num_case(&t) { cases.push(Case::Num(c)); }
            else if let Some(c) = parse_col_case(&t) { cases.push(Case::Col(c)); }
            else { eprintln!("sv_c27: bad corpus line: {l}"); std::process::exit(2); }
        }
    }
    while cases.len() < a.n {
        let col = match only.as_deref() { Some("num") => false, Some("col") => true, _ => r.chance(3, 10) };
        if col { cases.push(Case::Col(gen_col(&mut r))); } else { cases.push(Case::Num(gen_num(&mut r))); }
    }
    // packages
    let base = scratch_dir("c27");
    let mut pkgs: Vec<(std::path::PathBuf, Vec<usize>)> = vec![];
    let mut k = 0;
    while k < cases.len() {
        let hi = (k + per_pkg).min(cases.len());
        let mut src = String::from(PRELUDE);
        let mut idx = vec![];
        for j in k..hi {
            match cases[j].body() {
                Some(b) => { writeln!(src, "#[test]\nfn t{:05}() {{\n{}}}", j, b).unwrap(); idx.push(j); }
                None => { eprintln!("sv_c27: cannot render case: {}", cases[j].line()); std::process::exit(2); }
            }
        }
        let d = base.join(format!("p{}", pkgs.len()));
        write_pkg(&d, &format!("c27p{}", pkgs.len()), &src, true, "").unwrap();
        pkgs.push((d, idx));
        k = hi;
    }
    // run workers, `jobs` at a time
    let exe = std::env::current_exe().unwrap();
    let mut results: Vec<Option<(String, String)>> = (0..cases.len()).map(|_| None).collect();
    let mut failed = false;
    for chunk in pkgs.chunks(jobs.max(1)) {
        let kids: Vec<_> = chunk.iter().map(|(d, _)| {
            std::process::Command::new(&exe).arg("--worker").arg(d).stdout(std::process::Stdio::piped()).stderr(std::process::Stdio::null()).spawn().unwrap()
        }).collect();
        for (kid, (d, idx)) in kids.into_iter().zip(chunk.iter()) {
            let out = kid.wait_with_output().unwrap();
            let text = String::from_utf8_lossy(&out.stdout).to_string();
            if !out.status.success() || !text.contains("\nDONE") && !text.starts_with("DONE") {
                eprintln!("sv_c27: package {} failed to build/run:\n{}", d.display(), text.lines().filter(|l| !l.starts_with("T\t")).take(12).collect::<Vec<_>>().join("\n"));
                failed = true;
                continue;
            }
            for l in text.lines() {
                let f: Vec<&str> = l.split('\t').collect();
                if f.len() == 4 && f[0] == "T" {
                    if let Ok(j) = f[1].trim_start_matches('t').parse::<usize>() {
                        if idx.contains(&j) { results[j] = Some((f[2].to_string(), f[3].to_string())); }
                    }
                }
            }
        }
    }
    if failed { eprintln!("sv_c27: keeping {} for inspection", base.display()); std::process::exit(4); }
    let mut out = std::io::BufWriter::new(std::fs::File::create(&a.out).unwrap());
    let mut n = 0;
    for (j, c) in cases.iter().enumerate() {
        let Some((state, logs)) = &results[j] else { eprintln!("sv_c27: no result for case {j}"); std::process::exit(5); };
        let impl_s = match (c, state.as_str()) {
            (Case::Num(_), "return") | (Case::Num(_), "returndata") => format!("ok {}", { let h: String = logs.split_whitespace().collect(); if h.is_empty() { "-".into() } else { h } }),
            (Case::Num(_), s) if s.starts_with("revert:") => format!("revert {}", &s[7..]),
            (Case::Col(_), s) => {
                // every observation is a u64 log: 8 bytes
                let obs: Vec<String> = logs.split_whitespace().map(|h| h.trim_start_matches('0').to_string()).map(|h| if h.is_empty() { "0".into() } else { h }).collect();
                let head = if s == "return" || s == "returndata" { "ok".to_string() } else if s.starts_with("revert:") { format!("revert {}", &s[7..]) } else { format!("other:{s}") };
                format!("{} {}", head, obs.join(" ")).trim_end().to_string()
            }
            (_, s) => format!("other:{s}"),
        };
        writeln!(out, "{} ;; {}", c.line(), impl_s).unwrap();
        n += 1;
    }
    out.flush().unwrap();
    let _ = std::fs::remove_dir_all(&base);
    eprintln!("sv_c27: {} cases in {} packages", n, pkgs.len());
}
