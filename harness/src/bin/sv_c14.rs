//! C14: random pattern matrices over small finite types, judged by the REAL compiler.
//!
//! Phase 1 (diagnostics): all matrices of a batch are emitted as functions of one Sway library (no std, a
//! ten-line stub `std::ops` for the `==` of the desugared match) and type-checked with `forc_pkg::check`;
//! `MatchExpressionNonExhaustive` (with its witness text), `Internal` errors and
//! `MatchExpressionUnreachableArm` warnings are attributed to matrices / arms by span.
//! Phase 2 (run time): the matrices the compiler accepted are compiled again with one `#[test]` each that
//! logs the arm taken for every value (or ≤ 300 chosen values) of the scrutinee type, on the real FuelVM.
//!
//! Protocol line:
//! `match <type> <arms> ;; <ok|nonexh|ice:<slug>|other:<Kind>> exhaustive=<0|1> witness=<pats|-|unparsed> unreachable=<idxs|-> run=<val:arm,…|->`
//!
//! Compact syntax (no spaces). Types: `b` bool, `u` u8, `e[T,…]` enum (payload per variant, `t[]` = unit),
//! `t[T,…]` tuple, `s[T,…]` struct. Patterns: `_` wildcard, `x` binding, `T`/`F`, `n5` literal `5u8`,
//! `m5` literal `5`, `r1-9` u8 range (witness only), `v2/3(p)` variant 2 of 3, `t[p,…]`, `s[1:p,0:x]` struct
//! pattern listing fields 1 and 0 in that order, `o[p,…]` or. Arms / witnesses are joined by `;`.
//! Values: `T`, `F`, `n5`, `v2(val)`, `t[val,…]`.
use forc_pkg::manifest::GenericManifestFile;
use std::collections::BTreeSet;
use std::io::Write;
use std::path::Path;
use svharness::{proto::*, rng::*, swayrun::*};

// ------------------------------------------------------------------------------------------------ types

#[derive(Clone, Debug, PartialEq)]
enum Ty { Bool, U8, Enum(Vec<Ty>), Tuple(Vec<Ty>), Struct(Vec<Ty>) }

#[derive(Clone, Debug, PartialEq)]
enum Pat {
    Wild, Bind, Bool(bool), U8(u64), Num(u64), Rng(u64, u64),
    Variant(usize, usize, Box<Pat>),
    Tuple(Vec<Pat>),
    /// listed fields (declaration index, pattern; `None` = shorthand `field` binding)
    Struct(Vec<(usize, Option<Pat>)>),
    Or(Vec<Pat>),
}

#[derive(Clone, Debug)]
enum Val { Bool(bool), U8(u64), Variant(usize, Box<Val>), Tuple(Vec<Val>) }

fn ty_sexp(t: &Ty) -> String {
    let l = |ts: &Vec<Ty>| ts.iter().map(ty_sexp).collect::<Vec<_>>().join(",");
    match t { Ty::Bool => "b".into(), Ty::U8 => "u".into(), Ty::Enum(v) => format!("e[{}]", l(v)), Ty::Tuple(v) => format!("t[{}]", l(v)), Ty::Struct(v) => format!("s[{}]", l(v)) }
}
fn pat_sexp(p: &Pat) -> String {
    let l = |ps: &Vec<Pat>| ps.iter().map(pat_sexp).collect::<Vec<_>>().join(",");
    match p {
        Pat::Wild => "_".into(), Pat::Bind => "x".into(),
        Pat::Bool(true) => "T".into(), Pat::Bool(false) => "F".into(),
        Pat::U8(n) => format!("n{n}"), Pat::Num(n) => format!("m{n}"), Pat::Rng(a, b) => format!("r{a}-{b}"),
        Pat::Variant(n, k, p) => format!("v{k}/{n}({})", pat_sexp(p)),
        Pat::Tuple(ps) => format!("t[{}]", l(ps)),
        Pat::Struct(fs) => format!("s[{}]", fs.iter().map(|(i, p)| format!("{i}:{}", p.as_ref().map(pat_sexp).unwrap_or("x".into()))).collect::<Vec<_>>().join(",")),
        Pat::Or(ps) => format!("o[{}]", l(ps)),
    }
}
fn val_sexp(v: &Val) -> String {
    match v {
        Val::Bool(true) => "T".into(), Val::Bool(false) => "F".into(), Val::U8(n) => format!("n{n}"),
        Val::Variant(k, v) => format!("v{k}({})", val_sexp(v)),
        Val::Tuple(vs) => format!("t[{}]", vs.iter().map(val_sexp).collect::<Vec<_>>().join(",")),
    }
}

// ---- parser of the compact syntax (corpus)
struct P<'a> { s: &'a [u8], i: usize }
impl<'a> P<'a> {
    fn peek(&self) -> u8 { *self.s.get(self.i).unwrap_or(&0) }
    fn eat(&mut self, c: u8) -> Option<()> { if self.peek() == c { self.i += 1; Some(()) } else { None } }
    fn num(&mut self) -> Option<u64> {
        let st = self.i; while self.peek().is_ascii_digit() { self.i += 1; }
        std::str::from_utf8(&self.s[st..self.i]).ok()?.parse().ok()
    }
    fn list<T>(&mut self, f: &mut dyn FnMut(&mut Self) -> Option<T>) -> Option<Vec<T>> {
        self.eat(b'[')?; let mut v = vec![];
        if self.peek() == b']' { self.i += 1; return Some(v); }
        loop { v.push(f(self)?); if self.eat(b',').is_none() { break; } }
        self.eat(b']')?; Some(v)
    }
    fn ty(&mut self) -> Option<Ty> {
        let c = self.peek(); self.i += 1;
        match c { b'b' => Some(Ty::Bool), b'u' => Some(Ty::U8),
            b'e' => Some(Ty::Enum(self.list(&mut |p| p.ty())?)), b't' => Some(Ty::Tuple(self.list(&mut |p| p.ty())?)),
            b's' => Some(Ty::Struct(self.list(&mut |p| p.ty())?)), _ => None }
    }
    fn pat(&mut self) -> Option<Pat> {
        let c = self.peek(); self.i += 1;
        match c {
            b'_' => Some(Pat::Wild), b'x' => Some(Pat::Bind), b'T' => Some(Pat::Bool(true)), b'F' => Some(Pat::Bool(false)),
            b'n' => Some(Pat::U8(self.num()?)), b'm' => Some(Pat::Num(self.num()?)),
            b'r' => { let a = self.num()?; self.eat(b'-')?; Some(Pat::Rng(a, self.num()?)) }
            b'v' => { let k = self.num()? as usize; self.eat(b'/')?; let n = self.num()? as usize; self.eat(b'(')?; let p = self.pat()?; self.eat(b')')?; Some(Pat::Variant(n, k, Box::new(p))) }
            b't' => Some(Pat::Tuple(self.list(&mut |p| p.pat())?)),
            b'o' => Some(Pat::Or(self.list(&mut |p| p.pat())?)),
            b's' => Some(Pat::Struct(self.list(&mut |p| { let i = p.num()? as usize; p.eat(b':')?; let q = p.pat()?; Some((i, if q == Pat::Bind { None } else { Some(q) })) })?)),
            _ => None,
        }
    }
}

// ------------------------------------------------------------------------------------------------ one matrix

struct Case { ty: Ty, arms: Vec<Pat> }

/// Names of the declarations of a case: enums/structs are numbered in DFS order of the type.
struct Names { prefix: String, decls: String, next: usize }
impl Names {
    fn new(i: usize) -> Self { Names { prefix: format!("{i}"), decls: String::new(), next: 0 } }
}
/// Type with declaration ids attached.
#[derive(Clone, Debug)]
enum NTy { Bool, U8, Enum(String, Vec<NTy>), Tuple(Vec<NTy>), Struct(String, Vec<NTy>) }

fn name_ty(t: &Ty, n: &mut Names) -> NTy {
    match t {
        Ty::Bool => NTy::Bool, Ty::U8 => NTy::U8,
        Ty::Tuple(ts) => NTy::Tuple(ts.iter().map(|t| name_ty(t, n)).collect()),
        Ty::Enum(vs) => {
            let id = n.next; n.next += 1; let name = format!("E{}_{}", n.prefix, id);
            let nvs: Vec<NTy> = vs.iter().map(|t| name_ty(t, n)).collect();
            let body = nvs.iter().enumerate().map(|(k, t)| format!("V{k}: {}", nty_text(t))).collect::<Vec<_>>().join(", ");
            n.decls.push_str(&format!("enum {name} {{ {body} }}\n"));
            NTy::Enum(name, nvs)
        }
        Ty::Struct(ts) => {
            let id = n.next; n.next += 1; let name = format!("S{}_{}", n.prefix, id);
            let nts: Vec<NTy> = ts.iter().map(|t| name_ty(t, n)).collect();
            let body = nts.iter().enumerate().map(|(k, t)| format!("{}: {}", field_name(&name, k), nty_text(t))).collect::<Vec<_>>().join(", ");
            n.decls.push_str(&format!("struct {name} {{ {body} }}\n"));
            NTy::Struct(name, nts)
        }
    }
}
fn field_name(sname: &str, k: usize) -> String { format!("f{}_{k}", sname.to_lowercase()) }
fn nty_text(t: &NTy) -> String {
    match t {
        NTy::Bool => "bool".into(), NTy::U8 => "u8".into(), NTy::Enum(n, _) | NTy::Struct(n, _) => n.clone(),
        NTy::Tuple(ts) => if ts.is_empty() { "()".into() } else { format!("({})", ts.iter().map(nty_text).collect::<Vec<_>>().join(", ")) },
    }
}
fn is_unit(t: &NTy) -> bool { matches!(t, NTy::Tuple(ts) if ts.is_empty()) }

/// Sway text of a pattern; `binds` numbers the bindings of one arm.
fn pat_text(p: &Pat, t: &NTy, binds: &mut usize) -> String {
    match (p, t) {
        (Pat::Wild, _) => "_".into(),
        (Pat::Bind, _) => { *binds += 1; format!("x{}", *binds) }
        (Pat::Bool(b), _) => format!("{b}"),
        (Pat::U8(n), _) => format!("{n}u8"),
        (Pat::Num(n), _) => format!("{n}"),
        (Pat::Rng(a, _), _) => format!("{a}u8"),
        (Pat::Variant(_, k, q), NTy::Enum(name, vs)) => {
            if is_unit(&vs[*k]) { format!("{name}::V{k}") } else { format!("{name}::V{k}({})", pat_text(q, &vs[*k], binds)) }
        }
        (Pat::Tuple(ps), NTy::Tuple(ts)) => format!("({})", ps.iter().zip(ts).map(|(p, t)| pat_text(p, t, binds)).collect::<Vec<_>>().join(", ")),
        (Pat::Struct(fs), NTy::Struct(name, ts)) => {
            let mut parts: Vec<String> = fs.iter().map(|(i, p)| match p {
                None => field_name(name, *i),
                Some(p) => format!("{}: {}", field_name(name, *i), pat_text(p, &ts[*i], binds)),
            }).collect();
            if fs.len() < ts.len() { parts.push("..".into()); }
            format!("{name} {{ {} }}", parts.join(", "))
        }
        (Pat::Or(ps), _) => ps.iter().map(|p| pat_text(p, t, binds)).collect::<Vec<_>>().join(" | "),
        _ => "_".into(),
    }
}
fn val_text(v: &Val, t: &NTy) -> String {
    match (v, t) {
        (Val::Bool(b), _) => format!("{b}"), (Val::U8(n), _) => format!("{n}u8"),
        (Val::Variant(k, v), NTy::Enum(name, vs)) => if is_unit(&vs[*k]) { format!("{name}::V{k}") } else { format!("{name}::V{k}({})", val_text(v, &vs[*k])) },
        (Val::Tuple(vs), NTy::Tuple(ts)) => if ts.is_empty() { "()".into() } else { format!("({})", vs.iter().zip(ts).map(|(v, t)| val_text(v, t)).collect::<Vec<_>>().join(", ")) },
        (Val::Tuple(vs), NTy::Struct(name, ts)) => format!("{name} {{ {} }}", vs.iter().zip(ts).enumerate().map(|(k, (v, t))| format!("{}: {}", field_name(name, k), val_text(v, t))).collect::<Vec<_>>().join(", ")),
        _ => "0".into(),
    }
}

// ------------------------------------------------------------------------------------------------ generators

fn ty_count(t: &Ty) -> u64 {
    match t {
        Ty::Bool => 2, Ty::U8 => 256,
        Ty::Enum(vs) => vs.iter().map(ty_count).fold(0u64, |a, b| a.saturating_add(b)),
        Ty::Tuple(ts) | Ty::Struct(ts) => ts.iter().map(ty_count).fold(1u64, |a, b| a.saturating_mul(b)),
    }
}
fn gen_ty(r: &mut Rng, depth: u32) -> Ty {
    let k = if depth == 0 { r.below(2) } else { r.below(8) };
    match k {
        0 => Ty::Bool,
        1 => Ty::U8,
        2 | 3 => {
            let n = 1 + r.below(3) as usize;
            Ty::Enum((0..n).map(|_| if r.chance(1, 3) { Ty::Tuple(vec![]) } else { gen_ty(r, depth - 1) }).collect())
        }
        4 | 5 => { let n = 2 + r.below(2) as usize; Ty::Tuple((0..n).map(|_| gen_ty(r, depth - 1)).collect()) }
        _ => { let n = 1 + r.below(3) as usize; Ty::Struct((0..n).map(|_| gen_ty(r, depth - 1)).collect()) }
    }
}
struct GenCfg { lits: Vec<u64>, untyped: u64 /* per mille of untyped literals */, partial_structs: bool }

fn gen_pat(r: &mut Rng, t: &Ty, depth: u32, in_or: bool, g: &GenCfg) -> Pat {
    // or-pattern
    if depth > 0 && !in_or && r.chance(1, 7) {
        let n = 2 + r.below(2) as usize;
        return Pat::Or((0..n).map(|_| gen_pat(r, t, depth - 1, true, g)).collect());
    }
    if r.chance(1, 5) || depth == 0 && !matches!(t, Ty::Bool | Ty::U8) {
        return if !in_or && r.chance(1, 3) { Pat::Bind } else { Pat::Wild };
    }
    match t {
        Ty::Bool => Pat::Bool(r.chance(1, 2)),
        Ty::U8 => { let n = *r.pick(&g.lits); if r.below(1000) < g.untyped { Pat::Num(n) } else { Pat::U8(n) } }
        Ty::Enum(vs) => { let k = r.below(vs.len() as u64) as usize; Pat::Variant(vs.len(), k, Box::new(if vs[k] == Ty::Tuple(vec![]) { Pat::Wild } else { gen_pat(r, &vs[k], depth.saturating_sub(1), in_or, g) })) }
        Ty::Tuple(ts) => Pat::Tuple(ts.iter().map(|t| gen_pat(r, t, depth.saturating_sub(1), in_or, g)).collect()),
        Ty::Struct(ts) => {
            let mut idx: Vec<usize> = (0..ts.len()).collect();
            if g.partial_structs && r.chance(1, 3) {
                // reorder and/or drop fields
                for i in (1..idx.len()).rev() { let j = r.below(i as u64 + 1) as usize; idx.swap(i, j); }
                let keep = r.below(idx.len() as u64 + 1) as usize; idx.truncate(keep);
            }
            Pat::Struct(idx.into_iter().map(|i| {
                let p = gen_pat(r, &ts[i], depth.saturating_sub(1), in_or, g);
                (i, if p == Pat::Bind { None } else { Some(p) })
            }).collect())
        }
    }
}
fn gen_case(r: &mut Rng) -> Case {
    // dense u8 shape: blocks of or-ed literals that cover 0..=255 (or miss a few values), with/without wildcard
    if r.chance(1, 40) {
        let untyped = r.chance(1, 4);
        let mk = |n: u64| if untyped { Pat::Num(n) } else { Pat::U8(n) };
        let hole: Option<u64> = if r.chance(1, 2) { Some(*r.pick(&[0u64, 1, 7, 128, 254, 255])) } else { None };
        let cuts = [0u64, 64 + r.below(64), 192 + r.below(32), 256];
        let mut arms: Vec<Pat> = cuts.windows(2).map(|w| Pat::Or((w[0]..w[1]).filter(|n| Some(*n) != hole).map(mk).collect())).collect();
        if r.chance(1, 3) { arms.push(if r.chance(1, 2) { Pat::Wild } else { mk(*r.pick(&[0u64, 255, 100])) }); }
        return Case { ty: Ty::U8, arms };
    }
    let ty = loop { let d = 1 + r.below(3) as u32; let t = gen_ty(r, d); if ty_count(&t) <= 70_000 && t != Ty::Tuple(vec![]) { break t; } };
    let pool: &[u64] = &[0, 1, 2, 3, 7, 8, 100, 127, 128, 200, 253, 254, 255];
    let nl = 1 + r.below(4) as usize;
    let lits: Vec<u64> = (0..nl).map(|_| *r.pick(pool)).collect();
    let g = GenCfg { lits, untyped: *r.pick(&[0u64, 0, 0, 1000, 1000, 500]), partial_structs: r.chance(1, 2) };
    let n = 1 + r.below(6) as usize;
    let mut arms: Vec<Pat> = (0..n).map(|_| gen_pat(r, &ty, 3, false, &g)).collect();
    // bias towards exhaustive matrices: often end with a catch-all, sometimes insert one in the middle
    if r.chance(2, 5) { arms.push(if r.chance(1, 2) { Pat::Wild } else { Pat::Bind }); }
    if arms.len() > 2 && r.chance(1, 12) { let k = 1 + r.below(arms.len() as u64 - 2) as usize; arms.insert(k, Pat::Wild); }
    if r.chance(1, 10) { let k = r.below(arms.len() as u64) as usize; let a = arms[k].clone(); arms.push(a); }
    arms.truncate(6);
    Case { ty, arms }
}

/// Systematic block: for each small type every 2-arm (and 3-arm) matrix in which one arm is an or-pattern of
/// 2-3 alternatives over the atoms of the type, in EVERY order, next to every choice of the other arm(s) — so
/// each alternative is independently covered / not covered by what precedes it; plus the same with the
/// or-pattern nested in a tuple component.
fn systematic() -> Vec<Case> {
    fn seqs(atoms: &[Pat], len: usize) -> Vec<Vec<Pat>> {
        let mut out: Vec<Vec<Pat>> = vec![vec![]];
        for _ in 0..len { out = out.into_iter().flat_map(|p| atoms.iter().map(move |a| { let mut q = p.clone(); q.push(a.clone()); q })).collect(); }
        out
    }
    let mut cases = vec![];
    let unit = || Ty::Tuple(vec![]);
    let flat: Vec<(Ty, Vec<Pat>, bool)> = vec![
        (Ty::Bool, vec![Pat::Bool(true), Pat::Bool(false), Pat::Wild], true),
        (Ty::Enum(vec![unit(), unit()]), vec![Pat::Variant(2, 0, Box::new(Pat::Wild)), Pat::Variant(2, 1, Box::new(Pat::Wild)), Pat::Wild], true),
        (Ty::U8, vec![Pat::U8(3), Pat::U8(7), Pat::Wild], false),
    ];
    for (ty, atoms, three) in &flat {
        for len in [2usize, 3] {
            for alts in seqs(atoms, len) {
                let or = Pat::Or(alts);
                for a in atoms {
                    cases.push(Case { ty: ty.clone(), arms: vec![a.clone(), or.clone()] });
                    cases.push(Case { ty: ty.clone(), arms: vec![or.clone(), a.clone()] });
                    if *three { for b in atoms {
                        cases.push(Case { ty: ty.clone(), arms: vec![a.clone(), b.clone(), or.clone()] });
                        cases.push(Case { ty: ty.clone(), arms: vec![a.clone(), or.clone(), b.clone()] });
                    } }
                }
            }
        }
    }
    let batoms = vec![Pat::Bool(true), Pat::Bool(false), Pat::Wild];
    let tt = Ty::Tuple(vec![Ty::Bool, Ty::Bool]);
    for alts in seqs(&batoms, 2) {
        for a in &batoms { for c in [Pat::Bool(true), Pat::Wild] { for c2 in [Pat::Bool(true), Pat::Wild] {
            let plain = Pat::Tuple(vec![a.clone(), c.clone()]);
            let nested = Pat::Tuple(vec![Pat::Or(alts.clone()), c2.clone()]);
            cases.push(Case { ty: tt.clone(), arms: vec![plain.clone(), nested.clone()] });
            cases.push(Case { ty: tt.clone(), arms: vec![nested, plain] });
        } } }
    }
    cases
}

/// Values on which the compiled match is run: all of them if ≤ cap, otherwise u8 leaves are restricted to
/// the literals mentioned, their neighbours, 0, 255 and two arbitrary values.
fn values(t: &Ty, interesting: &BTreeSet<u64>, all_u8: bool) -> Vec<Val> {
    match t {
        Ty::Bool => vec![Val::Bool(false), Val::Bool(true)],
        Ty::U8 => if all_u8 { (0..256).map(Val::U8).collect() } else { interesting.iter().map(|n| Val::U8(*n)).collect() },
        Ty::Enum(vs) => vs.iter().enumerate().flat_map(|(k, t)| values(t, interesting, all_u8).into_iter().map(move |v| Val::Variant(k, Box::new(v)))).collect(),
        Ty::Tuple(ts) | Ty::Struct(ts) => {
            let mut acc: Vec<Vec<Val>> = vec![vec![]];
            for t in ts {
                let vs = values(t, interesting, all_u8);
                acc = acc.into_iter().flat_map(|pre| vs.iter().map(move |v| { let mut p = pre.clone(); p.push(v.clone()); p })).collect();
                if acc.len() > 200_000 { acc.truncate(200_000); }
            }
            acc.into_iter().map(Val::Tuple).collect()
        }
    }
}
fn lits_of(p: &Pat, out: &mut BTreeSet<u64>) {
    match p {
        Pat::U8(n) | Pat::Num(n) => { for d in [n.saturating_sub(1), *n, (*n + 1).min(255)] { out.insert(d); } }
        Pat::Variant(_, _, p) => lits_of(p, out),
        Pat::Tuple(ps) | Pat::Or(ps) => ps.iter().for_each(|p| lits_of(p, out)),
        Pat::Struct(fs) => fs.iter().for_each(|(_, p)| if let Some(p) = p { lits_of(p, out) }),
        _ => {}
    }
}
const RUN_CAP: usize = 300;
fn run_values(c: &Case, r: &mut Rng) -> Vec<Val> {
    let all = ty_count(&c.ty);
    if all as usize <= RUN_CAP { return values(&c.ty, &BTreeSet::new(), true); }
    let mut int = BTreeSet::new();
    for a in &c.arms { lits_of(a, &mut int); }
    int.insert(0); int.insert(255); int.insert(r.below(256)); int.insert(r.below(256));
    let mut vs = values(&c.ty, &int, false);
    // deterministic thinning
    while vs.len() > RUN_CAP { let k = r.below(vs.len() as u64) as usize; vs.swap_remove(k); }
    vs
}

// ------------------------------------------------------------------------------------------------ freshness

/// The anchored compiler sources as they were when THIS binary was compiled. `include_str!` also makes cargo
/// rebuild the binary whenever one of them changes; at start-up they are compared with the files on disk, so a
/// binary that was not rebuilt after a change of the analysis can never produce a (stale) green run.
macro_rules! anchors { ($($rel:literal),* $(,)?) => { &[ $( ($rel, include_str!(concat!("/repo/", $rel))) ),* ] } }
const ANCHORS: &[(&str, &str)] = anchors![
    "sway-core/src/semantic_analysis/ast_node/expression/match_expression/analysis/usefulness.rs",
    "sway-core/src/semantic_analysis/ast_node/expression/match_expression/analysis/range.rs",
    "sway-core/src/semantic_analysis/ast_node/expression/match_expression/analysis/constructor_factory.rs",
    "sway-core/src/semantic_analysis/ast_node/expression/match_expression/analysis/pattern.rs",
    "sway-core/src/semantic_analysis/ast_node/expression/match_expression/analysis/patstack.rs",
    "sway-core/src/semantic_analysis/ast_node/expression/match_expression/analysis/matrix.rs",
    "sway-core/src/semantic_analysis/ast_node/expression/match_expression/analysis/witness_report.rs",
    "sway-core/src/semantic_analysis/ast_node/expression/match_expression/analysis/reachable_report.rs",
    "sway-core/src/semantic_analysis/ast_node/expression/match_expression/typed/matcher.rs",
    "sway-core/src/semantic_analysis/ast_node/expression/match_expression/typed/typed_match_branch.rs",
    "sway-core/src/semantic_analysis/ast_node/expression/match_expression/typed/typed_match_expression.rs",
    "sway-core/src/semantic_analysis/ast_node/expression/typed_expression.rs",
];
fn check_fresh() {
    let repo = std::env::var("VERIF_REPO").unwrap_or_else(|_| "/repo".into());
    for (rel, built) in ANCHORS {
        match std::fs::read_to_string(Path::new(&repo).join(rel)) {
            Ok(now) if now == *built => {}
            _ => { eprintln!("sv_c14: STALE BINARY — {rel} differs from the source this binary was compiled from; rebuild the harness"); std::process::exit(5); }
        }
    }
}

// ------------------------------------------------------------------------------------------------ compiler

const MINISTD_OPS: &str = r#"library;
pub trait PartialEq {
    fn eq(self, other: Self) -> bool;
} {
    fn neq(self, other: Self) -> bool { __eq(self.eq(other), false) }
}
pub trait Eq: PartialEq {}
impl PartialEq for bool { fn eq(self, other: Self) -> bool { __eq(self, other) } }
impl Eq for bool {}
impl PartialEq for u8 { fn eq(self, other: Self) -> bool { __eq(self, other) } }
impl Eq for u8 {}
impl PartialEq for u64 { fn eq(self, other: Self) -> bool { __eq(self, other) } }
impl Eq for u64 {}
"#;

fn write_ministd(root: &Path) -> String {
    let d = root.join("ministd");
    std::fs::create_dir_all(d.join("src")).unwrap();
    std::fs::write(d.join("Forc.toml"), "[project]\nauthors = [\"verif\"]\nentry = \"lib.sw\"\nlicense = \"Apache-2.0\"\nname = \"std\"\nimplicit-std = false\nexperimental = { new_encoding = false }\n").unwrap();
    std::fs::write(d.join("src/lib.sw"), "library;\npub mod ops;\npub mod prelude;\n").unwrap();
    std::fs::write(d.join("src/prelude.sw"), "library;\n").unwrap();
    std::fs::write(d.join("src/ops.sw"), MINISTD_OPS).unwrap();
    d.to_string_lossy().to_string()
}
fn pkg_toml_extra(ministd: &str) -> String {
    format!("experimental = {{ new_encoding = false }}\n\n[dependencies]\nstd = {{ path = \"{ministd}\" }}\n")
}

struct Diag { is_err: bool, kind: String, start: usize, end: usize, msg: String }

fn diagnose(dir: &Path) -> anyhow::Result<Vec<Diag>> {
    use sway_types::Spanned;
    let manifest_file = forc_pkg::manifest::ManifestFile::from_dir(dir)?;
    let member_manifests = manifest_file.member_manifests()?;
    let lock_path = manifest_file.lock_path()?;
    let plan = forc_pkg::BuildPlan::from_lock_and_manifests(&lock_path, &member_manifests, false, true, &Default::default())?;
    let engines = sway_core::Engines::default();
    let mut v = forc_pkg::check(&plan, sway_core::BuildTarget::default(), true, None, true, &engines, None, &[], &[], sway_core::DbgGeneration::None)?;
    let (_res, handler) = v.pop().ok_or_else(|| anyhow::anyhow!("no check result"))?;
    let (errs, warns, _infos) = handler.consume();
    let main = dir.join("src/main.sw");
    let in_main = |sp: &sway_types::Span| sp.source_id().map(|id| engines.se().get_path(id) == main).unwrap_or(false);
    let first_word = |s: String| s.split(|c: char| !c.is_alphanumeric()).next().unwrap_or("").to_string();
    let mut out = vec![];
    for e in errs {
        let sp = e.span();
        let (s, t) = if in_main(&sp) { (sp.start(), sp.end()) } else { (usize::MAX, usize::MAX) };
        out.push(Diag { is_err: true, kind: first_word(format!("{:?}", e)), start: s, end: t, msg: format!("{}", e) });
    }
    for w in warns {
        let sp = w.span();
        if !in_main(&sp) { continue; }
        out.push(Diag { is_err: false, kind: first_word(format!("{:?}", w.warning_content)), start: sp.start(), end: sp.end(), msg: String::new() });
    }
    Ok(out)
}

// ---- witness text -> patterns (by NAME of the declarations; no type direction, so the result is whatever
// the compiler printed, even if it is not a pattern of the scrutinee type)
struct Decls { enums: Vec<(String, usize)>, structs: Vec<(String, usize)> }
fn collect_decls(t: &NTy, d: &mut Decls) {
    match t {
        NTy::Enum(n, vs) => { d.enums.push((n.clone(), vs.len())); vs.iter().for_each(|t| collect_decls(t, d)); }
        NTy::Struct(n, ts) => { d.structs.push((n.clone(), ts.len())); ts.iter().for_each(|t| collect_decls(t, d)); }
        NTy::Tuple(ts) => ts.iter().for_each(|t| collect_decls(t, d)),
        _ => {}
    }
}
struct WP<'a> { s: &'a [u8], i: usize, d: &'a Decls }
impl<'a> WP<'a> {
    fn ws(&mut self) { while self.i < self.s.len() && self.s[self.i] == b' ' { self.i += 1; } }
    fn peek(&self) -> u8 { *self.s.get(self.i).unwrap_or(&0) }
    fn lit(&mut self, t: &str) -> bool { if self.s[self.i..].starts_with(t.as_bytes()) { self.i += t.len(); true } else { false } }
    fn ident(&mut self) -> String { let st = self.i; while self.peek().is_ascii_alphanumeric() || self.peek() == b'_' { self.i += 1; } String::from_utf8_lossy(&self.s[st..self.i]).to_string() }
    fn bound(&mut self, min: bool) -> Option<u64> {
        if min && self.lit("MIN") { return Some(0); }
        if !min && self.lit("MAX") { return Some(255); }
        let st = self.i; while self.peek().is_ascii_digit() { self.i += 1; }
        std::str::from_utf8(&self.s[st..self.i]).ok()?.parse().ok()
    }
    fn alts(&mut self) -> Option<Pat> {
        let mut v = vec![self.atom()?];
        loop { self.ws(); if self.lit("| ") || self.lit("|") { self.ws(); v.push(self.atom()?); } else { break; } }
        Some(if v.len() == 1 { v.pop().unwrap() } else { Pat::Or(v) })
    }
    fn atom(&mut self) -> Option<Pat> {
        self.ws();
        let c = self.peek();
        if c == b'(' {
            self.i += 1; let mut v = vec![];
            self.ws();
            if self.peek() == b')' { self.i += 1; return Some(Pat::Tuple(v)); }
            loop { v.push(self.alts()?); self.ws(); if self.peek() == b',' { self.i += 1; } else { break; } }
            self.ws(); if self.peek() != b')' { return None; } self.i += 1;
            return Some(Pat::Tuple(v));
        }
        if c == b'[' {
            self.i += 1; let a = self.bound(true)?; if !self.lit("...") { return None; } let b = self.bound(false)?;
            if self.peek() != b']' { return None; } self.i += 1;
            return Some(Pat::Rng(a, b));
        }
        if c.is_ascii_digit() { let n = self.bound(true)?; return Some(Pat::Rng(n, n)); }
        let id = self.ident();
        if id.is_empty() { return None; }
        if id == "_" { return Some(Pat::Wild); }
        if id == "true" { return Some(Pat::Bool(true)); }
        if id == "false" { return Some(Pat::Bool(false)); }
        if self.lit("::V") {
            let k = self.bound(true)? as usize;
            let n = self.d.enums.iter().find(|(n, _)| *n == id)?.1;
            if self.peek() != b'(' { return None; } self.i += 1;
            let p = self.alts()?; self.ws();
            if self.peek() != b')' { return None; } self.i += 1;
            return Some(Pat::Variant(n, k, Box::new(p)));
        }
        self.ws();
        if self.peek() == b'{' {
            self.i += 1;
            self.d.structs.iter().find(|(n, _)| *n == id)?;
            let pre = format!("f{}_", id.to_lowercase());
            let mut fs = vec![];
            loop {
                self.ws();
                if self.peek() == b'}' { self.i += 1; break; }
                if self.lit("...") { continue; }
                let f = self.ident(); let k: usize = f.strip_prefix(&pre)?.parse().ok()?;
                self.ws(); if self.peek() != b':' { return None; } self.i += 1;
                let p = self.alts()?; fs.push((k, Some(p)));
                self.ws(); if self.peek() == b',' { self.i += 1; }
            }
            return Some(Pat::Struct(fs));
        }
        None
    }
}
fn parse_witnesses(msg: &str, d: &Decls) -> Option<Vec<Pat>> {
    let tail = msg.split("Missing patterns ").nth(1)?;
    let mut out = vec![];
    let parts: Vec<&str> = tail.split('`').collect();
    // `a`, `b`  -> ["", "a", ", ", "b", ""]
    for (i, part) in parts.iter().enumerate() {
        if i % 2 == 0 { if !part.trim().trim_matches(',').trim().is_empty() { return None; } continue; }
        let mut p = WP { s: part.as_bytes(), i: 0, d };
        let pat = p.alts()?; p.ws();
        if p.i != part.len() { return None; }
        // the report flattens one level of or-patterns; keep doing that
        match pat { Pat::Or(v) => out.extend(v), q => out.push(q) }
    }
    Some(out)
}
fn slug(msg: &str) -> String {
    let m = msg.split("Internal compiler error: ").nth(1).unwrap_or(msg).lines().next().unwrap_or("");
    m.chars().map(|c| if c.is_ascii_alphanumeric() { c.to_ascii_lowercase() } else { '-' }).collect::<String>().trim_matches('-').to_string()
}

struct Emitted { fn_range: (usize, usize), arm_ranges: Vec<(usize, usize)>, nty: NTy }

fn emit_fn(i: usize, c: &Case, src: &mut String) -> Emitted {
    let mut names = Names::new(i);
    let nty = name_ty(&c.ty, &mut names);
    src.push_str(&names.decls);
    let start = src.len();
    src.push_str(&format!("fn m{i}(v: {}) -> u64 {{\n    match v {{\n", nty_text(&nty)));
    let mut arm_ranges = vec![];
    for (k, a) in c.arms.iter().enumerate() {
        let mut binds = 0usize;
        let t = pat_text(a, &nty, &mut binds);
        src.push_str("        ");
        let s = src.len(); src.push_str(&t); arm_ranges.push((s, src.len()));
        src.push_str(&format!(" => {k},\n"));
    }
    src.push_str("    }\n}\n");
    Emitted { fn_range: (start, src.len()), arm_ranges, nty }
}

struct Verdict { head: String, exhaustive: bool, witness: String, unreachable: Vec<usize> }

fn phase1(cases: &[Case], root: &Path, ministd: &str, tag: usize) -> Vec<Verdict> {
    let mut src = String::from("library;\n");
    let em: Vec<Emitted> = cases.iter().enumerate().map(|(i, c)| emit_fn(i, c, &mut src)).collect();
    let dir = root.join(format!("diag{tag}"));
    let _ = std::fs::remove_dir_all(&dir);
    write_pkg(&dir, "c14diag", &src, false, &pkg_toml_extra(ministd)).unwrap();
    let diags = match diagnose(&dir) { Ok(d) => d, Err(e) => { eprintln!("sv_c14: check failed: {e:#}"); std::process::exit(3); } };
    let mut out = vec![];
    for e in &em {
        let inside = |d: &&Diag| d.start >= e.fn_range.0 && d.start < e.fn_range.1;
        let errs: Vec<&Diag> = diags.iter().filter(|d| d.is_err).filter(inside).collect();
        let mut unreachable: BTreeSet<usize> = BTreeSet::new();
        for w in diags.iter().filter(|d| !d.is_err && d.kind == "MatchExpressionUnreachableArm").filter(inside) {
            if let Some(k) = e.arm_ranges.iter().position(|(s, t)| w.start >= *s && w.start < *t) { unreachable.insert(k); }
        }
        let mut decls = Decls { enums: vec![], structs: vec![] };
        collect_decls(&e.nty, &mut decls);
        let (head, exhaustive, witness) = if let Some(x) = errs.iter().find(|d| d.kind == "Internal") {
            (format!("ice:{}", slug(&x.msg)), false, "-".to_string())
        } else if let Some(x) = errs.iter().find(|d| d.kind != "MatchExpressionNonExhaustive") {
            eprintln!("sv_c14: unexpected diagnostic {} :: {}\n{}", x.kind, x.msg, &src[e.fn_range.0..e.fn_range.1]);
            (format!("other:{}", x.kind), false, "-".to_string())
        } else if let Some(x) = errs.first() {
            let w = match parse_witnesses(&x.msg, &decls) {
                Some(ps) if !ps.is_empty() => ps.iter().map(pat_sexp).collect::<Vec<_>>().join(";"),
                _ => "unparsed".to_string(),
            };
            ("nonexh".to_string(), false, w)
        } else { ("ok".to_string(), true, "-".to_string()) };
        out.push(Verdict { head, exhaustive, witness, unreachable: unreachable.into_iter().collect() });
    }
    // errors outside every function (should not happen): abort loudly
    for d in diags.iter().filter(|d| d.is_err) {
        if !em.iter().any(|e| d.start >= e.fn_range.0 && d.start < e.fn_range.1) {
            eprintln!("sv_c14: unattributed error {} {}", d.kind, d.msg); std::process::exit(3);
        }
    }
    let _ = std::fs::remove_dir_all(&dir);
    out
}

/// Run the accepted matrices; returns per case the `run=` token. The accepted matrices are split into run
/// packages of bounded size (a big data section makes the compiler panic: "Unable to offset into the data
/// section more than 2^12 bits"); a package that still fails to build is halved until the culprit is alone.
fn phase2(cases: &[Case], accepted: &[usize], root: &Path, ministd: &str, tag: usize, r: &mut Rng) -> Vec<Option<String>> {
    let mut res: Vec<Option<String>> = vec![None; cases.len()];
    let vals: Vec<(usize, Vec<Val>)> = accepted.iter().map(|&i| (i, run_values(&cases[i], r))).collect();
    let mut groups: Vec<Vec<(usize, Vec<Val>)>> = vec![];
    let mut cur: Vec<(usize, Vec<Val>)> = vec![];
    let mut weight = 0usize;
    for (i, vs) in vals {
        if !cur.is_empty() && weight + vs.len() > 1000 { groups.push(std::mem::take(&mut cur)); weight = 0; }
        weight += vs.len();
        cur.push((i, vs));
    }
    if !cur.is_empty() { groups.push(cur); }
    let mut n = 0usize;
    while let Some(g) = groups.pop() {
        n += 1;
        if !run_group(cases, &g, root, ministd, &format!("{tag}_{n}"), &mut res) {
            if g.len() == 1 { res[g[0].0] = Some("buildfail".into()); }
            else { let mut a = g; let b = a.split_off(a.len() / 2); groups.push(a); groups.push(b); }
        }
    }
    res
}

fn run_group(cases: &[Case], g: &[(usize, Vec<Val>)], root: &Path, ministd: &str, tag: &str, res: &mut [Option<String>]) -> bool {
    let mut src = String::from("library;\n");
    for (i, vs) in g {
        let e = emit_fn(*i, &cases[*i], &mut src);
        src.push_str(&format!("#[test]\nfn t{i}() {{\n"));
        for v in vs { src.push_str(&format!("    __log(m{i}({}));\n", val_text(v, &e.nty))); }
        src.push_str("}\n");
    }
    let dir = root.join(format!("run{tag}"));
    let _ = std::fs::remove_dir_all(&dir);
    write_pkg(&dir, "c14run", &src, false, &pkg_toml_extra(ministd)).unwrap();
    // a compiler PANIC while building is reported like a failed build
    let built = guarded(|| build_and_test(&dir, false)).unwrap_or_else(|| Err(anyhow::anyhow!("compiler panicked")));
    let ok = match built {
        Err(e) => { eprintln!("sv_c14: run package of {} matrices failed to build: {e:#}", g.len()); false }
        Ok((outs, _)) => {
            for (i, vs) in g {
                let name = format!("t{i}");
                let Some(o) = outs.iter().find(|o| o.name == name) else { res[*i] = Some("missing".into()); continue; };
                let arms: Vec<u64> = o.logs.iter().filter_map(|l| match l { Log::Word { val, .. } => Some(*val), _ => None }).collect();
                let mut toks = vec![];
                for (k, v) in vs.iter().enumerate() {
                    if k < arms.len() { toks.push(format!("{}:{}", val_sexp(v), arms[k])); }
                    else { toks.push(format!("{}:R", val_sexp(v))); break; }
                }
                if arms.len() == vs.len() && o.state != "return" { toks.push(format!("state:{}", o.state.replace(':', "_"))); }
                res[*i] = Some(if toks.is_empty() { "-".into() } else { toks.join(",") });
            }
            true
        }
    };
    let _ = std::fs::remove_dir_all(&dir);
    ok
}

fn main() {
    let a = args();
    check_fresh();
    quiet_panics();
    let mut r = Rng::new(seed_from_env());
    let root = scratch_dir("c14");
    let ministd = write_ministd(&root);
    // replay helper: `sv_c14 --probe file.sw [--run]` prints the diagnostics (and test logs) of a hand-written library
    if let Some(k) = a.extra.iter().position(|x| x == "--probe") {
        let src = std::fs::read_to_string(&a.extra[k + 1]).unwrap();
        let dir = root.join("probe");
        write_pkg(&dir, "c14probe", &src, false, &pkg_toml_extra(&ministd)).unwrap();
        for d in diagnose(&dir).unwrap() {
            if d.kind.starts_with("Dead") || d.kind == "StructFieldNeverRead" { continue; }
            let txt = if d.end <= src.len() && d.start <= d.end { src[d.start..d.end].replace('\n', " ") } else { String::new() };
            println!("{} {} `{}` :: {}", if d.is_err { "E" } else { "W" }, d.kind, txt, d.msg);
        }
        if a.extra.iter().any(|x| x == "--run") {
            match build_and_test(&dir, false) { Ok((outs, _)) => for o in outs { println!("{:?}", o); }, Err(e) => println!("BUILD ERR {e:#}") }
        }
        let _ = std::fs::remove_dir_all(&root);
        return;
    }
    let mut cases: Vec<Case> = vec![];
    if let Some(c) = &a.corpus {
        for l in std::fs::read_to_string(c).unwrap_or_default().lines() {
            if l.starts_with('#') || l.trim().is_empty() { continue; }
            let f: Vec<&str> = l.split_whitespace().collect();
            if f.len() < 2 { continue; }
            let ty = P { s: f[0].as_bytes(), i: 0 }.ty();
            let arms: Option<Vec<Pat>> = f[1].split(';').map(|s| { let mut p = P { s: s.as_bytes(), i: 0 }; let q = p.pat()?; if p.i == s.len() { Some(q) } else { None } }).collect();
            match (ty, arms) { (Some(ty), Some(arms)) => cases.push(Case { ty, arms }), _ => { eprintln!("sv_c14: bad corpus line {l}"); std::process::exit(3); } }
        }
    }
    if a.extra.iter().any(|x| x == "--systematic") {
        let all = systematic();
        let room = a.n.saturating_sub(cases.len()).max(1);
        let stride = (all.len() + room - 1) / room;
        let off = (seed_from_env() as usize) % stride.max(1);
        cases.extend(all.into_iter().skip(off).step_by(stride.max(1)));
    }
    while cases.len() < a.n && !a.extra.iter().any(|x| x == "--systematic") { cases.push(gen_case(&mut r)); }
    let batch: usize = std::env::var("C14_BATCH").ok().and_then(|s| s.parse().ok()).unwrap_or(150);
    let mut out = std::io::BufWriter::new(std::fs::File::create(&a.out).unwrap());
    let mut stats = (0usize, 0usize, 0usize);
    for (b, chunk) in cases.chunks(batch).enumerate() {
        let verdicts = phase1(chunk, &root, &ministd, b);
        let accepted: Vec<usize> = verdicts.iter().enumerate().filter(|(_, v)| v.head == "ok").map(|(i, _)| i).collect();
        let runs = phase2(chunk, &accepted, &root, &ministd, b, &mut r);
        for ((c, v), run) in chunk.iter().zip(&verdicts).zip(&runs) {
            let arms = c.arms.iter().map(pat_sexp).collect::<Vec<_>>().join(";");
            let unr = if v.unreachable.is_empty() { "-".to_string() } else { v.unreachable.iter().map(|k| k.to_string()).collect::<Vec<_>>().join(",") };
            writeln!(out, "match {} {} ;; {} exhaustive={} witness={} unreachable={} run={}", ty_sexp(&c.ty), arms, v.head,
                if v.exhaustive { 1 } else { 0 }, v.witness, unr, run.clone().unwrap_or("-".into())).unwrap();
            stats.0 += 1; if v.head == "ok" { stats.1 += 1; } if v.head.starts_with("ice") { stats.2 += 1; }
        }
    }
    out.flush().unwrap();
    let _ = std::fs::remove_dir_all(&root);
    let _ = cps("");
    eprintln!("sv_c14: {} cases, {} accepted, {} ice", stats.0, stats.1, stats.2);
}
