//! C04 "IR passes keep the IR well-formed": random sequences of REGISTERED passes on valid IR, the real
//! verifier (SSA dominance on) after EVERY pass, panics caught, watchdog per pass.
//!
//!   seq <module id> <pass,pass,…> ;; ok | passerr@k:<pass>:<class> | verifyfail@k:<pass>:<class>
//!                                    | panic@k:<pass>:<class> | hang@k:<pass> | abort@k:<pass> | initfail:<class>
//!                                    [mod=<number of passes that reported a modification> len=<n> src=<irtest|gen|e2e>]
//!   skip <module id> ;; <reason>
//!
//! The parent process only plans jobs and supervises; the passes run in a worker process (same binary,
//! `--worker`) whose stdout is /dev/null (the verifier prints the whole module on a failure) and which is
//! killed by its own watchdog thread when one pass exceeds the time cap (exit code 3). A sequence that hit the
//! 30 s cap is re-run alone with a 300 s cap before it is called a hang.
//!
//! Module ids: `irtest:<path>` (sway-ir/tests, parsed with new_encoding=false like the test-suite),
//! `gen:<seed>.<i>.t<template>.ne<0|1>.rel<0|1>.t<0|1>` (ircorpus::gen_program_t, initial IR of the compiler),
//! `e2e:<path>.ne….rel….t…` (should_pass e2e program, initial IR). Corpus lines: `seq <module id> <passes>`.
use std::io::Write;
use std::sync::atomic::{AtomicU64, Ordering};
use std::sync::{Arc, Mutex};
use svharness::{ircorpus::*, proto::*, rng::*};
use sway_features::ExperimentalFeatures;
use sway_ir::Context;
use sway_types::SourceEngine;

fn class(msg: &str) -> String {
    let m: String = msg.chars().map(|c| if c.is_ascii_alphabetic() || c == '_' { c } else { ' ' }).collect();
    let w: Vec<&str> = m.split_whitespace().take(10).collect();
    if w.is_empty() { "unknown".into() } else { w.join("_") }
}

/// every pass name a random sequence may contain: all transforms + the analyses that do not print
fn pass_universe() -> Vec<&'static str> {
    let mut v = all_transform_passes();
    v.extend(["postorder", "dominators", "dominance-frontiers", "escaped-symbols", "module-verifier"]);
    let mut pm = sway_ir::PassManager::default();
    sway_ir::register_known_passes(&mut pm);
    v.retain(|n| pm.lookup_registered_pass(n).is_some());
    v
}

fn gen_seq(r: &mut Rng, uni: &[&'static str]) -> Vec<&'static str> {
    let n = 1 + r.below(8) as usize;
    let transforms = all_transform_passes();
    let mut s: Vec<&'static str> = (0..n).map(|_| if r.chance(9, 10) { *r.pick(&transforms) } else { *r.pick(uni) }).collect();
    // bias: the compiler always runs the lowering pass first
    if r.chance(1, 2) { s[0] = sway_ir::INIT_AGGR_LOWERING_NAME; }
    // bias: sometimes a prefix of the real pipeline followed by random passes
    if r.chance(1, 5) {
        let p = pipeline(if r.chance(1, 2) { sway_core::OptLevel::Opt1 } else { sway_core::OptLevel::Opt0 });
        let k = 1 + r.below(p.len().min(7) as u64) as usize;
        let mut t: Vec<&'static str> = p[..k].to_vec();
        t.extend(s.into_iter().take(8 - k.min(8)));
        s = t;
    }
    // family `A, M, B [, tail]`: an analysis-consuming function pass, then a MODULE transform (which must make the
    // PassManager drop the function-scoped analyses cached by A), then another consumer — all on one PassManager
    if r.chance(1, 4) {
        let mut pm = sway_ir::PassManager::default();
        sway_ir::register_known_passes(&mut pm);
        let consumers: Vec<&'static str> = transforms.iter().copied()
            .filter(|n| pm.lookup_registered_pass(n).is_some_and(|p| p.is_function_pass() && !p.deps.is_empty())).collect();
        let module_tf: Vec<&'static str> = transforms.iter().copied()
            .filter(|n| pm.lookup_registered_pass(n).is_some_and(|p| p.is_module_pass())).collect();
        if !consumers.is_empty() && !module_tf.is_empty() {
            let mut t = vec![*r.pick(&consumers), *r.pick(&module_tf), *r.pick(&consumers)];
            if r.chance(1, 2) { t.insert(0, sway_ir::INIT_AGGR_LOWERING_NAME); }
            t.extend(s.into_iter().take(3));
            s = t;
        }
    }
    s.truncate(8);
    s
}

// ------------------------------------------------------------------------------------------------
// worker

struct Watch { started: AtomicU64, cap: u64, cur: Mutex<String> }

fn now_ms() -> u64 { std::time::SystemTime::now().duration_since(std::time::UNIX_EPOCH).unwrap().as_millis() as u64 }

fn module_ctx(id: &str, pool: &mut FrontendPool, se: &'static SourceEngine, scratch_dir: &std::path::Path) -> Result<(Context<'static>, ExperimentalFeatures), String> {
    if let Some(p) = id.strip_prefix("irtest:") {
        let text = std::fs::read_to_string(std::path::Path::new(REPO).join("sway-ir").join(p)).map_err(|e| e.to_string())?;
        let exp = old_encoding();
        return match guarded(|| sway_ir::parser::parse(&text, se, exp, Default::default())) {
            Some(Ok(c)) => Ok((c, exp)),
            Some(Err(e)) => Err(format!("unparsable:{}", class(&e.to_string()))),
            None => Err("unparsable:panic".into()),
        };
    }
    if let Some(p) = id.strip_prefix("irfile:") {
        let text = std::fs::read_to_string(std::path::Path::new("/verif").join(p)).map_err(|e| e.to_string())?;
        let exp = old_encoding();
        return match guarded(|| sway_ir::parser::parse(&text, se, exp, Default::default())) {
            Some(Ok(c)) => Ok((c, exp)),
            _ => Err("unparsable".into()),
        };
    }
    // gen:<seed>.<i>.t<T>.ne<N>.rel<R>.t<I>   |   e2e:<path>.ne<N>.rel<R>.t<I>
    let (body, cfg) = {
        let i = id.rfind(".ne").ok_or("bad id")?;
        (&id[..i], &id[i + 1..])
    };
    let c: Vec<&str> = cfg.split('.').collect();
    if c.len() != 3 { return Err("bad cfg".into()); }
    let o = FrontOpts { new_encoding: c[0] == "ne1", release: c[1] == "rel1", include_tests: c[2] == "t1", all_pkgs: false };
    let dir = scratch_dir.join(format!("{}", body.replace(['/', ':'], "_")));
    if !dir.join("Forc.toml").exists() {
        if let Some(g) = body.strip_prefix("gen:") {
            let f: Vec<&str> = g.split('.').collect();
            let seed: u64 = f[0].parse().map_err(|_| "bad seed")?;
            let i: u64 = f[1].parse().map_err(|_| "bad idx")?;
            let t: u64 = f[2].trim_start_matches('t').parse().map_err(|_| "bad template")?;
            let mut r = Rng::new(seed.wrapping_mul(1_000_003).wrapping_add(i));
            let (_, src) = gen_program_t(&mut r, t);
            svharness::swayrun::write_pkg(&dir, &format!("g{i}"), &src, true, "").map_err(|e| e.to_string())?;
        } else if let Some(p) = body.strip_prefix("e2e:") {
            let src = std::path::Path::new(REPO).join("test/src/e2e_vm_tests/test_programs/should_pass").join(p);
            stage_e2e(&src, &dir)?;
        } else { return Err("bad id".into()); }
    }
    let fe = pool.get(&o);
    let mut v = fe.compile_dir(&dir, &o).map_err(|e| format!("nocompile:{}", class(&e)))?;
    let p = v.pop().ok_or("no package")?;
    Ok((p.ctx, p.experimental))
}

fn worker(jobs_path: &str, out_path: &str, from: usize, only: Option<usize>, cap: u64, deadline_ms: u64) {
    record_panics();
    let jobs: Vec<String> = std::fs::read_to_string(jobs_path).unwrap().lines().map(|s| s.to_string()).collect();
    let mut out = std::fs::OpenOptions::new().create(true).append(true).open(out_path).unwrap();
    let watch = Arc::new(Watch { started: AtomicU64::new(0), cap: cap * 1000, cur: Mutex::new(String::new()) });
    {
        let w = watch.clone();
        let out_path = out_path.to_string();
        std::thread::spawn(move || loop {
            std::thread::sleep(std::time::Duration::from_millis(200));
            let s = w.started.load(Ordering::SeqCst);
            if s != 0 && now_ms().saturating_sub(s) > w.cap {
                // the pass is hung: record where, then kill the whole process
                let cur = w.cur.lock().map(|c| c.clone()).unwrap_or_default();
                if let Ok(mut f) = std::fs::OpenOptions::new().append(true).open(&out_path) { let _ = writeln!(f, "HANG {cur}"); }
                std::process::exit(3);
            }
        });
    }
    let se: &'static SourceEngine = Box::leak(Box::default());
    let mut pool = FrontendPool::default();
    let scratch_dir = scratch("c04w");
    let uni = pass_universe();
    for (idx, job) in jobs.iter().enumerate() {
        if idx < from || only.is_some_and(|o| o != idx) { continue; }
        if only.is_none() && now_ms() > deadline_ms { break; } // time budget of the tier used up: stop cleanly
        let (id, seq) = job.split_once(" | ").unwrap_or((job, ""));
        let passes: Vec<&'static str> = seq.split(',').filter_map(|n| uni.iter().find(|u| **u == n).copied()).collect();
        // marker for the parent: which job is running (an abort leaves it as the last line)
        writeln!(out, "BEGIN {idx}").unwrap();
        let src = id.split(':').next().unwrap_or("?");
        // the front end (type-checking std: 10-60 s on a loaded machine) is not a pass: no watchdog
        let m = module_ctx(id, &mut pool, se, &scratch_dir);
        let (mut ctx, _exp) = match m {
            Ok(x) => x,
            Err(e) => { writeln!(out, "RESULT {idx} skip {id} ;; {}", class(&e)).unwrap(); continue; }
        };
        ctx.verify_ssa_dominance = true;
        let init = guarded(|| ctx.verify());
        let res = match init {
            None => format!("initfail:panic_{}", class(&last_panic())),
            Some(Err(e)) => format!("initfail:{}", class(&e.to_string())),
            Some(Ok(())) => {
                let mut st = Stager::new();
                let mut r = "ok".to_string();
                let mut nmod = 0;
                for (k, p) in passes.iter().enumerate() {
                    *watch.cur.lock().unwrap() = format!("{idx} {k} {p}");
                    writeln!(out, "STEP {idx} {k} {p}").unwrap();
                    if let Ok(d) = std::env::var("VERIF_C04_DUMP") {
                        let _ = std::fs::create_dir_all(&d);
                        let _ = std::fs::write(format!("{d}/job{idx}.before{k}.{p}.ir"), sway_ir::printer::to_string(&ctx));
                    }
                    watch.started.store(now_ms(), Ordering::SeqCst);
                    let o = st.run_pass(&mut ctx, p);
                    watch.started.store(0, Ordering::SeqCst);
                    match o {
                        PassOutcome::Ok { modified } => { nmod += modified as usize; }
                        PassOutcome::PassErr(e) => { r = format!("passerr@{k}:{p}:{}", class(&e)); break; }
                        PassOutcome::VerifyFail(e) => { r = format!("verifyfail@{k}:{p}:{}", class(&e)); break; }
                        PassOutcome::Panic(e) => { r = format!("panic@{k}:{p}:{}", class(&e)); break; }
                    }
                }
                format!("{r} mod={nmod}")
            }
        };
        writeln!(out, "RESULT {idx} seq {id} {seq} ;; {res} len={} src={src}", passes.len()).unwrap();
    }
    let _ = std::fs::remove_dir_all(&scratch_dir);
    writeln!(out, "DONE").unwrap();
}

// ------------------------------------------------------------------------------------------------
// parent

fn spawn_worker(jobs: &str, res: &str, from: usize, only: Option<usize>, cap: u64, deadline_ms: u64) -> i32 {
    let exe = std::env::current_exe().unwrap();
    let mut c = std::process::Command::new(exe);
    c.arg("--worker").arg(jobs).arg(res).arg(from.to_string()).arg(only.map(|o| o.to_string()).unwrap_or("-".into())).arg(cap.to_string()).arg(deadline_ms.to_string());
    c.stdout(std::process::Stdio::null()).stderr(std::process::Stdio::null());
    match c.status() { Ok(s) => s.code().unwrap_or(-1), Err(_) => -2 }
}

fn main() {
    let argv: Vec<String> = std::env::args().collect();
    if argv.get(1).map(|s| s.as_str()) == Some("--worker") {
        let from = argv[4].parse().unwrap_or(0);
        let only = argv[5].parse().ok();
        let cap = argv[6].parse().unwrap_or(30);
        let deadline = argv.get(7).and_then(|s| s.parse().ok()).unwrap_or(u64::MAX);
        worker(&argv[2], &argv[3], from, only, cap, deadline);
        return;
    }
    let a = args();
    let seed = seed_from_env();
    let mut r = Rng::new(seed);
    let tier = std::env::var("VERIF_TIER").unwrap_or("quick".into());
    let thorough = tier == "thorough";
    let uni = pass_universe();
    // ---- plan
    let mut jobs: Vec<String> = vec![];
    if let Some(c) = &a.corpus {
        for l in std::fs::read_to_string(c).unwrap_or_default().lines() {
            let f: Vec<&str> = l.split_whitespace().collect();
            if f.len() == 3 && f[0] == "seq" { jobs.push(format!("{} | {}", f[1], f[2])); }
        }
    }
    let files = ir_test_files();
    let n_corpus = jobs.len();
    let budget = a.n.saturating_sub(n_corpus);
    // module pool: all sway-ir test files + generated programs + sampled e2e programs
    let n_gen = if thorough { 36 } else { 12 };
    let n_e2e = if thorough { 24 } else { 3 };
    let mut mods: Vec<String> = files.iter().map(|f| format!("irtest:{}", f.id)).collect();
    let n_irtest = mods.len();
    for i in 0..n_gen {
        let cfg = *r.pick(&[(1, 0, 1), (1, 1, 1), (0, 1, 0), (0, 0, 0), (1, 1, 0)]);
        mods.push(format!("gen:{seed}.{i}.t{}.ne{}.rel{}.t{}", i as u64 % N_TEMPLATES, cfg.0, cfg.1, cfg.2));
    }
    for p in sample_e2e(&mut r, n_e2e) {
        let cfg = *r.pick(&[(1, 0, 1), (1, 1, 0)]);
        mods.push(format!("e2e:{}.ne{}.rel{}.t{}", e2e_id(&p), cfg.0, cfg.1, cfg.2));
    }
    // every module gets at least one sequence (as far as the budget goes), the rest of the budget is spread
    // 1/2 on sway-ir tests, 1/2 on compiler-produced IR; jobs are sorted by module so the worker reuses packages
    let mut per: Vec<usize> = vec![0; mods.len()];
    for i in 0..budget {
        let j = if i < mods.len() { i } else if r.chance(1, 2) { r.below(n_irtest as u64) as usize } else { n_irtest + r.below((mods.len() - n_irtest) as u64) as usize };
        per[j] += 1;
    }
    // order: every module's first sequence, then the remaining sequences of compiler-produced modules, then the
    // remaining ones of the sway-ir tests (a tier's time budget cuts the tail, never a whole source)
    let mut firsts = vec![]; let mut rest_gen = vec![]; let mut rest_ir = vec![];
    for (j, m) in mods.iter().enumerate() {
        for q in 0..per[j] {
            let job = format!("{m} | {}", gen_seq(&mut r, &uni).join(","));
            if q == 0 { firsts.push(job) } else if j >= n_irtest { rest_gen.push(job) } else { rest_ir.push(job) }
        }
    }
    jobs.extend(firsts); jobs.extend(rest_gen); jobs.extend(rest_ir);
    let jobs_path = format!("{}.jobs", a.out);
    let res_path = format!("{}.res", a.out);
    std::fs::write(&jobs_path, jobs.join("\n") + "\n").unwrap();
    let _ = std::fs::remove_file(&res_path);
    // ---- supervise
    let mut from = 0usize;
    let mut extra: Vec<String> = vec![];
    let t0 = std::time::Instant::now();
    let wall_cap = if thorough { 800 } else { 120 };
    let deadline = now_ms() + wall_cap * 1000;
    loop {
        if t0.elapsed().as_secs() > wall_cap { break; }
        let code = spawn_worker(&jobs_path, &res_path, from, None, 30, deadline);
        let text = std::fs::read_to_string(&res_path).unwrap_or_default();
        if text.lines().last() == Some("DONE") { break; }
        // find the job that was running
        let last_begin = text.lines().rev().find_map(|l| l.strip_prefix("BEGIN ").and_then(|n| n.parse::<usize>().ok()));
        let last_step = text.lines().rev().find(|l| l.starts_with("STEP ")).map(|s| s.to_string());
        let Some(idx) = last_begin else { break };
        let (id, seq) = jobs[idx].split_once(" | ").unwrap();
        let (k, p) = match &last_step {
            Some(s) => { let f: Vec<&str> = s.split_whitespace().collect(); if f[1].parse::<usize>().ok() == Some(idx) { (f[2].to_string(), f[3].to_string()) } else { ("0".into(), "frontend".into()) } }
            None => ("0".into(), "frontend".into()),
        };
        let src = id.split(':').next().unwrap_or("?");
        if code == 3 {
            // watchdog fired: re-run this job alone with the long cap
            let res2 = format!("{}.retry{idx}", a.out);
            let _ = std::fs::remove_file(&res2);
            let code2 = spawn_worker(&jobs_path, &res2, 0, Some(idx), 300, u64::MAX);
            let t2 = std::fs::read_to_string(&res2).unwrap_or_default();
            match t2.lines().find(|l| l.starts_with(&format!("RESULT {idx} "))) {
                Some(l) if code2 == 0 => extra.push(format!("{l} slow=1")),
                _ => extra.push(format!("RESULT {idx} seq {id} {seq} ;; hang@{k}:{p} len={} src={src}", seq.split(',').count())),
            }
            let _ = std::fs::remove_file(&res2);
        } else {
            extra.push(format!("RESULT {idx} seq {id} {seq} ;; abort@{k}:{p} len={} src={src}", seq.split(',').count()));
        }
        from = idx + 1;
        if from >= jobs.len() { break; }
    }
    // ---- emit in job order
    let text = std::fs::read_to_string(&res_path).unwrap_or_default();
    let mut lines: Vec<(usize, String)> = vec![];
    for l in text.lines().chain(extra.iter().map(|s| s.as_str())) {
        if let Some(rest) = l.strip_prefix("RESULT ") {
            if let Some((n, body)) = rest.split_once(' ') { if let Ok(n) = n.parse::<usize>() { lines.push((n, body.to_string())); } }
        }
    }
    lines.sort_by_key(|x| x.0);
    lines.dedup_by_key(|x| x.0);
    let mut out = std::io::BufWriter::new(std::fs::File::create(&a.out).unwrap());
    for (_, l) in &lines { writeln!(out, "{l}").unwrap(); }
    out.flush().unwrap();
    let _ = std::fs::remove_file(&jobs_path);
    let _ = std::fs::remove_file(&res_path);
    eprintln!("sv_c04: {} jobs planned, {} results, {:?}", jobs.len(), lines.len(), t0.elapsed());
}
