//! C12: random `storage { .. }` declarations -> contract package built by the REAL compiler
//! (forc-pkg/sway-core), emitted `storage_slots`, and in-VM reads through forc-test.
//!
//! Lines (one per storage field, self-contained):
//!   `field ns=<a/b|-> name=<f> key=<auto|hex64> pre=<hex preimage|-> dig=<hex64> val=<spec> subs=<i:offWords:spec;..|->
//!      ;; slots=<k:v,k:v|-> st=<state> abi=<hex|-> mem=<hex|-> subs=<i:hex;..|->`
//! and one per package:
//!   `decl <key:spec> <key:spec> .. ;; <k,k|k,..>`   (emitted slot keys grouped by field, in order)
//!
//! `--probe FILE` builds FILE as a contract and dumps slots and logs (replay of hand-written cases).
use sha2::{Digest, Sha256};
use std::collections::BTreeMap;
use std::io::Write;
use svharness::{proto::*, rng::*, swayrun::*};

#[derive(Clone, Debug)]
enum Ty { U8, U16, U32, U64, Bool, B256, U256, Str(usize), Unit, Tuple(Vec<Ty>), Struct(usize), Enum(usize), Opt(Box<Ty>) }

#[derive(Clone, Debug)]
enum V { U8(u8), W(u32, u64), Bool(bool), B32(bool, [u8; 32]), Str(Vec<u8>), Unit, Agg(Vec<V>), En(usize, Box<V>) }

#[derive(Default, Clone)]
struct Decls { structs: Vec<Vec<Ty>>, enums: Vec<Vec<Ty>> }

fn align8(n: usize) -> usize { (n + 7) / 8 * 8 }

impl Decls {
    fn variants(&self, t: &Ty) -> Vec<Ty> {
        match t { Ty::Enum(i) => self.enums[*i].clone(), Ty::Opt(b) => vec![Ty::Unit, (**b).clone()], _ => vec![] }
    }
    fn fields(&self, t: &Ty) -> Vec<Ty> {
        match t { Ty::Tuple(f) => f.clone(), Ty::Struct(i) => self.structs[*i].clone(), _ => vec![] }
    }
    fn size(&self, t: &Ty) -> usize {
        match t {
            Ty::U8 | Ty::Bool => 1,
            Ty::U16 | Ty::U32 | Ty::U64 => 8,
            Ty::B256 | Ty::U256 => 32,
            Ty::Str(n) => align8(*n),
            Ty::Unit => 0,
            Ty::Tuple(_) | Ty::Struct(_) => self.fields(t).iter().map(|f| align8(self.size(f))).sum(),
            Ty::Enum(_) | Ty::Opt(_) => 8 + self.union_words(t) * 8,
        }
    }
    fn union_words(&self, t: &Ty) -> usize {
        self.variants(t).iter().map(|v| align8(self.size(v)) / 8).max().unwrap_or(0)
    }
    fn is_ref(&self, t: &Ty) -> bool {
        !matches!(t, Ty::U8 | Ty::Bool | Ty::U16 | Ty::U32 | Ty::U64 | Ty::Unit)
    }
    fn sway_ty(&self, t: &Ty) -> String {
        match t {
            Ty::U8 => "u8".into(), Ty::U16 => "u16".into(), Ty::U32 => "u32".into(), Ty::U64 => "u64".into(),
            Ty::Bool => "bool".into(), Ty::B256 => "b256".into(), Ty::U256 => "u256".into(),
            Ty::Str(n) => format!("str[{n}]"), Ty::Unit => "()".into(),
            Ty::Tuple(f) => if f.len() == 1 { format!("({},)", self.sway_ty(&f[0])) } else { format!("({})", f.iter().map(|x| self.sway_ty(x)).collect::<Vec<_>>().join(", ")) },
            Ty::Struct(i) => format!("S{i}"), Ty::Enum(i) => format!("E{i}"),
            Ty::Opt(b) => format!("Option<{}>", self.sway_ty(b)),
        }
    }
    fn sway_val(&self, t: &Ty, v: &V) -> String {
        match (t, v) {
            (_, V::U8(n)) => format!("{n}u8"),
            (_, V::W(16, n)) => format!("{n}u16"), (_, V::W(32, n)) => format!("{n}u32"), (_, V::W(_, n)) => format!("{n}u64"),
            (_, V::Bool(b)) => format!("{b}"),
            (_, V::B32(false, b)) => format!("0x{}", hex::encode(b)),
            (_, V::B32(true, b)) => format!("0x{}u256", hex::encode(b)),
            (_, V::Str(s)) => format!("__to_str_array(\"{}\")", String::from_utf8_lossy(s)),
            (_, V::Unit) => "()".into(),
            (Ty::Tuple(f), V::Agg(vs)) => {
                let parts: Vec<String> = f.iter().zip(vs).map(|(t, v)| self.sway_val(t, v)).collect();
                if parts.len() == 1 { format!("({},)", parts[0]) } else { format!("({})", parts.join(", ")) }
            }
            (Ty::Struct(i), V::Agg(vs)) => {
                let parts: Vec<String> = self.structs[*i].iter().zip(vs).enumerate().map(|(k, (t, v))| format!("m{k}: {}", self.sway_val(t, v))).collect();
                format!("S{i} {{ {} }}", parts.join(", "))
            }
            (Ty::Enum(i), V::En(tag, p)) => {
                let vt = &self.enums[*i][*tag];
                if matches!(vt, Ty::Unit) { format!("E{i}::V{tag}") } else { format!("E{i}::V{tag}({})", self.sway_val(vt, p)) }
            }
            (Ty::Opt(b), V::En(tag, p)) => if *tag == 0 { "None".into() } else { format!("Some({})", self.sway_val(b, p)) },
            _ => panic!("ill-typed value"),
        }
    }
    /// value spec for the Lean driver (comma separated prefix notation)
    fn spec(&self, t: &Ty, v: &V, out: &mut Vec<String>) {
        match (t, v) {
            (_, V::U8(n)) => out.push(format!("u8.{n}")),
            (_, V::W(b, n)) => out.push(format!("w.{b}.{n}")),
            (_, V::Bool(b)) => out.push(format!("bo.{}", *b as u8)),
            (_, V::B32(u, b)) => out.push(format!("b32.{}.{}", *u as u8, hex::encode(b))),
            (_, V::Str(s)) => out.push(format!("st.{}", hexbytes(s))),
            (_, V::Unit) => out.push("un".into()),
            (_, V::Agg(vs)) => {
                let fs = self.fields(t);
                out.push(format!("T.{}", vs.len()));
                for (t, v) in fs.iter().zip(vs) { self.spec(t, v, out); }
            }
            (_, V::En(tag, p)) => {
                out.push(format!("E.{tag}.{}", self.union_words(t)));
                let vt = self.variants(t)[*tag].clone();
                self.spec(&vt, p, out);
            }
        }
    }
    fn spec_str(&self, t: &Ty, v: &V) -> String { let mut o = vec![]; self.spec(t, v, &mut o); o.join(",") }
}

fn gen_prim(r: &mut Rng) -> Ty {
    match r.below(9) { 0 => Ty::U8, 1 => Ty::U16, 2 => Ty::U32, 3 | 4 => Ty::U64, 5 => Ty::Bool, 6 => Ty::B256, 7 => Ty::U256, _ => Ty::Str(1 + r.below(11) as usize) }
}

/// a struct/tuple type that contains at least one sub-word leaf (bool/u8) next to other leaves
fn gen_subword_agg(r: &mut Rng, d: &mut Decls) -> Ty {
    let n = 2 + r.below(3) as usize;
    let hot = r.below(n as u64) as usize;
    let fs: Vec<Ty> = (0..n).map(|i| if i == hot || r.chance(1, 3) { if r.chance(1, 2) { Ty::U8 } else { Ty::Bool } } else { gen_prim(r) }).collect();
    if r.chance(1, 2) { Ty::Tuple(fs) } else { d.structs.push(fs); Ty::Struct(d.structs.len() - 1) }
}

fn gen_ty(r: &mut Rng, d: &mut Decls, depth: u32) -> Ty {
    if depth == 0 || r.chance(1, 3) { return gen_prim(r); }
    match r.below(7) {
        5 => {
            // enum / Option whose variants carry aggregate payloads with sub-word members
            if r.chance(1, 2) { return Ty::Opt(Box::new(gen_subword_agg(r, d))); }
            let n = 1 + r.below(3);
            let vs: Vec<Ty> = (0..n).map(|_| match r.below(4) { 0 => Ty::Unit, 1 => gen_prim(r), _ => gen_subword_agg(r, d) }).collect();
            d.enums.push(vs);
            Ty::Enum(d.enums.len() - 1)
        }
        6 => gen_subword_agg(r, d),
        0 => { let n = 1 + r.below(4); Ty::Tuple((0..n).map(|_| gen_ty(r, d, depth - 1)).collect()) }
        1 => {
            if !d.structs.is_empty() && r.chance(1, 3) { return Ty::Struct(r.below(d.structs.len() as u64) as usize); }
            let n = 1 + r.below(4);
            let fs: Vec<Ty> = (0..n).map(|_| gen_ty(r, d, depth - 1)).collect();
            d.structs.push(fs);
            Ty::Struct(d.structs.len() - 1)
        }
        2 => {
            if !d.enums.is_empty() && r.chance(1, 3) { return Ty::Enum(r.below(d.enums.len() as u64) as usize); }
            let n = 1 + r.below(3);
            let vs: Vec<Ty> = (0..n).map(|_| if r.chance(1, 3) { Ty::Unit } else { gen_ty(r, d, depth - 1) }).collect();
            d.enums.push(vs);
            Ty::Enum(d.enums.len() - 1)
        }
        3 => Ty::Opt(Box::new(gen_ty(r, d, depth - 1))),
        _ => gen_prim(r),
    }
}

/// Sub-word and word values are never the all-zero default (a misplaced or dropped byte must be
/// visible); 64-bit values may be 0 occasionally.
fn gen_u64(r: &mut Rng, bits: u32) -> u64 {
    let max = if bits == 64 { u64::MAX } else { (1u64 << bits) - 1 };
    let v = match r.below(6) { 0 => if bits == 64 && r.chance(1, 2) { 0 } else { max - 1 }, 1 => max, 2 => 1, 3 => 1 + r.below(255), _ => r.next() & max };
    if v == 0 && bits < 64 { 1 + r.below(max) } else { v }
}

fn gen_b32(r: &mut Rng) -> [u8; 32] {
    let mut b = [0u8; 32];
    match r.below(5) {
        0 => {}
        1 => { b = [0xff; 32]; }
        2 => { b[31] = r.below(256) as u8; }
        _ => { for x in b.iter_mut() { *x = r.below(256) as u8; } }
    }
    b
}

fn gen_val(r: &mut Rng, d: &Decls, t: &Ty) -> V {
    match t {
        Ty::U8 => V::U8(gen_u64(r, 8) as u8),
        Ty::U16 => V::W(16, gen_u64(r, 16)), Ty::U32 => V::W(32, gen_u64(r, 32)), Ty::U64 => V::W(64, gen_u64(r, 64)),
        Ty::Bool => V::Bool(r.chance(7, 8)),
        Ty::B256 => V::B32(false, gen_b32(r)), Ty::U256 => V::B32(true, gen_b32(r)),
        Ty::Str(n) => V::Str((0..*n).map(|_| *r.pick(b"abcxyzABC019_ ")).collect()),
        Ty::Unit => V::Unit,
        Ty::Tuple(_) | Ty::Struct(_) => V::Agg(d.fields(t).iter().map(|f| gen_val(r, d, f)).collect()),
        Ty::Enum(_) | Ty::Opt(_) => {
            let vs = d.variants(t);
            let mut tag = r.below(vs.len() as u64) as usize;
            // prefer variants with aggregate payloads (2 of 3 draws) when there are any
            let aggs: Vec<usize> = vs.iter().enumerate().filter(|(_, v)| matches!(v, Ty::Tuple(_) | Ty::Struct(_))).map(|(i, _)| i).collect();
            if !aggs.is_empty() && r.chance(2, 3) { tag = *r.pick(&aggs); }
            V::En(tag, Box::new(gen_val(r, d, &vs[tag])))
        }
    }
}

#[derive(Clone)]
struct Field { ns: Vec<String>, name: String, key: Option<[u8; 32]>, ty: Ty, val: V }

struct Pkg { decls: Decls, fields: Vec<Field> }

fn key_string(ns: &[String], name: &str) -> String {
    // documented: sha256((0u8, "storage::<ns1>::<ns2>.<field>"))
    let mut s = String::from("storage");
    for n in ns { s.push_str("::"); s.push_str(n); }
    s.push('.');
    s.push_str(name);
    s
}

fn sha(b: &[u8]) -> [u8; 32] { let mut h = Sha256::new(); h.update(b); h.finalize().into() }

fn gen_pkg(r: &mut Rng, nfields: usize) -> Pkg {
    let mut d = Decls::default();
    let mut fields: Vec<Field> = vec![];
    let nspool = ["na", "nb", "nc"];
    let mut explicit_base: u64 = 0x100 + r.below(1 << 40);
    for i in 0..nfields {
        let depth = r.below(3) as u32 + if r.chance(1, 4) { 1 } else { 0 };
        let mut ty = gen_ty(r, &mut d, depth);
        while d.size(&ty) == 0 || d.size(&ty) > 480 { ty = gen_ty(r, &mut d, depth); }
        let val = gen_val(r, &d, &ty);
        let nsd = match r.below(6) { 0 | 1 | 2 => 0, 3 | 4 => 1, _ => 2 };
        let ns: Vec<String> = (0..nsd).map(|_| r.pick(&nspool).to_string()).collect();
        let mut name = if r.chance(1, 5) { "x".to_string() } else { format!("f{i}") };
        if fields.iter().any(|f| f.ns == ns && f.name == name) { name = format!("g{i}"); }
        let key = if r.chance(1, 5) {
            let mut k = [0u8; 32];
            match r.below(4) {
                0 => { // small, spaced
                    explicit_base += 64;
                    k[24..].copy_from_slice(&explicit_base.to_be_bytes());
                }
                1 => { // near the top of the key space, room for 16 slots, spaced
                    k = [0xff; 32];
                    explicit_base += 64;
                    let low = u64::MAX - 0x10000 - (explicit_base & 0xffff_ffff);
                    k[24..].copy_from_slice(&low.to_be_bytes());
                }
                _ => { for x in k.iter_mut() { *x = r.below(256) as u8; } }
            }
            Some(k)
        } else { None };
        fields.push(Field { ns, name, key, ty, val });
    }
    Pkg { decls: d, fields }
}

/// SYSTEMATIC family (runs first on every run): every leaf type in every wrapper shape, all values
/// non-zero and distinct per position. `half` 0: bool,u8,u16,u32 at the root; 1: u64,b256,u256 in a namespace.
fn systematic_pkg(half: usize) -> Pkg {
    let mut d = Decls::default();
    let mut fields: Vec<Field> = vec![];
    let leaves: Vec<Ty> = if half == 0 { vec![Ty::Bool, Ty::U8, Ty::U16, Ty::U32] } else { vec![Ty::U64, Ty::B256, Ty::U256] };
    let ns: Vec<String> = if half == 0 { vec![] } else { vec!["sy".to_string()] };
    let mut ctr: u64 = 0;
    let mut leaf_val = |t: &Ty| -> V {
        ctr += 1;
        let c = ctr;
        match t {
            Ty::Bool => V::Bool(true),
            Ty::U8 => V::U8((0x10 + (c % 0xe0)) as u8),
            Ty::U16 => V::W(16, 0x2100 + c),
            Ty::U32 => V::W(32, 0x3100_0000 + c),
            Ty::U64 => V::W(64, 0x4100_0000_0000_0000 + c),
            Ty::B256 | Ty::U256 => { let mut b = [0u8; 32]; for (i, x) in b.iter_mut().enumerate() { *x = (0x50 + c as usize * 7 + i) as u8 | 1; } V::B32(matches!(t, Ty::U256), b) }
            _ => unreachable!(),
        }
    };
    let wv = |ctr64: u64| V::W(64, 0x7700_0000_0000_0000 + ctr64);
    let mut k64 = 0u64;
    let mut w = || { k64 += 1; wv(k64) };
    for (li, leaf) in leaves.iter().enumerate() {
        let l = leaf.clone();
        let mut add = |name: String, ty: Ty, val: V, key: Option<[u8; 32]>, fields: &mut Vec<Field>| {
            fields.push(Field { ns: ns.clone(), name, key, ty, val });
        };
        let nm = |w: &str| format!("l{li}_{w}");
        // bare
        add(nm("bare"), l.clone(), leaf_val(&l), None, &mut fields);
        // struct { leaf, u64 } / struct { u64, leaf }
        d.structs.push(vec![l.clone(), Ty::U64]); let s_lu = d.structs.len() - 1;
        d.structs.push(vec![Ty::U64, l.clone()]); let s_ul = d.structs.len() - 1;
        add(nm("s_lu"), Ty::Struct(s_lu), V::Agg(vec![leaf_val(&l), w()]), None, &mut fields);
        add(nm("s_ul"), Ty::Struct(s_ul), V::Agg(vec![w(), leaf_val(&l)]), None, &mut fields);
        // tuple (leaf, leaf)
        add(nm("t_ll"), Ty::Tuple(vec![l.clone(), l.clone()]), V::Agg(vec![leaf_val(&l), leaf_val(&l)]), None, &mut fields);
        // enum variant with leaf payload (union wider than the leaf)
        d.enums.push(vec![Ty::Unit, l.clone(), Ty::Tuple(vec![Ty::U64, Ty::U64])]); let e_l = d.enums.len() - 1;
        add(nm("e_l"), Ty::Enum(e_l), V::En(1, Box::new(leaf_val(&l))), None, &mut fields);
        // enum variant with STRUCT payload, leaf first / last
        d.enums.push(vec![Ty::Unit, Ty::Struct(s_lu), Ty::Struct(s_ul)]); let e_s = d.enums.len() - 1;
        add(nm("e_slu"), Ty::Enum(e_s), V::En(1, Box::new(V::Agg(vec![leaf_val(&l), w()]))), None, &mut fields);
        add(nm("e_sul"), Ty::Enum(e_s), V::En(2, Box::new(V::Agg(vec![w(), leaf_val(&l)]))), None, &mut fields);
        // enum variant with TUPLE payload (leaf, u64, leaf)
        let tup = Ty::Tuple(vec![l.clone(), Ty::U64, l.clone()]);
        d.enums.push(vec![tup.clone(), Ty::U64]); let e_t = d.enums.len() - 1;
        add(nm("e_t"), Ty::Enum(e_t), V::En(0, Box::new(V::Agg(vec![leaf_val(&l), w(), leaf_val(&l)]))), None, &mut fields);
        // Option<leaf> = Some, Option<(leaf, u64)> = Some (explicit `in` key)
        add(nm("o_l"), Ty::Opt(Box::new(l.clone())), V::En(1, Box::new(leaf_val(&l))), None, &mut fields);
        let mut key = [0u8; 32]; key[0] = 0xc1; key[1] = half as u8; key[30] = 1 + li as u8; // 256 slots apart
        add(nm("o_lu"), Ty::Opt(Box::new(Ty::Tuple(vec![l.clone(), Ty::U64]))), V::En(1, Box::new(V::Agg(vec![leaf_val(&l), w()]))), Some(key), &mut fields);
        // Option = None followed by another field
        add(nm("on_l"), Ty::Tuple(vec![Ty::Opt(Box::new(l.clone())), l.clone()]), V::Agg(vec![V::En(0, Box::new(V::Unit)), leaf_val(&l)]), None, &mut fields);
        // nested struct in struct
        d.structs.push(vec![Ty::Struct(s_lu), l.clone()]); let s_n = d.structs.len() - 1;
        add(nm("s_n"), Ty::Struct(s_n), V::Agg(vec![V::Agg(vec![leaf_val(&l), w()]), leaf_val(&l)]), None, &mut fields);
        // enum in struct in enum
        d.enums.push(vec![Ty::Unit, l.clone()]); let e_in = d.enums.len() - 1;
        d.structs.push(vec![Ty::Enum(e_in), l.clone()]); let s_e = d.structs.len() - 1;
        d.enums.push(vec![Ty::U64, Ty::Struct(s_e)]); let e_out = d.enums.len() - 1;
        add(nm("e_s_e"), Ty::Enum(e_out), V::En(1, Box::new(V::Agg(vec![V::En(1, Box::new(leaf_val(&l))), leaf_val(&l)]))), None, &mut fields);
    }
    Pkg { decls: d, fields }
}

/// The fixed scenario that is always run first (regression inputs).
fn scenario_pkg() -> Pkg {
    let mut d = Decls::default();
    d.enums.push(vec![Ty::Unit, Ty::U64]);                    // E0 { V0: (), V1: u64 }
    d.structs.push(vec![Ty::Enum(0), Ty::U64]);               // S0 { m0: E0, m1: u64 }
    d.structs.push(vec![Ty::U8, Ty::Bool, Ty::U16, Ty::B256, Ty::U8]); // S1
    d.enums.push(vec![Ty::Unit, Ty::Unit]);                   // E1 tag-only
    d.enums.push(vec![Ty::U8, Ty::B256, Ty::Struct(1)]);      // E2
    let w = |n: u64| V::W(64, n);
    let f = |ns: &[&str], name: &str, key: Option<[u8; 32]>, ty: Ty, val: V| Field { ns: ns.iter().map(|s| s.to_string()).collect(), name: name.into(), key, ty, val };
    let mut hi = [0xffu8; 32]; hi[31] = 0xf0;
    let mut lo = [0u8; 32]; lo[31] = 0xf0;
    let s1 = V::Agg(vec![V::U8(5), V::Bool(true), V::W(16, 6), V::B32(false, [7; 32]), V::U8(9)]);
    let fields = vec![
        f(&[], "s", None, Ty::Struct(0), V::Agg(vec![V::En(0, Box::new(V::Unit)), w(7)])),
        f(&[], "o", None, Ty::Tuple(vec![Ty::Opt(Box::new(Ty::U64)), Ty::U64]), V::Agg(vec![V::En(0, Box::new(V::Unit)), w(9)])),
        f(&[], "o2", None, Ty::Tuple(vec![Ty::Opt(Box::new(Ty::U64)), Ty::U64]), V::Agg(vec![V::En(1, Box::new(w(3))), w(9)])),
        f(&[], "e", None, Ty::Enum(0), V::En(0, Box::new(V::Unit))),
        f(&[], "t", None, Ty::Enum(1), V::En(1, Box::new(V::Unit))),
        f(&[], "ob", None, Ty::Opt(Box::new(Ty::U8)), V::En(1, Box::new(V::U8(3)))),
        f(&["na"], "s", None, Ty::Struct(1), s1.clone()),
        f(&["na", "nb"], "s", None, Ty::Enum(2), V::En(2, Box::new(s1))),
        f(&["na", "nb"], "e", None, Ty::Enum(2), V::En(0, Box::new(V::U8(200)))),
        f(&[], "k", Some(lo), Ty::Tuple(vec![Ty::B256, Ty::U64]), V::Agg(vec![V::B32(false, [2; 32]), w(5)])),
        f(&["nb"], "k", Some(hi), Ty::U64, w(u64::MAX)),
        f(&[], "st", None, Ty::Tuple(vec![Ty::Str(3), Ty::Str(9), Ty::U8]), V::Agg(vec![V::Str(b"abc".to_vec()), V::Str(b"abcdefghi".to_vec()), V::U8(1)])),
    ];
    Pkg { decls: d, fields }
}

#[derive(Default)]
struct Node { fields: Vec<usize>, kids: BTreeMap<String, Node> }

fn render_storage(p: &Pkg, n: &Node, indent: usize, out: &mut String) {
    let pad = " ".repeat(indent);
    for &i in &n.fields {
        let f = &p.fields[i];
        let key = f.key.map(|k| format!(" in 0x{}", hex::encode(k))).unwrap_or_default();
        out.push_str(&format!("{pad}{}{}: {} = {},\n", f.name, key, p.decls.sway_ty(&f.ty), p.decls.sway_val(&f.ty, &f.val)));
    }
    for (name, kid) in &n.kids {
        out.push_str(&format!("{pad}{name} {{\n"));
        render_storage(p, kid, indent + 4, out);
        out.push_str(&format!("{pad}}},\n"));
    }
}

fn access(f: &Field) -> String {
    if f.ns.is_empty() { format!("storage.{}", f.name) } else { format!("storage::{}.{}", f.ns.join("::"), f.name) }
}

/// direct named sub-fields of a struct-typed storage field: (index, word offset, type)
fn subs(p: &Pkg, f: &Field) -> Vec<(usize, usize, Ty)> {
    if let Ty::Struct(i) = &f.ty {
        let mut off = 0;
        let mut v = vec![];
        for (k, t) in p.decls.structs[*i].iter().enumerate() {
            if p.decls.size(t) > 0 { v.push((k, off / 8, t.clone())); }
            off += align8(p.decls.size(t));
        }
        v
    } else { vec![] }
}

fn render(p: &Pkg) -> String {
    let mut s = String::from("contract;\n\n");
    for (i, vs) in p.decls.enums.iter().enumerate() {
        s.push_str(&format!("enum E{i} {{ {} }}\n", vs.iter().enumerate().map(|(k, t)| format!("V{k}: {}", p.decls.sway_ty(t))).collect::<Vec<_>>().join(", ")));
    }
    for (i, fs) in p.decls.structs.iter().enumerate() {
        s.push_str(&format!("struct S{i} {{ {} }}\n", fs.iter().enumerate().map(|(k, t)| format!("m{k}: {}", p.decls.sway_ty(t))).collect::<Vec<_>>().join(", ")));
    }
    let mut root = Node::default();
    for (i, f) in p.fields.iter().enumerate() {
        let mut n = &mut root;
        for c in &f.ns { n = n.kids.entry(c.clone()).or_default(); }
        n.fields.push(i);
    }
    s.push_str("\nstorage {\n");
    render_storage(p, &root, 4, &mut s);
    s.push_str("}\n\nabi A {\n");
    for i in 0..p.fields.len() { s.push_str(&format!("    #[storage(read)] fn r{i}();\n")); }
    s.push_str("}\n\nimpl A for Contract {\n");
    for (i, f) in p.fields.iter().enumerate() {
        let acc = access(f);
        let mut body = format!("let v = {acc}.read(); log(v);");
        if p.decls.is_ref(&f.ty) {
            body.push_str(&format!(" log(raw_slice::from_parts::<u8>(__addr_of(v), __size_of::<{}>()));", p.decls.sway_ty(&f.ty)));
        }
        for (k, _, _) in subs(p, f) { body.push_str(&format!(" log({acc}.m{k}.read());")); }
        s.push_str(&format!("    #[storage(read)] fn r{i}() {{ {body} }}\n"));
    }
    s.push_str("}\n\n");
    for i in 0..p.fields.len() {
        s.push_str(&format!("#[test]\nfn t{i}() {{ let c = abi(A, CONTRACT_ID); c.r{i}(); }}\n"));
    }
    s
}

fn sub_val<'a>(v: &'a V, k: usize) -> &'a V { if let V::Agg(vs) = v { &vs[k] } else { panic!() } }

/// Build + run one package; returns protocol lines.
fn run_pkg(p: &Pkg, tag: &str) -> Result<Vec<String>, String> {
    let dir = scratch_dir(&format!("c12-{tag}"));
    let _ = std::fs::create_dir_all("/verif/work/C12");
    let src = render(p);
    write_pkg(&dir, "c12pkg", &src, true, "").map_err(|e| e.to_string())?;
    let res = guarded(|| build_and_test(&dir, false));
    let (outs, built) = match res {
        None => { let _ = std::fs::write(format!("/verif/work/C12/last_failed_{tag}.sw"), &src); return Err("compiler panic".into()); }
        Some(Err(e)) => { let _ = std::fs::write(format!("/verif/work/C12/last_failed_{tag}.sw"), &src); return Err(format!("build error: {e:#}")); }
        Some(Ok(x)) => x,
    };
    let _ = std::fs::remove_dir_all(&dir);
    // slots in emission order (the compiler emits field by field in declaration order of the typed
    // storage decl); assign to fields by walking with each field's type size
    let slots: Vec<([u8; 32], [u8; 32])> = built.storage_slots.iter().map(|s| {
        let mut k = [0u8; 32]; k.copy_from_slice(s.key().as_ref());
        let mut v = [0u8; 32]; v.copy_from_slice(s.value().as_ref());
        (k, v)
    }).collect();
    let mut lines = vec![];
    let mut decl_case = vec![];
    let mut decl_impl = vec![];
    for (i, f) in p.fields.iter().enumerate() {
        let pre: Vec<u8> = std::iter::once(0u8).chain(key_string(&f.ns, &f.name).bytes()).collect();
        let dig = sha(&pre);
        let key = f.key.unwrap_or(dig);
        // slots of this field: all emitted slots whose key lies in [key, key + 64) (fields are far apart)
        let mine: Vec<&([u8; 32], [u8; 32])> = slots.iter().filter(|(k, _)| {
            k[..24] == key[..24] && {
                let a = u64::from_be_bytes(k[24..].try_into().unwrap());
                let b = u64::from_be_bytes(key[24..].try_into().unwrap());
                a >= b && a - b < 32
            }
        }).collect();
        let mut mine_sorted = mine.clone();
        mine_sorted.sort();
        let slots_s = if mine_sorted.is_empty() { "-".to_string() } else { mine_sorted.iter().map(|(k, v)| format!("{}:{}", hex::encode(k), hex::encode(v))).collect::<Vec<_>>().join(",") };
        let t = outs.iter().find(|o| o.name == format!("t{i}"));
        let (st, datas): (String, Vec<Vec<u8>>) = match t {
            None => ("missing".into(), vec![]),
            Some(o) => (o.state.clone(), o.logs.iter().filter_map(|l| match l { Log::Data { data, .. } => Some(data.clone()), Log::Word { val, .. } => Some(val.to_be_bytes().to_vec()) }).collect()),
        };
        let mut it = datas.into_iter();
        let abi = it.next().map(|d| hexbytes(&d)).unwrap_or("-".into());
        let mem = if p.decls.is_ref(&f.ty) {
            it.next().map(|d| if d.len() >= 8 { hexbytes(&d[8..]) } else { "bad".into() }).unwrap_or("-".into())
        } else { "-".into() };
        let sb = subs(p, f);
        let subs_case = if sb.is_empty() { "-".to_string() } else { sb.iter().map(|(k, off, t)| format!("{k}:{off}:{}", p.decls.spec_str(t, sub_val(&f.val, *k)))).collect::<Vec<_>>().join(";") };
        let subs_impl = if sb.is_empty() { "-".to_string() } else { sb.iter().map(|(k, _, _)| format!("{k}:{}", it.next().map(|d| hexbytes(&d)).unwrap_or("none".into()))).collect::<Vec<_>>().join(";") };
        let spec = p.decls.spec_str(&f.ty, &f.val);
        lines.push(format!(
            "field ns={} name={} key={} pre={} dig={} val={} subs={} ;; slots={} st={} abi={} mem={} subs={}",
            if f.ns.is_empty() { "-".to_string() } else { f.ns.join("/") }, f.name,
            f.key.map(hex::encode).unwrap_or("auto".into()), hexbytes(&pre), hex::encode(dig), spec, subs_case,
            slots_s, st, abi, mem, subs_impl));
        decl_case.push(format!("{}:{}", hex::encode(key), spec));
        decl_impl.push(if mine.is_empty() { "-".to_string() } else { mine.iter().map(|(k, _)| hex::encode(k)).collect::<Vec<_>>().join(",") });
    }
    // every emitted slot must belong to exactly one field: report strays/duplicates through the decl line
    let total: usize = slots.len();
    lines.push(format!("decl {} ;; total={} {}", decl_case.join(" "), total, decl_impl.join(" ")));
    Ok(lines)
}

/// package `idx` of `seed`: 0 = scenario, 1/2 = systematic family, >= 3 random
fn make_pkg(seed: u64, idx: u64, nfields: usize) -> Pkg {
    match idx {
        0 => scenario_pkg(),
        1 => systematic_pkg(0),
        2 => systematic_pkg(1),
        _ => { let mut r = Rng::new(seed.wrapping_mul(1_000_003).wrapping_add(idx)); gen_pkg(&mut r, nfields) }
    }
}

fn worker(seed: u64, idx: u64, nfields: usize, out: &str) -> i32 {
    let p = make_pkg(seed, idx, nfields);
    match run_pkg(&p, &format!("{seed}-{idx}")) {
        Ok(lines) => { std::fs::write(out, lines.join("\n") + "\n").unwrap(); 0 }
        Err(e) => { eprintln!("sv_c12 worker seed={seed} idx={idx}: {e}"); 3 }
    }
}

fn main() {
    let v: Vec<String> = std::env::args().collect();
    if v.len() >= 3 && v[1] == "--probe" {
        let d = scratch_dir("c12probe");
        let src = std::fs::read_to_string(&v[2]).unwrap();
        write_pkg(&d, "c12probe", &src, true, "").unwrap();
        if v.len() > 3 {
            let fe = svharness::ircorpus::Frontend::new();
            match fe.compile_dir(&d, &svharness::ircorpus::FrontOpts { include_tests: true, ..Default::default() }) { Ok(_) => println!("frontend ok"), Err(e) => println!("frontend: {e}") }
        }
        match build_and_test(&d, false) {
            Ok((outs, built)) => {
                for s in &built.storage_slots { println!("slot {} {}", hex::encode(s.key().as_ref()), hex::encode(s.value().as_ref())); }
                for o in outs {
                    println!("{} {} passed={} panic={:?}", o.name, o.state, o.passed, o.panic);
                    for l in o.logs { match l { Log::Word { val, id } => println!("   LOG {val} id={id}"), Log::Data { id, data } => println!("   LOGD {} id={id}", hex::encode(&data)) } }
                }
            }
            Err(e) => println!("ERR {e:#}"),
        }
        let _ = std::fs::remove_dir_all(&d);
        return;
    }
    if v.len() >= 6 && v[1] == "--worker" {
        quiet_panics();
        std::process::exit(worker(v[2].parse().unwrap(), v[3].parse().unwrap(), v[4].parse().unwrap(), &v[5]));
    }
    if v.len() >= 4 && v[1] == "--show" {
        // print the generated source of package idx for seed
        let (seed, idx): (u64, u64) = (v[2].parse().unwrap(), v[3].parse().unwrap());
        let p = make_pkg(seed, idx, 24);
        println!("{}", render(&p));
        return;
    }
    let a = args();
    let seed = seed_from_env();
    let nfields = 24usize;
    // package indices: 1,2 = systematic family, 0 = scenario, corpus `pkg <seed> <idx>` (idx >= 3), then random
    let mut jobs: Vec<(u64, u64)> = vec![(seed, 1), (seed, 2), (seed, 0)];
    if let Some(c) = &a.corpus {
        for l in std::fs::read_to_string(c).unwrap_or_default().lines() {
            let l = l.trim();
            if l.starts_with('#') || l.is_empty() { continue; }
            let f: Vec<&str> = l.split_whitespace().collect();
            if f.len() == 3 && f[0] == "pkg" { jobs.push((f[1].parse().unwrap(), f[2].parse().unwrap())); }
        }
    }
    // `--n` counts the RANDOM field cases; the systematic family, the scenario and the corpus come on top
    let npk = (a.n + nfields - 1) / nfields;
    for i in 0..npk.max(1) { jobs.push((seed, 3 + i as u64)); }
    let par: usize = std::env::var("VERIF_JOBS").ok().and_then(|s| s.parse().ok()).unwrap_or(4);
    let exe = std::env::current_exe().unwrap();
    let tmp = scratch_dir("c12-out");
    let mut results: Vec<Option<i32>> = vec![None; jobs.len()];
    let mut running: Vec<(usize, std::process::Child)> = vec![];
    let mut next = 0;
    while next < jobs.len() || !running.is_empty() {
        while running.len() < par && next < jobs.len() {
            let (s, i) = jobs[next];
            let outp = tmp.join(format!("{next}.lines"));
            let ch = std::process::Command::new(&exe)
                .args(["--worker", &s.to_string(), &i.to_string(), &nfields.to_string(), outp.to_str().unwrap()])
                .stdout(std::process::Stdio::null())
                .spawn().unwrap();
            running.push((next, ch));
            next += 1;
        }
        let (j, mut ch) = running.remove(0);
        let st = ch.wait().unwrap();
        results[j] = Some(st.code().unwrap_or(9));
    }
    let mut out = std::io::BufWriter::new(std::fs::File::create(&a.out).unwrap());
    let mut cases = 0;
    let mut failed = 0;
    for (j, rc) in results.iter().enumerate() {
        if *rc != Some(0) { failed += 1; eprintln!("sv_c12: package job {j} {:?} failed rc={:?}", jobs[j], rc); continue; }
        let s = std::fs::read_to_string(tmp.join(format!("{j}.lines"))).unwrap_or_default();
        for l in s.lines() { writeln!(out, "{l}").unwrap(); cases += 1; }
    }
    out.flush().unwrap();
    let _ = std::fs::remove_dir_all(&tmp);
    eprintln!("sv_c12: {} cases from {} packages ({} failed)", cases, jobs.len(), failed);
    if failed > 0 { std::process::exit(2); }
}
