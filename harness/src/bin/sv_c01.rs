//! C01/C02: random well-typed Sway programs (harness/src/proggen.rs) compiled by the REAL compiler in the debug
//! and the release profile and executed on the REAL FuelVM (forc-test, in-process).
//! One protocol line per program:
//!   `prog <sexp> ;; <class> debug=<obs> release=<obs>`      (`prog-oob` for the deliberate out-of-bounds stream)
//! with `<obs>` = `ok:<logs>` | `revert:<code>:<logs>`, `<logs>` = `-` or `.`-joined hex LOGD payloads.
//! Extra modes: `--sw FILE` (build + run a hand-written library file, print the outcomes),
//!              `--dump DIR` (also keep the generated package sources under DIR).
//! Corpus lines: `<prog|prog-oob> <sexp> @@ <.sw text, newline as \n, '@' = unique name prefix>`.
use std::collections::BTreeMap;
use std::io::Write;
use svharness::{proggen::*, proto::*, rng::*, swayrun::*};

pub fn outcome_str(o: &TestOutcome) -> String {
    let logs: Vec<String> = o.logs.iter().map(|l| match l {
        Log::Word { val, .. } => format!("w{val:x}"),
        Log::Data { data, .. } => if data.is_empty() { "e".to_string() } else { hex::encode(data) },
    }).collect();
    let logs = if logs.is_empty() { "-".to_string() } else { logs.join(".") };
    if let Some(c) = o.state.strip_prefix("revert:") { return format!("revert:{c}:{logs}"); }
    if o.state == "return" || o.state == "returndata" { return format!("ok:{logs}"); }
    format!("other:{}:{logs}", o.state)
}

/// Type-check the package and render the error diagnostics (forc_test::build only says "Failed to compile").
pub fn diagnose(dir: &std::path::Path) -> String {
    use forc_pkg::manifest::{GenericManifestFile, ManifestFile};
    let run = || -> anyhow::Result<String> {
        let manifest_file = ManifestFile::from_dir(dir)?;
        let member_manifests = manifest_file.member_manifests()?;
        let lock_path = manifest_file.lock_path()?;
        let plan = forc_pkg::BuildPlan::from_lock_and_manifests(&lock_path, &member_manifests, false, true, &Default::default())?;
        let engines = sway_core::Engines::default();
        let mut v = forc_pkg::check(&plan, sway_core::BuildTarget::Fuel, true, None, true, &engines, None, &[], &[], sway_core::DbgGeneration::None)?;
        let (progs, handler) = v.pop().unwrap();
        let (mut errs, _w, _i) = handler.consume();
        let mut out = String::new();
        if errs.is_empty() {
            if let Some(p) = progs {
                // type check passed: the failure is in IR generation / later
                let h = sway_error::handler::Handler::default();
                let bc = sway_core::BuildConfig::root_from_file_name_and_manifest_path(dir.join("src/main.sw"), dir.canonicalize()?, sway_core::BuildTarget::Fuel, sway_core::DbgGeneration::None).with_include_tests(true);
                let _ = sway_core::ast_to_asm(&h, &engines, &p, &bc, sway_features::ExperimentalFeatures::default());
                errs = h.consume().0;
                out.push_str("(after type check)\n");
            }
        }
        for e in errs.iter().take(12) {
            use sway_types::Spanned;
            let sp = e.span();
            let lc = sp.start_line_col_one_index();
            out.push_str(&format!("error at {}:{}: {} | `{}`\n", lc.line, lc.col, e, sp.as_str().chars().take(80).collect::<String>()));
        }
        Ok(out)
    };
    run().unwrap_or_else(|e| format!("diagnose failed: {e:#}"))
}

struct Item { kind: &'static str, sexp: String, sw: String, test: String }

/// Worker mode (`--worker DIR debug|release`): build + run one package in one profile, print `name outcome` lines.
/// A separate process so that a compiler hang or abort cannot take the harness down.
fn worker(dir: &str, release: bool) -> i32 {
    let d = std::path::PathBuf::from(dir);
    let dd = d.clone();
    quiet_panics();
    let built = guarded(move || build_and_test(&dd, release).map(|x| x.0)).unwrap_or_else(|| Err(anyhow::anyhow!("COMPILER PANIC")));
    match built {
        Ok(outs) => { for o in outs { println!("{} {}", o.name, outcome_str(&o)); } 0 }
        Err(e) => { println!("!ERR {e:#}"); println!("{}", diagnose(&d)); 3 }
    }
}

fn pkg_timeout(n: usize) -> std::time::Duration {
    let base: u64 = std::env::var("VERIF_C01_TIMEOUT").ok().and_then(|s| s.parse().ok()).unwrap_or(900);
    std::time::Duration::from_secs(base + 3 * n as u64)
}

/// Build `items` as one package in both profiles (two worker processes side by side).
/// Err = the package does not compile (or the compiler hangs / dies).
fn run_pkg(items: &[&Item], tag: &str, dump: &Option<String>) -> Result<BTreeMap<String, (String, String)>, String> {
    let mut src = package_prelude();
    for it in items { src.push_str(&it.sw); }
    if let Some(dd) = dump { let _ = std::fs::create_dir_all(dd); let _ = std::fs::write(format!("{dd}/{tag}.sw"), &src); }
    let exe = std::env::current_exe().map_err(|e| e.to_string())?;
    let mut kids = vec![];
    for release in [false, true] {
        // one directory per profile: the two builds must not share `out/`
        let d = scratch_dir(&format!("{tag}-{}", if release { "r" } else { "d" }));
        write_pkg(&d, "c01gen", &src, true, "").map_err(|e| e.to_string())?;
        let outf = d.join("worker.out");
        let f = std::fs::File::create(&outf).map_err(|e| e.to_string())?;
        let child = std::process::Command::new(&exe).arg("--worker").arg(&d).arg(if release { "release" } else { "debug" })
            .stdout(f).stderr(std::process::Stdio::null()).spawn().map_err(|e| e.to_string())?;
        kids.push((release, d, outf, child));
    }
    let deadline = std::time::Instant::now() + pkg_timeout(items.len());
    let mut res: BTreeMap<String, (String, String)> = BTreeMap::new();
    let mut err = None;
    for (release, d, outf, mut child) in kids {
        let status = loop {
            match child.try_wait() {
                Ok(Some(st)) => break Some(st),
                Ok(None) => {
                    if std::time::Instant::now() > deadline { let _ = child.kill(); let _ = child.wait(); break None; }
                    std::thread::sleep(std::time::Duration::from_millis(100));
                }
                Err(_) => break None,
            }
        };
        let text = std::fs::read_to_string(&outf).unwrap_or_default();
        let _ = std::fs::remove_dir_all(&d);
        match status {
            None => { err.get_or_insert(format!("release={release} COMPILER HANG (killed after {:?})", pkg_timeout(items.len()))); }
            Some(st) if !st.success() => { err.get_or_insert(format!("release={release} worker {st}: {}", text.chars().take(3000).collect::<String>())); }
            Some(_) => for l in text.lines() {
                if let Some((name, o)) = l.split_once(' ') {
                    let e = res.entry(name.to_string()).or_default();
                    if release { e.1 = o.to_string(); } else { e.0 = o.to_string(); }
                }
            },
        }
    }
    match err { Some(e) => Err(e), None => Ok(res) }
}

/// Run a batch; when the package does not build, bisect so that one bad program cannot take the others down.
fn run_batch(items: &[&Item], tag: &str, dump: &Option<String>, out: &mut BTreeMap<String, (String, String)>) {
    if items.is_empty() { return; }
    match run_pkg(items, tag, dump) {
        Ok(m) => out.extend(m),
        Err(msg) => {
            if items.len() == 1 {
                eprintln!("sv_c01: BUILD ERROR in {}:\n{}\n{}", items[0].test, msg, items[0].sw);
                let c = if msg.contains("COMPILER HANG") { "hang" } else if msg.contains("COMPILER PANIC") { "ice" } else { "builderr" };
                out.insert(items[0].test.clone(), (c.into(), c.into()));
            } else {
                eprintln!("sv_c01: package {tag} ({} programs) does not build; bisecting\n{}", items.len(), msg);
                let (a, b) = items.split_at(items.len() / 2);
                run_batch(a, &format!("{tag}a"), dump, out);
                run_batch(b, &format!("{tag}b"), dump, out);
            }
        }
    }
}

fn class_of(d: &str, r: &str) -> &'static str {
    let c = |s: &str| if s.starts_with("ok:") { 0 } else if s.starts_with("revert:") { 1 } else { 2 };
    match (c(d), c(r)) { (0, 0) => "ok", (1, 1) => "revert", (2, _) | (_, 2) => "nobytecode", _ => "differ" }
}

fn main() {
    let v: Vec<String> = std::env::args().collect();
    if v.len() >= 3 && v[1] == "--sw" {
        let src = std::fs::read_to_string(&v[2]).unwrap();
        let d = scratch_dir("c01sw");
        write_pkg(&d, "c01sw", &src, true, "").unwrap();
        for release in [false, true] {
            match build_and_test(&d, release) {
                Ok((outs, _)) => for o in outs { println!("release={release} {} {}", o.name, outcome_str(&o)); },
                Err(e) => { println!("release={release} BUILDERR {e:#}"); println!("{}", diagnose(&d)); }
            }
        }
        let _ = std::fs::remove_dir_all(&d);
        return;
    }
    if v.len() >= 4 && v[1] == "--worker" { std::process::exit(worker(&v[2], v[3] == "release")); }
    let a = args();
    quiet_panics();
    let seed = seed_from_env();
    let mut dump = None;
    let mut pkg_size = 120usize;
    let mut oob_every = 12usize;
    let mut i = 0;
    while i < a.extra.len() {
        match a.extra[i].as_str() {
            "--dump" => { dump = Some(a.extra[i + 1].clone()); i += 2; }
            "--pkg-size" => { pkg_size = a.extra[i + 1].parse().unwrap(); i += 2; }
            "--oob-every" => { oob_every = a.extra[i + 1].parse().unwrap(); i += 2; }
            _ => { i += 1; }
        }
    }
    let mut items: Vec<Item> = vec![];
    // corpus first
    if let Some(c) = &a.corpus {
        for (k, l) in std::fs::read_to_string(c).unwrap_or_default().lines().enumerate() {
            if l.starts_with('#') || l.trim().is_empty() { continue; }
            let Some((head, sw)) = l.split_once(" @@ ") else { continue };
            let Some((kind, sexp)) = head.split_once(' ') else { continue };
            let pfx = format!("c{k}_");
            let kind = if kind == "prog-oob" { "prog-oob" } else { "prog" };
            items.push(Item { kind, sexp: sexp.replace('@', &pfx), sw: sw.replace("\\n", "\n").replace('@', &pfx) + "\n", test: format!("{pfx}t") });
        }
    }
    let ncorpus = items.len();
    for k in 0..a.n {
        // every program has its own generator state: (seed, k) identifies it
        let mut r = Rng::new(seed.wrapping_mul(0x1_0000_01B3).wrapping_add(k as u64));
        let oob = oob_every > 0 && k % oob_every == oob_every - 1;
        let p = gen_program(&mut r, k, oob);
        items.push(Item { kind: if oob { "prog-oob" } else { "prog" }, sexp: p.to_sexp(), sw: p.to_sw(), test: p.test_name() });
    }
    let t0 = std::time::Instant::now();
    let mut res = BTreeMap::new();
    for (pi, chunk) in items.chunks(pkg_size).enumerate() {
        let refs: Vec<&Item> = chunk.iter().collect();
        run_batch(&refs, &format!("c01-{seed}-{pi}"), &dump, &mut res);
        eprintln!("sv_c01: package {pi} ({} programs) done at {:?}", chunk.len(), t0.elapsed());
    }
    let mut out = std::io::BufWriter::new(std::fs::File::create(&a.out).unwrap());
    let mut missing = 0;
    for it in &items {
        let (d, r) = res.get(&it.test).cloned().unwrap_or_else(|| { missing += 1; ("missing".into(), "missing".into()) });
        writeln!(out, "{} {} ;; {} debug={} release={}", it.kind, it.sexp, class_of(&d, &r), d, r).unwrap();
    }
    out.flush().unwrap();
    let _ = hexbytes(&[]);
    eprintln!("sv_c01: {} programs ({} corpus), {} without result, {:?}", items.len(), ncorpus, missing, t0.elapsed());
}
