//! C01/C02: random well-typed Sway programs (harness/src/proggen.rs) compiled by the REAL compiler in the debug
//! and the release profile and executed on the REAL FuelVM (forc-test, in-process).
//! One protocol line per program:
//!   `prog <sexp> ;; <class> debug=<obs> release=<obs>`      (`prog-oob` for the deliberate out-of-bounds stream)
//! with `<obs>` = `ok:<logs>` | `revert:<code>:<logs>`, `<logs>` = `-` or `.`-joined hex LOGD payloads.
//! Extra modes: `--sw FILE` (build + run a hand-written library file, print the outcomes),
//!              `--dump DIR` (also keep the generated package sources under DIR).
//! Corpus lines: `<prog|prog-oob> <sexp> @@ <.sw text, newline as \n, '@' = unique name prefix>`.
use std::collections::BTreeMap;
use std::io::Write;
use svharness::{proggen::*, proto::*, rng::*, swayrun::*};

pub fn outcome_str(o: &TestOutcome) -> String {
    let logs: Vec<String> = o.logs.iter().map(|l| match l {
        Log::Word { val, .. } => format!("w{val:x}"),
        Log::Data { data, .. } => if data.is_empty() { "e".to_string() } else { hex::encode(data) },
    }).collect();
    let logs = if logs.is_empty() { "-".to_string() } else { logs.join(".") };
    if let Some(c) = o.state.strip_prefix("revert:") { return format!("revert:{c}:{logs}"); }
    if o.state == "return" || o.state == "returndata" { return format!("ok:{logs}"); }
    format!("other:{}:{logs}", o.state)
}

/// Type-check the package and render the error diagnostics (forc_test::build only says "Failed to compile").
pub fn diagnose(dir: &std::path::Path) -> String {
    use forc_pkg::manifest::{GenericManifestFile, ManifestFile};
    let run = || -> anyhow::Result<String> {
        let manifest_file = ManifestFile::from_dir(dir)?;
        let member_manifests = manifest_file.member_manifests()?;
        let lock_path = manifest_file.lock_path()?;
        let plan = forc_pkg::BuildPlan::from_lock_and_manifests(&lock_path, &member_manifests, false, true, &Default::default())?;
        let engines = sway_core::Engines::default();
        let mut v = forc_pkg::check(&plan, sway_core::BuildTarget::Fuel, true, None, true, &engines, None, &[], &[], sway_core::DbgGeneration::None)?;
        let (progs, handler) = v.pop().unwrap();
        let (mut errs, _w, _i) = handler.consume();
        let mut out = String::new();
        if errs.is_empty() {
            if let Some(p) = progs {
                // type check passed: the failure is in IR generation / later
                let h = sway_error::handler::Handler::default();
                let bc = sway_core::BuildConfig::root_from_file_name_and_manifest_path(dir.join("src/main.sw"), dir.canonicalize()?, sway_core::BuildTarget::Fuel, sway_core::DbgGeneration::None).with_include_tests(true);
                let _ = sway_core::ast_to_asm(&h, &engines, &p, &bc, sway_features::ExperimentalFeatures::default());
                errs = h.consume().0;
                out.push_str("(after type check)\n");
            }
        }
        for e in errs.iter().take(12) {
            use sway_types::Spanned;
            let sp = e.span();
            let lc = sp.start_line_col_one_index();
            out.push_str(&format!("error at {}:{}: {} | `{}`\n", lc.line, lc.col, e, sp.as_str().chars().take(80).collect::<String>()));
        }
        Ok(out)
    };
    run().unwrap_or_else(|e| format!("diagnose failed: {e:#}"))
}

struct Item { kind: String, sexp: String, sw: String, test: String }

/// Worker mode (`--worker DIR debug|release`): build + run one package in one profile, print `name outcome` lines.
/// A separate process so that a compiler hang or abort cannot take the harness down.
fn worker(dir: &str, release: bool) -> i32 {
    let d = std::path::PathBuf::from(dir);
    let dd = d.clone();
    std::panic::set_hook(Box::new(|info| {
        let loc = info.location().map(|l| format!("{}:{}", l.file(), l.line())).unwrap_or_default();
        let msg = info.payload().downcast_ref::<&str>().map(|s| s.to_string()).or_else(|| info.payload().downcast_ref::<String>().cloned()).unwrap_or_default();
        println!("!PANIC at {loc}: {}", msg.replace('\n', " "));
    }));
    let built = guarded(move || build_and_test(&dd, release).map(|x| x.0)).unwrap_or_else(|| Err(anyhow::anyhow!("COMPILER PANIC")));
    match built {
        Ok(outs) => { for o in outs { println!("{} {}", o.name, outcome_str(&o)); } 0 }
        Err(e) => { println!("!ERR {e:#}"); println!("{}", diagnose(&d)); 3 }
    }
}

/// Worker processes are started from a private copy of this executable: a `cargo build` by somebody else during the
/// run replaces target/debug/sv_c01, and `current_exe()` would then point at a deleted file.
fn worker_exe() -> std::path::PathBuf {
    static EXE: std::sync::OnceLock<std::path::PathBuf> = std::sync::OnceLock::new();
    EXE.get_or_init(|| {
        let me = std::env::current_exe().unwrap();
        let d = scratch_dir("c01-exe");
        let copy = d.join("sv_c01");
        if std::fs::copy(&me, &copy).is_ok() { copy } else { me }
    }).clone()
}

fn pkg_timeout(n: usize) -> std::time::Duration {
    let base: u64 = std::env::var("VERIF_C01_TIMEOUT").ok().and_then(|s| s.parse().ok()).unwrap_or(900);
    std::time::Duration::from_secs(base + 3 * n as u64)
}

/// Build `items` as one package in both profiles (two worker processes side by side).
/// Err = the package does not compile (or the compiler hangs / dies).
fn run_pkg(items: &[&Item], tag: &str, dump: &Option<String>) -> Result<BTreeMap<String, (String, String)>, String> {
    let mut src = package_prelude();
    for it in items { src.push_str(&it.sw); }
    if let Some(dd) = dump { let _ = std::fs::create_dir_all(dd); let _ = std::fs::write(format!("{dd}/{tag}.sw"), &src); }
    let exe = worker_exe();
    let mut kids = vec![];
    for release in [false, true] {
        // one directory per profile: the two builds must not share `out/`
        let d = scratch_dir(&format!("{tag}-{}", if release { "r" } else { "d" }));
        write_pkg(&d, "c01gen", &src, true, "").map_err(|e| e.to_string())?;
        let outf = d.join("worker.out");
        let f = std::fs::File::create(&outf).map_err(|e| e.to_string())?;
        let child = std::process::Command::new(&exe).arg("--worker").arg(&d).arg(if release { "release" } else { "debug" })
            .stdout(f).stderr(std::process::Stdio::null()).spawn().map_err(|e| e.to_string())?;
        kids.push((release, d, outf, child));
    }
    let t_start = std::time::Instant::now();
    let mut deadline = t_start + pkg_timeout(items.len());
    let mut res: BTreeMap<String, (String, String)> = BTreeMap::new();
    let mut err = None;
    // wait for both workers; once one profile is done the other gets 4x its time + 90 s (a compiler hang must
    // not cost the full budget)
    let mut status: Vec<Option<Option<std::process::ExitStatus>>> = vec![None, None];
    while status.iter().any(|s| s.is_none()) {
        for (k, kid) in kids.iter_mut().enumerate() {
            if status[k].is_some() { continue; }
            match kid.3.try_wait() {
                Ok(Some(st)) => {
                    status[k] = Some(Some(st));
                    let adaptive = std::time::Instant::now() + t_start.elapsed() * 4 + std::time::Duration::from_secs(90);
                    if adaptive < deadline { deadline = adaptive; }
                }
                Ok(None) => if std::time::Instant::now() > deadline { let _ = kid.3.kill(); let _ = kid.3.wait(); status[k] = Some(None); },
                Err(_) => status[k] = Some(None),
            }
        }
        std::thread::sleep(std::time::Duration::from_millis(100));
    }
    for ((release, d, outf, _child), status) in kids.into_iter().zip(status.into_iter().map(|s| s.unwrap())) {
        let text = std::fs::read_to_string(&outf).unwrap_or_default();
        let _ = std::fs::remove_dir_all(&d);
        match status {
            None => { err.get_or_insert(format!("release={release} COMPILER HANG (killed after {:?})", t_start.elapsed())); }
            Some(st) if !st.success() => { err.get_or_insert(format!("release={release} worker {st}: {}", text.chars().take(3000).collect::<String>())); }
            Some(_) => for l in text.lines() {
                if let Some((name, o)) = l.split_once(' ') {
                    let e = res.entry(name.to_string()).or_default();
                    if release { e.1 = o.to_string(); } else { e.0 = o.to_string(); }
                }
            },
        }
    }
    match err { Some(e) => Err(e), None => Ok(res) }
}

/// Run a batch; when the package does not build, bisect so that one bad program cannot take the others down.
fn run_batch(items: &[&Item], tag: &str, dump: &Option<String>, out: &mut BTreeMap<String, (String, String)>) {
    if items.is_empty() { return; }
    match run_pkg(items, tag, dump) {
        Ok(m) => out.extend(m),
        Err(msg) => {
            if items.len() == 1 {
                eprintln!("sv_c01: BUILD ERROR in {}:\n{}\n{}", items[0].test, msg, items[0].sw);
                let c = if msg.contains("COMPILER HANG") { "hang" } else if msg.contains("COMPILER PANIC") { "ice" } else { "builderr" };
                out.insert(items[0].test.clone(), (c.into(), c.into()));
            } else {
                eprintln!("sv_c01: package {tag} ({} programs) does not build; bisecting\n{}", items.len(), msg);
                let (a, b) = items.split_at(items.len() / 2);
                run_batch(a, &format!("{tag}a"), dump, out);
                run_batch(b, &format!("{tag}b"), dump, out);
            }
        }
    }
}


// ------------------------------------------------------------------------------------------ e2e scripts

const E2E_ROOT: &str = "/repo/test/src/e2e_vm_tests/test_programs/should_pass/language";

/// e2e `run` scripts that depend only on std by path, take no script data and have a plain expected result.
fn e2e_candidates() -> Vec<(String, std::path::PathBuf, String)> {
    let mut out = vec![];
    let mut dirs: Vec<_> = std::fs::read_dir(E2E_ROOT).map(|d| d.filter_map(|e| e.ok()).map(|e| e.path()).collect()).unwrap_or_default();
    dirs.sort();
    for d in dirs {
        let (Ok(tt), Ok(ft), Ok(src)) = (std::fs::read_to_string(d.join("test.toml")), std::fs::read_to_string(d.join("Forc.toml")), std::fs::read_to_string(d.join("src/main.sw"))) else { continue };
        let (Ok(t), Ok(f)) = (tt.parse::<toml::Value>(), ft.parse::<toml::Value>()) else { continue };
        if t.get("category").and_then(|c| c.as_str()) != Some("run") { continue; }
        if t.get("script_data").is_some() || t.get("script_data_new_encoding").is_some() || t.get("witness_data").is_some() || t.get("experimental").is_some() || t.get("unsupported_profiles").is_some() { continue; }
        if !src.trim_start().starts_with("script;") { continue; }
        // dependencies: exactly `std` by a path that ends in sway-lib-std
        let deps = f.get("dependencies").and_then(|d| d.as_table()).cloned().unwrap_or_default();
        if deps.len() != 1 { continue; }
        let Some(p) = deps.get("std").and_then(|s| s.get("path")).and_then(|p| p.as_str()) else { continue };
        if !p.ends_with("sway-lib-std") { continue; }
        if f.get("contract-dependencies").is_some() || f.get("patch").is_some() { continue; }
        // expected result (new encoding is the default of this tree)
        let exp = t.get("expected_result_new_encoding").or_else(|| t.get("expected_result"));
        let Some(exp) = exp else { continue };
        let expected = match (exp.get("action").and_then(|a| a.as_str()), exp.get("value")) {
            (Some("return_data"), Some(toml::Value::String(h))) => format!("retd:{}", { let x = h.replace(' ', "").to_lowercase(); if x.is_empty() { "-".to_string() } else { x } }),
            (Some("return"), Some(toml::Value::Integer(v))) => format!("ret:{v}"),
            (Some("revert"), Some(toml::Value::Integer(v))) => format!("revert:{}", *v as u64),
            _ => continue,
        };
        out.push((d.file_name().unwrap().to_string_lossy().to_string(), d, expected));
    }
    out
}

fn copy_dir(from: &std::path::Path, to: &std::path::Path) -> std::io::Result<()> {
    std::fs::create_dir_all(to)?;
    for e in std::fs::read_dir(from)? {
        let e = e?;
        let (src, dst) = (e.path(), to.join(e.file_name()));
        if e.file_type()?.is_dir() { if e.file_name() != "out" { copy_dir(&src, &dst)?; } } else if e.file_name() != "Forc.lock" { std::fs::copy(&src, &dst)?; }
    }
    Ok(())
}

/// `--e2e-worker DIR debug|release`: build the script package with forc-pkg, run it on the VM the way
/// test/src/e2e_vm_tests/harness.rs `runs_in_vm` does, print `ret:<n>` | `retd:<hex>` | `revert:<code>`.
fn e2e_worker(dir: &str, release: bool) -> i32 {
    use fuel_tx::{ConsensusParameters, Finalizable, Receipt, ScriptParameters, TransactionBuilder, TxParameters};
    use fuel_tx::consensus_parameters::ConsensusParametersV1;
    use fuel_vm::checked_transaction::builder::TransactionBuilderExt;
    use fuel_vm::interpreter::{Interpreter, MemoryInstance};
    use fuel_vm::prelude::SecretKey;
    use fuel_vm::state::ProgramState;
    use fuel_vm::storage::MemoryStorage;
    quiet_panics();
    let dir = dir.to_string();
    let run = move || -> anyhow::Result<String> {
        let opts = forc_pkg::BuildOpts {
            pkg: forc_pkg::PkgOpts { path: Some(dir.clone()), offline: true, terse: true, locked: false, ..Default::default() },
            release, no_output: true, ..Default::default()
        };
        let built = forc_pkg::build_with_options(&opts, None)?;
        let pkg = match built { forc_pkg::Built::Package(p) => p, forc_pkg::Built::Workspace(mut v) => v.remove(0) };
        let max_size = 64 * 1024 * 1024;
        let params = ConsensusParameters::V1(ConsensusParametersV1 {
            script_params: ScriptParameters::DEFAULT.with_max_script_length(max_size).with_max_script_data_length(max_size),
            tx_params: TxParameters::DEFAULT.with_max_size(max_size),
            ..Default::default()
        });
        let mut tb = TransactionBuilder::script(pkg.bytecode.bytes.clone(), vec![]);
        let secret = SecretKey::try_from(&[7u8; 32][..]).map_err(|e| anyhow::anyhow!("{e:?}"))?;
        tb.with_params(params).add_unsigned_coin_input(secret, Default::default(), 1, Default::default(), Default::default()).maturity(1.into());
        let consensus_params = tb.get_params().clone();
        let dflt = ConsensusParameters::default();
        let tmp_tx = tb.clone().finalize();
        use fuel_tx::Chargeable;
        let max_gas = tmp_tx.max_gas(consensus_params.gas_costs(), consensus_params.fee_params()) + 1;
        tb.script_gas_limit(consensus_params.tx_params().max_gas_per_tx() - max_gas);
        let tx = tb.finalize_checked((u32::MAX >> 1).into()).into_ready(0, dflt.gas_costs(), dflt.fee_params(), None).map_err(|e| anyhow::anyhow!("{e:?}"))?;
        let mut i: Interpreter<_, _, fuel_tx::Script> = Interpreter::with_storage(MemoryInstance::new(), MemoryStorage::default(), Default::default());
        let transition = i.transact(tx).map_err(|e| anyhow::anyhow!("vm: {e:?}"))?;
        let receipts = transition.receipts().to_vec();
        Ok(match *transition.state() {
            ProgramState::Return(v) => format!("ret:{v}"),
            ProgramState::ReturnData(d) => {
                let data = receipts.iter().find(|r| r.digest() == Some(&d)).and_then(|r| r.data().map(|x| x.to_vec())).unwrap_or_default();
                let _ = Receipt::ret;
                format!("retd:{}", hexbytes(&data))
            }
            ProgramState::Revert(v) => format!("revert:{v}"),
            _ => "other".into(),
        })
    };
    match guarded(run) {
        Some(Ok(s)) => { println!("{s}"); 0 }
        Some(Err(e)) => { println!("builderr {}", format!("{e:#}").replace('\n', " ")); 3 }
        None => { println!("builderr COMPILER-PANIC"); 3 }
    }
}

/// Run `n` seed-chosen e2e scripts in both profiles (all worker processes side by side); returns protocol lines.
type E2eKid = (String, String, bool, std::path::PathBuf, std::path::PathBuf, Option<std::process::Child>);

fn choose_e2e(n: usize, r: &mut Rng) -> Vec<(String, std::path::PathBuf, String)> {
    let mut cands = e2e_candidates();
    let mut chosen = vec![];
    while chosen.len() < n && !cands.is_empty() { let i = r.below(cands.len() as u64) as usize; chosen.push(cands.swap_remove(i)); }
    chosen
}

fn spawn_e2e(chosen: &[(String, std::path::PathBuf, String)]) -> Vec<E2eKid> {
    let exe = worker_exe();
    let mut kids = vec![];
    for (name, dir, expected) in chosen {
        for release in [false, true] {
            let d = scratch_dir(&format!("c01e2e-{name}-{}", if release { "r" } else { "d" }));
            let ok = copy_dir(dir, &d).is_ok();
            // absolute std path
            if let Ok(ft) = std::fs::read_to_string(d.join("Forc.toml")) {
                let fixed: String = ft.lines().map(|l| if l.trim_start().starts_with("std") && l.contains("path") { format!("std = {{ path = \"{STD_PATH}\" }}") } else { l.to_string() }).collect::<Vec<_>>().join("\n");
                let _ = std::fs::write(d.join("Forc.toml"), fixed + "\n");
            }
            let outf = d.join("worker.out");
            let child = if ok { std::fs::File::create(&outf).ok().and_then(|f| std::process::Command::new(&exe).arg("--e2e-worker").arg(&d).arg(if release { "release" } else { "debug" }).stdout(f).stderr(std::process::Stdio::null()).spawn().ok()) } else { None };
            kids.push((name.clone(), expected.clone(), release, d, outf, child));
        }
    }
    kids
}

fn collect_e2e(kids: Vec<E2eKid>) -> Vec<String> {
    let deadline = std::time::Instant::now() + pkg_timeout(40);
    let mut res: BTreeMap<String, (String, String, String)> = BTreeMap::new();
    for (name, expected, release, d, outf, child) in kids {
        let mut got = "builderr".to_string();
        if let Some(mut child) = child {
            let done = loop {
                match child.try_wait() {
                    Ok(Some(_)) => break true,
                    Ok(None) => { if std::time::Instant::now() > deadline { let _ = child.kill(); let _ = child.wait(); break false; } std::thread::sleep(std::time::Duration::from_millis(100)); }
                    Err(_) => break false,
                }
            };
            if done { if let Some(l) = std::fs::read_to_string(&outf).unwrap_or_default().lines().next() { got = l.split(' ').next().unwrap_or("builderr").to_string(); if got == "builderr" { eprintln!("sv_c01: e2e {name} release={release}: {l}"); } } }
        }
        let _ = std::fs::remove_dir_all(&d);
        let e = res.entry(name).or_insert((expected, String::new(), String::new()));
        if release { e.2 = got; } else { e.1 = got; }
    }
    res.into_iter().map(|(name, (exp, d, r))| {
        let class = if d.starts_with("builderr") || r.starts_with("builderr") { "nobytecode" } else if d == r { "same" } else { "differ" };
        format!("e2e {name} {exp} ;; {class} debug={d} release={r}")
    }).collect()
}

fn class_of(d: &str, r: &str) -> &'static str {
    let c = |s: &str| if s.starts_with("ok:") { 0 } else if s.starts_with("revert:") { 1 } else { 2 };
    match (c(d), c(r)) { (0, 0) => "ok", (1, 1) => "revert", (2, _) | (_, 2) => "nobytecode", _ => "differ" }
}

fn main() {
    let v: Vec<String> = std::env::args().collect();
    if v.len() >= 3 && v[1] == "--sw" {
        let src = std::fs::read_to_string(&v[2]).unwrap();
        let d = scratch_dir("c01sw");
        write_pkg(&d, "c01sw", &src, true, "").unwrap();
        for release in [false, true] {
            match build_and_test(&d, release) {
                Ok((outs, _)) => for o in outs { println!("release={release} {} {}", o.name, outcome_str(&o)); },
                Err(e) => { println!("release={release} BUILDERR {e:#}"); println!("{}", diagnose(&d)); }
            }
        }
        let _ = std::fs::remove_dir_all(&d);
        return;
    }
    if v.len() >= 4 && v[1] == "--worker" { std::process::exit(worker(&v[2], v[3] == "release")); }
    if v.len() >= 4 && v[1] == "--e2e-worker" { std::process::exit(e2e_worker(&v[2], v[3] == "release")); }
    let a = args();
    quiet_panics();
    let _ = worker_exe();
    let seed = seed_from_env();
    let mut dump = None;
    let mut pkg_size = 120usize;
    let mut oob_every = 12usize;
    let mut e2e = "0".to_string();
    let mut i = 0;
    while i < a.extra.len() {
        match a.extra[i].as_str() {
            "--dump" => { dump = Some(a.extra[i + 1].clone()); i += 2; }
            "--pkg-size" => { pkg_size = a.extra[i + 1].parse().unwrap(); i += 2; }
            "--oob-every" => { oob_every = a.extra[i + 1].parse().unwrap(); i += 2; }
            "--e2e" => { e2e = a.extra[i + 1].clone(); i += 2; }
            _ => { i += 1; }
        }
    }
    let mut items: Vec<Item> = vec![];
    // corpus first
    if let Some(c) = &a.corpus {
        for (k, l) in std::fs::read_to_string(c).unwrap_or_default().lines().enumerate() {
            if l.starts_with('#') || l.trim().is_empty() { continue; }
            let Some((head, sw)) = l.split_once(" @@ ") else { continue };
            let Some((kind, sexp)) = head.split_once(' ') else { continue };
            let pfx = format!("c{k}_");
            // corpus kinds: `prog`, `prog-oob`, or `prog-<tag>` for the replay of a specific finding
            let kind = if kind.starts_with("prog") { kind.to_string() } else { "prog".to_string() };
            items.push(Item { kind, sexp: sexp.replace('@', &pfx), sw: sw.replace("\\n", "\n").replace('@', &pfx) + "\n", test: format!("{pfx}t") });
        }
    }
    let ncorpus = items.len();
    for k in 0..a.n {
        // every program has its own generator state: (seed, k) identifies it
        let mut r = Rng::new(seed.wrapping_mul(0x1_0000_01B3).wrapping_add(k as u64));
        let oob = oob_every > 0 && k % oob_every == oob_every - 1;
        // every 15th program may contain the shape of finding F4 (`prog-aggsel`)
        let aggsel = !oob && k % 15 == 7;
        // every 6th program is a near-duplicate family program (an ORDINARY stream: fn-dedup / const demotion)
        let neardup = !oob && !aggsel && k % 6 == 3;
        // every 15th program may contain the shape of finding F6 (`prog-selfupd`)
        let selfupd = !oob && !aggsel && !neardup && k % 15 == 13;
        let p = if neardup { gen_neardup_program(&mut r, k) } else { gen_program(&mut r, k, oob, aggsel, selfupd) };
        items.push(Item { kind: if oob { "prog-oob".to_string() } else if aggsel { "prog-aggsel".to_string() } else if neardup { "prog-neardup".to_string() } else if selfupd { "prog-selfupd".to_string() } else { "prog".to_string() }, sexp: p.to_sexp(), sw: p.to_sw(), test: p.test_name() });
    }
    if std::env::var("VERIF_C01_DUMP_ONLY").is_ok() {
        // write the generated sources (one file) and stop: used to look at a program by name
        let mut src = package_prelude();
        for it in &items { src.push_str(&format!("// {} {}\n", it.kind, it.test)); src.push_str(&it.sw); }
        std::fs::write(&a.out, src).unwrap();
        return;
    }
    let t0 = std::time::Instant::now();
    // e2e scripts: `--e2e N` or `--e2e auto` (3 in the quick tier, 12 in the thorough tier); their worker
    // processes run side by side with the package builds
    let ne2e = if e2e == "auto" { if std::env::var("VERIF_TIER").as_deref() == Ok("thorough") { 12 } else { 3 } } else { e2e.parse().unwrap_or(0) };
    let e2e_chosen = choose_e2e(ne2e, &mut Rng::new(seed ^ 0xE2E));
    // the first three run side by side with the package builds, the rest afterwards in batches of three
    let e2e_kids = spawn_e2e(&e2e_chosen[..e2e_chosen.len().min(3)]);
    // packages are independent: build up to VERIF_C01_JOBS (default 3) of them side by side
    let chunks: Vec<Vec<&Item>> = items.chunks(pkg_size).map(|c| c.iter().collect()).collect();
    let jobs: usize = std::env::var("VERIF_C01_JOBS").ok().and_then(|s| s.parse().ok()).unwrap_or(3).max(1);
    let res_m = std::sync::Mutex::new(BTreeMap::new());
    let next = std::sync::atomic::AtomicUsize::new(0);
    std::thread::scope(|sc| {
        for _ in 0..jobs.min(chunks.len().max(1)) {
            sc.spawn(|| loop {
                let pi = next.fetch_add(1, std::sync::atomic::Ordering::SeqCst);
                if pi >= chunks.len() { break; }
                let mut local = BTreeMap::new();
                run_batch(&chunks[pi], &format!("c01-{seed}-{pi}"), &dump, &mut local);
                res_m.lock().unwrap().extend(local);
                eprintln!("sv_c01: package {pi} ({} programs) done at {:?}", chunks[pi].len(), t0.elapsed());
            });
        }
    });
    let res = res_m.into_inner().unwrap();
    let mut out = std::io::BufWriter::new(std::fs::File::create(&a.out).unwrap());
    let mut missing = 0;
    for it in &items {
        let (d, r) = res.get(&it.test).cloned().unwrap_or_else(|| { missing += 1; ("missing".into(), "missing".into()) });
        writeln!(out, "{} {} ;; {} debug={} release={}", it.kind, it.sexp, class_of(&d, &r), d, r).unwrap();
    }
    if ne2e > 0 {
        for l in collect_e2e(e2e_kids) { writeln!(out, "{l}").unwrap(); }
        for chunk in e2e_chosen[e2e_chosen.len().min(3)..].chunks(3) {
            for l in collect_e2e(spawn_e2e(chunk)) { writeln!(out, "{l}").unwrap(); }
        }
        eprintln!("sv_c01: {ne2e} e2e scripts done at {:?}", t0.elapsed());
    }
    out.flush().unwrap();
    eprintln!("sv_c01: {} programs ({} corpus), {} without result, {:?}", items.len(), ncorpus, missing, t0.elapsed());
    if let Some(d) = worker_exe().parent() { if d.to_string_lossy().contains("c01-exe") { let _ = std::fs::remove_dir_all(d); } }
}
