//! C11: contract calls dispatch to the named method with intact arguments.
//!
//! For each random contract (1-12 methods over 1-3 ABIs, adversarial names, random argument / return
//! types, with or without `#[fallback]`) the REAL compiler builds the package (forc-pkg/sway-core) and
//! forc-test runs one `#[test]` per call on the REAL FuelVM: every ABI method is called through
//! `abi(.., CONTRACT_ID).method(args)`, and some names that are NOT in the ABI are called through a
//! second ABI cast on the same contract id or through `std::codec::contract_call` with a hand-made
//! name. Every method logs its own id and its arguments and returns a value derived from them; the test
//! logs what it got back. The generated `__entry` source is captured with the hook
//! `SWAY_VERIF_DUMP_ENTRY` and its dispatch table (names literal, per arm key/len/offset/method) is
//! extracted from the text.
//!
//! Line: `abi <name-hex,..> fb=<0|1> call <name-hex|-> via=<abi|abi2|raw> ;;
//!        table=<names-hex>:<key/len/off/idx,..>:<F|R> ran=<idx|fallback|revert|other> args_ok=<0|1> ret_ok=<0|1>`
//! `abi` lists the method names in `contract_fns` order (impl blocks in source order, methods of a block
//! in byte order — `impl_trait.rs` collects them in a `BTreeMap<(Ident, _), _>`), idx = position.
//!
//! Corpus lines: `<fb 0|1> <abi1-names,..;abi2-names,..> <bogus-names,..|->` (plain identifiers).
use std::io::Write;
use svharness::{proto::*, rng::*, swayrun::*};

const METHOD_MARK: u64 = 0xC0DE_0000;
const FALLBACK_MARK: u64 = 0xFA11_BACC;
const RETURN_MARK: u64 = 0x7E57;
const FALLBACK_RET: u64 = 424_242;
const ZERO_B256: &str = "0x0000000000000000000000000000000000000000000000000000000000000000";

const KEYWORDS: &[&str] = &[
    "script", "contract", "predicate", "library", "mod", "pub", "use", "as", "struct", "enum", "self", "Self", "fn",
    "trait", "impl", "for", "abi", "const", "storage", "str", "asm", "return", "if", "else", "match", "mut", "let",
    "while", "where", "ref", "true", "false", "break", "continue", "configurable", "type", "in", "panic", "dep",
    "deref", "move", "u8", "u16", "u32", "u64", "u256", "b256", "bool", "raw_ptr", "raw_slice", "Contract",
];

// ----------------------------------------------------------------------------- types and values

#[derive(Clone, Copy, Debug, PartialEq)]
enum Ty { U64, Bool, U8, U32, Tup, TupB, S, B256, E, Arr, Unit }
const ARG_TYS: &[Ty] = &[Ty::U64, Ty::Bool, Ty::U8, Ty::U32, Ty::Tup, Ty::TupB, Ty::S, Ty::B256, Ty::E, Ty::Arr];
const RET_TYS: &[Ty] = &[Ty::U64, Ty::Bool, Ty::U8, Ty::U32, Ty::Tup, Ty::TupB, Ty::S, Ty::B256, Ty::E, Ty::Arr, Ty::Unit, Ty::U64];

#[derive(Clone, Debug)]
enum Val { U64(u64), Bool(bool), U8(u8), U32(u32), Tup(u64, u64), TupB(bool, u64), S(u64, bool), B256([u8; 32]), EA(u64), EB(bool), Arr(u64, u64), Unit }

impl Ty {
    fn sway(self) -> &'static str {
        match self {
            Ty::U64 => "u64", Ty::Bool => "bool", Ty::U8 => "u8", Ty::U32 => "u32", Ty::Tup => "(u64, u64)",
            Ty::TupB => "(bool, u64)", Ty::S => "S", Ty::B256 => "b256", Ty::E => "E", Ty::Arr => "[u64; 2]", Ty::Unit => "()",
        }
    }
    fn gen(self, r: &mut Rng) -> Val {
        let w = |r: &mut Rng| match r.below(4) { 0 => r.below(3), 1 => (1 << 31) - 1 - r.below(3), _ => r.below(1 << 31) };
        match self {
            Ty::U64 => Val::U64(w(r)), Ty::Bool => Val::Bool(r.chance(1, 2)), Ty::U8 => Val::U8(r.below(256) as u8),
            Ty::U32 => Val::U32(r.below(1 << 31) as u32), Ty::Tup => Val::Tup(w(r), w(r)), Ty::TupB => Val::TupB(r.chance(1, 2), w(r)),
            Ty::S => Val::S(w(r), r.chance(1, 2)),
            Ty::B256 => { let mut b = [0u8; 32]; for x in b.iter_mut() { *x = r.below(256) as u8; } Val::B256(b) }
            Ty::E => if r.chance(1, 2) { Val::EA(w(r)) } else { Val::EB(r.chance(1, 2)) },
            Ty::Arr => Val::Arr(w(r), w(r)), Ty::Unit => Val::Unit,
        }
    }
    /// Sway expression of type u64: the contribution of variable `v` of this type to the digest.
    fn contrib_sway(self, v: &str) -> String {
        match self {
            Ty::U64 => v.to_string(),
            Ty::Bool => format!("(if {v} {{ 1 }} else {{ 0 }})"),
            Ty::U8 | Ty::U32 => format!("{v}.as_u64()"),
            Ty::Tup => format!("({v}.0 + 2 * {v}.1)"),
            Ty::TupB => format!("((if {v}.0 {{ 5 }} else {{ 0 }}) + {v}.1)"),
            Ty::S => format!("({v}.a + (if {v}.b {{ 3 }} else {{ 0 }}))"),
            Ty::B256 => "0".to_string(),
            Ty::E => format!("(match {v} {{ E::A(x) => x, E::B(y) => {{ if y {{ 11 }} else {{ 12 }} }} }})"),
            Ty::Arr => format!("({v}[0] + 3 * {v}[1])"),
            Ty::Unit => "0".to_string(),
        }
    }
    /// Sway expression of this type built from the u64 digest `h` (`b` = a b256 expression).
    fn ret_sway(self, b: &str) -> String {
        match self {
            Ty::U64 => "h".into(), Ty::Bool => "h % 2 == 1".into(),
            Ty::U8 => "asm(r: h % 256) { r: u8 }".into(), Ty::U32 => "asm(r: h % 65536) { r: u32 }".into(),
            Ty::Tup => "(h, h + 1)".into(), Ty::TupB => "(h % 2 == 0, h)".into(), Ty::S => "S { a: h, b: h % 3 == 0 }".into(),
            Ty::B256 => b.to_string(), Ty::E => "if h % 2 == 0 { E::A(h) } else { E::B(h % 3 == 0) }".into(),
            Ty::Arr => "[h, h * 2]".into(), Ty::Unit => "()".into(),
        }
    }
    fn ret_val(self, h: u64, b: [u8; 32]) -> Val {
        match self {
            Ty::U64 => Val::U64(h), Ty::Bool => Val::Bool(h % 2 == 1), Ty::U8 => Val::U8((h % 256) as u8),
            Ty::U32 => Val::U32((h % 65536) as u32), Ty::Tup => Val::Tup(h, h + 1), Ty::TupB => Val::TupB(h % 2 == 0, h),
            Ty::S => Val::S(h, h % 3 == 0), Ty::B256 => Val::B256(b),
            Ty::E => if h % 2 == 0 { Val::EA(h) } else { Val::EB(h % 3 == 0) },
            Ty::Arr => Val::Arr(h, h * 2), Ty::Unit => Val::Unit,
        }
    }
}

fn b256_lit(b: &[u8; 32]) -> String { format!("0x{}", hex::encode(b)) }

impl Val {
    fn sway(&self) -> String {
        match self {
            Val::U64(x) => format!("{x}u64"), Val::Bool(b) => format!("{b}"), Val::U8(x) => format!("{x}u8"), Val::U32(x) => format!("{x}u32"),
            Val::Tup(a, b) => format!("({a}u64, {b}u64)"), Val::TupB(a, b) => format!("({a}, {b}u64)"), Val::S(a, b) => format!("S {{ a: {a}u64, b: {b} }}"),
            Val::B256(b) => b256_lit(b), Val::EA(x) => format!("E::A({x}u64)"), Val::EB(b) => format!("E::B({b})"),
            Val::Arr(a, b) => format!("[{a}u64, {b}u64]"), Val::Unit => "()".into(),
        }
    }
    /// ABI encoding (what `log(v)` emits as LOGD data).
    fn enc(&self) -> Vec<u8> {
        let w = |x: u64| x.to_be_bytes().to_vec();
        match self {
            Val::U64(x) => w(*x), Val::Bool(b) => vec![*b as u8], Val::U8(x) => vec![*x], Val::U32(x) => x.to_be_bytes().to_vec(),
            Val::Tup(a, b) | Val::Arr(a, b) => [w(*a), w(*b)].concat(), Val::TupB(a, b) => [vec![*a as u8], w(*b)].concat(),
            Val::S(a, b) => [w(*a), vec![*b as u8]].concat(), Val::B256(b) => b.to_vec(),
            Val::EA(x) => [w(0), w(*x)].concat(), Val::EB(b) => [w(1), vec![*b as u8]].concat(), Val::Unit => vec![],
        }
    }
    fn contrib(&self) -> u64 {
        match self {
            Val::U64(x) => *x, Val::Bool(b) => *b as u64, Val::U8(x) => *x as u64, Val::U32(x) => *x as u64,
            Val::Tup(a, b) => a + 2 * b, Val::TupB(a, b) => (if *a { 5 } else { 0 }) + b, Val::S(a, b) => a + if *b { 3 } else { 0 },
            Val::B256(_) => 0, Val::EA(x) => *x, Val::EB(b) => if *b { 11 } else { 12 }, Val::Arr(a, b) => a + 3 * b, Val::Unit => 0,
        }
    }
}

// ----------------------------------------------------------------------------- contract description

#[derive(Clone, Debug)]
struct Method { name: String, raw: bool, args: Vec<Ty>, ret: Ty, abi: usize }

struct Contract { methods: Vec<Method> /* contract_fns order */, n_abis: usize, impl_order: Vec<usize>, fb: bool, bogus: Vec<(String, u8)> /* 0 = second abi, 1 = raw */ }

fn is_ident(s: &str) -> bool {
    let mut cs = s.chars();
    match cs.next() { Some(c) if c.is_ascii_alphabetic() => {} Some(c) if !c.is_ascii() && c.is_alphabetic() => {} _ => return false }
    s.chars().all(|c| c.is_ascii_alphanumeric() || c == '_' || (!c.is_ascii() && c.is_alphabetic())) && !KEYWORDS.contains(&s) && !s.contains("__")
}

const STEMS: &[&str] = &[
    "get", "set", "a", "b", "ab", "ba", "x", "f", "ge", "et", "xaby", "aby", "transfer", "mint", "balance_of", "é", "日本", "get_a", "get_ab",
    "abc", "bca", "cab", "aa", "aaa", "aaaa", "g", "t", "tg", "fooBar", "foo_bar", "main", "fallback", "entry", "log",
    "a_very_long_method_name_that_goes_on_and_on_and_on_for_quite_a_while_0123456789_abcdefghijklmnopqrstuvwxyz",
];

/// Names in `contract_fns` order for a given split into ABIs (abi index per name) and impl-block order.
fn fns_order(ms: &mut Vec<Method>, impl_order: &[usize]) {
    let mut out = vec![];
    for a in impl_order {
        let mut g: Vec<Method> = ms.iter().filter(|m| m.abi == *a).cloned().collect();
        g.sort_by(|x, y| x.name.as_bytes().cmp(y.name.as_bytes()));
        out.extend(g);
    }
    *ms = out;
}

fn literal_of(names: &[String]) -> String {
    let mut s = String::new();
    for n in names { if s.find(n.as_str()).is_none() { s.push_str(n); } }
    s
}

fn substr_chars(r: &mut Rng, s: &str, len: Option<usize>) -> String {
    let cs: Vec<char> = s.chars().collect();
    if cs.is_empty() { return String::new(); }
    let l = len.unwrap_or(1 + r.below(cs.len().min(8) as u64) as usize).min(cs.len());
    let st = r.below((cs.len() - l + 1) as u64) as usize;
    cs[st..st + l].iter().collect()
}

fn gen_names(r: &mut Rng, n: usize) -> Vec<String> {
    let mut names: Vec<String> = vec![];
    let mut guard = 0;
    while names.len() < n && guard < 2000 {
        guard += 1;
        let cand = if names.is_empty() || r.chance(1, 3) {
            r.pick(STEMS).to_string()
        } else {
            let base = r.pick(&names).clone();
            let bc: Vec<char> = base.chars().collect();
            match r.below(8) {
                0 => bc[..1 + r.below(bc.len() as u64) as usize].iter().collect(),             // prefix
                1 => format!("{base}{}", r.pick(&["_a", "b", "_", "a", "0", "x", "_ab"])),       // extension
                2 | 3 => {                                                                      // substring of the literal so far
                    let mut sorted = names.clone(); sorted.sort_by(|x, y| x.as_bytes().cmp(y.as_bytes()));
                    substr_chars(r, &literal_of(&sorted), None)
                }
                4 => {                                                                          // same length, last char changed
                    let mut c = bc.clone(); let k = c.len() - 1; c[k] = *r.pick(&['a', 'b', 'x', 'y', '_', '0']); c.iter().collect()
                }
                5 => bc.iter().rev().collect(),                                                 // reversal
                6 => bc[r.below(bc.len() as u64) as usize..].iter().collect(),                 // suffix
                _ => format!("{}{base}", r.pick(&["x", "a", "g", "get_"])),                     // prepend
            }
        };
        if is_ident(&cand) && !names.contains(&cand) && cand.len() <= 120 { names.push(cand); }
    }
    names
}

fn gen_bogus(r: &mut Rng, names: &[String], lit: &str) -> Vec<(String, u8)> {
    let mut out: Vec<(String, u8)> = vec![];
    let mut push = |s: String, via: u8, out: &mut Vec<(String, u8)>| {
        let ok_chars = s.chars().all(|c| c != '"' && c != '\\' && !c.is_control());
        if ok_chars && !names.contains(&s) && !out.iter().any(|(b, _)| *b == s) && s.len() <= 120 {
            let via = if is_ident(&s) { via } else { 1 };
            out.push((s, via));
        }
    };
    let k = 3 + r.below(3);
    let mut guard = 0;
    while (out.len() as u64) < k && guard < 200 {
        guard += 1;
        let base = r.pick(names).clone();
        let bc: Vec<char> = base.chars().collect();
        let via = r.below(2) as u8;
        let s = match r.below(9) {
            0 => String::new(),                                                            // the empty name
            1 => bc[..r.below(bc.len() as u64) as usize].iter().collect(),                // proper prefix
            2 => format!("{base}{}", r.pick(&["_", "a", "0", "x"])),                       // one more char
            3 | 4 => substr_chars(r, lit, Some(bc.len())),                                 // same length, taken from the literal
            5 => { let mut c = bc.clone(); let k = r.below(c.len() as u64) as usize; c[k] = *r.pick(&['q', 'Z', '_', '9', ' ']); c.iter().collect() }
            6 => base.to_uppercase(),
            7 => substr_chars(r, lit, None),
            _ => r.pick(&["nope", "unknown_method", "zz", "q"]).to_string(),
        };
        push(s, via, &mut out);
    }
    out
}

fn gen_contract(r: &mut Rng) -> Contract {
    let n = match r.below(6) { 0 => 1, 1 => 2 + r.below(2) as usize, 2 => 12, _ => 3 + r.below(9) as usize };
    let names = gen_names(r, n);
    let n_abis = if names.len() >= 2 { 1 + r.below(3) as usize } else { 1 };
    let mut methods: Vec<Method> = names.iter().map(|nm| {
        let na = match r.below(5) { 0 => 0, 1 | 2 => 1, 3 => 2, _ => 3 };
        Method { name: nm.clone(), raw: false, args: (0..na).map(|_| *r.pick(ARG_TYS)).collect(), ret: *r.pick(RET_TYS), abi: r.below(n_abis as u64) as usize }
    }).collect();
    if r.chance(1, 4) && !names.iter().any(|x| x == "script") {
        methods.push(Method { name: "script".into(), raw: true, args: vec![Ty::U64], ret: Ty::Bool, abi: 0 });
    }
    let mut impl_order: Vec<usize> = (0..n_abis).collect();
    for i in (1..impl_order.len()).rev() { let j = r.below(i as u64 + 1) as usize; impl_order.swap(i, j); }
    fns_order(&mut methods, &impl_order);
    let all: Vec<String> = methods.iter().map(|m| m.name.clone()).collect();
    let lit = literal_of(&all);
    let bogus = gen_bogus(r, &all, &lit);
    Contract { methods, n_abis, impl_order, fb: r.chance(1, 2), bogus }
}

fn contract_from_corpus(r: &mut Rng, line: &str) -> Option<Contract> {
    let f: Vec<&str> = line.split_whitespace().collect();
    if f.len() != 3 { return None; }
    let fb = f[0] == "1";
    let mut methods = vec![];
    let abis: Vec<&str> = f[1].split(';').collect();
    for (ai, a) in abis.iter().enumerate() {
        for nm in a.split(',').filter(|s| !s.is_empty()) {
            let na = r.below(4) as usize;
            methods.push(Method { name: nm.to_string(), raw: KEYWORDS.contains(&nm), args: (0..na).map(|_| *r.pick(ARG_TYS)).collect(), ret: *r.pick(RET_TYS), abi: ai });
        }
    }
    let impl_order: Vec<usize> = (0..abis.len()).collect();
    fns_order(&mut methods, &impl_order);
    let bogus = if f[2] == "-" { vec![] } else {
        f[2].split(',').map(|s| { let s = if s == "<empty>" { "" } else { s }; (s.to_string(), if is_ident(s) { r.below(2) as u8 } else { 1 }) }).collect()
    };
    Some(Contract { methods, n_abis: abis.len(), impl_order, fb, bogus })
}

// ----------------------------------------------------------------------------- source generation

struct Call { name: String, via: &'static str, test: String, expect_args: Vec<Vec<u8>>, expect_ret: Vec<u8>, ret_unit: bool }

fn ident_src(m: &Method) -> String { if m.raw { format!("r#{}", m.name) } else { m.name.clone() } }

fn gen_source(r: &mut Rng, c: &Contract) -> (String, Vec<Call>) {
    let mut s = String::from("contract;\n\nstruct S { a: u64, b: bool }\nenum E { A: u64, B: bool }\n\n");
    let sig = |m: &Method| {
        let ps: Vec<String> = m.args.iter().enumerate().map(|(i, t)| format!("p{i}: {}", t.sway())).collect();
        let ret = if m.ret == Ty::Unit { String::new() } else { format!(" -> {}", m.ret.sway()) };
        format!("fn {}({}){}", ident_src(m), ps.join(", "), ret)
    };
    // abi declarations (declaration order of the methods is shuffled: it must not matter)
    for a in 0..c.n_abis {
        let mut ms: Vec<&Method> = c.methods.iter().filter(|m| m.abi == a).collect();
        for i in (1..ms.len()).rev() { let j = r.below(i as u64 + 1) as usize; ms.swap(i, j); }
        s.push_str(&format!("abi A{a} {{\n"));
        for m in ms { s.push_str(&format!("    {};\n", sig(m))); }
        s.push_str("}\n");
    }
    // second abi with names the contract does not have
    let abi2: Vec<&(String, u8)> = c.bogus.iter().filter(|b| b.1 == 0).collect();
    if !abi2.is_empty() {
        s.push_str("abi Bogus {\n");
        for (b, _) in &abi2 { s.push_str(&format!("    fn {b}(p0: u64) -> u64;\n")); }
        s.push_str("}\n");
    }
    let mut calls = vec![];
    // impl blocks in impl_order, methods inside shuffled
    for a in &c.impl_order {
        let mut ms: Vec<(usize, &Method)> = c.methods.iter().enumerate().filter(|(_, m)| m.abi == *a).collect();
        for i in (1..ms.len()).rev() { let j = r.below(i as u64 + 1) as usize; ms.swap(i, j); }
        s.push_str(&format!("impl A{a} for Contract {{\n"));
        for (idx, m) in ms {
            let mut body = format!("        log({}u64);\n", METHOD_MARK + idx as u64);
            let mut h = format!("{}u64", 1000 * (idx as u64 + 1));
            let mut first_b256 = None;
            for (i, t) in m.args.iter().enumerate() {
                body.push_str(&format!("        log(p{i});\n"));
                h.push_str(&format!(" + {}", t.contrib_sway(&format!("p{i}"))));
                if *t == Ty::B256 && first_b256.is_none() { first_b256 = Some(format!("p{i}")); }
            }
            body.push_str(&format!("        let h: u64 = {h};\n"));
            let mut konst = [0u8; 32]; for (i, x) in konst.iter_mut().enumerate() { *x = (idx as u8).wrapping_mul(17).wrapping_add(i as u8); }
            let bexpr = first_b256.clone().unwrap_or_else(|| b256_lit(&konst));
            if m.ret == Ty::Unit { body.push_str("        let _ = h;\n"); } else { body.push_str(&format!("        {}\n", m.ret.ret_sway(&bexpr))); }
            s.push_str(&format!("    {} {{\n{body}    }}\n", sig(m)));
            // the call
            let vals: Vec<Val> = m.args.iter().map(|t| t.gen(r)).collect();
            let hv: u64 = 1000 * (idx as u64 + 1) + vals.iter().map(|v| v.contrib()).sum::<u64>();
            let bval = vals.iter().find_map(|v| if let Val::B256(b) = v { Some(*b) } else { None }).unwrap_or(konst);
            let rv = m.ret.ret_val(hv, bval);
            let argsrc: Vec<String> = vals.iter().map(|v| v.sway()).collect();
            let tname = format!("t_hit_{idx}");
            let call = format!("abi(A{}, CONTRACT_ID).{}({})", m.abi, ident_src(m), argsrc.join(", "));
            let t = if m.ret == Ty::Unit {
                format!("#[test]\nfn {tname}() {{\n    {call};\n    log({RETURN_MARK}u64);\n}}\n")
            } else {
                format!("#[test]\nfn {tname}() {{\n    let r: {} = {call};\n    log({RETURN_MARK}u64);\n    log(r);\n}}\n", m.ret.sway())
            };
            calls.push((idx, Call { name: m.name.clone(), via: "abi", test: tname, expect_args: vals.iter().map(|v| v.enc()).collect(), expect_ret: rv.enc(), ret_unit: m.ret == Ty::Unit }, t));
        }
        s.push_str("}\n");
    }
    if c.fb {
        s.push_str(&format!("#[fallback]\nfn fallback_fn() -> u64 {{\n    log({FALLBACK_MARK}u64);\n    {FALLBACK_RET}\n}}\n"));
    }
    calls.sort_by_key(|c| c.0);
    let mut out_calls = vec![];
    for (_, c, t) in calls { s.push_str(&t); out_calls.push(c); }
    for (i, (b, via)) in c.bogus.iter().enumerate() {
        let tname = format!("t_bogus_{i}");
        let arg = r.below(1 << 31);
        let call = if *via == 0 {
            format!("abi(Bogus, CONTRACT_ID).{b}({arg}u64)")
        } else {
            format!("contract_call::<u64, (u64,)>(CONTRACT_ID, encode(\"{b}\"), ({arg}u64,), 0, {ZERO_B256}, std::registers::global_gas())")
        };
        s.push_str(&format!("#[test]\nfn {tname}() {{\n    let r: u64 = {call};\n    log({RETURN_MARK}u64);\n    log(r);\n}}\n"));
        out_calls.push(Call { name: b.clone(), via: if *via == 0 { "abi2" } else { "raw" }, test: tname, expect_args: vec![], expect_ret: FALLBACK_RET.to_be_bytes().to_vec(), ret_unit: false });
    }
    (s, out_calls)
}

// ----------------------------------------------------------------------------- dump parsing

/// `<names-hex>:<key/len/off/idx,..>:<F|R>` from the last `__entry` source in the dump.
fn parse_table(dump: &str, names: &[String]) -> String {
    let parts: Vec<&str> = dump.split("//--SWAY_VERIF_ENTRY_END--").collect();
    let src = match parts.iter().rev().find(|p| p.contains("pub fn __entry()")) { Some(s) => *s, None => return "nodump".into() };
    let lit = match src.find("let _method_names = \"") {
        Some(i) => { let rest = &src[i + 21..]; match rest.find("\";") { Some(j) => &rest[..j], None => return "badlit".into() } }
        None => return "nolit".into(),
    };
    let mut arms = vec![];
    let mut key: i64 = -1;
    let mut pos = 0usize;
    let num = |s: &str| -> Option<u64> { let d: String = s.chars().take_while(|c| c.is_ascii_digit()).collect(); d.parse().ok() };
    loop {
        let k = src[pos..].find("if _method_len == ").map(|i| i + pos);
        let a = src[pos..].find("let is_this_method = asm(").map(|i| i + pos);
        match (k, a) {
            (Some(k), Some(a)) if k < a => { key = num(&src[k + 18..]).map(|x| x as i64).unwrap_or(-2); pos = k + 18; }
            (_, Some(a)) => {
                let seg_end = src[a + 1..].find("let is_this_method = asm(").map(|i| i + a + 1).unwrap_or(src.len());
                let seg = &src[a..seg_end];
                let len = seg.find("len: ").and_then(|i| num(&seg[i + 5..]));
                let off = seg.find("addi r name i").and_then(|i| num(&seg[i + 13..]));
                let meq = seg.contains("meq r ptr r len;");
                let callee = seg.find("__contract_entry_").map(|i| { let t = &seg[i + 17..]; &t[..t.find('(').unwrap_or(t.len())] });
                let idx = callee.and_then(|c| names.iter().position(|n| n == c));
                match (len, off, idx, meq) {
                    (Some(l), Some(o), Some(i), true) => arms.push(format!("{key}/{l}/{o}/{i}")),
                    _ => arms.push("bad".into()),
                }
                pos = a + 1;
            }
            _ => break,
        }
    }
    let tail = &src[pos..];
    let fb = if tail.contains("__revert(123)") { "R" } else if tail.contains("encode::<") && tail.contains("__contract_ret(result.ptr()") { "F" } else { "?" };
    format!("{}:{}:{}", hexbytes(lit.as_bytes()), if arms.is_empty() { "-".into() } else { arms.join(",") }, fb)
}

// ----------------------------------------------------------------------------- observation

fn word(d: &[u8]) -> Option<u64> { if d.len() == 8 { Some(u64::from_be_bytes(d.try_into().unwrap())) } else { None } }

/// (ran, args_ok, ret_ok)
fn observe(o: &TestOutcome, call: &Call) -> (String, bool, bool) {
    let datas: Vec<&[u8]> = o.logs.iter().filter_map(|l| if let Log::Data { data, .. } = l { Some(data.as_slice()) } else { None }).collect();
    let words_only = o.logs.iter().all(|l| matches!(l, Log::Data { .. }));
    if datas.is_empty() {
        return (if o.state == "revert:123" && words_only { "revert".into() } else { "other".into() }, true, true);
    }
    let first = word(datas[0]);
    let mark_pos = datas.iter().position(|d| word(d) == Some(RETURN_MARK) );
    match first {
        Some(FALLBACK_MARK) => {
            let ret_ok = mark_pos == Some(1) && datas.len() == 3 && datas[2] == call.expect_ret.as_slice() && o.state == "return";
            ("fallback".into(), true, ret_ok)
        }
        Some(w) if w >= METHOD_MARK && w < METHOD_MARK + 4096 => {
            let idx = w - METHOD_MARK;
            let na = call.expect_args.len();
            let args_ok = datas.len() >= 1 + na && (0..na).all(|i| datas[1 + i] == call.expect_args[i].as_slice());
            let ret_ok = o.state == "return" && mark_pos == Some(1 + na)
                && if call.ret_unit { datas.len() == 2 + na } else { datas.len() == 3 + na && datas[2 + na] == call.expect_ret.as_slice() };
            (format!("{idx}"), args_ok, ret_ok)
        }
        _ => ("other".into(), false, false),
    }
}

fn main() {
    let a = args();
    let mut r = Rng::new(seed_from_env());
    let mut out = std::io::BufWriter::new(std::fs::File::create(&a.out).unwrap());
    let dir = scratch_dir("c11");
    let dump = dir.join("entry_dump.txt");
    std::env::set_var("SWAY_VERIF_DUMP_ENTRY", &dump);
    let mut corpus: Vec<String> = vec![];
    if let Some(c) = &a.corpus {
        for l in std::fs::read_to_string(c).unwrap_or_default().lines() {
            if l.starts_with('#') || l.trim().is_empty() { continue; }
            corpus.push(l.to_string());
        }
    }
    let keep = std::env::var("SV_C11_KEEP").is_ok();
    // debugging aid: build and run one given source file, print the raw outcomes
    if let Ok(f) = std::env::var("SV_C11_SRC") {
        let pdir = dir.join("src_replay");
        write_pkg(&pdir, "c11_replay", &std::fs::read_to_string(&f).unwrap(), true, "").unwrap();
        match build_and_test(&pdir, false) {
            Ok((outs, _)) => for o in outs { println!("{} {} passed={} logs={}", o.name, o.state, o.passed, o.logs.len()); },
            Err(e) => println!("BUILD ERROR {e:#}"),
        }
        let _ = std::fs::remove_dir_all(&dir);
        return;
    }
    let mut cases = 0usize;
    let mut contracts = 0usize;
    let mut ci = 0usize;
    while cases < a.n {
        let c = if ci < corpus.len() {
            ci += 1;
            match contract_from_corpus(&mut r, &corpus[ci - 1]) { Some(c) => c, None => { eprintln!("sv_c11: bad corpus line {}", ci); continue; } }
        } else { gen_contract(&mut r) };
        let (src, calls) = gen_source(&mut r, &c);
        let pdir = dir.join(format!("p{contracts}"));
        write_pkg(&pdir, &format!("c11_{contracts}"), &src, true, "").unwrap();
        let _ = std::fs::remove_file(&dump);
        let names: Vec<String> = c.methods.iter().map(|m| m.name.clone()).collect();
        let abi_tok = names.iter().map(|n| hexbytes(n.as_bytes())).collect::<Vec<_>>().join(",");
        let res = build_and_test(&pdir, false);
        let table = parse_table(&std::fs::read_to_string(&dump).unwrap_or_default(), &names);
        contracts += 1;
        match res {
            Ok((outs, _)) => {
                for call in &calls {
                    let obs = match outs.iter().find(|o| o.name == call.test) {
                        Some(o) => observe(o, call),
                        None => ("notest".into(), false, false),
                    };
                    writeln!(out, "abi {abi_tok} fb={} call {} via={} ;; table={table} ran={} args_ok={} ret_ok={}",
                        c.fb as u8, hexbytes(call.name.as_bytes()), call.via, obs.0, obs.1 as u8, obs.2 as u8).unwrap();
                    cases += 1;
                }
            }
            Err(e) => {
                // the generator is supposed to emit only well-formed contracts: report, do not hide
                eprintln!("sv_c11: contract {contracts} failed to build: {e:#}\n{src}");
                writeln!(out, "abi {abi_tok} fb={} call - via=build ;; table={table} ran=builderr args_ok=0 ret_ok=0", c.fb as u8).unwrap();
                cases += 1;
                let _ = std::fs::write(dir.join(format!("failed_{contracts}.sw")), &src);
            }
        }
        if !keep { let _ = std::fs::remove_dir_all(&pdir); }
    }
    out.flush().unwrap();
    if !keep { let _ = std::fs::remove_dir_all(&dir); }
    eprintln!("sv_c11: {cases} cases over {contracts} contracts");
}
