//! C09 / C10: random ABI type trees and values, compiled by the REAL compiler into a Sway library package whose
//! `#[test]` functions run on the REAL FuelVM and log
//!   enc: `log(v)` (fast path if the type is classified trivial), `encode_configurable(v)` (plain `abi_encode`),
//!        the raw memory image (`__addr_of(v)`, `__size_of::<T>()` bytes), `is_encode_trivial::<T>()`,
//!        `is_decode_trivial::<T>()`, `__runtime_mem_id::<T>() == __encoding_mem_id::<T>()`;
//!        the type tree is additionally re-derived from the JSON ABI the compiler emitted (`abi <sexp>`)
//!   dec: `abi_decode::<T>(bytes)` of harness-chosen bytes (canonical / canonical + trailing bytes / one `bool` byte
//!        or one enum tag replaced by an invalid one), result re-encoded with `log`, or revert.
//! Lines:
//!   enc <ty> <val> ;; ok bytes=<hex> slow=<hex> mem=<hex> trivE=<0|1> trivD=<0|1> memEq=<0|1> abi <ty>
//!   dec <canon|trail|badbool|badtag> <ty> <hex> ;; ok <hex> | revert | fail:<state>
//! The `TrivialEnum` known-finding stream uses the prefixes `enc-trivialenum` / `dec-trivialenum`.
//! Every run starts with the TrivialEnum stream + corpus, then the systematic small-type enumeration
//! (`tygen::systematic_types`, a few hundred shapes), then the random stream up to `--n` lines.
//! Modes: `--mode c09` (default) general trees; `--mode c10` more aligned / nearly aligned types and invalid patterns.
//! `--sw FILE [--abi]` just builds FILE as a library and prints what happened (probe).
use std::collections::HashMap;
use std::io::Write;
use svharness::{proto::*, rng::*, swayrun::*, tygen::*};

const PRELUDE: &str = r#"library;
use std::codec::*;
use std::bytes::Bytes;
use std::string::String;

fn mem<T>(v: T) -> raw_slice {
    raw_slice::from_parts::<u8>(__addr_of(v), __size_of::<T>())
}
"#;

#[derive(Clone)]
struct Case {
    /// protocol tokens before `;;`
    head: String,
    /// Sway test function body
    body: String,
    kind: Kind,
}
#[derive(Clone, Copy, PartialEq)]
enum Kind { Enc, Dec }

fn enc_case(d: &Decls, t: &Ty, v: &Val, prefix: &str) -> Case {
    let ty = sway_ty(t);
    let body = format!(
        "let v: {ty} = {}; log(v); log(encode_configurable(v)); log(mem(v)); log(is_encode_trivial::<{ty}>()); \
         log(is_decode_trivial::<{ty}>()); log(__runtime_mem_id::<{ty}>() == __encoding_mem_id::<{ty}>());",
        sway_val(d, t, v));
    Case { head: format!("{prefix} {} {}", ty_sexp(d, t), val_sexp(v)), body, kind: Kind::Enc }
}

fn dec_case(d: &Decls, t: &Ty, kind: &str, bytes: &[u8], prefix: &str) -> Case {
    let ty = sway_ty(t);
    let n = bytes.len();
    let (lit, len) = if n == 0 { ("[0u8]".to_string(), 1) } else {
        (format!("[{}]", bytes.iter().map(|b| format!("{b}u8")).collect::<Vec<_>>().join(", ")), n) };
    let body = format!(
        "let bytes: [u8; {len}] = {lit}; let s = raw_slice::from_parts::<u8>(__addr_of(bytes), {n}); \
         let v = abi_decode::<{ty}>(s); log(v);");
    Case { head: format!("{prefix} {kind} {} {}", ty_sexp(d, t), hexbytes(bytes)), body, kind: Kind::Dec }
}

/// Build one package out of `cases`, run it, return one result string per case (None = could not be observed).
fn run_pkg(decls: &Decls, cases: &[Case], tag: &str, keep: bool) -> Result<Vec<String>, String> {
    let mut src = String::from(PRELUDE);
    src.push_str(&sway_decls(decls));
    for (i, c) in cases.iter().enumerate() {
        src.push_str(&format!("#[test]\nfn t{i}() {{ {} }}\n", c.body));
    }
    let d = scratch_dir(tag);
    write_pkg(&d, "c09pkg", &src, true, "").map_err(|e| e.to_string())?;
    let res = build_and_test(&d, false);
    if !keep { let _ = std::fs::remove_dir_all(&d); }
    let (outs, built) = res.map_err(|e| format!("{e:#}"))?;
    let abi = match &built.program_abi {
        sway_core::asm_generation::ProgramABI::Fuel(a) => serde_json::to_value(a).map_err(|e| e.to_string())?,
        _ => return Err("no fuel abi".into()),
    };
    let by_name: HashMap<&str, &TestOutcome> = outs.iter().map(|o| (o.name.as_str(), o)).collect();
    let mut res = vec![];
    for (i, c) in cases.iter().enumerate() {
        let name = format!("t{i}");
        let Some(o) = by_name.get(name.as_str()) else { res.push("fail:missing".into()); continue };
        let data: Vec<(u64, &Vec<u8>)> = o.logs.iter().filter_map(|l| match l { Log::Data { id, data } => Some((*id, data)), _ => None }).collect();
        let strip = |b: &Vec<u8>| -> Vec<u8> { if b.len() >= 8 { b[8..].to_vec() } else { vec![] } };
        match c.kind {
            Kind::Enc => {
                if o.state != "return" || data.len() != 6 {
                    res.push(format!("fail:{}:{}logs", o.state, data.len()));
                    continue;
                }
                let flag = |b: &Vec<u8>| if b.as_slice() == [1] { "1" } else if b.as_slice() == [0] { "0" } else { "?" };
                let abity = match logged_type(&abi, data[0].0).ok_or("log id not in loggedTypes".to_string()).and_then(|c| abi_to_ty(&abi, &c)) {
                    Ok(t) => sty_sexp(&t),
                    Err(e) => format!("(err {})", e.replace([' ', '(', ')'], "_")),
                };
                res.push(format!("ok bytes={} slow={} mem={} trivE={} trivD={} memEq={} abi {}",
                    hexbytes(data[0].1), hexbytes(&strip(data[1].1)), hexbytes(&strip(data[2].1)),
                    flag(data[3].1), flag(data[4].1), flag(data[5].1), abity));
            }
            Kind::Dec => {
                if o.state == "return" && data.len() == 1 { res.push(format!("ok {}", hexbytes(data[0].1))); }
                else if o.state.starts_with("revert:") && data.is_empty() { res.push("revert".into()); }
                else { res.push(format!("fail:{}:{}logs:{}", o.state, data.len(), o.panic.clone().unwrap_or_default())); }
            }
        }
    }
    Ok(res)
}

/// Run with bisection when the package does not compile (a generator slip must not lose the whole batch).
fn run_robust(decls: &Decls, cases: &[Case], tag: &str, keep: bool, depth: u32, errs: &mut Vec<String>) -> Vec<Option<String>> {
    match run_pkg(decls, cases, tag, keep) {
        Ok(r) => r.into_iter().map(Some).collect(),
        Err(e) => {
            if cases.len() == 1 || depth == 0 {
                errs.push(format!("{} case(s) not compiled: {}\n   first: {}", cases.len(), e.lines().next().unwrap_or(""), cases[0].head));
                return vec![None; cases.len()];
            }
            let mid = cases.len() / 2;
            let mut a = run_robust(decls, &cases[..mid], tag, keep, depth - 1, errs);
            a.extend(run_robust(decls, &cases[mid..], tag, keep, depth - 1, errs));
            a
        }
    }
}

// ----------------------------------------------------------------------------- corpus (S-expression reader)

fn tokens(s: &str) -> Vec<String> {
    s.replace('(', " ( ").replace(')', " ) ").split_whitespace().map(|x| x.to_string()).collect()
}
fn parse_ty(g: &mut TyGen, ts: &[String], i: &mut usize) -> Option<Ty> {
    let t = ts.get(*i)?.clone();
    *i += 1;
    if t != "(" {
        return Some(match t.as_str() {
            "u8" => Ty::U8, "u16" => Ty::U16, "u32" => Ty::U32, "u64" => Ty::U64, "u256" => Ty::U256, "b256" => Ty::B256,
            "bool" => Ty::Bool, "unit" => Ty::Unit, "bytes" => Ty::Bytes, "string" => Ty::String, "str" => Ty::Str,
            "rawslice" => Ty::RawSlice, "tbool" => Ty::TrivialBool, _ => return None,
        });
    }
    let head = ts.get(*i)?.clone();
    *i += 1;
    let mut items = vec![];
    let mut nums = vec![];
    while ts.get(*i)? != ")" {
        if let Ok(n) = ts[*i].parse::<usize>() { nums.push(n); *i += 1; } else { items.push(parse_ty(g, ts, i)?); }
    }
    *i += 1;
    Some(match head.as_str() {
        "sa" => Ty::StrArray(*nums.first()?),
        "arr" => Ty::Array(Box::new(items.into_iter().next()?), *nums.first()?),
        "tup" => Ty::Tuple(items),
        "st" => { g.d.structs.push(items); Ty::Struct(g.d.structs.len() - 1) }
        "en" => { g.d.enums.push(items); Ty::Enum(g.d.enums.len() - 1) }
        "vec" => Ty::Vec(Box::new(items.into_iter().next()?)),
        "tenum" => Ty::TrivialEnum(Box::new(items.into_iter().next()?)),
        _ => return None,
    })
}
fn parse_val(ts: &[String], i: &mut usize) -> Option<Val> {
    let t = ts.get(*i)?.clone();
    *i += 1;
    if t != "(" {
        return Some(match t.as_str() {
            "true" => Val::Bool(true), "false" => Val::Bool(false), "unit" => Val::Unit, "x-" => Val::Bytes(vec![]),
            _ if t.starts_with('#') => Val::Num(hex::decode(&t[1..]).ok()?),
            _ if t.starts_with('x') => Val::Bytes(hex::decode(&t[1..]).ok()?),
            _ => return None,
        });
    }
    let head = ts.get(*i)?.clone();
    *i += 1;
    match head.as_str() {
        "seq" => {
            let mut vs = vec![];
            while ts.get(*i)? != ")" { vs.push(parse_val(ts, i)?); }
            *i += 1;
            Some(Val::Seq(vs))
        }
        "var" => {
            let k = ts.get(*i)?.parse().ok()?;
            *i += 1;
            let p = parse_val(ts, i)?;
            if ts.get(*i)? != ")" { return None; }
            *i += 1;
            Some(Val::Variant(k, Box::new(p)))
        }
        _ => None,
    }
}

// ----------------------------------------------------------------------------- case generation

fn flip_invalid(r: &mut Rng, e: &Enc, what: &str) -> Option<Vec<u8>> {
    let mut b = e.bytes.clone();
    match what {
        "badbool" => {
            if e.bools.is_empty() { return None; }
            let p = *r.pick(&e.bools);
            b[p] = *r.pick(&[2u8, 3, 0x7f, 0x80, 0xff, 0xfe, 0x10]);
        }
        _ => {
            if e.tags.is_empty() { return None; }
            let (p, n) = *r.pick(&e.tags);
            let bad: u64 = match r.below(5) { 0 => n as u64, 1 => n as u64 + 1, 2 => u64::MAX, 3 => 1 << 32, _ => n as u64 + r.below(1000) };
            b[p..p + 8].copy_from_slice(&bad.to_be_bytes());
        }
    }
    Some(b)
}

/// All lines for one type: two values (enc + canonical decode), one invalid `bool`, one invalid tag.
fn cases_for_type(g: &mut TyGen, t: &Ty, prefix: &str, mode_c10: bool, out: &mut Vec<Case>) {
    let ep = format!("enc{prefix}");
    let dp = format!("dec{prefix}");
    let nvals = 2;
    let mut last: Option<Enc> = None;
    for k in 0..nvals {
        let v = g.val(t);
        let d = g.d.clone();
        out.push(enc_case(&d, t, &v, &ep));
        let e = encode(&d, t, &v);
        if k == 0 || !mode_c10 {
            if g.r.chance(1, 3) {
                let mut b = e.bytes.clone();
                for _ in 0..g.r.range(1, 9) { b.push(g.r.below(256) as u8); }
                out.push(dec_case(&d, t, "trail", &b, &dp));
            } else {
                out.push(dec_case(&d, t, "canon", &e.bytes, &dp));
            }
        }
        last = Some(e);
    }
    let e = last.unwrap();
    let d = g.d.clone();
    for what in ["badbool", "badtag"] {
        let reps = if mode_c10 { 2 } else { 1 };
        for _ in 0..reps {
            if let Some(b) = flip_invalid(g.r, &e, what) { out.push(dec_case(&d, t, what, &b, &dp)); }
        }
    }
}

/// The known-finding stream: `TrivialEnum<E>` with a variant narrower than the widest one.
fn trivialenum_cases(g: &mut TyGen, out: &mut Vec<Case>) {
    let e1 = { g.d.enums.push(vec![Ty::U8, Ty::U64]); Ty::Enum(g.d.enums.len() - 1) };
    let e2 = { g.d.enums.push(vec![Ty::U64, Ty::U16]); Ty::Enum(g.d.enums.len() - 1) };
    let d = g.d.clone();
    let num = |n: u64, w: usize| Val::Num(n.to_be_bytes()[8 - w..].to_vec());
    let t1 = Ty::TrivialEnum(Box::new(e1));
    let t2 = Ty::TrivialEnum(Box::new(e2));
    let v1 = Val::Seq(vec![Val::Variant(0, Box::new(num(5, 1)))]);
    let v1b = Val::Seq(vec![Val::Variant(1, Box::new(num(7, 8)))]);
    let v2 = Val::Seq(vec![Val::Variant(1, Box::new(num(2, 2)))]);
    out.push(enc_case(&d, &t1, &v1, "enc-trivialenum"));
    out.push(enc_case(&d, &t1, &v1b, "enc-trivialenum"));   // widest variant: sound
    out.push(enc_case(&d, &t2, &v2, "enc-trivialenum"));
    // decode canonical bytes followed by zero bytes (so that the raw copy stays inside the buffer)
    let mut b = encode(&d, &t1, &v1).bytes;
    b.extend_from_slice(&[0; 7]);
    out.push(dec_case(&d, &t1, "trail", &b, "dec-trivialenum"));
    out.push(dec_case(&d, &t1, "canon", &encode(&d, &t1, &v1b).bytes, "dec-trivialenum"));
}

fn main() {
    let a = args();
    let mut mode_c10 = false;
    let mut per_pkg = 120usize;
    let mut keep = false;
    let mut no_known = false;
    let mut no_systematic = false;
    let mut i = 0;
    while i < a.extra.len() {
        match a.extra[i].as_str() {
            "--sw" => { probe(&a.extra[i + 1], a.extra.iter().any(|x| x == "--abi")); return; }
            "--mode" => { mode_c10 = a.extra[i + 1] == "c10"; i += 1; }
            "--per-pkg" => { per_pkg = a.extra[i + 1].parse().unwrap(); i += 1; }
            "--keep" => keep = true,
            "--no-known" => no_known = true,
            "--no-systematic" => no_systematic = true,
            _ => {}
        }
        i += 1;
    }
    let seed = seed_from_env();
    let mut r = Rng::new(seed ^ if mode_c10 { 0xC10 } else { 0xC09 });
    let mut out = std::io::BufWriter::new(std::fs::File::create(&a.out).unwrap());
    let mut errs = vec![];
    let mut total = 0usize;
    let mut pkg_no = 0usize;
    let tag = format!("c09-{}-{}", if mode_c10 { "b" } else { "a" }, seed);

    let mut flush = |decls: &Decls, cases: &Vec<Case>, out: &mut dyn Write, total: &mut usize, pkg_no: &mut usize, errs: &mut Vec<String>| {
        if cases.is_empty() { return; }
        let t0 = std::time::Instant::now();
        let res = run_robust(decls, cases, &format!("{tag}-{pkg_no}"), keep, 4, errs);
        for (c, r) in cases.iter().zip(res) {
            if let Some(r) = r { writeln!(out, "{} ;; {}", c.head, r).unwrap(); *total += 1; }
        }
        eprintln!("sv_c09: package {} with {} tests, {} structs, {} enums: {:?}", pkg_no, cases.len(), decls.structs.len(), decls.enums.len(), t0.elapsed());
        *pkg_no += 1;
    };

    // first package: corpus + known-finding stream
    {
        let mut g = TyGen::new(&mut r);
        let mut cases = vec![];
        if !no_known { trivialenum_cases(&mut g, &mut cases); }
        if let Some(c) = &a.corpus {
            for l in std::fs::read_to_string(c).unwrap_or_default().lines() {
                let l = l.trim();
                if l.is_empty() || l.starts_with('#') { continue; }
                let ts = tokens(l);
                let mut i = 1;
                match ts[0].as_str() {
                    "type" => {
                        // `type <ty>`: random values of a fixed type
                        if let Some(t) = parse_ty(&mut g, &ts, &mut i) { cases_for_type(&mut g, &t, "", mode_c10, &mut cases); }
                        else { eprintln!("sv_c09: bad corpus line: {l}"); }
                    }
                    "enc" => {
                        let t = parse_ty(&mut g, &ts, &mut i);
                        let v = parse_val(&ts, &mut i);
                        match (t, v) {
                            (Some(t), Some(v)) => {
                                let d = g.d.clone();
                                cases.push(enc_case(&d, &t, &v, "enc"));
                                cases.push(dec_case(&d, &t, "canon", &encode(&d, &t, &v).bytes, "dec"));
                            }
                            _ => eprintln!("sv_c09: bad corpus line: {l}"),
                        }
                    }
                    "dec" => {
                        let kind = ts[1].clone();
                        i = 2;
                        let t = parse_ty(&mut g, &ts, &mut i);
                        let b = ts.get(i).and_then(|h| if h == "-" { Some(vec![]) } else { hex::decode(h).ok() });
                        match (t, b) {
                            (Some(t), Some(b)) => { let d = g.d.clone(); cases.push(dec_case(&d, &t, &kind, &b, "dec")); }
                            _ => eprintln!("sv_c09: bad corpus line: {l}"),
                        }
                    }
                    _ => eprintln!("sv_c09: bad corpus line: {l}"),
                }
            }
        }
        let d = g.d.clone();
        flush(&d, &cases, &mut out, &mut total, &mut pkg_no, &mut errs);
    }
    // systematic small-type enumeration (same types on every run, values from the run's PRNG)
    if !no_systematic {
        let mut g = TyGen::new(&mut r);
        let types = systematic_types(&mut g);
        let d = g.d.clone();
        let mut cases = vec![];
        let mut n_types = 0;
        for t in &types {
            let v = g.val(t);
            cases.push(enc_case(&d, t, &v, "enc"));
            let e = encode(&d, t, &v);
            cases.push(dec_case(&d, t, "canon", &e.bytes, "dec"));
            if mode_c10 {
                let what = if n_types % 2 == 0 { "badbool" } else { "badtag" };
                if let Some(b) = flip_invalid(g.r, &e, what) { cases.push(dec_case(&d, t, what, &b, "dec")); }
            }
            n_types += 1;
            if cases.len() >= per_pkg {
                flush(&d, &cases, &mut out, &mut total, &mut pkg_no, &mut errs);
                cases.clear();
            }
        }
        flush(&d, &cases, &mut out, &mut total, &mut pkg_no, &mut errs);
        eprintln!("sv_c09: systematic enumeration: {} types", n_types);
    }
    // random packages
    while total < a.n {
        let mut g = TyGen::new(&mut r);
        let mut cases = vec![];
        let want = per_pkg.min(a.n - total + 4);
        while cases.len() < want {
            let t = if mode_c10 {
                match g.r.below(10) {
                    0..=4 => { let w = *g.r.pick(&[1usize, 2, 2, 3, 4, 4, 5, 8]); let dec = g.r.chance(1, 2); g.aligned(3, w, dec) }
                    5..=7 => { let save = g.max_depth; g.max_depth = 2; let t = g.case_ty(); g.max_depth = save; t }
                    _ => g.case_ty(),
                }
            } else { g.case_ty() };
            cases_for_type(&mut g, &t, "", mode_c10, &mut cases);
        }
        let d = g.d.clone();
        flush(&d, &cases, &mut out, &mut total, &mut pkg_no, &mut errs);
    }
    out.flush().unwrap();
    for e in &errs { eprintln!("sv_c09: {e}"); }
    eprintln!("sv_c09: {} cases, {} packages, {} compile problems", total, pkg_no, errs.len());
    // a generated program the compiler rejects is a generator problem, not evidence: fail loudly if it is frequent
    if errs.len() > 3 { std::process::exit(3); }
}

fn probe(file: &str, show_abi: bool) {
    let src = std::fs::read_to_string(file).unwrap();
    let d = scratch_dir("c09probe");
    write_pkg(&d, "c09probe", &src, true, "").unwrap();
    let t0 = std::time::Instant::now();
    match build_and_test(&d, false) {
        Ok((outs, built)) => {
            for o in outs {
                println!("{} state={} passed={} panic={:?}", o.name, o.state, o.passed, o.panic);
                for l in o.logs {
                    match l {
                        Log::Word { val, id } => println!("   LOG id={id} val={val}"),
                        Log::Data { id, data } => println!("   LOGD id={id} data={}", hexbytes(&data)),
                    }
                }
            }
            if show_abi {
                if let sway_core::asm_generation::ProgramABI::Fuel(abi) = &built.program_abi {
                    println!("{}", serde_json::to_string_pretty(abi).unwrap());
                }
            }
        }
        Err(e) => println!("ERR {e:#}"),
    }
    eprintln!("elapsed {:?}", t0.elapsed());
    let _ = std::fs::remove_dir_all(&d);
}
