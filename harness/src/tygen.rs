//! Random Sway ABI type trees and values, shared by the C09/C10 (and C11/C12/C13) harnesses.
//!
//! * `Ty` / `Val`      — type trees over a table of generated struct/enum declarations (`Decls`)
//! * `TyGen`           — type-directed random generator (depth/width bounded, boundary-biased values, a mode biased
//!                       to "word aligned" types so that trivially encodable/decodable types are frequent)
//! * `ty_sexp` / `val_sexp` — the S-expressions the Lean drivers parse (see `Driver/AbiSexp.lean`)
//! * `sway_ty` / `sway_val` / `sway_decls` — Sway source text
//! * `encode`          — independent reference encoder (canonical Fuel ABI) that also records where `bool` bytes and
//!                       enum tag words sit, for building invalid inputs
//! * `abi_to_ty`       — type tree derived from the JSON ABI the compiler emitted
use crate::rng::Rng;
use serde_json::Value as J;

#[derive(Clone, Debug, PartialEq, Eq)]
pub enum Ty {
    U8, U16, U32, U64, U256, B256, Bool, Unit,
    StrArray(usize),
    Array(Box<Ty>, usize),
    Tuple(Vec<Ty>),
    /// index into `Decls::structs`
    Struct(usize),
    /// index into `Decls::enums`
    Enum(usize),
    Option(Box<Ty>),
    Result(Box<Ty>, Box<Ty>),
    Vec(Box<Ty>),
    Bytes, String, Str, RawSlice,
    TrivialBool,
    TrivialEnum(Box<Ty>),
}

#[derive(Clone, Debug, PartialEq, Eq)]
pub enum Val {
    /// big-endian bytes, exactly the width of the type (1, 2, 4, 8 or 32)
    Num(Vec<u8>),
    Bool(bool),
    Unit,
    Bytes(Vec<u8>),
    Seq(Vec<Val>),
    Variant(usize, Box<Val>),
}

#[derive(Clone, Debug, Default)]
pub struct Decls {
    pub structs: Vec<Vec<Ty>>,
    pub enums: Vec<Vec<Ty>>,
}

/// Structural type (declarations expanded): what the S-expression prints and what `abi_to_ty` returns.
#[derive(Clone, Debug, PartialEq, Eq)]
pub enum STy {
    Leaf(&'static str),
    StrArray(usize),
    Array(Box<STy>, usize),
    Tuple(Vec<STy>),
    Struct(Vec<STy>),
    Enum(Vec<STy>),
    Vec(Box<STy>),
    TrivialEnum(Box<STy>),
}

impl Decls {
    pub fn structural(&self, t: &Ty) -> STy {
        match t {
            Ty::U8 => STy::Leaf("u8"), Ty::U16 => STy::Leaf("u16"), Ty::U32 => STy::Leaf("u32"), Ty::U64 => STy::Leaf("u64"),
            Ty::U256 => STy::Leaf("u256"), Ty::B256 => STy::Leaf("b256"), Ty::Bool => STy::Leaf("bool"), Ty::Unit => STy::Leaf("unit"),
            Ty::Bytes => STy::Leaf("bytes"), Ty::String => STy::Leaf("string"), Ty::Str => STy::Leaf("str"),
            Ty::RawSlice => STy::Leaf("rawslice"), Ty::TrivialBool => STy::Leaf("tbool"),
            Ty::StrArray(n) => STy::StrArray(*n),
            Ty::Array(e, n) => STy::Array(Box::new(self.structural(e)), *n),
            Ty::Tuple(ts) => STy::Tuple(ts.iter().map(|t| self.structural(t)).collect()),
            Ty::Struct(i) => STy::Struct(self.structs[*i].iter().map(|t| self.structural(t)).collect()),
            Ty::Enum(i) => STy::Enum(self.enums[*i].iter().map(|t| self.structural(t)).collect()),
            Ty::Option(t) => STy::Enum(vec![STy::Leaf("unit"), self.structural(t)]),
            Ty::Result(a, b) => STy::Enum(vec![self.structural(a), self.structural(b)]),
            Ty::Vec(t) => STy::Vec(Box::new(self.structural(t))),
            Ty::TrivialEnum(t) => STy::TrivialEnum(Box::new(self.structural(t))),
        }
    }
    /// variant payload types of an enum-like type
    pub fn variants(&self, t: &Ty) -> Option<Vec<Ty>> {
        match t {
            Ty::Enum(i) => Some(self.enums[*i].clone()),
            Ty::Option(t) => Some(vec![Ty::Unit, (**t).clone()]),
            Ty::Result(a, b) => Some(vec![(**a).clone(), (**b).clone()]),
            _ => None,
        }
    }
    /// `__size_of` (IR layout)
    pub fn size_rt(&self, t: &Ty) -> usize {
        let al = |n: usize| (n + 7) / 8 * 8;
        match t {
            Ty::U8 | Ty::Bool => 1,
            Ty::U16 | Ty::U32 | Ty::U64 | Ty::TrivialBool => 8,
            Ty::U256 | Ty::B256 => 32,
            Ty::Unit => 0,
            Ty::StrArray(n) => al(*n),
            Ty::Array(e, n) => n * self.size_rt(e),
            Ty::Tuple(ts) => ts.iter().map(|t| al(self.size_rt(t))).sum(),
            Ty::Struct(i) => self.structs[*i].iter().map(|t| al(self.size_rt(t))).sum(),
            Ty::Enum(_) | Ty::Option(_) | Ty::Result(..) => {
                let m = self.variants(t).unwrap().iter().map(|t| self.size_rt(t)).max().unwrap_or(0);
                if m == 0 { 8 } else { 8 + al(m) }
            }
            Ty::Vec(_) | Ty::Bytes | Ty::String => 24,
            Ty::Str | Ty::RawSlice => 16,
            Ty::TrivialEnum(t) => al(self.size_rt(t)),
        }
    }
}

// ----------------------------------------------------------------------------- S-expressions

pub fn sty_sexp(t: &STy) -> String {
    let list = |h: &str, ts: &[STy]| {
        let mut s = format!("({h}");
        for t in ts { s.push(' '); s.push_str(&sty_sexp(t)); }
        s.push(')');
        s
    };
    match t {
        STy::Leaf(n) => n.to_string(),
        STy::StrArray(n) => format!("(sa {n})"),
        STy::Array(e, n) => format!("(arr {} {n})", sty_sexp(e)),
        STy::Tuple(ts) => list("tup", ts),
        STy::Struct(ts) => list("st", ts),
        STy::Enum(ts) => list("en", ts),
        STy::Vec(e) => format!("(vec {})", sty_sexp(e)),
        STy::TrivialEnum(e) => format!("(tenum {})", sty_sexp(e)),
    }
}
pub fn ty_sexp(d: &Decls, t: &Ty) -> String { sty_sexp(&d.structural(t)) }

pub fn val_sexp(v: &Val) -> String {
    match v {
        Val::Num(b) => format!("#{}", hex::encode(b)),
        Val::Bool(b) => if *b { "true".into() } else { "false".into() },
        Val::Unit => "unit".into(),
        Val::Bytes(b) => if b.is_empty() { "x-".into() } else { format!("x{}", hex::encode(b)) },
        Val::Seq(vs) => {
            let mut s = "(seq".to_string();
            for v in vs { s.push(' '); s.push_str(&val_sexp(v)); }
            s.push(')');
            s
        }
        Val::Variant(i, p) => format!("(var {i} {})", val_sexp(p)),
    }
}

// ----------------------------------------------------------------------------- Sway source

pub fn sway_ty(t: &Ty) -> String {
    match t {
        Ty::U8 => "u8".into(), Ty::U16 => "u16".into(), Ty::U32 => "u32".into(), Ty::U64 => "u64".into(),
        Ty::U256 => "u256".into(), Ty::B256 => "b256".into(), Ty::Bool => "bool".into(), Ty::Unit => "()".into(),
        Ty::StrArray(n) => format!("str[{n}]"),
        Ty::Array(e, n) => format!("[{}; {n}]", sway_ty(e)),
        Ty::Tuple(ts) => if ts.len() == 1 { format!("({},)", sway_ty(&ts[0])) } else {
            format!("({})", ts.iter().map(sway_ty).collect::<Vec<_>>().join(", ")) },
        Ty::Struct(i) => format!("S{i}"),
        Ty::Enum(i) => format!("E{i}"),
        Ty::Option(t) => format!("Option<{}>", sway_ty(t)),
        Ty::Result(a, b) => format!("Result<{}, {}>", sway_ty(a), sway_ty(b)),
        Ty::Vec(t) => format!("Vec<{}>", sway_ty(t)),
        Ty::Bytes => "Bytes".into(), Ty::String => "String".into(), Ty::Str => "str".into(), Ty::RawSlice => "raw_slice".into(),
        Ty::TrivialBool => "TrivialBool".into(),
        Ty::TrivialEnum(t) => format!("TrivialEnum<{}>", sway_ty(t)),
    }
}

pub fn sway_decls(d: &Decls) -> String {
    let mut s = String::new();
    for (i, fs) in d.structs.iter().enumerate() {
        s.push_str(&format!("struct S{i} {{ "));
        for (k, f) in fs.iter().enumerate() { s.push_str(&format!("f{k}: {}, ", sway_ty(f))); }
        s.push_str("}\n");
    }
    for (i, vs) in d.enums.iter().enumerate() {
        s.push_str(&format!("enum E{i} {{ "));
        for (k, v) in vs.iter().enumerate() { s.push_str(&format!("V{k}: {}, ", sway_ty(v))); }
        s.push_str("}\n");
    }
    s
}

fn bytes_expr(b: &[u8]) -> String {
    let mut s = "{ let mut b_ = Bytes::new(); ".to_string();
    for x in b { s.push_str(&format!("b_.push({x}u8); ")); }
    s.push_str("b_ }");
    s
}

/// Sway expression of type `t` evaluating to `v` (strings must be printable ASCII without quotes/backslashes).
pub fn sway_val(d: &Decls, t: &Ty, v: &Val) -> String {
    let num = |b: &Vec<u8>| -> u64 { b.iter().fold(0u64, |a, x| (a << 8) | *x as u64) };
    let ascii = |b: &Vec<u8>| String::from_utf8(b.clone()).unwrap();
    match (t, v) {
        (Ty::U8, Val::Num(b)) => format!("{}u8", num(b)),
        (Ty::U16, Val::Num(b)) => format!("{}u16", num(b)),
        (Ty::U32, Val::Num(b)) => format!("{}u32", num(b)),
        (Ty::U64, Val::Num(b)) => format!("{}u64", num(b)),
        (Ty::U256, Val::Num(b)) => format!("0x{}u256", hex::encode(b)),
        (Ty::B256, Val::Num(b)) => format!("0x{}", hex::encode(b)),
        (Ty::Bool, Val::Bool(b)) => format!("{b}"),
        (Ty::Unit, Val::Unit) => "()".into(),
        (Ty::StrArray(_), Val::Bytes(b)) => format!("__to_str_array(\"{}\")", ascii(b)),
        (Ty::Array(e, _), Val::Seq(vs)) => format!("[{}]", vs.iter().map(|v| sway_val(d, e, v)).collect::<Vec<_>>().join(", ")),
        (Ty::Tuple(ts), Val::Seq(vs)) => {
            let xs: Vec<_> = ts.iter().zip(vs).map(|(t, v)| sway_val(d, t, v)).collect();
            if xs.len() == 1 { format!("({},)", xs[0]) } else { format!("({})", xs.join(", ")) }
        }
        (Ty::Struct(i), Val::Seq(vs)) => {
            let xs: Vec<_> = d.structs[*i].iter().zip(vs).enumerate().map(|(k, (t, v))| format!("f{k}: {}", sway_val(d, t, v))).collect();
            format!("S{i} {{ {} }}", xs.join(", "))
        }
        (Ty::Enum(i), Val::Variant(k, p)) => {
            let pt = &d.enums[*i][*k];
            if *pt == Ty::Unit { format!("E{i}::V{k}") } else { format!("E{i}::V{k}({})", sway_val(d, pt, p)) }
        }
        (Ty::Option(_), Val::Variant(0, _)) => "None".into(),
        (Ty::Option(t), Val::Variant(_, p)) => format!("Some({})", sway_val(d, t, p)),
        (Ty::Result(a, _), Val::Variant(0, p)) => format!("Ok({})", sway_val(d, a, p)),
        (Ty::Result(_, b), Val::Variant(_, p)) => format!("Err({})", sway_val(d, b, p)),
        (Ty::Vec(e), Val::Seq(vs)) => {
            let mut s = format!("{{ let mut v_: Vec<{}> = Vec::new(); ", sway_ty(e));
            for v in vs { s.push_str(&format!("v_.push({}); ", sway_val(d, e, v))); }
            s.push_str("v_ }");
            s
        }
        (Ty::Bytes, Val::Bytes(b)) => bytes_expr(b),
        (Ty::String, Val::Bytes(b)) => format!("String::from_ascii_str(\"{}\")", ascii(b)),
        (Ty::Str, Val::Bytes(b)) => format!("\"{}\"", ascii(b)),
        (Ty::RawSlice, Val::Bytes(b)) => format!("{{ let rs_ = {}; rs_.as_raw_slice() }}", bytes_expr(b)),
        (Ty::TrivialBool, Val::Seq(vs)) => match &vs[0] { Val::Num(b) => format!("TrivialBool::from({})", num(b) != 0), _ => unreachable!() },
        (Ty::TrivialEnum(t), Val::Seq(vs)) => format!("TrivialEnum::from({})", sway_val(d, t, &vs[0])),
        _ => panic!("ill-typed value {t:?} {v:?}"),
    }
}

// ----------------------------------------------------------------------------- reference encoder

#[derive(Default, Debug, Clone)]
pub struct Enc {
    pub bytes: Vec<u8>,
    /// offsets of `bool` bytes
    pub bools: Vec<usize>,
    /// (offset of the 8-byte tag, number of variants)
    pub tags: Vec<(usize, usize)>,
}

pub fn encode_into(d: &Decls, t: &Ty, v: &Val, out: &mut Enc) {
    match (t, v) {
        (Ty::U8 | Ty::U16 | Ty::U32 | Ty::U64 | Ty::U256 | Ty::B256, Val::Num(b)) => out.bytes.extend_from_slice(b),
        (Ty::Bool, Val::Bool(b)) => { out.bools.push(out.bytes.len()); out.bytes.push(*b as u8); }
        (Ty::Unit, Val::Unit) => {}
        (Ty::StrArray(_), Val::Bytes(b)) => out.bytes.extend_from_slice(b),
        (Ty::Array(e, _), Val::Seq(vs)) => for v in vs { encode_into(d, e, v, out) },
        (Ty::Tuple(ts), Val::Seq(vs)) => for (t, v) in ts.iter().zip(vs) { encode_into(d, t, v, out) },
        (Ty::Struct(i), Val::Seq(vs)) => for (t, v) in d.structs[*i].iter().zip(vs) { encode_into(d, t, v, out) },
        (Ty::Enum(_) | Ty::Option(_) | Ty::Result(..), Val::Variant(k, p)) => {
            let vs = d.variants(t).unwrap();
            out.tags.push((out.bytes.len(), vs.len()));
            out.bytes.extend_from_slice(&(*k as u64).to_be_bytes());
            encode_into(d, &vs[*k], p, out);
        }
        (Ty::Vec(e), Val::Seq(vs)) => {
            out.bytes.extend_from_slice(&(vs.len() as u64).to_be_bytes());
            for v in vs { encode_into(d, e, v, out) }
        }
        (Ty::Bytes | Ty::String | Ty::Str | Ty::RawSlice, Val::Bytes(b)) => {
            out.bytes.extend_from_slice(&(b.len() as u64).to_be_bytes());
            out.bytes.extend_from_slice(b);
        }
        (Ty::TrivialBool, Val::Seq(vs)) => encode_into(d, &Ty::U64, &vs[0], out),
        (Ty::TrivialEnum(t), Val::Seq(vs)) => encode_into(d, t, &vs[0], out),
        _ => panic!("ill-typed value {t:?} {v:?}"),
    }
}
pub fn encode(d: &Decls, t: &Ty, v: &Val) -> Enc { let mut e = Enc::default(); encode_into(d, t, v, &mut e); e }

// ----------------------------------------------------------------------------- generator

pub struct TyGen<'a> {
    pub r: &'a mut Rng,
    pub d: Decls,
    pub max_depth: u32,
    pub max_width: u64,
    /// allow heap types (Vec/Bytes/String/str/raw_slice)
    pub heap: bool,
}

const STR_ALPHABET: &[u8] = b"abcdefghijklmnopqrstuvwxyzABCDEFGHIJKLMNOPQRSTUVWXYZ0123456789 _-.:;!?#@*+/()[]<>=";

impl<'a> TyGen<'a> {
    pub fn new(r: &'a mut Rng) -> Self { TyGen { r, d: Decls::default(), max_depth: 4, max_width: 5, heap: true } }

    fn leaf(&mut self, zero_ok: bool) -> Ty {
        loop {
            let t = match self.r.below(16) {
                0 | 1 => Ty::U8, 2 => Ty::U16, 3 => Ty::U32, 4 | 5 => Ty::U64, 6 => Ty::U256, 7 => Ty::B256,
                8 | 9 => Ty::Bool, 10 => Ty::Unit,
                11 => Ty::StrArray(*self.r.pick(&[1usize, 2, 3, 7, 8, 9, 16])),
                12 if self.heap => Ty::Bytes, 13 if self.heap => Ty::String, 14 if self.heap => Ty::Str,
                15 if self.heap && self.r.chance(1, 2) => Ty::RawSlice,
                _ => Ty::U64,
            };
            if zero_ok || t != Ty::Unit { return t; }
        }
    }

    pub fn new_struct(&mut self, fields: Vec<Ty>) -> Ty {
        if let Some(i) = self.d.structs.iter().position(|f| *f == fields) { return Ty::Struct(i); }
        self.d.structs.push(fields);
        Ty::Struct(self.d.structs.len() - 1)
    }
    pub fn new_enum(&mut self, variants: Vec<Ty>) -> Ty {
        if let Some(i) = self.d.enums.iter().position(|f| *f == variants) { return Ty::Enum(i); }
        self.d.enums.push(variants);
        Ty::Enum(self.d.enums.len() - 1)
    }

    /// General type tree of depth ≤ `depth`.
    pub fn ty(&mut self, depth: u32, zero_ok: bool) -> Ty {
        if depth == 0 || self.r.chance(1, 4) { return self.leaf(zero_ok); }
        let w = self.max_width;
        match self.r.below(if self.heap { 11 } else { 9 }) {
            0 | 1 => {
                let e = self.ty(depth - 1, false);
                let n = match (&e, self.r.below(4)) { (Ty::U8 | Ty::Bool, 0) => 8, (Ty::U8, 1) => 16, _ => self.r.below(5) as usize };
                let n = if n == 0 && !zero_ok { 1 } else { n };
                Ty::Array(Box::new(e), n)
            }
            2 => { let n = self.r.range(1, w); Ty::Tuple((0..n).map(|_| self.ty(depth - 1, true)).collect()) }
            3 | 4 => {
                if !self.d.structs.is_empty() && self.r.chance(1, 4) { return Ty::Struct(self.r.below(self.d.structs.len() as u64) as usize); }
                let n = self.r.range(if zero_ok { 0 } else { 1 }, w);
                let fs: Vec<Ty> = (0..n).map(|_| self.ty(depth - 1, true)).collect();
                let t = self.new_struct(fs);
                if !zero_ok && self.d.size_rt(&t) == 0 { self.leaf(false) } else { t }
            }
            5 | 6 => {
                if !self.d.enums.is_empty() && self.r.chance(1, 4) { return Ty::Enum(self.r.below(self.d.enums.len() as u64) as usize); }
                let n = self.r.range(1, w);
                let vs = (0..n).map(|_| if self.r.chance(1, 3) { Ty::Unit } else { self.ty(depth - 1, true) }).collect();
                self.new_enum(vs)
            }
            7 => Ty::Option(Box::new(self.ty(depth - 1, true))),
            8 => Ty::Result(Box::new(self.ty(depth - 1, true)), Box::new(self.ty(depth - 1, true))),
            9 => Ty::Vec(Box::new(self.ty(depth - 1, false))),
            _ => self.leaf(zero_ok),
        }
    }

    /// A type whose layout has no padding and whose size is exactly `words` words (≥ 1): candidates for
    /// trivially encodable / decodable. `dec` = avoid bool/enum so that it is also trivially decodable.
    pub fn aligned(&mut self, depth: u32, words: usize, dec: bool) -> Ty {
        let leaf = |g: &mut Self, words: usize| -> Ty {
            match words {
                1 => match g.r.below(if dec { 3 } else { 5 }) {
                    0 => Ty::U64, 1 => Ty::Array(Box::new(Ty::U8), 8), 2 => Ty::Array(Box::new(Ty::Array(Box::new(Ty::U8), 4)), 2),
                    3 => Ty::Array(Box::new(Ty::Bool), 8),
                    _ => { let n = g.r.range(1, 4); g.new_enum((0..n).map(|_| Ty::Unit).collect()) }
                },
                4 if g.r.chance(2, 3) => if g.r.chance(1, 2) { Ty::B256 } else { Ty::U256 },
                w => Ty::Array(Box::new(if g.r.chance(1, 3) { Ty::Array(Box::new(Ty::U8), 8) } else { Ty::U64 }), w),
            }
        };
        if depth == 0 || self.r.chance(1, 4) { return leaf(self, words); }
        match self.r.below(6) {
            0 | 1 => {
                // struct / tuple of parts
                let mut parts = vec![];
                let mut left = words;
                while left > 0 && (parts.len() as u64) < self.max_width - 1 {
                    let w = 1 + self.r.below(left as u64) as usize;
                    let w = if w == 3 { 2 } else { w };
                    parts.push(self.aligned(depth - 1, w, dec));
                    left -= w;
                }
                if left > 0 { parts.push(self.aligned(depth - 1, left, dec)); }
                if self.r.chance(1, 10) { parts.push(Ty::Unit); }
                if self.r.chance(1, 2) { self.new_struct(parts) } else { Ty::Tuple(parts) }
            }
            2 | 3 if !dec && words >= 2 => {
                // enum: tag word + variants of exactly words-1 words
                let n = self.r.range(1, 3);
                let vs = (0..n).map(|_| self.aligned(depth - 1, words - 1, dec)).collect();
                if n == 2 && self.r.chance(1, 3) {
                    let vs: Vec<Ty> = vs;
                    Ty::Result(Box::new(vs[0].clone()), Box::new(vs[1].clone()))
                } else { self.new_enum(vs) }
            }
            4 if words % 2 == 0 => Ty::Array(Box::new(self.aligned(depth - 1, words / 2, dec)), 2),
            _ => leaf(self, words),
        }
    }

    /// Top-level type for one test case.
    pub fn case_ty(&mut self) -> Ty {
        let depth = self.max_depth;
        match self.r.below(10) {
            0 | 1 | 2 => { let w = *self.r.pick(&[1usize, 2, 2, 3, 4, 4, 5, 8]); let dec = self.r.chance(1, 2); self.aligned(depth.min(3), w, dec) }
            3 => {
                // near-trivial: an aligned type with one spoiler
                let a = self.aligned(2, 2, false);
                let spoil = self.r.pick(&[Ty::U8, Ty::Bool, Ty::U16, Ty::U32, Ty::StrArray(8), Ty::StrArray(3), Ty::Unit,
                    Ty::Array(Box::new(Ty::U8), 7)]).clone();
                let b = self.aligned(1, 1, false);
                match self.r.below(3) {
                    0 => self.new_struct(vec![a, spoil, b]),
                    1 => self.new_enum(vec![a, spoil]),
                    _ => Ty::Tuple(vec![spoil, a]),
                }
            }
            _ => self.ty(depth, true),
        }
    }

    fn num(&mut self, bytes: usize) -> Val {
        let mut b = vec![0u8; bytes];
        match self.r.below(10) {
            0 => {}
            1 => b[bytes - 1] = 1,
            2 => b.iter_mut().for_each(|x| *x = 0xff),
            3 => { b.iter_mut().for_each(|x| *x = 0xff); b[bytes - 1] = 0xfe; }
            4 => { let k = self.r.below(bytes as u64 * 8) as usize; b[bytes - 1 - k / 8] = 1 << (k % 8); }
            5 => {
                // 2^k - 1
                let k = self.r.below(bytes as u64 * 8) as usize;
                for i in 0..k { b[bytes - 1 - i / 8] |= 1 << (i % 8); }
            }
            6 => b[bytes - 1] = self.r.below(256) as u8,
            _ => b.iter_mut().for_each(|x| *x = self.r.below(256) as u8),
        }
        Val::Num(b)
    }
    fn ascii(&mut self, n: usize) -> Vec<u8> { (0..n).map(|_| *self.r.pick(STR_ALPHABET)).collect() }

    pub fn val(&mut self, t: &Ty) -> Val {
        match t {
            Ty::U8 => self.num(1), Ty::U16 => self.num(2), Ty::U32 => self.num(4), Ty::U64 => self.num(8),
            Ty::U256 | Ty::B256 => self.num(32),
            Ty::Bool => Val::Bool(self.r.chance(1, 2)),
            Ty::Unit => Val::Unit,
            Ty::StrArray(n) => Val::Bytes(self.ascii(*n)),
            Ty::Array(e, n) => Val::Seq((0..*n).map(|_| self.val(e)).collect()),
            Ty::Tuple(ts) => Val::Seq(ts.iter().map(|t| self.val(t)).collect()),
            Ty::Struct(i) => { let fs = self.d.structs[*i].clone(); Val::Seq(fs.iter().map(|t| self.val(t)).collect()) }
            Ty::Enum(_) | Ty::Option(_) | Ty::Result(..) => {
                let vs = self.d.variants(t).unwrap();
                let k = self.r.below(vs.len() as u64) as usize;
                Val::Variant(k, Box::new(self.val(&vs[k])))
            }
            Ty::Vec(e) => { let n = *self.r.pick(&[0u64, 1, 1, 2, 3, 4]); Val::Seq((0..n).map(|_| self.val(e)).collect()) }
            Ty::Bytes | Ty::RawSlice => { let n = *self.r.pick(&[0u64, 1, 2, 7, 8, 9]); Val::Bytes((0..n).map(|_| self.r.below(256) as u8).collect()) }
            Ty::String | Ty::Str => { let n = *self.r.pick(&[0usize, 1, 3, 8, 11]); Val::Bytes(self.ascii(n)) }
            Ty::TrivialBool => Val::Seq(vec![Val::Num((self.r.below(2)).to_be_bytes().to_vec())]),
            Ty::TrivialEnum(t) => Val::Seq(vec![self.val(t)]),
        }
    }
}

// ----------------------------------------------------------------------------- systematic small types

/// Deterministic enumeration of small type shapes that runs before the random stream on every run:
/// leaves L (sub-word, word, multi-word, odd-sized byte arrays, str[N], unit), every depth-1 aggregate kind over L
/// (structs/tuples with 1, 2, 3 fields so that each leaf occurs first / middle / last; enums with 1, 2, 3 variants:
/// all-equal payloads, a unit variant on either side, mixed sizes; arrays of 0..3; Vec; Option) and a depth-2 layer
/// that wraps every third depth-1 shape once in a 1-field struct / 2-field struct with a sub-word neighbour /
/// array of 2 / Vec / enum variant. Independent of the seed (values are drawn from the run's PRNG).
pub fn systematic_types(g: &mut TyGen) -> Vec<Ty> {
    let arr = |t: Ty, n: usize| Ty::Array(Box::new(t), n);
    let mut leaves = vec![Ty::U8, Ty::Bool, Ty::U16, Ty::U32, Ty::U64, Ty::B256, Ty::U256, Ty::Unit];
    for n in [1usize, 3, 7, 8, 9, 12, 16, 33] { leaves.push(arr(Ty::U8, n)); }
    leaves.push(arr(Ty::Bool, 5));
    for n in [1usize, 7, 8, 9] { leaves.push(Ty::StrArray(n)); }
    let n = leaves.len();
    let l = |i: usize| leaves[i % n].clone();
    let mut out: Vec<Ty> = leaves.clone();
    let mut d1: Vec<Ty> = vec![];
    for i in 0..n {
        // structs: 1, 2, 3 fields — leaf i is first, leaf i+7 last (2 fields), i+5 middle / i+11 last (3 fields)
        d1.push(g.new_struct(vec![l(i)]));
        d1.push(g.new_struct(vec![l(i), l(i + 7)]));
        d1.push(g.new_struct(vec![l(i), l(i + 5), l(i + 11)]));
        // tuples likewise (other partners)
        d1.push(Ty::Tuple(vec![l(i)]));
        d1.push(Ty::Tuple(vec![l(i), l(i + 3)]));
        if i % 2 == 0 { d1.push(Ty::Tuple(vec![l(i + 9), l(i), l(i + 4)])); }
        // enums: one variant, all-equal payloads, a unit variant on either side, mixed sizes
        d1.push(g.new_enum(vec![l(i)]));
        d1.push(g.new_enum(vec![l(i), l(i)]));
        if i % 3 == 0 { d1.push(g.new_enum(vec![l(i), l(i), l(i)])); }
        d1.push(Ty::Option(Box::new(l(i))));
        d1.push(g.new_enum(vec![l(i), Ty::Unit]));
        d1.push(g.new_enum(vec![l(i), l(i + 7)]));
        if i % 2 == 1 { d1.push(g.new_enum(vec![l(i + 2), Ty::Unit, l(i)])); }
        // arrays and Vec (not of unit)
        if l(i) != Ty::Unit {
            d1.push(arr(l(i), 1 + i % 3));
            d1.push(arr(l(i), 1 + (i + 1) % 3));
            if i % 5 == 0 { d1.push(arr(l(i), 0)); }
            d1.push(Ty::Vec(Box::new(l(i))));
        }
    }
    d1.dedup();
    let mut d2 = vec![];
    for (k, t) in d1.iter().enumerate() {
        if k % 3 != 0 || g.d.size_rt(t) == 0 { continue; }
        let t = t.clone();
        d2.push(match (k / 3) % 5 {
            0 => g.new_struct(vec![t]),
            1 => g.new_struct(vec![t, Ty::U8]),
            2 => arr(t, 2),
            3 => Ty::Vec(Box::new(t)),
            _ => g.new_enum(vec![t, Ty::U8]),
        });
    }
    out.extend(d1);
    out.extend(d2);
    out
}

// ----------------------------------------------------------------------------- JSON ABI -> type tree

/// Type tree of a concrete type id, derived only from the JSON ABI (`serde_json::to_value(program_abi)`).
pub fn abi_to_ty(abi: &J, concrete_id: &str) -> Result<STy, String> {
    let conc = abi["concreteTypes"].as_array().ok_or("no concreteTypes")?;
    let meta = abi["metadataTypes"].as_array().ok_or("no metadataTypes")?;
    let find_c = |id: &str| conc.iter().find(|c| c["concreteTypeId"].as_str() == Some(id)).ok_or(format!("concrete type {id} not found"));
    let find_m = |id: u64| meta.iter().find(|m| m["metadataTypeId"].as_u64() == Some(id)).ok_or(format!("metadata type {id} not found"));

    fn prim(s: &str) -> Option<STy> {
        Some(match s {
            "u8" => STy::Leaf("u8"), "u16" => STy::Leaf("u16"), "u32" => STy::Leaf("u32"), "u64" => STy::Leaf("u64"),
            "u256" => STy::Leaf("u256"), "b256" => STy::Leaf("b256"), "bool" => STy::Leaf("bool"), "()" => STy::Leaf("unit"),
            "str" => STy::Leaf("str"), "raw untyped slice" => STy::Leaf("rawslice"),
            _ => {
                let n = s.strip_prefix("str[")?.strip_suffix(']')?.parse().ok()?;
                STy::StrArray(n)
            }
        })
    }

    // env: generic metadata type id -> resolved type
    type Env = Vec<(u64, STy)>;
    struct Cx<'a> { find_c: &'a dyn Fn(&str) -> Result<&'a J, String>, find_m: &'a dyn Fn(u64) -> Result<&'a J, String> }

    fn type_id(cx: &Cx, id: &J, args: Option<&J>, env: &Env, fuel: u32) -> Result<STy, String> {
        if fuel == 0 { return Err("type nesting too deep".into()); }
        if let Some(s) = id.as_str() {
            return concrete(cx, s, fuel - 1);
        }
        let mid = id.as_u64().ok_or("bad typeId")?;
        if let Some((_, t)) = env.iter().rev().find(|(k, _)| *k == mid) { return Ok(t.clone()); }
        let m = (cx.find_m)(mid)?;
        let mut argv = vec![];
        if let Some(a) = args.and_then(|a| a.as_array()) {
            for x in a { argv.push(type_id(cx, &x["typeId"], x.get("typeArguments"), env, fuel - 1)?); }
        }
        metadata(cx, m, argv, fuel - 1)
    }
    fn concrete(cx: &Cx, id: &str, fuel: u32) -> Result<STy, String> {
        let c = (cx.find_c)(id)?;
        match c.get("metadataTypeId").and_then(|m| m.as_u64()) {
            None => {
                let ty = c["type"].as_str().unwrap_or("");
                // a struct without fields has no metadata entry
                if ty.starts_with("struct ") && !ty.contains('<') { return Ok(STy::Struct(vec![])); }
                prim(ty).ok_or(format!("unknown primitive `{}`", c["type"]))
            }
            Some(mid) => {
                let mut argv = vec![];
                if let Some(a) = c.get("typeArguments").and_then(|a| a.as_array()) {
                    for x in a { argv.push(concrete(cx, x.as_str().ok_or("bad typeArgument")?, fuel - 1)?); }
                }
                metadata(cx, (cx.find_m)(mid)?, argv, fuel - 1)
            }
        }
    }
    fn metadata(cx: &Cx, m: &J, args: Vec<STy>, fuel: u32) -> Result<STy, String> {
        if fuel == 0 { return Err("type nesting too deep".into()); }
        let ty = m["type"].as_str().unwrap_or("");
        let mut env: Env = vec![];
        if let Some(ps) = m.get("typeParameters").and_then(|p| p.as_array()) {
            if ps.len() != args.len() { return Err(format!("`{ty}`: {} type parameters, {} arguments", ps.len(), args.len())); }
            for (p, a) in ps.iter().zip(args.iter()) { env.push((p.as_u64().ok_or("bad typeParameter")?, a.clone())); }
        }
        let comps = |env: &Env| -> Result<Vec<STy>, String> {
            let mut out = vec![];
            for c in m.get("components").and_then(|c| c.as_array()).map(|v| v.as_slice()).unwrap_or(&[]) {
                out.push(type_id(cx, &c["typeId"], c.get("typeArguments"), env, fuel - 1)?);
            }
            Ok(out)
        };
        if let Some(p) = prim(ty) { return Ok(p); }
        if ty.starts_with('(') { return Ok(STy::Tuple(comps(&env)?)); }
        if ty.starts_with('[') {
            let n: usize = ty.rsplit(';').next().and_then(|s| s.trim().strip_suffix(']')).and_then(|s| s.trim().parse().ok()).ok_or(format!("bad array type `{ty}`"))?;
            let c = comps(&env)?;
            return Ok(STy::Array(Box::new(c.into_iter().next().ok_or("array without element")?), n));
        }
        if let Some(name) = ty.strip_prefix("struct ") {
            return match name {
                "std::vec::Vec" => Ok(STy::Vec(Box::new(args.into_iter().next().ok_or("Vec without argument")?))),
                "std::bytes::Bytes" => Ok(STy::Leaf("bytes")),
                "std::string::String" => Ok(STy::Leaf("string")),
                "std::codec::TrivialBool" => Ok(STy::Leaf("tbool")),
                "std::codec::TrivialEnum" => Ok(STy::TrivialEnum(Box::new(args.into_iter().next().ok_or("TrivialEnum without argument")?))),
                _ => Ok(STy::Struct(comps(&env)?)),
            };
        }
        if ty.starts_with("enum ") { return Ok(STy::Enum(comps(&env)?)); }
        Err(format!("unknown metadata type `{ty}`"))
    }
    let cx = Cx { find_c: &find_c, find_m: &find_m };
    concrete(&cx, concrete_id, 64)
}

/// log id (decimal string in the JSON) -> concrete type id
pub fn logged_type(abi: &J, log_id: u64) -> Option<String> {
    abi["loggedTypes"].as_array()?.iter().find(|l| l["logId"].as_str() == Some(&log_id.to_string()))
        .and_then(|l| l["concreteTypeId"].as_str().map(|s| s.to_string()))
}
