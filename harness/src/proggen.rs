//! C01/C02: generator of random well-typed Sway programs over an explicit AST.
//! Every program is emitted twice from the same AST: as `.sw` text (helper decls/fns + one `#[test]`
//! fn, all names prefixed with the program id) and as the S-expression `Driver/SwayParse.lean` reads.
//! The generator stays inside the fragment `Model/SwaySem.lean` defines: typed/suffixed literals, explicit
//! type annotations on every `let`, fully parenthesised operators, in-range constant indices, counter-based
//! loops, `break`/`continue`/`return` only as the last statement of a block.
use crate::rng::Rng;
use std::collections::BTreeSet;

#[derive(Clone, Copy, PartialEq, Eq, Debug, PartialOrd, Ord)]
pub enum W { U8, U16, U32, U64, U256 }
impl W {
    pub fn bits(self) -> u32 { match self { W::U8 => 8, W::U16 => 16, W::U32 => 32, W::U64 => 64, W::U256 => 256 } }
    pub fn name(self) -> &'static str { match self { W::U8 => "u8", W::U16 => "u16", W::U32 => "u32", W::U64 => "u64", W::U256 => "u256" } }
    pub const ALL: [W; 5] = [W::U8, W::U16, W::U32, W::U64, W::U256];
}

/// 256-bit literal, big-endian 64-bit limbs
#[derive(Clone, Copy, PartialEq, Eq, Debug)]
pub struct Num(pub [u64; 4]);
impl Num {
    pub fn small(v: u64) -> Num { Num([0, 0, 0, v]) }
    pub fn max(w: W) -> Num {
        match w { W::U256 => Num([u64::MAX; 4]), W::U64 => Num::small(u64::MAX), _ => Num::small((1u64 << w.bits()) - 1) }
    }
    pub fn is_small(&self) -> bool { self.0[0] == 0 && self.0[1] == 0 && self.0[2] == 0 }
    pub fn hex(&self) -> String {
        let s = format!("{:016x}{:016x}{:016x}{:016x}", self.0[0], self.0[1], self.0[2], self.0[3]);
        let t = s.trim_start_matches('0');
        if t.is_empty() { "0".into() } else { t.into() }
    }
    pub fn sw(&self, w: W) -> String {
        if self.is_small() { format!("{}{}", self.0[3], w.name()) } else { format!("0x{}{}", self.hex(), w.name()) }
    }
    pub fn sx(&self) -> String { if self.is_small() { format!("{}", self.0[3]) } else { format!("0x{}", self.hex()) } }
}

#[derive(Clone, PartialEq, Eq, Debug)]
pub enum Ty { Int(W), Bool, Unit, Tuple(Vec<Ty>), Struct(usize), Enum(usize), Array(Box<Ty>, usize) }

#[derive(Clone, Debug)]
pub struct StructDecl { pub name: String, pub fields: Vec<(String, Ty)> }
#[derive(Clone, Debug)]
pub struct EnumDecl { pub name: String, pub variants: Vec<(String, Ty)> }

#[derive(Clone, Copy, PartialEq, Eq, Debug)]
pub enum BinOp { Add, Sub, Mul, Div, Mod, Shl, Shr, And, Or, Xor }
impl BinOp {
    fn sw(self) -> &'static str { match self { BinOp::Add => "+", BinOp::Sub => "-", BinOp::Mul => "*", BinOp::Div => "/", BinOp::Mod => "%", BinOp::Shl => "<<", BinOp::Shr => ">>", BinOp::And => "&", BinOp::Or => "|", BinOp::Xor => "^" } }
    fn sx(self) -> &'static str { match self { BinOp::Add => "add", BinOp::Sub => "sub", BinOp::Mul => "mul", BinOp::Div => "div", BinOp::Mod => "mod", BinOp::Shl => "shl", BinOp::Shr => "shr", BinOp::And => "band", BinOp::Or => "bor", BinOp::Xor => "bxor" } }
}
#[derive(Clone, Copy, PartialEq, Eq, Debug)]
pub enum CmpOp { Eq, Ne, Lt, Le, Gt, Ge }
impl CmpOp {
    fn sw(self) -> &'static str { match self { CmpOp::Eq => "==", CmpOp::Ne => "!=", CmpOp::Lt => "<", CmpOp::Le => "<=", CmpOp::Gt => ">", CmpOp::Ge => ">=" } }
    fn sx(self) -> &'static str { match self { CmpOp::Eq => "eq", CmpOp::Ne => "ne", CmpOp::Lt => "lt", CmpOp::Le => "le", CmpOp::Gt => "gt", CmpOp::Ge => "ge" } }
}

#[derive(Clone, Debug)]
pub enum Pat { Wild, Bind(String), Int(W, Num), Bool(bool), Enum(usize, usize, Box<Pat>), Tuple(Vec<Pat>) }

#[derive(Clone, Debug)]
pub struct Block { pub stmts: Vec<Stmt>, pub tail: Option<Box<Expr>> }

#[derive(Clone, Debug)]
pub enum Expr {
    Lit(W, Num), Bool(bool), Unit, Var(String),
    /// `b256` literal (64 hex digits); the reference semantics treats it as a 256-bit value with `==` and `log` only
    LitB256(Num),
    /// reference to a `const` item; the S-expression carries the initialiser
    ConstRef(String, Box<Expr>),
    Bin(BinOp, Box<Expr>, Box<Expr>), Cmp(CmpOp, Box<Expr>, Box<Expr>),
    Land(Box<Expr>, Box<Expr>), Lor(Box<Expr>, Box<Expr>), Not(Box<Expr>),
    Cast(W, Box<Expr>),
    Tuple(Vec<Expr>), StructNew(usize, Vec<Expr>), Array(Vec<Expr>),
    TupGet(Box<Expr>, usize), FieldGet(Box<Expr>, usize, usize), Idx(Box<Expr>, Box<Expr>),
    EnumNew(usize, usize, Box<Expr>),
    If(Box<Expr>, Block, Block), Blk(Block), Call(String, Vec<Expr>), Match(Box<Expr>, Vec<(Pat, Expr)>),
    /// `#[inline(never)]` identity call (defeats constant folding); denotes its argument
    Opq(Ty, Box<Expr>),
    /// `*(&e)`
    RefDeref(Box<Expr>),
}

#[derive(Clone, Debug)]
pub enum PathEl { Tup(usize), Field(usize, usize), Index(Expr) }

#[derive(Clone, Debug)]
pub enum Stmt {
    Let { name: String, ty: Ty, mutable: bool, e: Expr },
    Assign { var: String, path: Vec<PathEl>, e: Expr },
    While { c: Expr, body: Block },
    Break, Continue, Ret(Expr),
    /// statement-level `if`/`match`/call: printed without binding
    Expr(Expr),
    Log(Expr), Revert(Expr), Assert(Expr), Require(Expr, Expr),
}

#[derive(Clone, Debug)]
pub struct FnDecl {
    pub name: String, pub tparams: Vec<String>, pub params: Vec<(String, String)>, pub ret: String,
    pub body: Block, pub inline_never: bool,
    /// monomorphic signature for the generator (None for the generic helpers)
    pub sig: Option<(Vec<Ty>, Ty)>,
}

#[derive(Clone, Debug)]
pub struct ConstDecl { pub name: String, pub ty: Ty, pub init: Expr }

#[derive(Clone, Debug)]
pub struct Program {
    pub id: String, pub structs: Vec<StructDecl>, pub enums: Vec<EnumDecl>, pub consts: Vec<ConstDecl>,
    pub fns: Vec<FnDecl>, pub main: Block,
    /// names of package-level generic helpers used
    pub generics: BTreeSet<String>,
    pub oob: bool,
    /// the program may contain the shape of finding F4 (a non-inlined function that returns one of several
    /// by-value aggregate parameters of the same type); the ordinary stream is kept free of it
    pub aggsel: bool,
}

// ------------------------------------------------------------------------------------------ printing

pub struct Decls<'a> { pub structs: &'a [StructDecl], pub enums: &'a [EnumDecl] }

impl<'a> Decls<'a> {
    pub fn ty(&self, t: &Ty) -> String {
        match t {
            Ty::Int(w) => w.name().into(), Ty::Bool => "bool".into(), Ty::Unit => "()".into(),
            Ty::Tuple(ts) => if ts.len() == 1 { format!("({},)", self.ty(&ts[0])) } else { format!("({})", ts.iter().map(|t| self.ty(t)).collect::<Vec<_>>().join(", ")) },
            Ty::Struct(i) => self.structs[*i].name.clone(), Ty::Enum(i) => self.enums[*i].name.clone(),
            Ty::Array(t, n) => format!("[{}; {}]", self.ty(t), n),
        }
    }
    fn pat(&self, p: &Pat) -> String {
        match p {
            Pat::Wild => "_".into(), Pat::Bind(x) => x.clone(), Pat::Int(w, n) => n.sw(*w), Pat::Bool(b) => b.to_string(),
            Pat::Enum(e, v, p) => {
                let d = &self.enums[*e];
                if d.variants[*v].1 == Ty::Unit { format!("{}::{}", d.name, d.variants[*v].0) } else { format!("{}::{}({})", d.name, d.variants[*v].0, self.pat(p)) }
            }
            Pat::Tuple(ps) => if ps.len() == 1 { format!("({},)", self.pat(&ps[0])) } else { format!("({})", ps.iter().map(|p| self.pat(p)).collect::<Vec<_>>().join(", ")) },
        }
    }
    fn pat_sx(&self, p: &Pat) -> String {
        match p {
            Pat::Wild => "(_)".into(), Pat::Bind(x) => format!("(b {x})"), Pat::Int(w, n) => format!("({} {})", w.name(), n.sx()),
            Pat::Bool(b) => format!("({b})"), Pat::Enum(_, v, p) => format!("(enm {} {})", v, self.pat_sx(p)),
            Pat::Tuple(ps) => format!("(tup{})", ps.iter().map(|p| format!(" {}", self.pat_sx(p))).collect::<String>()),
        }
    }
    pub fn opq_name(&self, t: &Ty) -> String {
        match t { Ty::Int(w) => format!("opq_{}", w.name()), Ty::Bool => "opq_bool".into(), _ => "opq".into() }
    }
    pub fn expr(&self, e: &Expr) -> String {
        match e {
            Expr::Lit(w, n) => n.sw(*w), Expr::Bool(b) => b.to_string(), Expr::Unit => "()".into(), Expr::Var(x) => x.clone(),
            Expr::LitB256(n) => format!("0x{:016x}{:016x}{:016x}{:016x}", n.0[0], n.0[1], n.0[2], n.0[3]),
            Expr::ConstRef(n, _) => n.clone(),
            Expr::Bin(op, a, b) => format!("({} {} {})", self.expr(a), op.sw(), self.expr(b)),
            Expr::Cmp(op, a, b) => format!("({} {} {})", self.expr(a), op.sw(), self.expr(b)),
            Expr::Land(a, b) => format!("({} && {})", self.expr(a), self.expr(b)),
            Expr::Lor(a, b) => format!("({} || {})", self.expr(a), self.expr(b)),
            Expr::Not(a) => format!("(!({}))", self.expr(a)),
            Expr::Cast(w, a) => format!("({}).as_{}()", self.expr(a), w.name()),
            Expr::Tuple(es) => if es.len() == 1 { format!("({},)", self.expr(&es[0])) } else { format!("({})", es.iter().map(|e| self.expr(e)).collect::<Vec<_>>().join(", ")) },
            Expr::StructNew(s, es) => {
                let d = &self.structs[*s];
                format!("{} {{ {} }}", d.name, d.fields.iter().zip(es).map(|((f, _), e)| format!("{}: {}", f, self.expr(e))).collect::<Vec<_>>().join(", "))
            }
            Expr::Array(es) => format!("[{}]", es.iter().map(|e| self.expr(e)).collect::<Vec<_>>().join(", ")),
            Expr::TupGet(a, i) => format!("({}).{}", self.expr(a), i),
            Expr::FieldGet(a, s, f) => format!("({}).{}", self.expr(a), self.structs[*s].fields[*f].0),
            Expr::Idx(a, i) => format!("({})[{}]", self.expr(a), self.expr(i)),
            Expr::EnumNew(en, v, a) => {
                let d = &self.enums[*en];
                if d.variants[*v].1 == Ty::Unit { format!("{}::{}", d.name, d.variants[*v].0) } else { format!("{}::{}({})", d.name, d.variants[*v].0, self.expr(a)) }
            }
            Expr::If(..) | Expr::Match(..) => format!("({})", self.expr_raw(e)),
            Expr::Blk(b) => self.block(b),
            Expr::Call(f, args) => format!("{}({})", f, args.iter().map(|e| self.expr(e)).collect::<Vec<_>>().join(", ")),
            Expr::Opq(t, a) => format!("{}({})", self.opq_name(t), self.expr(a)),
            Expr::RefDeref(a) => format!("(*(&({})))", self.expr(a)),
        }
    }
    /// `if`/`match` without the surrounding parentheses (statement position, block tail, `let` initialiser)
    pub fn expr_raw(&self, e: &Expr) -> String {
        match e {
            Expr::If(c, t, f) => format!("if {} {} else {}", self.expr(c), self.block(t), self.block(f)),
            Expr::Match(a, arms) => format!("match ({}) {{ {} }}", self.expr(a), arms.iter().map(|(p, e)| format!("{} => {}, ", self.pat(p), self.expr(e))).collect::<String>()),
            _ => self.expr(e),
        }
    }
    pub fn block(&self, b: &Block) -> String {
        let mut s = String::from("{ ");
        for st in &b.stmts { s.push_str(&self.stmt(st)); s.push(' '); }
        if let Some(t) = &b.tail { s.push_str(&self.expr(t)); s.push(' '); }
        s.push('}');
        s
    }
    fn path(&self, p: &[PathEl]) -> String {
        p.iter().map(|el| match el {
            PathEl::Tup(i) => format!(".{i}"), PathEl::Field(s, f) => format!(".{}", self.structs[*s].fields[*f].0),
            PathEl::Index(e) => format!("[{}]", self.expr(e)),
        }).collect()
    }
    pub fn stmt(&self, s: &Stmt) -> String {
        match s {
            Stmt::Let { name, ty, mutable, e } => format!("let {}{}: {} = {};", if *mutable { "mut " } else { "" }, name, self.ty(ty), self.expr(e)),
            Stmt::Assign { var, path, e } => format!("{}{} = {};", var, self.path(path), self.expr(e)),
            Stmt::While { c, body } => format!("while {} {};", self.expr(c), self.block(body)),
            Stmt::Break => "break;".into(), Stmt::Continue => "continue;".into(),
            Stmt::Ret(e) => format!("return {};", self.expr(e)),
            // the `;` matters: `if c { } else { } [1u64, 2u64]` would parse as an index expression
            Stmt::Expr(e) => match e { Expr::If(..) | Expr::Match(..) => format!("{};", self.expr_raw(e)), _ => format!("let _ = {};", self.expr(e)) },
            Stmt::Log(e) => format!("log({});", self.expr(e)),
            Stmt::Revert(e) => format!("revert({});", self.expr(e)),
            Stmt::Assert(e) => format!("assert({});", self.expr(e)),
            Stmt::Require(c, v) => format!("require({}, {});", self.expr(c), self.expr(v)),
        }
    }

    pub fn expr_sx(&self, e: &Expr) -> String {
        let l = |es: &[Expr]| es.iter().map(|e| format!(" {}", self.expr_sx(e))).collect::<String>();
        match e {
            Expr::Lit(w, n) => format!("({} {})", w.name(), n.sx()), Expr::Bool(b) => format!("({b})"), Expr::Unit => "(tup)".into(),
            Expr::Var(x) => format!("(v {x})"), Expr::ConstRef(_, i) => self.expr_sx(i),
            Expr::LitB256(n) => format!("(u256 {})", n.sx()),
            Expr::Bin(op, a, b) => format!("({} {} {})", op.sx(), self.expr_sx(a), self.expr_sx(b)),
            Expr::Cmp(op, a, b) => format!("({} {} {})", op.sx(), self.expr_sx(a), self.expr_sx(b)),
            Expr::Land(a, b) => format!("(land {} {})", self.expr_sx(a), self.expr_sx(b)),
            Expr::Lor(a, b) => format!("(lor {} {})", self.expr_sx(a), self.expr_sx(b)),
            Expr::Not(a) => format!("(not {})", self.expr_sx(a)),
            Expr::Cast(w, a) => format!("(cast {} {})", w.name(), self.expr_sx(a)),
            Expr::Tuple(es) | Expr::StructNew(_, es) | Expr::Array(es) => format!("(tup{})", l(es)),
            Expr::TupGet(a, i) | Expr::FieldGet(a, _, i) => format!("(proj {} {})", self.expr_sx(a), i),
            Expr::Idx(a, i) => format!("(idx {} {})", self.expr_sx(a), self.expr_sx(i)),
            Expr::EnumNew(_, v, a) => format!("(enm {} {})", v, self.expr_sx(a)),
            Expr::If(c, t, f) => format!("(if {} ({}) ({}))", self.expr_sx(c), self.block_sx(t), self.block_sx(f)),
            Expr::Blk(b) => format!("(block {})", self.block_sx(b)),
            Expr::Call(f, args) => format!("(call {}{})", f, l(args)),
            Expr::Match(a, arms) => format!("(match {}{})", self.expr_sx(a), arms.iter().map(|(p, e)| format!(" (arm {} {})", self.pat_sx(p), self.expr_sx(e))).collect::<String>()),
            Expr::Opq(_, a) => format!("(opq {})", self.expr_sx(a)),
            Expr::RefDeref(a) => format!("(deref (ref {}))", self.expr_sx(a)),
        }
    }
    pub fn block_sx(&self, b: &Block) -> String {
        let mut v: Vec<String> = b.stmts.iter().map(|s| self.stmt_sx(s)).collect();
        if let Some(t) = &b.tail { v.push(format!("(tail {})", self.expr_sx(t))); }
        v.join(" ")
    }
    pub fn stmt_sx(&self, s: &Stmt) -> String {
        match s {
            Stmt::Let { name, e, .. } => format!("(let {} {})", name, self.expr_sx(e)),
            Stmt::Assign { var, path, e } => format!("(set {} ({}) {})", var, path.iter().map(|el| match el {
                PathEl::Tup(i) | PathEl::Field(_, i) => format!("(f {i})"), PathEl::Index(e) => format!("(i {})", self.expr_sx(e)),
            }).collect::<Vec<_>>().join(" "), self.expr_sx(e)),
            Stmt::While { c, body } => format!("(while {} ({}))", self.expr_sx(c), self.block_sx(body)),
            Stmt::Break => "(break)".into(), Stmt::Continue => "(continue)".into(),
            Stmt::Ret(e) => format!("(ret {})", self.expr_sx(e)),
            Stmt::Expr(e) => format!("(expr {})", self.expr_sx(e)),
            Stmt::Log(e) => format!("(log {})", self.expr_sx(e)),
            Stmt::Revert(e) => format!("(revert {})", self.expr_sx(e)),
            Stmt::Assert(e) => format!("(assert {})", self.expr_sx(e)),
            Stmt::Require(c, v) => format!("(require {} {})", self.expr_sx(c), self.expr_sx(v)),
        }
    }
}

/// package-level helpers shared by all programs of a package: (name, .sw text, S-expression)
pub fn generic_helpers() -> Vec<(&'static str, &'static str, &'static str)> {
    vec![
        ("g_id", "fn g_id<T>(x: T) -> T { x }", "(fn g_id (x) (tail (v x)))"),
        ("g_fst", "fn g_fst<A, B>(a: A, b: B) -> A { a }", "(fn g_fst (a b) (tail (v a)))"),
        ("g_snd", "fn g_snd<A, B>(a: A, b: B) -> B { b }", "(fn g_snd (a b) (tail (v b)))"),
        ("g_pair", "fn g_pair<A, B>(a: A, b: B) -> (A, B) { (a, b) }", "(fn g_pair (a b) (tail (tup (v a) (v b))))"),
        ("g_pick", "fn g_pick<T>(c: bool, a: T, b: T) -> T { if c { a } else { b } }", "(fn g_pick (c a b) (tail (if (v c) ((tail (v a))) ((tail (v b))))))"),
        ("g_sel", "#[inline(never)]\nfn g_sel<T>(i: u64, a: T, b: T, c: T) -> T { match i { 0u64 => a, 1u64 => b, _ => c, } }",
         "(fn g_sel (i a b c) (tail (match (v i) (arm (u64 0) (v a)) (arm (u64 1) (v b)) (arm (_) (v c)))))"),
        ("g_twice", "fn g_twice<T>(x: T) -> (T, T) { let y: T = g_id(x); (x, y) }", "(fn g_twice (x) (let y (call g_id (v x))) (tail (tup (v x) (v y))))"),
    ]
}

pub fn package_prelude() -> String {
    let mut s = String::from("library;\n\n");
    for w in W::ALL { s.push_str(&format!("#[inline(never)]\nfn opq_{0}(x: {0}) -> {0} {{ x }}\n", w.name())); }
    s.push_str("#[inline(never)]\nfn opq_bool(x: bool) -> bool { x }\n#[inline(never)]\nfn opq<T>(x: T) -> T { x }\n");
    for (_, sw, _) in generic_helpers() { s.push_str(sw); s.push('\n'); }
    s.push('\n');
    s
}

impl Program {
    pub fn decls(&self) -> Decls<'_> { Decls { structs: &self.structs, enums: &self.enums } }
    pub fn test_name(&self) -> String { format!("t_{}", self.id) }
    pub fn to_sw(&self) -> String {
        let d = self.decls();
        let mut s = String::new();
        for st in &self.structs { s.push_str(&format!("struct {} {{ {} }}\n", st.name, st.fields.iter().map(|(f, t)| format!("{}: {}", f, d.ty(t))).collect::<Vec<_>>().join(", "))); }
        for en in &self.enums { s.push_str(&format!("enum {} {{ {} }}\n", en.name, en.variants.iter().map(|(f, t)| format!("{}: {}", f, d.ty(t))).collect::<Vec<_>>().join(", "))); }
        for c in &self.consts { s.push_str(&format!("const {}: {} = {};\n", c.name, d.ty(&c.ty), d.expr(&c.init))); }
        for f in &self.fns {
            if f.inline_never { s.push_str("#[inline(never)]\n"); }
            let tp = if f.tparams.is_empty() { String::new() } else { format!("<{}>", f.tparams.join(", ")) };
            s.push_str(&format!("fn {}{}({}) -> {} {}\n", f.name, tp, f.params.iter().map(|(p, t)| format!("{p}: {t}")).collect::<Vec<_>>().join(", "), f.ret, d.block(&f.body)));
        }
        s.push_str(&format!("#[test]\nfn {}() {}\n\n", self.test_name(), d.block(&self.main)));
        s
    }
    pub fn to_sexp(&self) -> String {
        let d = self.decls();
        let mut fns: Vec<String> = vec![];
        for (n, _, sx) in generic_helpers() { if self.generics.contains(n) || (n == "g_id" && self.generics.contains("g_twice")) { fns.push(sx.to_string()); } }
        for f in &self.fns {
            fns.push(format!("(fn {} ({}) {})", f.name, f.params.iter().map(|(p, _)| p.clone()).collect::<Vec<_>>().join(" "), d.block_sx(&f.body)));
        }
        format!("(prog (fns{}) (main {}))", fns.iter().map(|f| format!(" {f}")).collect::<String>(), d.block_sx(&self.main))
    }
}

// ------------------------------------------------------------------------------------------ generation

#[derive(Clone)]
struct Var { name: String, ty: Ty, assignable: bool, counter: bool }

#[derive(Clone)]
struct FnSig { name: String, params: Vec<Ty>, ret: Ty }

pub struct Gen<'r> {
    r: &'r mut Rng,
    id: String,
    structs: Vec<StructDecl>, enums: Vec<EnumDecl>, consts: Vec<ConstDecl>,
    fns: Vec<FnDecl>, sigs: Vec<FnSig>,
    generics: BTreeSet<String>,
    vars: Vec<Var>,
    nvar: usize,
    in_loop: bool,
    loop_depth: u32,
    /// percentage of literals wrapped in an opaque call
    p_opq: u64,
    /// allowed integer widths of this program
    widths: Vec<W>,
    /// budget of statements still to be generated (bounds program size)
    budget: i64,
    /// allow the shape of finding F4 (see `Program::aggsel`)
    aggsel: bool,
    /// allow the shape of finding F6: an aggregate re-assigned from a constructor that reads the same variable
    selfupd: bool,
}

impl<'r> Gen<'r> {
    fn decls(&self) -> Decls<'_> { Decls { structs: &self.structs, enums: &self.enums } }
    fn fresh(&mut self, p: &str) -> String { self.nvar += 1; format!("{}{}", p, self.nvar) }

    fn gen_w(&mut self) -> W { let ws = self.widths.clone(); *self.r.pick(&ws) }

    fn gen_scalar(&mut self) -> Ty { if self.r.chance(1, 5) { Ty::Bool } else { Ty::Int(self.gen_w()) } }

    fn gen_ty(&mut self, depth: u32) -> Ty {
        if depth == 0 || self.r.chance(3, 5) { return self.gen_scalar(); }
        match self.r.below(6) {
            0 | 1 => { let n = self.r.range(2, 3) as usize; Ty::Tuple((0..n).map(|_| self.gen_ty(depth - 1)).collect()) }
            2 => { let n = self.r.range(1, 4) as usize; Ty::Array(Box::new(self.gen_ty(depth - 1)), n) }
            3 if !self.structs.is_empty() => Ty::Struct(self.r.below(self.structs.len() as u64) as usize),
            4 if !self.enums.is_empty() => Ty::Enum(self.r.below(self.enums.len() as u64) as usize),
            _ => self.gen_scalar(),
        }
    }

    fn gen_num(&mut self, w: W) -> Num {
        let bits = w.bits();
        match self.r.below(40) {
            0..=27 => Num::small(self.r.below(10)),
            28..=30 => Num::small(self.r.below(if bits > 8 { 300 } else { 256 })),
            31 => Num::max(w),
            32 => { let mut m = Num::max(w); m.0[3] -= 1; m }
            33..=35 => { // 2^k, 2^k - 1, 2^k + 1
                let k = self.r.below(bits as u64) as usize;
                let mut n = Num([0; 4]);
                n.0[3 - k / 64] = 1u64 << (k % 64);
                match self.r.below(3) {
                    0 => n,
                    1 => if n.0[3] > 0 { n.0[3] -= 1; n } else { n },
                    _ => { let mut m = n; if m.0[3] < u64::MAX { m.0[3] += 1; } if self.fits(&m, w) { m } else { n } }
                }
            }
            _ => {
                if bits == 256 { match self.r.below(3) { 0 => Num([self.r.next(), self.r.next(), self.r.next(), self.r.next()]), 1 => Num([0, 0, self.r.next(), self.r.next()]), _ => Num::small(self.r.next()) } }
                else if bits == 64 { Num::small(self.r.next() >> self.r.below(64)) }
                else { Num::small(self.r.below(1u64 << bits)) }
            }
        }
    }
    /// literal usable in a pattern: the compiler's pattern analysis panics on literals wider than 64 bits
    /// ("pattern only works with 64 bits", match_expression/analysis/pattern.rs:177), so u256 patterns stay small
    fn gen_pat_num(&mut self, w: W) -> Num {
        let n = self.gen_num(w);
        if n.is_small() { n } else { Num::small(self.r.below(1000)) }
    }
    fn fits(&self, n: &Num, w: W) -> bool {
        match w { W::U256 => true, W::U64 => n.is_small(), _ => n.is_small() && n.0[3] < (1u64 << w.bits()) }
    }

    fn lit(&mut self, w: W) -> Expr {
        let n = self.gen_num(w);
        self.wrap_opq(Ty::Int(w), Expr::Lit(w, n))
    }
    fn wrap_opq(&mut self, t: Ty, e: Expr) -> Expr {
        if self.r.below(100) < self.p_opq { Expr::Opq(t, Box::new(e)) } else { e }
    }

    /// a constant expression of type `t` (constructors and literals only)
    fn gen_value(&mut self, t: &Ty) -> Expr {
        match t {
            Ty::Int(w) => self.lit(*w),
            Ty::Bool => { let b = self.r.chance(1, 2); self.wrap_opq(Ty::Bool, Expr::Bool(b)) }
            Ty::Unit => Expr::Unit,
            Ty::Tuple(ts) => Expr::Tuple(ts.iter().map(|t| self.gen_value(t)).collect()),
            Ty::Struct(i) => { let fs: Vec<Ty> = self.structs[*i].fields.iter().map(|f| f.1.clone()).collect(); Expr::StructNew(*i, fs.iter().map(|t| self.gen_value(t)).collect()) }
            Ty::Enum(i) => { let v = self.r.below(self.enums[*i].variants.len() as u64) as usize; let pt = self.enums[*i].variants[v].1.clone(); Expr::EnumNew(*i, v, Box::new(self.gen_value(&pt))) }
            Ty::Array(t, n) => Expr::Array((0..*n).map(|_| self.gen_value(t)).collect()),
        }
    }

    fn visible(&self) -> Vec<Var> {
        let mut seen = BTreeSet::new();
        let mut out = vec![];
        for v in self.vars.iter().rev() { if seen.insert(v.name.clone()) { out.push(v.clone()); } }
        out
    }

    /// an in-range index expression for an array of length `n`
    fn gen_index(&mut self, n: usize) -> Expr {
        let counters: Vec<Var> = self.visible().into_iter().filter(|v| v.counter).collect();
        if !counters.is_empty() && self.r.chance(1, 3) {
            let c = self.r.pick(&counters).name.clone();
            return Expr::Bin(BinOp::Mod, Box::new(Expr::Var(c)), Box::new(Expr::Lit(W::U64, Num::small(n as u64))));
        }
        let k = self.r.below(n as u64);
        self.wrap_opq(Ty::Int(W::U64), Expr::Lit(W::U64, Num::small(k)))
    }

    /// all read paths of type `want` below expression `e : t`
    fn paths(&mut self, e: Expr, t: &Ty, want: &Ty, depth: u32, out: &mut Vec<Expr>) {
        if t == want { out.push(e.clone()); }
        if depth == 0 { return; }
        match t {
            Ty::Tuple(ts) => for (i, ti) in ts.iter().enumerate() { self.paths(Expr::TupGet(Box::new(e.clone()), i), ti, want, depth - 1, out); },
            Ty::Struct(s) => { let fs = self.structs[*s].fields.clone(); for (i, (_, ti)) in fs.iter().enumerate() { self.paths(Expr::FieldGet(Box::new(e.clone()), *s, i), ti, want, depth - 1, out); } }
            Ty::Array(ti, n) => { let ix = self.gen_index(*n); self.paths(Expr::Idx(Box::new(e.clone()), Box::new(ix)), ti, want, depth - 1, out); }
            _ => {}
        }
    }

    fn var_of(&mut self, want: &Ty) -> Option<Expr> {
        let mut out = vec![];
        for v in self.visible() { self.paths(Expr::Var(v.name.clone()), &v.ty, want, 3, &mut out); }
        if out.is_empty() { None } else { let i = self.r.below(out.len() as u64) as usize; Some(out.swap_remove(i)) }
    }

    fn narrower(&self, w: W) -> Vec<W> {
        // conversions that exist in std: u8->u16/u32/u64, u16->u32/u64, u32->u64, u64->u256
        let all: &[W] = match w { W::U16 => &[W::U8], W::U32 => &[W::U8, W::U16], W::U64 => &[W::U8, W::U16, W::U32], W::U256 => &[W::U64], W::U8 => &[] };
        all.iter().copied().filter(|x| self.widths.contains(x)).collect()
    }

    pub fn gen_expr(&mut self, t: &Ty, depth: u32) -> Expr {
        // `()` only occurs as the payload of unit enum variants, which the .sw printer omits: it must be effect free
        if *t == Ty::Unit { return Expr::Unit; }
        if depth == 0 || self.r.chance(1, 6) {
            if self.r.chance(1, 2) { if let Some(e) = self.var_of(t) { return e; } }
            return self.gen_value(t);
        }
        // constructs available at every type
        let k = self.r.below(100);
        if k < 18 { if let Some(e) = self.var_of(t) { return e; } }
        if k < 24 {
            let c = self.gen_expr(&Ty::Bool, depth - 1);
            let a = self.gen_block(t, depth - 1, 2);
            let b = self.gen_block(t, depth - 1, 2);
            return Expr::If(Box::new(c), a, b);
        }
        if k < 27 { return Expr::Blk(self.gen_block(t, depth - 1, 3)); }
        if k < 34 { return self.gen_match(t, depth - 1); }
        if k < 42 { if let Some(e) = self.gen_call(t, depth - 1) { return e; } }
        if k < 44 && !matches!(t, Ty::Unit) { let e = self.gen_expr(t, depth - 1); return Expr::RefDeref(Box::new(e)); }
        match t {
            Ty::Int(w) => {
                let w = *w;
                match self.r.below(100) {
                    0..=24 => self.arith(BinOp::Add, w, depth),
                    25..=34 => self.arith(BinOp::Sub, w, depth),
                    35..=44 => self.arith(BinOp::Mul, w, depth),
                    45..=52 => self.arith(BinOp::Div, w, depth),
                    53..=60 => self.arith(BinOp::Mod, w, depth),
                    61..=65 => self.arith(BinOp::And, w, depth),
                    66..=70 => self.arith(BinOp::Or, w, depth),
                    71..=75 => self.arith(BinOp::Xor, w, depth),
                    76..=80 => self.shift(BinOp::Shl, w, depth),
                    81..=85 => self.shift(BinOp::Shr, w, depth),
                    86..=89 => Expr::Not(Box::new(self.gen_expr(&Ty::Int(w), depth - 1))),
                    90..=95 => {
                        let ns = self.narrower(w);
                        if ns.is_empty() { self.lit(w) } else { let n = *self.r.pick(&ns); Expr::Cast(w, Box::new(self.gen_expr(&Ty::Int(n), depth - 1))) }
                    }
                    _ => self.lit(w),
                }
            }
            Ty::Bool => match self.r.below(100) {
                0..=54 => {
                    let w = self.gen_w();
                    let op = *self.r.pick(&[CmpOp::Eq, CmpOp::Ne, CmpOp::Lt, CmpOp::Le, CmpOp::Gt, CmpOp::Ge]);
                    let a = self.gen_expr(&Ty::Int(w), depth - 1);
                    let b = self.gen_expr(&Ty::Int(w), depth - 1);
                    Expr::Cmp(op, Box::new(a), Box::new(b))
                }
                55..=64 => { let a = self.gen_expr(&Ty::Bool, depth - 1); let b = self.gen_expr(&Ty::Bool, depth - 1); Expr::Land(Box::new(a), Box::new(b)) }
                65..=74 => { let a = self.gen_expr(&Ty::Bool, depth - 1); let b = self.gen_expr(&Ty::Bool, depth - 1); Expr::Lor(Box::new(a), Box::new(b)) }
                75..=84 => Expr::Not(Box::new(self.gen_expr(&Ty::Bool, depth - 1))),
                85..=92 => {
                    let op = *self.r.pick(&[CmpOp::Eq, CmpOp::Ne]);
                    let a = self.gen_expr(&Ty::Bool, depth - 1); let b = self.gen_expr(&Ty::Bool, depth - 1);
                    Expr::Cmp(op, Box::new(a), Box::new(b))
                }
                _ => self.gen_value(&Ty::Bool),
            },
            Ty::Unit => Expr::Unit,
            Ty::Tuple(ts) => Expr::Tuple(ts.iter().map(|t| self.gen_expr(t, depth - 1)).collect()),
            Ty::Struct(i) => { let fs: Vec<Ty> = self.structs[*i].fields.iter().map(|f| f.1.clone()).collect(); Expr::StructNew(*i, fs.iter().map(|t| self.gen_expr(t, depth - 1)).collect()) }
            Ty::Enum(i) => { let v = self.r.below(self.enums[*i].variants.len() as u64) as usize; let pt = self.enums[*i].variants[v].1.clone(); Expr::EnumNew(*i, v, Box::new(self.gen_expr(&pt, depth - 1))) }
            Ty::Array(t, n) => Expr::Array((0..*n).map(|_| self.gen_expr(t, depth - 1)).collect()),
        }
    }

    /// a constructor expression of aggregate type `t`: scalar components are arbitrary expressions, aggregate
    /// components are constructors again (no aggregate is copied out of a local)
    fn gen_ctor(&mut self, t: &Ty, depth: u32) -> Expr {
        let d = depth.saturating_sub(1);
        match t {
            Ty::Int(_) | Ty::Bool => self.gen_expr(t, d),
            Ty::Unit => Expr::Unit,
            Ty::Tuple(ts) => Expr::Tuple(ts.iter().map(|t| self.gen_ctor(t, d)).collect()),
            Ty::Struct(i) => { let fs: Vec<Ty> = self.structs[*i].fields.iter().map(|f| f.1.clone()).collect(); Expr::StructNew(*i, fs.iter().map(|t| self.gen_ctor(t, d)).collect()) }
            Ty::Enum(i) => { let v = self.r.below(self.enums[*i].variants.len() as u64) as usize; let pt = self.enums[*i].variants[v].1.clone(); Expr::EnumNew(*i, v, Box::new(self.gen_ctor(&pt, d))) }
            Ty::Array(t, n) => Expr::Array((0..*n).map(|_| self.gen_ctor(t, d)).collect()),
        }
    }

    fn arith(&mut self, op: BinOp, w: W, depth: u32) -> Expr {
        let a = self.gen_expr(&Ty::Int(w), depth - 1);
        let b = if matches!(op, BinOp::Div | BinOp::Mod) && !self.r.chance(1, 6) {
            // mostly a non-zero literal divisor
            let mut n = self.gen_num(w);
            if n == Num([0; 4]) { n = Num::small(1 + self.r.below(7)); }
            self.wrap_opq(Ty::Int(w), Expr::Lit(w, n))
        } else if matches!(op, BinOp::Sub | BinOp::Mul) && self.r.chance(1, 2) {
            // keep most subtractions / multiplications in range
            let n = Num::small(self.r.below(4));
            self.wrap_opq(Ty::Int(w), Expr::Lit(w, n))
        } else { self.gen_expr(&Ty::Int(w), depth - 1) };
        Expr::Bin(op, Box::new(a), Box::new(b))
    }
    fn shift(&mut self, op: BinOp, w: W, depth: u32) -> Expr {
        let a = self.gen_expr(&Ty::Int(w), depth - 1);
        let b = if self.r.chance(3, 4) {
            let bits = w.bits() as u64;
            let n = match self.r.below(8) { 0 => bits, 1 => bits - 1, 2 => bits + 1, 3 => 64, 4 => 63, 5 => self.r.below(300), _ => self.r.below(bits) };
            self.wrap_opq(Ty::Int(W::U64), Expr::Lit(W::U64, Num::small(n)))
        } else { self.gen_expr(&Ty::Int(W::U64), depth - 1) };
        Expr::Bin(op, Box::new(a), Box::new(b))
    }

    fn gen_call(&mut self, t: &Ty, depth: u32) -> Option<Expr> {
        let cands: Vec<FnSig> = self.sigs.iter().filter(|s| &s.ret == t).cloned().collect();
        if !cands.is_empty() && self.r.chance(2, 3) {
            let s = self.r.pick(&cands).clone();
            let args = s.params.iter().map(|p| self.gen_expr(p, depth)).collect();
            return Some(Expr::Call(s.name, args));
        }
        // generic helpers; selecting among several by-value aggregates of one type is the shape of finding F4
        // (u256 is passed by reference like an aggregate: `g_sel::<u256>` shows F4 as well)
        let scalar = matches!(t, Ty::Bool) || matches!(t, Ty::Int(w) if *w != W::U256);
        let mut pick = self.r.below(7);
        if !scalar && !self.aggsel && (pick == 3 || pick == 4) { pick = 0; }
        let e = match pick {
            0 => { self.generics.insert("g_id".into()); Expr::Call("g_id".into(), vec![self.gen_expr(t, depth)]) }
            // the dropped argument is a plain value: an unused trapping computation is deleted by the compiler
            1 => { self.generics.insert("g_fst".into()); let o = self.gen_ty(1); Expr::Call("g_fst".into(), vec![self.gen_expr(t, depth), self.gen_value(&o)]) }
            2 => { self.generics.insert("g_snd".into()); let o = self.gen_ty(1); Expr::Call("g_snd".into(), vec![self.gen_value(&o), self.gen_expr(t, depth)]) }
            3 => { self.generics.insert("g_pick".into()); Expr::Call("g_pick".into(), vec![self.gen_expr(&Ty::Bool, depth), self.gen_expr(t, depth), self.gen_expr(t, depth)]) }
            4 => { self.generics.insert("g_sel".into()); let i = Expr::Lit(W::U64, Num::small(self.r.below(4))); let i = self.wrap_opq(Ty::Int(W::U64), i); Expr::Call("g_sel".into(), vec![i, self.gen_expr(t, depth), self.gen_expr(t, depth), self.gen_expr(t, depth)]) }
            5 => match t {
                Ty::Tuple(ts) if ts.len() == 2 => { self.generics.insert("g_pair".into()); Expr::Call("g_pair".into(), vec![self.gen_expr(&ts[0], depth), self.gen_expr(&ts[1], depth)]) }
                _ => return None,
            },
            _ => match t {
                Ty::Tuple(ts) if ts.len() == 2 && ts[0] == ts[1] => { self.generics.insert("g_twice".into()); Expr::Call("g_twice".into(), vec![self.gen_expr(&ts[0], depth)]) }
                _ => return None,
            },
        };
        Some(e)
    }

    /// an exhaustive `match` of result type `t`
    fn gen_match(&mut self, t: &Ty, depth: u32) -> Expr {
        let mark = self.vars.len();
        let kind = self.r.below(10);
        let res = if kind < 5 && !self.enums.is_empty() {
            let ei = self.r.below(self.enums.len() as u64) as usize;
            let scrut = self.gen_expr(&Ty::Enum(ei), depth);
            let variants = self.enums[ei].variants.clone();
            let mut arms = vec![];
            let cut = if variants.len() > 1 && self.r.chance(1, 4) { self.r.range(1, variants.len() as u64 - 1) as usize } else { variants.len() };
            for (vi, (_, pt)) in variants.iter().enumerate().take(cut) {
                // optionally a literal sub-pattern arm before the general arm
                if let Ty::Int(w) = pt { if self.r.chance(1, 4) { let n = self.gen_pat_num(*w); let e = self.gen_expr(t, depth); arms.push((Pat::Enum(ei, vi, Box::new(Pat::Int(*w, n))), e)); } }
                if let Ty::Bool = pt { if self.r.chance(1, 4) { let e = self.gen_expr(t, depth); arms.push((Pat::Enum(ei, vi, Box::new(Pat::Bool(true))), e)); } }
                let (p, bound) = self.gen_bind_pat(pt);
                let m2 = self.vars.len();
                for (n, ty) in bound { self.vars.push(Var { name: n, ty, assignable: false, counter: false }); }
                let e = self.gen_expr(t, depth);
                self.vars.truncate(m2);
                arms.push((Pat::Enum(ei, vi, Box::new(p)), e));
            }
            if cut < variants.len() { let e = self.gen_expr(t, depth); arms.push((Pat::Wild, e)); }
            Expr::Match(Box::new(scrut), arms)
        } else if kind < 8 {
            let w = self.gen_w();
            let scrut = self.gen_expr(&Ty::Int(w), depth);
            let n = self.r.range(1, 3);
            let mut seen: Vec<Num> = vec![];
            let mut arms = vec![];
            for _ in 0..n {
                let v = self.gen_pat_num(w);
                if seen.contains(&v) { continue; }
                seen.push(v);
                let e = self.gen_expr(t, depth);
                arms.push((Pat::Int(w, v), e));
            }
            if self.r.chance(1, 2) { let e = self.gen_expr(t, depth); arms.push((Pat::Wild, e)); }
            else {
                let x = self.fresh("m");
                self.vars.push(Var { name: x.clone(), ty: Ty::Int(w), assignable: false, counter: false });
                let e = self.gen_expr(t, depth);
                self.vars.pop();
                arms.push((Pat::Bind(x), e));
            }
            Expr::Match(Box::new(scrut), arms)
        } else if kind < 9 {
            let scrut = self.gen_expr(&Ty::Bool, depth);
            let a = self.gen_expr(t, depth); let b = self.gen_expr(t, depth);
            let arms = if self.r.chance(1, 2) { vec![(Pat::Bool(true), a), (Pat::Bool(false), b)] } else { vec![(Pat::Bool(false), a), (Pat::Wild, b)] };
            Expr::Match(Box::new(scrut), arms)
        } else {
            // tuple (int, bool)
            let w = self.gen_w();
            let st = Ty::Tuple(vec![Ty::Int(w), Ty::Bool]);
            let scrut = self.gen_expr(&st, depth);
            let n = self.gen_pat_num(w);
            let a = self.gen_expr(t, depth);
            let x = self.fresh("m");
            self.vars.push(Var { name: x.clone(), ty: Ty::Int(w), assignable: false, counter: false });
            let b = self.gen_expr(t, depth);
            self.vars.pop();
            let c = self.gen_expr(t, depth);
            Expr::Match(Box::new(scrut), vec![
                (Pat::Tuple(vec![Pat::Int(w, n), Pat::Bool(true)]), a),
                (Pat::Tuple(vec![Pat::Bind(x), Pat::Bool(false)]), b),
                (Pat::Wild, c),
            ])
        };
        self.vars.truncate(mark);
        res
    }

    /// an irrefutable pattern for payload type `t` and the variables it binds
    fn gen_bind_pat(&mut self, t: &Ty) -> (Pat, Vec<(String, Ty)>) {
        match t {
            Ty::Unit => (Pat::Wild, vec![]),
            Ty::Tuple(ts) if self.r.chance(1, 2) => {
                let mut ps = vec![]; let mut bs = vec![];
                for ti in ts { let (p, b) = self.gen_bind_pat(ti); ps.push(p); bs.extend(b); }
                (Pat::Tuple(ps), bs)
            }
            _ => if self.r.chance(1, 4) { (Pat::Wild, vec![]) } else { let x = self.fresh("m"); (Pat::Bind(x.clone()), vec![(x, t.clone())]) },
        }
    }

    /// a block of value type `t` with up to `max_stmts` leading statements
    fn gen_block(&mut self, t: &Ty, depth: u32, max_stmts: u64) -> Block {
        let mark = self.vars.len();
        let n = self.r.below(max_stmts + 1);
        let mut stmts = vec![];
        for _ in 0..n { self.gen_stmt(depth, false, &mut stmts); }
        let tail = self.gen_expr(t, depth);
        self.vars.truncate(mark);
        Block { stmts, tail: Some(Box::new(tail)) }
    }

    /// a unit block of statements; `allow_jump`: may end in break/continue (when inside a loop)
    fn gen_unit_block(&mut self, depth: u32, max_stmts: u64, allow_jump: bool) -> Block {
        let mark = self.vars.len();
        let n = self.r.range(1, max_stmts);
        let mut stmts = vec![];
        for _ in 0..n { self.gen_stmt(depth, true, &mut stmts); }
        if allow_jump && self.in_loop && self.r.chance(1, 3) { stmts.push(if self.r.chance(1, 2) { Stmt::Break } else { Stmt::Continue }); }
        self.vars.truncate(mark);
        Block { stmts, tail: None }
    }

    fn loggable(&mut self) -> Option<Expr> {
        let vs = self.visible();
        if vs.is_empty() { return None; }
        let v = self.r.pick(&vs).clone();
        if v.ty == Ty::Unit { return None; }
        Some(Expr::Var(v.name))
    }

    fn gen_stmt(&mut self, depth: u32, allow_nested: bool, out: &mut Vec<Stmt>) {
        self.budget -= 1;
        if self.budget < 0 { return; }
        let k = self.r.below(100);
        if k < 30 {
            let t = self.gen_ty(2);
            let e = self.gen_expr(&t, depth);
            let mutable = self.r.chance(1, 2);
            let name = if self.r.chance(1, 10) {
                let cands: Vec<Var> = self.visible().into_iter().filter(|v| !v.counter && v.name.starts_with('v')).collect();
                if cands.is_empty() { self.fresh("v") } else { self.r.pick(&cands).name.clone() }
            } else { self.fresh("v") };
            self.vars.push(Var { name: name.clone(), ty: t.clone(), assignable: mutable, counter: false });
            out.push(Stmt::Let { name, ty: t, mutable, e });
            return;
        }
        if k < 50 {
            let cands: Vec<Var> = self.visible().into_iter().filter(|v| v.assignable).collect();
            if !cands.is_empty() {
                let v = self.r.pick(&cands).clone();
                let mut path = vec![];
                let mut t = v.ty.clone();
                for _ in 0..3 {
                    if self.r.chance(1, 3) { break; }
                    match t.clone() {
                        Ty::Tuple(ts) if !ts.is_empty() => { let i = self.r.below(ts.len() as u64) as usize; path.push(PathEl::Tup(i)); t = ts[i].clone(); }
                        Ty::Struct(s) => { let i = self.r.below(self.structs[s].fields.len() as u64) as usize; path.push(PathEl::Field(s, i)); t = self.structs[s].fields[i].1.clone(); }
                        Ty::Array(et, n) => { let ix = self.gen_index(n); path.push(PathEl::Index(ix)); t = *et; }
                        _ => break,
                    }
                }
                if t != Ty::Unit {
                    let mut e = self.gen_expr(&t, depth);
                    // `x = x` of an aggregate sends sway-ir's memcpyopt::copy_prop_reverse into an endless loop
                    // (cycle in its src->dst closure); not part of the fragment
                    if let Expr::Var(x) = &e { if *x == v.name { e = self.gen_value(&t); } }
                    // `x = *(&x)` reverts in debug builds (finding F3: the self copy becomes an overlapping MCP)
                    // (also through a path: `v.0 = *(&(v.0))`)
                    if let Expr::RefDeref(inner) = &e { if root_var(inner) == Some(v.name.as_str()) { e = self.gen_value(&t); } }
                    // Re-assigning an aggregate from another local (`a = b; … b = a;`) builds memcpy cycles on which
                    // sway-ir's memcpyopt::copy_prop_reverse does not terminate (compiler hang, mostly release).
                    // Aggregate re-assignments therefore never copy from another aggregate local.
                    // (Wrapping the value in a generic `#[inline(never)]` identity call instead trips an `unwrap` in
                    // sway-ir sroa.rs:392 in release builds.) Aggregates are re-assigned from constructor expressions.
                    if !matches!(t, Ty::Int(_) | Ty::Bool) {
                        // finding F6: `v = Ctor(… reads of v …)` -- release's memcpyprop_reverse forwards the temporary into `v`
                        // itself and the later field reads see already overwritten / stale fields. Only `prog-selfupd`
                        // programs may read the assigned variable in the constructor.
                        let hidden: Vec<(usize, Var)> = if self.selfupd { vec![] } else {
                            let idx: Vec<usize> = (0..self.vars.len()).filter(|i| self.vars[*i].name == v.name).collect();
                            idx.iter().rev().map(|i| (*i, self.vars.remove(*i))).collect()
                        };
                        e = self.gen_ctor(&t, depth);
                        for (i, var) in hidden.into_iter().rev() { self.vars.insert(i, var); }
                    }
                    out.push(Stmt::Assign { var: v.name, path, e });
                    return;
                }
            }
        }
        if k < 62 { if let Some(e) = self.loggable() { out.push(Stmt::Log(e)); return; } }
        if k < 68 { let t = self.gen_ty(1); if t != Ty::Unit { let e = self.gen_expr(&t, depth); out.push(Stmt::Log(e)); return; } }
        if k < 80 && allow_nested && depth > 0 {
            let c = self.gen_expr(&Ty::Bool, depth - 1);
            let a = self.gen_unit_block(depth - 1, 3, true);
            let b = if self.r.chance(1, 2) { self.gen_unit_block(depth - 1, 3, true) } else { Block { stmts: vec![], tail: None } };
            out.push(Stmt::Expr(Expr::If(Box::new(c), a, b)));
            return;
        }
        if k < 90 && allow_nested && depth > 0 && self.loop_depth < 2 { self.gen_while(depth - 1, out); return; }
        if k < 92 { let c = self.gen_cond_mostly_true(depth); out.push(Stmt::Assert(c)); return; }
        if k < 94 {
            let c = self.gen_cond_mostly_true(depth);
            let t = self.gen_scalar();
            let v = self.gen_expr(&t, 1);
            out.push(Stmt::Require(c, v));
            return;
        }
        if k < 96 && allow_nested && depth > 0 {
            let c = self.gen_cond_mostly_true(depth);
            let code = Expr::Lit(W::U64, Num::small(self.r.below(1000)));
            let code = self.wrap_opq(Ty::Int(W::U64), code);
            out.push(Stmt::Expr(Expr::If(Box::new(Expr::Not(Box::new(c))), Block { stmts: vec![Stmt::Revert(code)], tail: None }, Block { stmts: vec![], tail: None })));
            return;
        }
        if k < 98 && depth > 0 {
            let t = self.gen_scalar();
            if let Some(e) = self.gen_call(&t, depth - 1) { out.push(Stmt::Log(e)); return; }
        }
        let t = self.gen_scalar();
        let e = self.gen_expr(&t, depth);
        out.push(Stmt::Log(e));
    }

    fn gen_cond_mostly_true(&mut self, depth: u32) -> Expr {
        let c = self.gen_expr(&Ty::Bool, depth.min(2));
        if self.r.chance(4, 5) { let t = self.wrap_opq(Ty::Bool, Expr::Bool(true)); Expr::Lor(Box::new(c), Box::new(t)) } else { c }
    }

    /// `let mut iK: u64 = 0; while iK < N { iK = iK + 1; body }`: terminates, `continue` cannot skip the increment
    fn gen_while(&mut self, depth: u32, out: &mut Vec<Stmt>) {
        let i = self.fresh("i");
        let n = self.r.range(0, 5);
        let n_e = Expr::Lit(W::U64, Num::small(n));
        let n_e = self.wrap_opq(Ty::Int(W::U64), n_e);
        let mark = self.vars.len();
        self.vars.push(Var { name: i.clone(), ty: Ty::Int(W::U64), assignable: false, counter: true });
        let (old_loop, old_depth) = (self.in_loop, self.loop_depth);
        self.in_loop = true; self.loop_depth += 1;
        let inc = Stmt::Assign { var: i.clone(), path: vec![], e: Expr::Bin(BinOp::Add, Box::new(Expr::Var(i.clone())), Box::new(Expr::Lit(W::U64, Num::small(1)))) };
        let mut body = self.gen_unit_block(depth, 4, false);
        body.stmts.insert(0, inc);
        self.in_loop = old_loop; self.loop_depth = old_depth;
        self.vars.truncate(mark);
        // the counter stays visible after the loop as an ordinary immutable u64
        self.vars.push(Var { name: i.clone(), ty: Ty::Int(W::U64), assignable: false, counter: false });
        let c = Expr::Cmp(CmpOp::Lt, Box::new(Expr::Var(i.clone())), Box::new(n_e));
        out.push(Stmt::Let { name: i, ty: Ty::Int(W::U64), mutable: true, e: Expr::Lit(W::U64, Num::small(0)) });
        out.push(Stmt::While { c, body });
    }

    fn gen_decls(&mut self) {
        let ns = self.r.below(3);
        for k in 0..ns {
            let nf = self.r.range(1, 4);
            let fields = (0..nf).map(|j| (format!("f{j}"), self.gen_ty(2))).collect();
            self.structs.push(StructDecl { name: format!("S{}_{}", self.id, k), fields });
        }
        let ne = self.r.below(3);
        for k in 0..ne {
            let nv = self.r.range(1, 4);
            let variants = (0..nv).map(|j| (format!("V{j}"), if self.r.chance(1, 4) { Ty::Unit } else { self.gen_ty(2) })).collect();
            self.enums.push(EnumDecl { name: format!("E{}_{}", self.id, k), variants });
        }
        // a couple of constants: literals or revert-free operator trees over literals
        let nc = self.r.below(3);
        for k in 0..nc {
            let w = self.gen_w();
            let save = self.p_opq; self.p_opq = 0;
            let a = self.lit(w);
            let init = if self.r.chance(1, 2) { a } else {
                let op = *self.r.pick(&[BinOp::And, BinOp::Or, BinOp::Xor]);
                let b = self.lit(w);
                Expr::Bin(op, Box::new(a), Box::new(b))
            };
            self.p_opq = save;
            self.consts.push(ConstDecl { name: format!("C{}_{}", self.id.to_uppercase(), k), ty: Ty::Int(w), init });
        }
    }

    fn gen_fn(&mut self, k: usize) {
        let np = self.r.range(1, 3);
        let mut params: Vec<(String, Ty)> = (0..np).map(|j| (format!("a{j}"), self.gen_ty(2))).collect();
        if !self.aggsel {
            for j in 1..params.len() {
                let by_ref = !matches!(params[j].1, Ty::Bool) && !matches!(&params[j].1, Ty::Int(w) if *w != W::U256);
                let dup = by_ref && params[..j].iter().any(|p| p.1 == params[j].1);
                if dup { params[j].1 = self.gen_scalar(); }
            }
        }
        let ret = loop { let t = self.gen_ty(2); if t != Ty::Unit { break t; } };
        let save_vars = std::mem::take(&mut self.vars);
        let (sl, sd) = (self.in_loop, self.loop_depth);
        self.in_loop = false; self.loop_depth = 0;
        for (n, t) in &params { self.vars.push(Var { name: n.clone(), ty: t.clone(), assignable: false, counter: false }); }
        let mut stmts = vec![];
        let n = self.r.below(5);
        for _ in 0..n { self.gen_stmt(2, true, &mut stmts); }
        // optional early return
        if self.r.chance(1, 3) {
            let c = self.gen_expr(&Ty::Bool, 2);
            let v = self.gen_expr(&ret, 2);
            stmts.push(Stmt::Expr(Expr::If(Box::new(c), Block { stmts: vec![Stmt::Ret(v)], tail: None }, Block { stmts: vec![], tail: None })));
        }
        let tail = self.gen_expr(&ret, 3);
        self.vars = save_vars; self.in_loop = sl; self.loop_depth = sd;
        let d = self.decls();
        let name = format!("f{}_{}", self.id, k);
        let decl = FnDecl {
            name: name.clone(), tparams: vec![], params: params.iter().map(|(n, t)| (n.clone(), d.ty(t))).collect(), ret: d.ty(&ret),
            body: Block { stmts, tail: Some(Box::new(tail)) }, inline_never: self.r.chance(1, 3),
            sig: Some((params.iter().map(|p| p.1.clone()).collect(), ret.clone())),
        };
        self.sigs.push(FnSig { name, params: params.into_iter().map(|p| p.1).collect(), ret });
        self.fns.push(decl);
    }

    /// near-duplicate of an existing function: same body, new name, at most one literal changed
    fn gen_near_dup(&mut self, k: usize) {
        if self.fns.is_empty() { return; }
        let src = self.r.pick(&self.fns.clone()).clone();
        let mut dup = src.clone();
        dup.name = format!("f{}_{}", self.id, k);
        dup.inline_never = self.r.chance(1, 3);
        if self.r.chance(2, 3) {
            let mut n = count_lits_block(&dup.body);
            if n > 0 { let mut target = self.r.below(n as u64) as i64; let nv = Num::small(self.r.below(10)); mutate_block(&mut dup.body, &mut target, nv); n = 0; let _ = n; }
        }
        let (params, ret) = src.sig.clone().unwrap();
        self.sigs.push(FnSig { name: dup.name.clone(), params, ret });
        self.fns.push(dup);
    }
}

/// the variable an access path starts from
fn root_var(e: &Expr) -> Option<&str> {
    match e {
        Expr::Var(x) => Some(x.as_str()),
        Expr::TupGet(a, _) | Expr::FieldGet(a, _, _) | Expr::Idx(a, _) | Expr::RefDeref(a) => root_var(a),
        _ => None,
    }
}

fn count_lits_block(b: &Block) -> usize { b.stmts.iter().map(count_lits_stmt).sum::<usize>() + b.tail.as_ref().map(|e| count_lits(e)).unwrap_or(0) }
fn count_lits_stmt(s: &Stmt) -> usize {
    match s {
        Stmt::Let { e, .. } | Stmt::Ret(e) | Stmt::Expr(e) | Stmt::Log(e) | Stmt::Revert(e) | Stmt::Assert(e) => count_lits(e),
        Stmt::Assign { e, .. } => count_lits(e),
        Stmt::While { body, .. } => count_lits_block(body),
        Stmt::Require(c, v) => count_lits(c) + count_lits(v),
        Stmt::Break | Stmt::Continue => 0,
    }
}
/// literals that may be changed without leaving the fragment: operands of + - * & | ^ and comparison (not
/// indices, shift amounts, divisors, patterns)
fn count_lits(e: &Expr) -> usize {
    match e {
        Expr::Lit(..) => 1,
        Expr::Bin(op, a, b) => count_lits(a) + if matches!(op, BinOp::Div | BinOp::Mod | BinOp::Shl | BinOp::Shr) { 0 } else { count_lits(b) },
        Expr::Cmp(_, a, b) | Expr::Land(a, b) | Expr::Lor(a, b) => count_lits(a) + count_lits(b),
        Expr::Not(a) | Expr::Cast(_, a) | Expr::TupGet(a, _) | Expr::FieldGet(a, _, _) | Expr::EnumNew(_, _, a) | Expr::Opq(_, a) | Expr::RefDeref(a) => count_lits(a),
        Expr::Idx(a, _) => count_lits(a),
        Expr::Tuple(es) | Expr::StructNew(_, es) | Expr::Array(es) | Expr::Call(_, es) => es.iter().map(count_lits).sum(),
        Expr::If(c, t, f) => count_lits(c) + count_lits_block(t) + count_lits_block(f),
        Expr::Blk(b) => count_lits_block(b),
        Expr::Match(a, arms) => count_lits(a) + arms.iter().map(|(_, e)| count_lits(e)).sum::<usize>(),
        _ => 0,
    }
}
fn mutate_block(b: &mut Block, target: &mut i64, nv: Num) {
    for s in b.stmts.iter_mut() {
        match s {
            Stmt::Let { e, .. } | Stmt::Ret(e) | Stmt::Expr(e) | Stmt::Log(e) | Stmt::Revert(e) | Stmt::Assert(e) => mutate(e, target, nv),
            Stmt::Assign { e, .. } => mutate(e, target, nv),
            Stmt::While { body, .. } => mutate_block(body, target, nv),
            Stmt::Require(c, v) => { mutate(c, target, nv); mutate(v, target, nv); }
            Stmt::Break | Stmt::Continue => {}
        }
    }
    if let Some(t) = b.tail.as_mut() { mutate(t, target, nv); }
}
fn mutate(e: &mut Expr, target: &mut i64, nv: Num) {
    match e {
        Expr::Lit(_, n) => { if *target == 0 { *n = nv; } *target -= 1; }
        Expr::Bin(op, a, b) => { mutate(a, target, nv); if !matches!(op, BinOp::Div | BinOp::Mod | BinOp::Shl | BinOp::Shr) { mutate(b, target, nv); } }
        Expr::Cmp(_, a, b) | Expr::Land(a, b) | Expr::Lor(a, b) => { mutate(a, target, nv); mutate(b, target, nv); }
        Expr::Not(a) | Expr::Cast(_, a) | Expr::TupGet(a, _) | Expr::FieldGet(a, _, _) | Expr::EnumNew(_, _, a) | Expr::Opq(_, a) | Expr::RefDeref(a) => mutate(a, target, nv),
        Expr::Idx(a, _) => mutate(a, target, nv),
        Expr::Tuple(es) | Expr::StructNew(_, es) | Expr::Array(es) | Expr::Call(_, es) => for x in es.iter_mut() { mutate(x, target, nv); },
        Expr::If(c, t, f) => { mutate(c, target, nv); mutate_block(t, target, nv); mutate_block(f, target, nv); }
        Expr::Blk(b) => mutate_block(b, target, nv),
        Expr::Match(a, arms) => { mutate(a, target, nv); for (_, x) in arms.iter_mut() { mutate(x, target, nv); } }
        _ => {}
    }
}

/// Generate program number `k` of a package. `oob`: append a final read at an out-of-bounds dynamic index.
/// Stable entry point for other harness binaries (C07): an ordinary program of the plain stream.
pub fn gen_plain_program(r: &mut Rng, k: usize) -> Program { gen_program(r, k, false, false, false) }

pub fn gen_program(r: &mut Rng, k: usize, oob: bool, aggsel: bool, selfupd: bool) -> Program {
    let p_opq = *r.pick(&[0u64, 0, 25, 60, 100]);
    let widths = match r.below(6) {
        0 => vec![W::U64], 1 => vec![W::U8, W::U64], 2 => vec![W::U8, W::U16, W::U32, W::U64],
        3 => vec![W::U64, W::U256], 4 => vec![W::U16, W::U32, W::U64], _ => W::ALL.to_vec(),
    };
    let budget = r.range(6, 40) as i64;
    let mut g = Gen {
        r, id: format!("p{k}"), structs: vec![], enums: vec![], consts: vec![], fns: vec![], sigs: vec![],
        generics: BTreeSet::new(), vars: vec![], nvar: 0, in_loop: false, loop_depth: 0, p_opq, widths, budget, aggsel, selfupd,
    };
    g.gen_decls();
    let nf = g.r.below(4) as usize;
    let mut fk = 0;
    for _ in 0..nf { let b = g.budget; g.budget = 8; g.gen_fn(fk); g.budget = b; fk += 1; if g.r.chance(1, 3) { g.gen_near_dup(fk); fk += 1; } }
    // main
    let mut stmts = vec![];
    // constants become visible as immutable "variables" through ConstRef lets (keeps the AST small)
    for c in g.consts.clone() {
        let name = g.fresh("v");
        g.vars.push(Var { name: name.clone(), ty: c.ty.clone(), assignable: false, counter: false });
        stmts.push(Stmt::Let { name, ty: c.ty.clone(), mutable: false, e: Expr::ConstRef(c.name.clone(), Box::new(c.init.clone())) });
    }
    let n = g.r.range(3, 14);
    for _ in 0..n { g.gen_stmt(3, true, &mut stmts); }
    // observe the final state
    for v in g.visible().into_iter().rev() { if v.ty != Ty::Unit { stmts.push(Stmt::Log(Expr::Var(v.name))); } }
    if oob {
        let et = g.gen_scalar();
        let len = g.r.range(1, 4) as usize;
        let at = Ty::Array(Box::new(et.clone()), len);
        let save = g.p_opq; g.p_opq = 0;
        let init = g.gen_value(&at);
        g.p_opq = save;
        let name = g.fresh("oob");
        stmts.push(Stmt::Let { name: name.clone(), ty: at, mutable: false, e: init });
        let ix = len as u64 + match g.r.below(4) { 0 => 0, 1 => 1, 2 => g.r.below(8), _ => g.r.below(1000) };
        let iname = g.fresh("oobi");
        stmts.push(Stmt::Let { name: iname.clone(), ty: Ty::Int(W::U64), mutable: false, e: Expr::Opq(Ty::Int(W::U64), Box::new(Expr::Lit(W::U64, Num::small(ix)))) });
        stmts.push(Stmt::Log(Expr::Idx(Box::new(Expr::Var(name)), Box::new(Expr::Var(iname)))));
    }
    Program { id: g.id, structs: g.structs, enums: g.enums, consts: g.consts, fns: g.fns, main: Block { stmts, tail: None }, generics: g.generics, oob, aggsel }
}

// ------------------------------------------------------------------------------------------ near-duplicate families

fn l64(n: u64) -> Expr { Expr::Lit(W::U64, Num::small(n)) }
fn var(x: &str) -> Expr { Expr::Var(x.to_string()) }
fn bin(op: BinOp, a: Expr, b: Expr) -> Expr { Expr::Bin(op, Box::new(a), Box::new(b)) }
fn opq64(n: u64) -> Expr { Expr::Opq(Ty::Int(W::U64), Box::new(l64(n))) }
fn tail_block(e: Expr) -> Block { Block { stmts: vec![], tail: Some(Box::new(e)) } }
fn let_u64(name: &str, e: Expr) -> Stmt { Stmt::Let { name: name.into(), ty: Ty::Int(W::U64), mutable: false, e } }

/// common prefix that makes a body "big" (> 12 IR instructions) and uses the run-time argument `z`
fn padding() -> Vec<Stmt> {
    vec![
        let_u64("q0", bin(BinOp::Add, var("z"), l64(1))),
        let_u64("q1", bin(BinOp::Xor, var("q0"), l64(5))),
        let_u64("q2", bin(BinOp::Mod, bin(BinOp::Mul, var("q1"), l64(3)), l64(1000))),
        let_u64("q3", bin(BinOp::Or, var("q2"), bin(BinOp::And, var("q0"), l64(7)))),
        let_u64("q4", bin(BinOp::Add, bin(BinOp::Shr, var("q3"), l64(1)), bin(BinOp::And, var("q1"), l64(3)))),
        Stmt::Log(var("q4")),
    ]
}

fn big_num(r: &mut Rng) -> Num { Num([r.next() | (1 << 63), r.next(), r.next(), r.next()]) }

/// A program made of 2-3 *near-duplicate families*: 2-3 non-inlined helper functions each (`#[inline(never)]`, or a big
/// body with two call sites) that are textually identical except for exactly ONE literal / operator / index / tag /
/// constant. Every member takes run-time arguments that it uses; the test calls every member twice with opaque
/// arguments and logs every result. Stresses function deduplication and constant demotion.
pub fn gen_neardup_program(r: &mut Rng, k: usize) -> Program {
    let id = format!("p{k}");
    let mut structs: Vec<StructDecl> = vec![];
    let mut enums: Vec<EnumDecl> = vec![];
    let mut fns: Vec<FnDecl> = vec![];
    let mut main: Vec<Stmt> = vec![];
    let nfam = r.range(2, 3) as usize;
    let mut used: Vec<u64> = vec![];
    for fi in 0..nfam {
        let mut tpl = r.below(14);
        while used.contains(&tpl) { tpl = r.below(14); }
        used.push(tpl);
        let mut members = r.range(2, 3) as usize;
        // 0: #[inline(never)], small body; 1: #[inline(never)] + padding; 2: no attribute, padding, two call sites
        let mode = r.below(3);
        let ty_s = |s: &str| s.to_string();
        // per template: extra params (after `z: u64`), return type, body tail per member, two argument sets
        let mut params: Vec<(String, String)> = vec![("z".into(), "u64".into())];
        let ret: String;
        let mut tails: Vec<Expr> = vec![];
        let args_a: Vec<Expr>;
        let args_b: Vec<Expr>;
        let opq_bool = |b: bool| Expr::Opq(Ty::Bool, Box::new(Expr::Bool(b)));
        match tpl {
            0 | 1 => {
                // one large b256 / u256 constant
                let is_b = tpl == 0;
                let tn = if is_b { "b256" } else { "u256" };
                // (returning the by-value PARAMETER in one branch -- `if c { fb } else { CONST }` -- is the shape of
                // finding F4: release returns CONST; the family selects between two constants instead)
                params.push(("c".into(), ty_s("bool")));
                ret = ty_s(tn);
                let common = big_num(r);
                let mk = |n: Num| if is_b { Expr::LitB256(n) } else { Expr::Lit(W::U256, n) };
                for _ in 0..members {
                    let n = big_num(r);
                    let cond = Expr::Land(Box::new(var("c")), Box::new(Expr::Cmp(CmpOp::Gt, Box::new(var("z")), Box::new(l64(0)))));
                    tails.push(Expr::If(Box::new(cond), tail_block(mk(common)), tail_block(mk(n))));
                }
                args_a = vec![opq_bool(false)];
                args_b = vec![opq_bool(true)];
            }
            2 | 3 | 4 => {
                // one component of an aggregate constant
                let sidx = structs.len();
                if tpl == 4 { structs.push(StructDecl { name: format!("S{id}_{fi}"), fields: vec![("f0".into(), Ty::Int(W::U64)), ("f1".into(), Ty::Int(W::U64)), ("f2".into(), Ty::Int(W::U64))] }); }
                params.push(("x".into(), ty_s("u64"))); params.push(("c".into(), ty_s("bool")));
                ret = match tpl { 2 => ty_s("(u64, u64, u64)"), 3 => ty_s("[u64; 3]"), _ => format!("S{id}_{fi}") };
                let mk = |es: Vec<Expr>| match tpl { 2 => Expr::Tuple(es), 3 => Expr::Array(es), _ => Expr::StructNew(sidx, es) };
                let pos = r.below(3) as usize;
                let base = [r.below(1 << 40), r.below(1 << 40), r.below(1 << 40)];
                for m in 0..members {
                    let mut c = base; c[pos] = base[pos].wrapping_add(1 + m as u64 * 17);
                    tails.push(Expr::If(Box::new(var("c")), tail_block(mk(vec![var("x"), var("x"), var("z")])), tail_block(mk(c.iter().map(|v| l64(*v)).collect()))));
                }
                args_a = vec![opq64(4), opq_bool(false)];
                args_b = vec![opq64(5), opq_bool(true)];
            }
            5 => {
                params.push(("x".into(), ty_s("u64")));
                ret = ty_s("u64");
                let base = r.below(1 << 30);
                for m in 0..members { tails.push(bin(BinOp::Add, bin(BinOp::Mul, var("x"), l64(3)), l64(base + 1 + m as u64))); }
                args_a = vec![opq64(2)]; args_b = vec![opq64(9)];
            }
            6 => {
                let w = *r.pick(&[W::U8, W::U16, W::U32]);
                params.push(("x".into(), ty_s(w.name())));
                ret = ty_s(w.name());
                let base = r.below(50);
                for m in 0..members { tails.push(bin(BinOp::Add, bin(BinOp::And, var("x"), Expr::Lit(w, Num::small(15))), Expr::Lit(w, Num::small(base + 1 + m as u64)))); }
                let a = |n: u64| Expr::Opq(Ty::Int(w), Box::new(Expr::Lit(w, Num::small(n))));
                args_a = vec![a(3)]; args_b = vec![a(200)];
            }
            7 => {
                members = 2;
                params.push(("x".into(), ty_s("u64"))); params.push(("c".into(), ty_s("bool")));
                ret = ty_s("bool");
                for m in 0..members {
                    tails.push(Expr::Land(Box::new(Expr::Cmp(CmpOp::Gt, Box::new(var("x")), Box::new(l64(3)))), Box::new(Expr::Lor(Box::new(var("c")), Box::new(Expr::Bool(m == 0))))));
                }
                args_a = vec![opq64(5), opq_bool(false)]; args_b = vec![opq64(2), opq_bool(true)];
            }
            8 => {
                params.push(("x".into(), ty_s("u64"))); params.push(("y".into(), ty_s("u64")));
                ret = ty_s("u64");
                for m in 0..members { tails.push(bin([BinOp::Add, BinOp::Sub, BinOp::Mul][m], var("x"), var("y"))); }
                args_a = vec![opq64(9), opq64(4)]; args_b = vec![opq64(7), opq64(7)];
            }
            9 => {
                params.push(("t".into(), ty_s("(u64, u64, u64)"))); params.push(("x".into(), ty_s("u64")));
                ret = ty_s("u64");
                for m in 0..members { tails.push(bin(BinOp::Add, Expr::TupGet(Box::new(var("t")), m), var("x"))); }
                let t = |a: u64| Expr::Tuple(vec![opq64(a), opq64(a + 10), opq64(a + 20)]);
                args_a = vec![t(1), opq64(100)]; args_b = vec![t(2), opq64(200)];
            }
            10 => {
                params.push(("a".into(), ty_s("[u64; 3]"))); params.push(("x".into(), ty_s("u64")));
                ret = ty_s("u64");
                for m in 0..members { tails.push(bin(BinOp::Add, Expr::Idx(Box::new(var("a")), Box::new(l64(m as u64))), var("x"))); }
                let t = |a: u64| Expr::Array(vec![opq64(a), opq64(a + 10), opq64(a + 20)]);
                args_a = vec![t(1), opq64(100)]; args_b = vec![t(2), opq64(200)];
            }
            11 => {
                params.push(("x".into(), ty_s("u64"))); params.push(("y".into(), ty_s("u64")));
                ret = ty_s("bool");
                for m in 0..members { tails.push(Expr::Cmp([CmpOp::Lt, CmpOp::Le, CmpOp::Eq][m], Box::new(var("x")), Box::new(var("y")))); }
                args_a = vec![opq64(4), opq64(4)]; args_b = vec![opq64(3), opq64(4)];
            }
            12 => {
                let eidx = enums.len();
                enums.push(EnumDecl { name: format!("E{id}_{fi}"), variants: vec![("V0".into(), Ty::Int(W::U64)), ("V1".into(), Ty::Int(W::U64)), ("V2".into(), Ty::Int(W::U64))] });
                params.push(("x".into(), ty_s("u64")));
                ret = format!("E{id}_{fi}");
                for m in 0..members { tails.push(Expr::EnumNew(eidx, m, Box::new(bin(BinOp::Add, var("x"), var("z"))))); }
                args_a = vec![opq64(4)]; args_b = vec![opq64(5)];
            }
            _ => {
                params.push(("x".into(), ty_s("u64")));
                ret = ty_s("u64");
                let base = r.below(1 << 30);
                for m in 0..members {
                    tails.push(Expr::Match(Box::new(var("x")), vec![
                        (Pat::Int(W::U64, Num::small(1)), l64(base + 1 + m as u64)),
                        (Pat::Wild, bin(BinOp::Add, var("x"), var("z"))),
                    ]));
                }
                args_a = vec![opq64(1)]; args_b = vec![opq64(2)];
            }
        }
        let names: Vec<String> = (0..members).map(|m| format!("f{id}_{fi}_{m}")).collect();
        for (m, tail) in tails.into_iter().enumerate() {
            let stmts = if mode == 0 { vec![] } else { padding() };
            fns.push(FnDecl { name: names[m].clone(), tparams: vec![], params: params.clone(), ret: ret.clone(),
                body: Block { stmts, tail: Some(Box::new(tail)) }, inline_never: mode != 2, sig: None });
        }
        for (ai, args) in [args_a, args_b].into_iter().enumerate() {
            for n in &names {
                let mut a = vec![opq64(10 + ai as u64 + fi as u64)];
                a.extend(args.clone());
                main.push(Stmt::Log(Expr::Call(n.clone(), a)));
            }
        }
    }
    Program { id, structs, enums, consts: vec![], fns, main: Block { stmts: main, tail: None }, generics: BTreeSet::new(), oob: false, aggsel: false }
}
