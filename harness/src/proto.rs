//! Line-protocol helpers shared by the harness binaries.
use std::panic::{catch_unwind, AssertUnwindSafe};

/// Code points: `-` for empty, else hex scalars joined by `,`.
pub fn cps(s: &str) -> String {
    if s.is_empty() { return "-".into(); }
    s.chars().map(|c| format!("{:x}", c as u32)).collect::<Vec<_>>().join(",")
}
pub fn hexbytes(b: &[u8]) -> String {
    if b.is_empty() { return "-".into(); }
    hex::encode(b)
}
/// Run `f`, mapping a panic to `None`. The default panic hook is silenced by `quiet_panics`.
pub fn guarded<T>(f: impl FnOnce() -> T) -> Option<T> {
    catch_unwind(AssertUnwindSafe(f)).ok()
}
pub fn quiet_panics() {
    std::panic::set_hook(Box::new(|_| {}));
}
/// Arguments: `--out <file>` `--n <cases>` `--corpus <file>`; seed from VERIF_SEED.
pub struct Args { pub out: String, pub n: usize, pub corpus: Option<String>, pub extra: Vec<String> }
pub fn args() -> Args {
    let mut a = Args { out: "cases.txt".into(), n: 1000, corpus: None, extra: vec![] };
    let v: Vec<String> = std::env::args().skip(1).collect();
    let mut i = 0;
    while i < v.len() {
        match v[i].as_str() {
            "--out" => { a.out = v[i + 1].clone(); i += 2; }
            "--n" => { a.n = v[i + 1].parse().unwrap(); i += 2; }
            "--corpus" => { a.corpus = Some(v[i + 1].clone()); i += 2; }
            _ => { a.extra.push(v[i].clone()); i += 1; }
        }
    }
    a
}
