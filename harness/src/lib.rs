//! Shared helpers for the verification harness binaries.
pub mod rng;
pub mod proto;
pub mod swayrun;
pub mod ircorpus;
pub mod proggen;
pub mod tygen;
