//! Build a Sway package with the REAL forc-pkg/sway-core and run its `#[test]` functions on the
//! REAL FuelVM through forc-test, in-process and offline.
use anyhow::Result;
use forc_test::{GasCostsSource, TestGasLimit, TestOpts, TestRunnerCount, Tested};
use fuel_tx::Receipt;
use std::path::{Path, PathBuf};

pub const STD_PATH: &str = "/repo/sway-lib-std";

#[derive(Debug, Clone)]
pub enum Log {
    /// LOG receipt: ra (value), rb (log id)
    Word { val: u64, id: u64 },
    /// LOGD receipt: rb (log id), data
    Data { id: u64, data: Vec<u8> },
}

#[derive(Debug, Clone)]
pub struct TestOutcome {
    pub name: String,
    /// `return`, `returndata`, `revert:<code>`, `vmerr`
    pub state: String,
    pub passed: bool,
    pub logs: Vec<Log>,
    /// PanicReason if a Panic receipt was emitted
    pub panic: Option<String>,
}

pub fn write_pkg(dir: &Path, name: &str, kind_src: &str, with_std: bool, extra_toml: &str) -> Result<()> {
    std::fs::create_dir_all(dir.join("src"))?;
    let deps = if with_std {
        format!("implicit-std = false\n{extra_toml}\n[dependencies]\nstd = {{ path = \"{STD_PATH}\" }}\n")
    } else {
        format!("implicit-std = false\n{extra_toml}\n")
    };
    std::fs::write(
        dir.join("Forc.toml"),
        format!("[project]\nauthors = [\"verif\"]\nentry = \"main.sw\"\nlicense = \"Apache-2.0\"\nname = \"{name}\"\n{deps}"),
    )?;
    std::fs::write(dir.join("src/main.sw"), kind_src)?;
    Ok(())
}

pub fn test_opts(dir: &Path, release: bool) -> TestOpts {
    let mut opts = TestOpts::default();
    opts.pkg.path = Some(dir.to_string_lossy().to_string());
    opts.pkg.offline = true;
    opts.pkg.terse = true;
    opts.pkg.locked = false;
    opts.release = release;
    opts.no_output = true;
    opts
}

fn state_str(s: &fuel_vm::state::ProgramState) -> String {
    use fuel_vm::state::ProgramState::*;
    match s {
        Return(_) => "return".into(),
        ReturnData(_) => "returndata".into(),
        Revert(c) => format!("revert:{c}"),
        _ => "other".into(),
    }
}

/// Build the package at `dir` and run every `#[test]`. Errors (compile errors) are returned as Err.
pub fn build_and_test(dir: &Path, release: bool) -> Result<(Vec<TestOutcome>, Box<forc_pkg::BuiltPackage>)> {
    let built = forc_test::build(test_opts(dir, release))?;
    let tested = built.run(
        TestRunnerCount::Manual(1),
        None,
        GasCostsSource::BuiltIn.provide_gas_costs()?,
        TestGasLimit::default(),
    )?;
    let p = match tested {
        Tested::Package(p) => *p,
        Tested::Workspace(mut v) => v.remove(0),
    };
    let mut out = vec![];
    for t in &p.tests {
        let mut logs = vec![];
        let mut panic = None;
        for r in &t.logs {
            match r {
                Receipt::Log { ra, rb, .. } => logs.push(Log::Word { val: *ra, id: *rb }),
                Receipt::LogData { rb, data, .. } => logs.push(Log::Data { id: *rb, data: data.clone().map(|d| d.to_vec()).unwrap_or_default() }),
                Receipt::Panic { reason, .. } => panic = Some(format!("{:?}", reason.reason())),
                _ => {}
            }
        }
        out.push(TestOutcome { name: t.name.clone(), state: state_str(&t.state), passed: t.passed(), logs, panic });
    }
    Ok((out, p.built))
}

pub fn scratch_dir(tag: &str) -> PathBuf {
    let base = std::env::var("VERIF_SCRATCH").unwrap_or_else(|_| "/verif/work/scratch".into());
    let p = PathBuf::from(base).join(format!("{tag}-{}", std::process::id()));
    let _ = std::fs::remove_dir_all(&p);
    std::fs::create_dir_all(&p).unwrap();
    p
}
