//! Shared IR corpus for the IR-level properties (C03, C04, C05).
//!
//! Three sources of `sway_ir::Context`s / IR text, all produced by the REAL code in /repo:
//!
//! 1. `ir_test_files()`        — every `sway-ir/tests/**/*.ir` (hand-written text IR, old encoding).
//! 2. `Frontend::compile_dir`  — type-check a Forc package (and its dependencies) with the real
//!                               `forc_pkg::check` + `sway_core::ir_generation::compile_program`
//!                               ⇒ the *initial* IR exactly as `compile_ast_to_ir_to_asm` builds it.
//! 3. `pipeline(opt)` + `Stager` — the pass list of `compile_ast_to_ir_to_asm` for an optimisation
//!                               level, run ONE PASS AT A TIME through the real `PassManager`
//!                               (`run_staged` calls a closure after every pass ⇒ IR at every stage).
//!
//! Sway sources: `gen_program` (small seed-generated packages) and `sample_e2e` (seed-chosen
//! should_pass e2e programs that depend only on `std`, copied to a scratch dir with the `std` path
//! rewritten to /repo/sway-lib-std so nothing is written into /repo).
//!
//! `to_bytecode` runs the real backend (`compile_ir_context_to_finalized_asm` + `asm_to_bytecode`).
//!
//! The pass list in `pipeline` is a transliteration of `compile_ast_to_ir_to_asm` (that function is
//! `pub(crate)` and builds the list inline); `pipeline_matches_compiler` ties it to the real
//! compiler by comparing final bytecode with `sway_core::ast_to_asm`.
use crate::rng::Rng;
use std::path::{Path, PathBuf};
use std::sync::mpsc;
use std::time::Duration;
use sway_core::{BuildConfig, BuildTarget, Engines, OptLevel};
use sway_features::{ExperimentalFeatures, Feature};
use sway_ir::{Context, PassGroup, PassManager};

pub const REPO: &str = "/repo";
pub const STD_PATH: &str = "/repo/sway-lib-std";

// ------------------------------------------------------------------------------------------------
// 1. text corpus

#[derive(Clone, Debug)]
pub struct IrText {
    /// e.g. `tests/dce/dce1.ir`
    pub id: String,
    pub text: String,
}

fn walk(dir: &Path, ext: &str, out: &mut Vec<PathBuf>) {
    let Ok(rd) = std::fs::read_dir(dir) else { return };
    let mut es: Vec<PathBuf> = rd.filter_map(|e| e.ok()).map(|e| e.path()).collect();
    es.sort();
    for p in es {
        if p.is_dir() {
            walk(&p, ext, out);
        } else if p.extension().and_then(|e| e.to_str()) == Some(ext) {
            out.push(p);
        }
    }
}

/// All `sway-ir/tests/**/*.ir`, sorted by path. These are parsed by the sway-ir test-suite with
/// `new_encoding: false` (see `OLD_ENCODING`).
pub fn ir_test_files() -> Vec<IrText> {
    let root = PathBuf::from(REPO).join("sway-ir");
    let mut ps = vec![];
    walk(&root.join("tests"), "ir", &mut ps);
    ps.into_iter()
        .filter_map(|p| {
            let text = String::from_utf8_lossy(&std::fs::read(&p).ok()?).to_string();
            Some(IrText { id: p.strip_prefix(&root).unwrap().to_string_lossy().to_string(), text })
        })
        .collect()
}

/// The experimental-feature set the sway-ir test-suite parses its `.ir` files with.
pub fn old_encoding() -> ExperimentalFeatures {
    ExperimentalFeatures { new_encoding: false, ..Default::default() }
}

// ------------------------------------------------------------------------------------------------
// 2. front end: Sway package -> initial IR

#[derive(Clone, Copy, Debug, PartialEq, Eq)]
pub struct FrontOpts {
    /// compile `#[test]` functions into the module (what `forc test` does)
    pub include_tests: bool,
    /// `false` = `--no-experimental new_encoding`
    pub new_encoding: bool,
    /// `true` = release profile (OptLevel::Opt1, Backtrace::OnlyAlways), `false` = debug profile
    pub release: bool,
    /// also IR-gen the dependencies (e.g. `std` itself ⇒ a `library` module), not only the last package
    pub all_pkgs: bool,
}
impl Default for FrontOpts {
    fn default() -> Self { FrontOpts { include_tests: false, new_encoding: true, release: false, all_pkgs: false } }
}

/// Initial IR of one package.
pub struct PkgIr<'e> {
    pub pkg: String,
    /// `script` | `predicate` | `contract` | `library`
    pub kind: &'static str,
    pub ctx: Context<'e>,
    pub build_config: BuildConfig,
    pub experimental: ExperimentalFeatures,
}

/// Owns the compiler's `Engines`. Reusing one `Frontend` for many packages lets the query engine
/// reuse the type-checked `std` (≈ 6 s the first time, ≈ 0 afterwards). Not `Sync`: one per thread.
///
/// IMPORTANT: the query engine's program cache is keyed by path and `include_tests` only — it ignores the
/// experimental flags. A `Frontend` is therefore pinned to the first `(new_encoding, include_tests)` it is
/// used with (`compile_dir` returns `Err` for any other combination); use `FrontendPool` to get one per
/// combination. (`release` only influences IR generation and the pass list, not the typed program.)
pub struct Frontend {
    pub engines: Engines,
    pinned: std::cell::Cell<Option<(bool, bool)>>,
}

/// Lazily created, leaked (`'static`) `Frontend` per `(new_encoding, include_tests)`.
#[derive(Default)]
pub struct FrontendPool {
    map: std::collections::HashMap<(bool, bool), &'static Frontend>,
}
impl FrontendPool {
    pub fn get(&mut self, o: &FrontOpts) -> &'static Frontend {
        self.map.entry((o.new_encoding, o.include_tests)).or_insert_with(|| Box::leak(Box::new(Frontend::new())))
    }
}

impl Default for Frontend {
    fn default() -> Self { Self::new() }
}

pub fn kind_str(k: sway_ir::Kind) -> &'static str {
    match k {
        sway_ir::Kind::Contract => "contract",
        sway_ir::Kind::Library => "library",
        sway_ir::Kind::Predicate => "predicate",
        sway_ir::Kind::Script => "script",
    }
}

impl Frontend {
    pub fn new() -> Self { Frontend { engines: Engines::default(), pinned: Default::default() } }

    /// Type-check the package in `dir` (must contain Forc.toml; a Forc.lock is written there) and
    /// generate the initial IR. `Err` = the program does not compile (message shortened) — not a
    /// finding of any IR property. Panics inside the front end are caught and returned as `Err("panic…")`.
    pub fn compile_dir<'e>(&'e self, dir: &Path, o: &FrontOpts) -> Result<Vec<PkgIr<'e>>, String> {
        match self.pinned.get() {
            None => self.pinned.set(Some((o.new_encoding, o.include_tests))),
            Some(p) if p == (o.new_encoding, o.include_tests) => {}
            Some(_) => return Err("frontend pinned to another (new_encoding, include_tests)".into()),
        }
        let r = std::panic::catch_unwind(std::panic::AssertUnwindSafe(|| self.compile_dir_inner(dir, o)));
        match r {
            Ok(r) => r,
            Err(_) => Err(format!("panic in front end: {}", last_panic())),
        }
    }

    fn compile_dir_inner<'e>(&'e self, dir: &Path, o: &FrontOpts) -> Result<Vec<PkgIr<'e>>, String> {
        use forc_pkg::manifest::{GenericManifestFile, ManifestFile};
        let manifest = ManifestFile::from_dir(dir).map_err(|e| format!("manifest: {e}"))?;
        let members = manifest.member_manifests().map_err(|e| format!("members: {e}"))?;
        let lock_path = manifest.lock_path().map_err(|e| format!("lock: {e}"))?;
        let plan = forc_pkg::BuildPlan::from_lock_and_manifests(
            &lock_path, &members, false, true, &forc_pkg::source::IPFSNode::default(),
        )
        .map_err(|e| format!("plan: {e}"))?;
        let no_exp: Vec<Feature> = if o.new_encoding { vec![] } else { vec![Feature::NewEncoding] };
        let results = forc_pkg::check(
            &plan, BuildTarget::Fuel, true, None, o.include_tests, &self.engines, None, &[], &no_exp,
            sway_core::DbgGeneration::None,
        )
        .map_err(|e| format!("check: {e}"))?;
        let order: Vec<_> = plan.compilation_order().to_vec();
        if results.len() != order.len() {
            return Err("compile error in a dependency".into());
        }
        let profile = if o.release { forc_pkg::BuildProfile::release() } else { forc_pkg::BuildProfile::debug() };
        let mut out = vec![];
        let n = order.len();
        for (i, ((programs, handler), node)) in results.into_iter().zip(order).enumerate() {
            if !o.all_pkgs && i + 1 != n {
                continue;
            }
            let pkg = &plan.graph()[node];
            let m = &plan.manifest_map()[&pkg.id()];
            let first_err = |h: &sway_error::handler::Handler| {
                let (es, _, _) = h.clone().consume();
                es.first().map(|e| { use sway_types::Spanned; let sp = e.span(); let l = sp.start_line_col_one_index().line; format!("{e} @line {l} `{}`", sp.as_str().chars().take(40).collect::<String>()).replace('\n', " ") }).unwrap_or_default()
            };
            if handler.has_errors() {
                return Err(format!("compile error in {}: {}", pkg.name, first_err(&handler)));
            }
            let Some(programs) = programs else { return Err(format!("compile error in {}", pkg.name)) };
            let Ok(typed) = programs.typed.as_ref() else { return Err(format!("type error in {}", pkg.name)) };
            let experimental = ExperimentalFeatures::new(&m.project.experimental, &[], &no_exp).map_err(|e| format!("{e}"))?;
            let build_config = forc_pkg::sway_build_config(m.dir(), &m.entry_path(), BuildTarget::Fuel, &profile, sway_core::DbgGeneration::None)
                .map_err(|e| format!("build config: {e}"))?
                .with_include_tests(o.include_tests);
            // `compile_program` ties the lifetime of the occurrence maps to the Context: leak them (tiny).
            let po: &'e mut sway_core::PanicOccurrences = Box::leak(Box::default());
            let pco: &'e mut sway_core::PanickingCallOccurrences = Box::leak(Box::default());
            let ctx = sway_core::ir_generation::compile_program(
                typed, po, pco, o.include_tests, &self.engines, experimental, profile.backtrace.into(),
            )
            .map_err(|es| format!("irgen: {}", es.iter().map(|e| format!("{e}")).collect::<Vec<_>>().join("; ")))?;
            let kind = ctx.module_iter().next().map(|m| kind_str(m.get_kind(&ctx))).unwrap_or("none");
            out.push(PkgIr { pkg: pkg.name.clone(), kind, ctx, build_config, experimental });
        }
        Ok(out)
    }

    /// Final bytecode of the REAL pipeline (`sway_core::ast_to_asm`) for the last package of `dir`,
    /// used to tie `pipeline()` to the compiler.
    pub fn real_bytecode(&self, dir: &Path, o: &FrontOpts) -> Result<Vec<u8>, String> {
        use forc_pkg::manifest::{GenericManifestFile, ManifestFile};
        let manifest = ManifestFile::from_dir(dir).map_err(|e| format!("manifest: {e}"))?;
        let members = manifest.member_manifests().map_err(|e| format!("members: {e}"))?;
        let lock_path = manifest.lock_path().map_err(|e| format!("lock: {e}"))?;
        let plan = forc_pkg::BuildPlan::from_lock_and_manifests(&lock_path, &members, false, true, &forc_pkg::source::IPFSNode::default())
            .map_err(|e| format!("plan: {e}"))?;
        let no_exp: Vec<Feature> = if o.new_encoding { vec![] } else { vec![Feature::NewEncoding] };
        let mut results = forc_pkg::check(&plan, BuildTarget::Fuel, true, None, o.include_tests, &self.engines, None, &[], &no_exp, sway_core::DbgGeneration::None)
            .map_err(|e| format!("check: {e}"))?;
        let node = *plan.compilation_order().last().unwrap();
        let pkg = &plan.graph()[node];
        let m = &plan.manifest_map()[&pkg.id()];
        let (programs, _h) = results.pop().ok_or("no result")?;
        let programs = programs.ok_or("compile error")?;
        let experimental = ExperimentalFeatures::new(&m.project.experimental, &[], &no_exp).map_err(|e| format!("{e}"))?;
        let profile = if o.release { forc_pkg::BuildProfile::release() } else { forc_pkg::BuildProfile::debug() };
        let bc = forc_pkg::sway_build_config(m.dir(), &m.entry_path(), BuildTarget::Fuel, &profile, sway_core::DbgGeneration::None)
            .map_err(|e| format!("{e}"))?
            .with_include_tests(o.include_tests);
        let handler = sway_error::handler::Handler::default();
        let mut asm = sway_core::ast_to_asm(&handler, &self.engines, &programs, &bc, experimental).map_err(|_| "ast_to_asm error".to_string())?;
        let mut sm = sway_core::source_map::SourceMap::new();
        let b = sway_core::asm_to_bytecode(&handler, &mut asm, &mut sm, self.engines.se(), &bc).map_err(|_| "bytecode error".to_string())?;
        Ok(b.bytecode)
    }
}

// ------------------------------------------------------------------------------------------------
// 3. pipeline, one pass at a time

/// The flattened pass list `compile_ast_to_ir_to_asm` runs for `BuildTarget::Fuel` (sway-core/src/lib.rs).
/// The PassManager runs this list `Options::rounds` (= 2) times, stopping after a round that modified nothing.
pub fn pipeline(opt: OptLevel) -> Vec<&'static str> {
    use sway_ir::*;
    let mut v: Vec<&'static str> = vec![INIT_AGGR_LOWERING_NAME];
    match opt {
        OptLevel::Opt1 => v.extend(o1_group()),
        OptLevel::Opt0 => v.extend([FN_DEDUP_DEBUG_PROFILE_NAME, FN_INLINE_NAME, GLOBALS_DCE_NAME, DCE_NAME]),
    }
    v.extend([
        CONST_DEMOTION_NAME, ARG_DEMOTION_NAME, RET_DEMOTION_NAME, MISC_DEMOTION_NAME,
        ARG_POINTEE_MUTABILITY_TAGGER_NAME, MEMCPYOPT_NAME, DCE_NAME, SIMPLIFY_CFG_NAME,
    ]);
    if opt == OptLevel::Opt1 {
        v.extend([MEMCPYPROP_REVERSE_NAME, SROA_NAME, MEM2REG_NAME, DCE_NAME]);
    }
    v
}

/// `sway_ir::create_o1_pass_group()` flattened (its `flatten_pass_group` is private).
pub fn o1_group() -> Vec<&'static str> {
    use sway_ir::*;
    vec![
        MEM2REG_NAME, FN_DEDUP_RELEASE_PROFILE_NAME, FN_INLINE_NAME, ARG_POINTEE_MUTABILITY_TAGGER_NAME,
        SIMPLIFY_CFG_NAME, GLOBALS_DCE_NAME, DCE_NAME, FN_INLINE_NAME, ARG_POINTEE_MUTABILITY_TAGGER_NAME,
        CCP_NAME, CONST_FOLDING_NAME, SIMPLIFY_CFG_NAME, CSE_NAME, CONST_FOLDING_NAME, SIMPLIFY_CFG_NAME,
        GLOBALS_DCE_NAME, DCE_NAME, FN_DEDUP_RELEASE_PROFILE_NAME,
    ]
}

/// Names of every TRANSFORM pass `register_known_passes` registers (analyses are scheduled by the
/// PassManager through `deps`; `module-printer`/`module-verifier` are analyses too).
pub fn all_transform_passes() -> Vec<&'static str> {
    use sway_ir::*;
    let mut pm = PassManager::default();
    register_known_passes(&mut pm);
    let names = [
        INIT_AGGR_LOWERING_NAME, ARG_POINTEE_MUTABILITY_TAGGER_NAME, FN_DEDUP_RELEASE_PROFILE_NAME,
        FN_DEDUP_DEBUG_PROFILE_NAME, MEM2REG_NAME, SROA_NAME, FN_INLINE_NAME, CONST_FOLDING_NAME, CCP_NAME,
        SIMPLIFY_CFG_NAME, GLOBALS_DCE_NAME, DCE_NAME, CSE_NAME, ARG_DEMOTION_NAME, CONST_DEMOTION_NAME,
        RET_DEMOTION_NAME, MISC_DEMOTION_NAME, MEMCPYOPT_NAME, MEMCPYPROP_REVERSE_NAME,
    ];
    names.into_iter().filter(|n| pm.lookup_registered_pass(n).map(|p| p.is_transform()).unwrap_or(false)).collect()
}

#[derive(Clone, Debug, PartialEq, Eq)]
pub enum PassOutcome {
    /// pass ran, verifier (incl. SSA dominance if `ctx.verify_ssa_dominance`) accepted the result
    Ok { modified: bool },
    /// the pass itself returned `Err` and the IR still verifies (pass refused its input)
    PassErr(String),
    /// the IR no longer verifies after the pass
    VerifyFail(String),
    /// the pass (or the verifier) panicked
    Panic(String),
}

/// Runs single passes through one real `PassManager` (so analysis caching/invalidation is the real one).
pub struct Stager {
    pub pm: PassManager,
}
impl Default for Stager {
    fn default() -> Self { Self::new() }
}
thread_local! {
    static LAST_PANIC: std::cell::RefCell<String> = const { std::cell::RefCell::new(String::new()) };
}
/// Install a panic hook that records the message (first line + location) instead of printing it.
pub fn record_panics() {
    std::panic::set_hook(Box::new(|info| {
        let msg = if let Some(s) = info.payload().downcast_ref::<&str>() { s.to_string() }
                  else if let Some(s) = info.payload().downcast_ref::<String>() { s.clone() } else { "?".into() };
        let loc = info.location().map(|l| format!("{}:{}", l.file().rsplit('/').next().unwrap_or(""), l.line())).unwrap_or_default();
        let first = msg.lines().next().unwrap_or("").to_string();
        LAST_PANIC.with(|p| *p.borrow_mut() = format!("{loc} {first}"));
    }));
}
pub fn last_panic() -> String { LAST_PANIC.with(|p| p.borrow().clone()) }

impl Stager {
    pub fn new() -> Self {
        let mut pm = PassManager::default();
        sway_ir::register_known_passes(&mut pm);
        Stager { pm }
    }
    /// `PassManager::run` with a one-pass group and `rounds = 1`: verify, run pass (+ its analysis
    /// deps), verify. Panics are caught.
    pub fn run_pass(&mut self, ctx: &mut Context, pass: &'static str) -> PassOutcome {
        let mut g = PassGroup::default();
        g.append_pass(pass);
        let opts = sway_ir::Options { rounds: 1, ..Default::default() };
        let pm = &mut self.pm;
        let r = std::panic::catch_unwind(std::panic::AssertUnwindSafe(|| pm.run(ctx, &g, &opts)));
        match r {
            Err(_) => PassOutcome::Panic(last_panic()),
            Ok(Ok(modified)) => PassOutcome::Ok { modified },
            Ok(Err(e)) => {
                let v = std::panic::catch_unwind(std::panic::AssertUnwindSafe(|| ctx.verify()));
                match v {
                    Err(_) => PassOutcome::Panic(format!("verifier: {}", last_panic())),
                    Ok(Ok(())) => PassOutcome::PassErr(e.to_string()),
                    Ok(Err(ve)) => PassOutcome::VerifyFail(ve.to_string()),
                }
            }
        }
    }
}

/// Run `passes` like `PassManager::run` does (up to `rounds` rounds, stop after an unmodified round),
/// one pass at a time; `after(stage, ctx)` is called after every pass with stage label
/// `r<round>.<index>.<pass>`. Stops at the first non-Ok outcome and returns it.
pub fn run_staged(
    ctx: &mut Context, passes: &[&'static str], rounds: usize, mut after: impl FnMut(&str, &Context, bool),
) -> PassOutcome {
    let mut st = Stager::new();
    let mut any = false;
    for round in 0..rounds {
        let mut iter_modified = false;
        for (i, p) in passes.iter().enumerate() {
            match st.run_pass(ctx, p) {
                PassOutcome::Ok { modified } => {
                    iter_modified |= modified;
                    after(&format!("r{round}.{i:02}.{p}"), ctx, modified);
                }
                other => return other,
            }
        }
        any |= iter_modified;
        if !iter_modified {
            break;
        }
    }
    PassOutcome::Ok { modified: any }
}

/// Continue a staged run in the middle: start at (`round0`, `idx0`) with `iter_modified0` = "some pass of
/// the current round already modified the IR" (the state `PassManager::run` would be in). Fresh `Stager`.
pub fn run_staged_resume(
    ctx: &mut Context, passes: &[&'static str], rounds: usize, round0: usize, idx0: usize, iter_modified0: bool,
    mut after: impl FnMut(&str, &Context, bool),
) -> PassOutcome {
    let mut st = Stager::new();
    let mut any = false;
    for round in round0..rounds {
        let mut iter_modified = if round == round0 { iter_modified0 } else { false };
        let start = if round == round0 { idx0.min(passes.len()) } else { 0 };
        // `idx0 == usize::MAX + 1` cannot happen; `usize::MAX` (+1 wrapped by caller) means "from the start"
        for (i, p) in passes.iter().enumerate().skip(start) {
            match st.run_pass(ctx, p) {
                PassOutcome::Ok { modified } => {
                    iter_modified |= modified;
                    after(&format!("r{round}.{i:02}.{p}"), ctx, modified);
                }
                other => return other,
            }
        }
        any |= iter_modified;
        if !iter_modified {
            break;
        }
    }
    PassOutcome::Ok { modified: any }
}

/// Real backend: IR -> finalized asm -> bytecode. `Err` = backend rejected the module (message class).
pub fn to_bytecode(ctx: &Context, bc: &BuildConfig, engines: &Engines) -> Result<Vec<u8>, String> {
    let r = std::panic::catch_unwind(std::panic::AssertUnwindSafe(|| {
        let handler = sway_error::handler::Handler::default();
        let fin = sway_core::compile_ir_context_to_finalized_asm(&handler, ctx, Some(bc)).map_err(|_| {
            let (es, _, _) = handler.clone().consume();
            format!("asm: {}", es.first().map(|e| format!("{e}")).unwrap_or_default())
        })?;
        let mut asm = sway_core::CompiledAsm { finalized_asm: fin, panic_occurrences: Default::default(), panicking_call_occurrences: Default::default() };
        let mut sm = sway_core::source_map::SourceMap::new();
        let b = sway_core::asm_to_bytecode(&handler, &mut asm, &mut sm, engines.se(), bc).map_err(|_| "bytecode".to_string())?;
        Ok(b.bytecode)
    }));
    match r {
        Ok(r) => r,
        Err(_) => Err(format!("panic: {}", last_panic())),
    }
}

/// Run `f` on a helper thread; `None` if it does not finish within `secs` (the thread is leaked —
/// callers should exit the process soon after a timeout).
pub fn with_timeout<T: Send + 'static>(secs: u64, f: impl FnOnce() -> T + Send + 'static) -> Option<T> {
    let (tx, rx) = mpsc::channel();
    std::thread::Builder::new().stack_size(256 << 20).spawn(move || { let _ = tx.send(f()); }).ok()?;
    rx.recv_timeout(Duration::from_secs(secs)).ok()
}

// ------------------------------------------------------------------------------------------------
// Sway sources

/// Scratch directory under /verif/work (never /tmp).
pub fn scratch(tag: &str) -> PathBuf {
    crate::swayrun::scratch_dir(tag)
}

/// Every should_pass e2e program whose only dependency is `std` by path (sorted).
pub fn e2e_std_only() -> Vec<PathBuf> {
    let root = PathBuf::from(REPO).join("test/src/e2e_vm_tests/test_programs/should_pass");
    let mut tomls = vec![];
    fn find(dir: &Path, out: &mut Vec<PathBuf>) {
        let Ok(rd) = std::fs::read_dir(dir) else { return };
        let mut es: Vec<PathBuf> = rd.filter_map(|e| e.ok()).map(|e| e.path()).collect();
        es.sort();
        for p in es {
            if p.is_dir() { find(&p, out); } else if p.file_name().and_then(|n| n.to_str()) == Some("Forc.toml") { out.push(p); }
        }
    }
    find(&root, &mut tomls);
    tomls.into_iter().filter_map(|t| {
        let v: toml::Value = toml::from_str(&std::fs::read_to_string(&t).ok()?).ok()?;
        v.get("project")?;
        if v.get("workspace").is_some() || v.get("contract-dependencies").is_some() || v.get("patch").is_some() { return None; }
        let deps = v.get("dependencies")?.as_table()?;
        if deps.len() != 1 { return None; }
        let std = deps.get("std")?.as_table()?;
        std.get("path")?;
        let dir = t.parent()?.to_path_buf();
        if !dir.join("src").is_dir() { return None; }
        Some(dir)
    }).collect()
}

fn copy_dir(from: &Path, to: &Path) -> std::io::Result<()> {
    std::fs::create_dir_all(to)?;
    for e in std::fs::read_dir(from)? {
        let e = e?;
        let p = e.path();
        let name = e.file_name();
        if name == "out" || name == "Forc.lock" { continue; }
        if p.is_dir() { copy_dir(&p, &to.join(name))?; } else { std::fs::copy(&p, to.join(name))?; }
    }
    Ok(())
}

/// Copy an e2e program to `dst` with `std` pointing at the full /repo/sway-lib-std.
pub fn stage_e2e(src_dir: &Path, dst: &Path) -> Result<(), String> {
    let _ = std::fs::remove_dir_all(dst);
    copy_dir(src_dir, dst).map_err(|e| e.to_string())?;
    let t = std::fs::read_to_string(dst.join("Forc.toml")).map_err(|e| e.to_string())?;
    let mut v: toml::Value = toml::from_str(&t).map_err(|e| e.to_string())?;
    let deps = v.get_mut("dependencies").and_then(|d| d.as_table_mut()).ok_or("no deps")?;
    let mut std = toml::value::Table::new();
    std.insert("path".into(), toml::Value::String(STD_PATH.into()));
    deps.insert("std".into(), toml::Value::Table(std));
    if let Some(p) = v.get_mut("project").and_then(|p| p.as_table_mut()) {
        p.insert("implicit-std".into(), toml::Value::Boolean(false));
    }
    std::fs::write(dst.join("Forc.toml"), toml::to_string(&v).map_err(|e| e.to_string())?).map_err(|e| e.to_string())?;
    Ok(())
}

/// Seed-chosen sample of `n` e2e programs (paths inside /repo, to be staged with `stage_e2e`).
pub fn sample_e2e(r: &mut Rng, n: usize) -> Vec<PathBuf> {
    let mut all = e2e_std_only();
    let mut out = vec![];
    while out.len() < n && !all.is_empty() {
        let i = r.below(all.len() as u64) as usize;
        out.push(all.swap_remove(i));
    }
    out
}

/// Short stable id of an e2e program: path below should_pass.
pub fn e2e_id(p: &Path) -> String {
    let s = p.to_string_lossy();
    s.split("should_pass/").nth(1).unwrap_or(&s).replace(' ', "_")
}

fn str_lit(r: &mut Rng) -> String {
    // Sway string literal with escapes that end up as non-printable / quote / backslash bytes in IR.
    const PARTS: &[&str] = &["a", "Z", " ", "\\n", "\\t", "\\\"", "\\\\", "\\x00", "\\x7f", "é", "日", "'", "{", "}", "%", "\\r", "0x", ";", "//", "!"];
    let n = 1 + r.below(7);
    (0..n).map(|_| *r.pick(PARTS)).collect()
}

fn hex256(r: &mut Rng) -> String {
    match r.below(4) {
        0 => format!("0x{}", "0".repeat(64)),
        1 => format!("0x{}", "f".repeat(64)),
        2 => format!("0x{:064x}", r.next()),
        _ => format!("0x{:016x}{:016x}{:016x}{:016x}", r.next(), r.next(), r.next(), r.next()),
    }
}

/// A small generated Sway program: returns `(kind, source)` with kind ∈ script|predicate|contract|library.
/// Exercises what the IR printer has distinct syntax for: integer widths, b256/u256 literals, string
/// arrays/slices with escapes, arrays (repeat and list), nested structs, enums, tuples, consts
/// (globals), configurables, asm blocks, loops/branches, references, logs, storage, ABI selectors, tests.
pub fn gen_program(r: &mut Rng) -> (&'static str, String) {
    let t = r.below(N_TEMPLATES);
    gen_program_t(r, t)
}
pub const N_TEMPLATES: u64 = 12;
/// `gen_program` with the template chosen by the caller (`t < N_TEMPLATES`).
pub fn gen_program_t(r: &mut Rng, t: u64) -> (&'static str, String) {
    let a = r.below(200);
    let b = 1 + r.below(50);
    let c = r.next() % 1_000_000_007;
    let n = 1 + r.below(6);
    let s1 = str_lit(r);
    let h1 = hex256(r);
    let h2 = hex256(r);
    let op = *r.pick(&["+", "*", "-", "/", "%", "&", "|", "^", "<<", ">>"]);
    let cmp = *r.pick(&["<", ">", "==", "!=", "<=", ">="]);
    let small = r.below(256);
    match t {
        0 => ("script", format!(r#"script;
const K: u64 = {c};
const H: b256 = {h1};
struct P {{ x: u64, y: bool, z: (u8, b256) }}
enum E {{ A: (), B: u64, C: P }}
fn pick(e: E) -> u64 {{ match e {{ E::A => {a}, E::B(v) => v {op} {b}, E::C(p) => if p.y {{ p.x }} else {{ p.z.0.as_u64() }}, }} }}
fn main() -> u64 {{
    let yy = {a} {cmp} {b};
    let p = P {{ x: {a}, y: yy, z: ({small}u8, H) }};
    let mut i = 0; let mut acc = K;
    while i < {n} {{ acc = acc + pick(E::B(i)); i += 1; }}
    let arr = [{a}u64; {n}];
    let brr = [{a}, {b}, {c}];
    acc + pick(E::C(p)) + pick(E::A) + arr[0] + brr[{n} % 3]
}}
#[test]
fn t() {{ assert(main() == main()); }}
"#)),
        1 => ("script", format!(r#"script;
configurable {{ C1: u64 = {c}, C2: b256 = {h1}, C3: str[3] = __to_str_array("abc"), C4: (u8, bool) = ({small}u8, true) }}
fn main() -> b256 {{
    let s: str = "{s1}";
    let sa = __to_str_array("w\"\\z");
    log(s); log(sa); log(C3); log(C4.0);
    let x: u256 = {h2}u256;
    let y: u256 = x {bop} 0x{small:x}u256;
    log(y);
    if C1 {cmp} {c} {{ C2 }} else {{ {h2} }}
}}
"#, bop = *r.pick(&["+", "&", "|", "^"]))),
        2 => ("script", format!(r#"script;
fn f(ref mut v: u64, k: u64) {{ v = v {op} k; }}
fn g<T>(t: T) -> T {{ t }}
fn main() -> u64 {{
    let mut v = {a};
    f(v, {b});
    let r = asm(a: v, b: {b}, c) {{ add c a b; c: u64 }};
    let p = &v; let q = &mut v; *q = *q + 1;
    let t = g(({a}u8, {small}u8, true));
    let z = if t.2 {{ r }} else {{ revert({c}) }};
    let u: u8 = {small}u8; let w: u16 = {a}u16; let x32: u32 = {b}u32;
    z + *p + u.as_u64() + w.as_u64() + x32.as_u64() + g({c})
}}
"#)),
        3 => ("predicate", format!(r#"predicate;
configurable {{ LIMIT: u64 = {c} }}
struct S {{ a: [u8; {n}], b: b256 }}
fn main(x: u64, s: S) -> bool {{
    let mut i = 0; let mut sum = 0u64;
    while i < {n} {{ sum += s.a[i].as_u64(); i += 1; }}
    x {cmp} LIMIT && sum {cmp} {a} || s.b == {h1}
}}
"#)),
        4 => ("contract", format!(r#"contract;
use std::hash::*;
storage {{ n: u64 = {c}, h: b256 = {h1}, m: StorageMap<u64, u64> = StorageMap {{}}, ns {{ deep: u64 = {a} }} }}
struct Ev {{ a: u64, s: str[3] }}
abi A {{
    #[storage(read, write)] fn bump(k: u64) -> u64;
    #[storage(read)] fn get() -> b256;
    fn pure_one(x: u8, y: (u64, bool)) -> u64;
    #[payable] fn pay();
}}
impl A for Contract {{
    #[storage(read, write)] fn bump(k: u64) -> u64 {{
        let v = storage.n.read() {op} {b}; storage.n.write(v);
        storage.m.insert(k, v); storage::ns.deep.write(k);
        log(Ev {{ a: v, s: __to_str_array("evt") }});
        storage.m.get(k).try_read().unwrap_or({a})
    }}
    #[storage(read)] fn get() -> b256 {{ storage.h.read() }}
    fn pure_one(x: u8, y: (u64, bool)) -> u64 {{ if y.1 {{ x.as_u64() + y.0 }} else {{ {a} }} }}
    #[payable] fn pay() {{ require(std::context::msg_amount() {cmp} {a}, "{s1}"); }}
}}
#[fallback] fn fb() {{ }}
#[test] fn t() {{ assert({small} + {a} == {a} + {small}); }}
"#)),
        5 => ("library", format!(r#"library;
pub struct W {{ v: u64 }}
impl W {{ pub fn dbl(self) -> u64 {{ self.v * 2 }} }}
pub fn h(x: u64) -> u64 {{ x {op} {b} }}
#[test] fn t1() {{ assert(h({a}) == {a} {op} {b}); }}
#[test] fn t2() {{ let w = W {{ v: {a} }}; assert(w.dbl() == {a} * 2); log("{s1}"); }}
#[test(should_revert)] fn t3() {{ revert({a}); }}
"#)),
        6 => ("script", format!(r#"script;
use std::bytes::Bytes;
fn main() -> u64 {{
    let mut v: Vec<u64> = Vec::new();
    let mut i = 0; while i < {n} {{ v.push(i {op} {b}); i += 1; }}
    let mut bs = Bytes::new(); bs.push({small}u8);
    let o: Option<u64> = v.get(0);
    let rr: Result<u64, bool> = if {a} {cmp} {b} {{ Ok({c}) }} else {{ Err(false) }};
    let mut t = 0;
    for e in v.iter() {{ t += e; }}
    match (o, rr) {{ (Some(x), Ok(y)) => x + y + t, (None, _) => {a}, (_, Err(_)) => {b}, }}
}}
"#)),
        7 => ("script", format!(r#"script;
trait Shape {{ fn area(self) -> u64; }}
struct Sq {{ s: u64 }} struct Re {{ w: u64, h: u64 }}
impl Shape for Sq {{ fn area(self) -> u64 {{ self.s * self.s }} }}
impl Shape for Re {{ fn area(self) -> u64 {{ self.w * self.h }} }}
fn tot<T>(x: T) -> u64 where T: Shape {{ x.area() }}
const ARR: [u64; 3] = [{a}, {b}, {c}];
const TUP: (u64, (bool, b256)) = ({a}, (false, {h1}));
const GSTR = __to_str_array("a\nb\"c\\d\x00\x7fz");
fn main() -> u64 {{
    log(GSTR); log("a\nb\"c\\d");
    let big = [[{small}u8; 4]; 3];
    let nested = ((1u64, 2u64), [TUP.0; 2]);
    let e = __to_str_array("{lit}"); let _unused = {len};
    log(e);
    tot(Sq {{ s: {a} }}) + tot(Re {{ w: {b}, h: {n} }}) + ARR[{n} % 3] + big[1][2].as_u64() + nested.1[1]
        + if TUP.1.0 {{ 1 }} else {{ __size_of::<(u64, (bool, b256))>() }}
}}
"#, len = 5, lit = "h\\x01l\\\\o")),
        8 => ("script", format!(r#"script;
use std::string::String;
fn fib(n: u64) -> u64 {{ let mut a = 0; let mut b = 1; let mut i = 0; while i < n {{ let t = a + b; a = b; b = t; i += 1; }} a }}
fn main() -> u64 {{
    let s = String::from_ascii_str("{s1}");
    let l = s.as_bytes().len();
    let arr3 = [{a}u64, {b}, {c}];
    let slice: &[u64] = __slice(&arr3, 0, 2);
    let el: &u64 = __elem_at(slice, 1);
    let mut k = 0; let mut j = {n};
    while true {{ if j == 0 {{ break; }} j -= 1; if j % 2 == 0 {{ continue; }} k += j; }}
    fib({n}) + l + *el + k
}}
"#)),
        10 => ("script", format!(r#"script;
abi Other {{ fn get(x: u64) -> u64; #[payable] fn pay(b: b256); }}
fn main() -> u64 {{
    let other = abi(Other, {h1});
    let v = other.get({a});
    other.pay {{ gas: {c}, coins: {b}, asset_id: {h2} }}({h1});
    v {op} {b}
}}
"#)),
        11 => ("script", format!(r#"script;
// function names that start with an IR keyword: their blocks are labelled `<name>_<n>_block<k>` after inlining
fn load_it(x: u64) -> u64 {{ if x {cmp} {a} {{ x + 1 }} else {{ x * 2 }} }}
fn not_zero(x: u64) -> bool {{ if x == 0 {{ false }} else {{ true }} }}
fn call_me(x: u64) -> u64 {{ let mut i = 0; let mut s = x; while i < {n} {{ s = s + i; i += 1; }} s }}
fn branch_on(b: bool) -> u64 {{ if b {{ {a} }} else {{ {b} }} }}
fn revert_if(b: bool) -> u64 {{ if b {{ revert({small}) }} else {{ {c} }} }}
fn main() -> u64 {{
    load_it({b}) + call_me({a}) + branch_on(not_zero({n})) + revert_if(false)
}}
"#)),
        _ => ("script", format!(r#"script;
enum Big {{ A: [u64; 5], B: (b256, u256), C: () }}
fn mk(i: u64) -> Big {{ if i == 0 {{ Big::A([{a}; 5]) }} else if i == 1 {{ Big::B(({h1}, {h2}u256)) }} else {{ Big::C }} }}
fn main() -> u256 {{
    let z: u256 = 0x{small:x}u256;
    match mk({n} % 3) {{ Big::A(a) => a[4].as_u256(), Big::B((_, y)) => y, Big::C => z, }}
}}
#[test] fn tt() {{ let _ = main(); }}
"#)),
    }
}

/// Write a generated program as a package depending on std; returns its kind.
pub fn write_gen_pkg(dir: &Path, name: &str, r: &mut Rng) -> &'static str {
    let (kind, src) = gen_program(r);
    let _ = std::fs::remove_dir_all(dir);
    crate::swayrun::write_pkg(dir, name, &src, true, "").unwrap();
    kind
}
