//! Shared by sv_c20 / sv_c21 (included with `#[path]`): canonical token forms of the real
//! `forc_pkg` values and the table of external-parser answers (`Ext` of Model/Lock.lean).
use forc_pkg::source::{self, git, reg::file_location::Namespace};
use forc_pkg::{DepKind, Graph, Lock};
use petgraph::visit::{EdgeRef, IntoEdgeReferences};
use std::collections::BTreeMap;
use std::str::FromStr;
use svharness::proto::cps;

/// `Option<String>`: `!` for `None`.
pub fn ocps(s: Option<&str>) -> String {
    match s { None => "!".into(), Some(s) => cps(s) }
}

/// `cid::Cid::from_str(q)` then `to_string()`, reached through `ipfs::Cid`'s `Deserialize`
/// (which is exactly `cid_string.parse()`); the `ipfs` module itself is `pub(crate)`.
pub fn cid_canon(q: &str) -> Option<String> {
    let v = serde_json::json!({ "Ipfs": q });
    match serde_json::from_value::<source::Pinned>(v) {
        Ok(p @ source::Pinned::Ipfs(_)) => p.to_string().strip_prefix("ipfs+").map(|s| s.to_string()),
        _ => None,
    }
}
pub fn url_canon(q: &str) -> Option<String> {
    git::Url::from_str(q).ok().map(|u| u.to_string())
}
pub fn ver_canon(q: &str) -> Option<String> {
    semver::Version::from_str(q).ok().map(|v| v.to_string())
}

/// Answers of the external parsers for the substrings the parsers of a source string can ask about.
#[derive(Default)]
pub struct ExtTable(pub BTreeMap<(char, String), Option<String>>);
impl ExtTable {
    pub fn add_source(&mut self, s: &str) {
        let t = s.trim();
        if let Some(r) = t.strip_prefix("git+") {
            let q = r.split('?').next().unwrap_or("");
            self.0.entry(('u', q.to_string())).or_insert_with(|| url_canon(q));
        }
        if let Some(r) = t.strip_prefix("ipfs+") {
            self.0.entry(('c', r.to_string())).or_insert_with(|| cid_canon(r));
        }
        if let Some(r) = t.strip_prefix("registry+") {
            if let Some((_, rest)) = r.split_once('?') {
                let mut it = rest.split('#');
                let v = it.next().unwrap_or("");
                self.0.entry(('v', v.to_string())).or_insert_with(|| ver_canon(v));
                if let Some(cn) = it.next() {
                    let c = cn.split('!').next().unwrap_or("");
                    self.0.entry(('c', c.to_string())).or_insert_with(|| cid_canon(c));
                }
            }
        }
    }
    /// The canonical strings of a real pinned source themselves (what `AssumedPinned`/`WFPinned` ask about),
    /// also when the source string would not be split there (e.g. a url containing `?`).
    pub fn add_pinned(&mut self, p: &source::Pinned) {
        match p {
            source::Pinned::Git(g) => { let q = g.source.repo.to_string(); self.0.entry(('u', q.clone())).or_insert_with(|| url_canon(&q)); }
            source::Pinned::Ipfs(_) => { let s = p.to_string(); let q = s.strip_prefix("ipfs+").unwrap_or(&s).to_string(); self.0.entry(('c', q.clone())).or_insert_with(|| cid_canon(&q)); }
            source::Pinned::Registry(r) => {
                let v = r.source.version.to_string();
                self.0.entry(('v', v.clone())).or_insert_with(|| ver_canon(&v));
                if let Some(c) = serde_json::to_value(&r.cid).ok().and_then(|x| x.as_str().map(|s| s.to_string())) {
                    self.0.entry(('c', c.clone())).or_insert_with(|| cid_canon(&c));
                }
            }
            _ => {}
        }
    }
    /// `X <n> {<kind> <query> <answer|!>}`
    pub fn tokens(&self) -> String {
        let mut s = format!("X {}", self.0.len());
        for ((k, q), a) in &self.0 {
            s += &format!(" {} {} {}", k, cps(q), ocps(a.as_deref()));
        }
        s
    }
}

/// Canonical tokens of a real pinned source.
pub fn pinned_tokens(p: &source::Pinned) -> String {
    match p {
        source::Pinned::Member(_) => "member".into(),
        source::Pinned::Git(g) => {
            let (k, r) = match &g.source.reference {
                git::Reference::Branch(s) => ("branch", cps(s)),
                git::Reference::Tag(s) => ("tag", cps(s)),
                git::Reference::Rev(s) => ("rev", cps(s)),
                git::Reference::DefaultBranch => ("default", "-".to_string()),
            };
            format!("git {} {} {} {}", cps(&g.source.repo.to_string()), k, r, cps(&g.commit_hash))
        }
        source::Pinned::Path(p) => format!("path {}", p.path_root),
        source::Pinned::Ipfs(_) => {
            let s = p.to_string();
            format!("ipfs {}", cps(s.strip_prefix("ipfs+").unwrap_or(&s)))
        }
        source::Pinned::Registry(r) => {
            let cid = serde_json::to_value(&r.cid).ok().and_then(|v| v.as_str().map(|s| s.to_string())).unwrap_or_default();
            let ns = match &r.source.namespace { Namespace::Flat => None, Namespace::Domain(d) => Some(d.as_str()) };
            format!("reg {} {} {} {}", cps(&r.source.name), cps(&r.source.version.to_string()), cps(&cid), ocps(ns))
        }
    }
}

pub fn kind_token(k: &DepKind) -> String {
    match k { DepKind::Library => "lib".into(), DepKind::Contract { salt } => format!("con:{}", salt) }
}

/// `G <n> {<name> <pinned>} <m> {<src> <dst> <name> <kind>}` — nodes by index, edges in edge-index order.
/// Node indices are positions in `node_indices()` order (no holes in the graphs used here).
pub fn graph_tokens(g: &Graph) -> String {
    let idx: BTreeMap<_, _> = g.node_indices().enumerate().map(|(i, n)| (n, i)).collect();
    let mut s = format!("G {}", g.node_count());
    for n in g.node_indices() {
        s += &format!(" {} {}", cps(&g[n].name), pinned_tokens(&g[n].source));
    }
    s += &format!(" {}", g.edge_count());
    for e in g.edge_references() {
        s += &format!(" {} {} {} {}", idx[&e.source()], idx[&e.target()], cps(&e.weight().name), kind_token(&e.weight().kind));
    }
    s
}

/// The `PkgLock` records of a `Lock` in `BTreeSet` iteration order, through its `Serialize`.
/// `L <n> {<name> <version|!> <source> <nd> {<dep>} <nc> {<cdep>}}`; also feeds the ext table.
pub fn lock_tokens(lock: &Lock, ext: &mut ExtTable) -> String {
    let v = serde_json::to_value(lock).unwrap_or(serde_json::Value::Null);
    let pkgs = v.get("package").and_then(|p| p.as_array()).cloned().unwrap_or_default();
    let mut s = format!("L {}", pkgs.len());
    for p in pkgs {
        let gs = |k: &str| p.get(k).and_then(|x| x.as_str()).map(|x| x.to_string());
        let gl = |k: &str| -> Vec<String> {
            p.get(k).and_then(|x| x.as_array()).map(|a| a.iter().filter_map(|x| x.as_str().map(|x| x.to_string())).collect()).unwrap_or_default()
        };
        let src = gs("source").unwrap_or_default();
        ext.add_source(&src);
        s += &format!(" {} {} {}", cps(&gs("name").unwrap_or_default()), ocps(gs("version").as_deref()), cps(&src));
        for k in ["dependencies", "contract-dependencies"] {
            let l = gl(k);
            s += &format!(" {}", l.len());
            for d in l { s += &format!(" {}", cps(&d)); }
        }
    }
    s
}
