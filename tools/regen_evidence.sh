#!/bin/bash
# tools/regen_evidence.sh [IDs…] — run the quick checks sequentially on the (clean) tree under the mutation lock and
# report rc + wall time per property. Evidence files are rewritten by the checks themselves.
cd /verif
ids="$@"; [ -z "$ids" ] && ids=$(python3 -c "import json;print(' '.join(c['property_id'] for c in json.load(open('MANIFEST.json'))['checks']))")
if [ -n "$(git -C /repo status --short | grep -v '^??')" ]; then echo "REPO NOT CLEAN"; git -C /repo status --short; exit 2; fi
exec 9>/var/tmp/repo-mutation.lock; flock 9
mkdir -p work/regen
for id in $ids; do
  t0=$(date +%s)
  ./check $id --tier quick > work/regen/$id.log 2>&1; rc=$?
  t1=$(date +%s)
  v=$(grep -c "^VIOLATION" work/regen/$id.log); k=$(grep -c "^KNOWN-FINDING" work/regen/$id.log)
  echo "$id rc=$rc wall=$((t1-t0))s violations=$v known=$k $(grep 'done rc=' work/regen/$id.log | sed 's/.*done //')"
done
