#!/usr/bin/env python3
"""Regenerates /verif/MANIFEST.json from the SPEC/MANIFEST dicts in checks/*.py (claimed checks only)."""
import importlib, json, os, sys
V = os.path.dirname(os.path.dirname(os.path.abspath(__file__)))
sys.path.insert(0, V)
props = [json.loads(l) for l in open(os.path.join(V, "properties.jsonl"))]
NA_REASON = json.load(open(os.path.join(V, "tools/not_claimed.json")))
ALLOW = set(json.load(open(os.path.join(V, "tools/claimed.json"))))  # the coordinator's allowlist
checks, na, engines = [], [], {}
for p in props:
    pid = p["id"]
    path = os.path.join(V, "checks", pid.lower() + ".py")
    m = None
    if os.path.exists(path):
        mod = importlib.import_module("checks." + pid.lower())
        m = getattr(mod, "MANIFEST", None)
    if not m or not m.get("claimed", False) or pid not in ALLOW:
        na.append({"property_id": pid, "reason": NA_REASON.get(pid, "check not built yet — work in progress, see DESIGN.md §6")})
        continue
    spec = mod.SPEC
    c = {
        "property_id": pid,
        "quick_cmd": "./check %s --tier quick" % pid,
        "thorough_cmd": "./check %s --tier thorough" % pid,
        "evidence_file": "/verif/evidence/%s.json" % pid,
        "replay_cmd_template": "./check %s --replay {path}" % pid,
        "engine": "lean4+correspondence",
        "level_claimed": {"category": spec["level"], "text": m["text"], "design_ref": m.get("design_ref", "DESIGN.md §6 " + pid)},
        "level_note": m["note"],
        "technique": m["technique"],
    }
    checks.append(c)
man = {
    "version": 1,
    "setup_cmd": "./setup.sh",
    "hooks": {
        "guard": "cargo feature fuellabs_sway_verif (declared default-off in sway-core, sway-ir, forc-pkg, forc-util, forc-test, sway-lsp, swayfmt)",
        "enable": "the harness crate /verif/harness depends on the /repo crates by path with features = [\"fuellabs_sway_verif\"]; cargo build --offline in /verif/harness",
        "baseline_off_cmd": "cd /repo && cargo nextest run --workspace --no-fail-fast --tool-config-file pb:/w/lib/nextest.toml --profile pb --test-threads 8 --offline  (fallback: cargo test --workspace --no-fail-fast --offline) — the BASELINE.json command unchanged: the feature fuellabs_sway_verif is off unless a crate is built through /verif/harness",
        "source_commits": [l.strip() for l in os.popen("git -C /repo log --format='%h %s' 123f9c2..HEAD").read().splitlines() if "verif hooks" in l],
        "add_only": True,
    },
    "engines": [{"name": "lean4+correspondence", "path": "/verif/lean, /verif/harness, /verif/svlib.py",
                 "serves_properties": [c["property_id"] for c in checks],
                 "kind_free_text": "Lean 4 theorems about hand-written executable models (plus tables regenerated from source), tied to /repo by a differential correspondence check (Rust harness calling the real code, Lean driver evaluating model and property predicate)"}],
    "checks": checks,
    "not_applicable": na,
    "notes": "See DESIGN.md. fix: commits in /repo: " + "; ".join(l.strip() for l in os.popen("git -C /repo log --format='%h %s' 123f9c2..HEAD").read().splitlines() if " fix:" in l),
}
json.dump(man, open(os.path.join(V, "MANIFEST.json"), "w"), indent=1)
print("claimed:", [c["property_id"] for c in checks])
