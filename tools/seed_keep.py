#!/usr/bin/env python3
"""tools/seed_keep.py <ID> <caught:yes|no|partial> "<how the check reported it>" ["<what I ran to confirm>"]
Copies a confirmed seeded change from /tmp/mut/<ID>/mutant_demo into /verif/seeded/<ID>/."""
import json, os, shutil, sys
pid, caught, how = sys.argv[1], sys.argv[2], sys.argv[3]
ran = sys.argv[4] if len(sys.argv) > 4 else ""
src = "/tmp/mut/%s/mutant_demo" % pid
dst = "/verif/seeded/%s" % pid
if os.path.exists(dst):
    shutil.rmtree(dst)
shutil.copytree(src, dst, ignore=shutil.ignore_patterns("target", "out", "*.lock"))
mp = os.path.join(dst, "meta.json")
meta = json.load(open(mp)) if os.path.exists(mp) else {"property": pid}
meta["confirmed_by_coordinator"] = ran or "applied in the scratch worktree: existing crate tests pass with the change; demo fails with the change and passes without it (re-run by the coordinator)"
meta["check_verdict"] = {"caught": caught, "how": how,
                         "procedure": "git -C /repo apply seeded/%s/patch.diff; ./check %s --tier quick; git -C /repo apply -R seeded/%s/patch.diff" % (pid, pid, pid)}
json.dump(meta, open(mp, "w"), indent=1)
print("kept", dst, os.listdir(dst))
