#!/bin/bash
# tools/run_mutant.sh <patch> <ID> [<ID2>...]  — apply a seeded patch to /repo, run the quick checks, undo it.
patch=$1; shift
cd /repo && git apply --check "$patch" || { echo "PATCH DOES NOT APPLY"; exit 2; }
git apply "$patch"
for id in "$@"; do
  echo "=== $id with $(basename $(dirname $patch))"
  (cd /verif && ./check $id --tier quick 2>&1 | grep -E "VIOLATION|KNOWN-FINDING|done rc=|FAILED" | cut -c1-300)
done
cd /repo && git apply -R "$patch" && echo "reverted"
