#!/bin/bash
# tools/run_mutant.sh <patch> <ID> [<ID2>...]  — apply a seeded patch to /repo, run the quick checks, undo it.
# The evidence files and regenerated Lean tables of the unchanged tree are saved and restored (a mutant run rewrites them).
patch=$1; shift
# one mutation window in /repo at a time (builders use the same lock)
exec 9>/var/tmp/repo-mutation.lock; flock 9
cd /repo && git apply --check "$patch" || { echo "PATCH DOES NOT APPLY"; exit 2; }
git apply "$patch"
# wait out any in-flight cargo build of the harness (it may have read the OLD sources and would leave artefacts
# that look fresh), then bump the mtime of the patched files so the mutant is certainly compiled in
flock /verif/harness/target/debug/.cargo-lock true 2>/dev/null
files=$(git apply --numstat "$patch" | awk '{print $3}')
for f in $files; do touch "/repo/$f"; done
bak=$(mktemp -d /var/tmp/runmut.XXXX)
cp -a /verif/evidence "$bak/evidence"; cp -a /verif/lean/SwayVerif/Generated "$bak/Generated"
for id in "$@"; do
  echo "=== $id with $(basename $(dirname $patch))"
  (cd /verif && ./check $id --tier quick 2>&1 | grep -E "VIOLATION|KNOWN-FINDING|done rc=|FAILED" | cut -c1-300)
done
cd /repo && git apply -R "$patch" && echo "reverted"
flock /verif/harness/target/debug/.cargo-lock true 2>/dev/null
for f in $files; do touch "/repo/$f"; done
rm -rf /verif/evidence /verif/lean/SwayVerif/Generated; cp -a "$bak/evidence" /verif/evidence; cp -a "$bak/Generated" /verif/lean/SwayVerif/Generated; rm -rf "$bak"
