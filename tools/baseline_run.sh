#!/bin/bash
# tools/baseline_run.sh — run the pinned baseline (hooks feature OFF) in /repo and compare with BASELINE.json stable_pass.
cd /repo
exec 9>/var/tmp/repo-mutation.lock; flock 9
rm -f target/nextest/pb/junit.xml
cargo nextest run --workspace --no-fail-fast --tool-config-file pb:/w/lib/nextest.toml --profile pb --test-threads 8 --offline > /verif/work/baseline.log 2>&1
echo "nextest rc=$?"
python3 - <<'PY'
import json, glob, xml.etree.ElementTree as ET
b=json.load(open("/root/.vp/BASELINE.json"))
stable=set(b["stable_pass"])
files=glob.glob("/repo/target/nextest/pb/junit.xml")
passed,failed=set(),set()
for fn in files:
    for tc in ET.parse(fn).getroot().iter("testcase"):
        tid=(tc.get("classname") or "")+"::"+(tc.get("name") or "")
        bad=any(ch.tag in("failure","error") for ch in tc)
        (failed if bad else passed).add(tid)
print("junit:",files,"passed",len(passed),"failed",len(failed))
missing=sorted(stable-passed)
print("stable_pass total",len(stable),"now passing",len(stable&passed),"NOT passing",len(missing))
for m in missing[:40]: print("  MISSING/FAILED:",m, "(failed)" if m in failed else "(not run)")
print("failed not in stable:",sorted(failed-stable)[:20])
PY
