#!/usr/bin/env python3
"""Regenerates the C18/C19 `known` entries of /verif/known_findings.json from the fingerprint universes of the
unchanged tree (work/C18/u18.txt, u19.txt: `<align|other> fp=<fingerprint>` per line, collected from a thorough run and
quick runs with seeds 1-6). Every regex lists exact fingerprints; a fingerprint that is not listed stays unknown."""
import json, re, sys
W = '/verif/work/C18/'
esc = re.escape
def alt(xs): return '(' + '|'.join(esc(x) for x in sorted(set(xs))) + ')'
u18 = [l.split() for l in open(W + 'u18.txt')]
u19 = [l.split()[:2] for l in open(W + 'u19.txt')]
END = '(?= ## |$)'
ents = []
def e18(i, what, fps, ex, cfg=r'\S+'):
    if not fps: return
    ents.append({"id": i, "property": "C18", "status": "known",
                 "what": what + " Fingerprints: " + " ".join(sorted(set(fps))) + ". Replay: cd /verif && harness/target/debug/sv_c18 --show " + ex,
                 "match": r"^idem " + cfg + r" \S+ ;; \S+ same=0 .*fp=" + alt(fps) + END})
g = {k: [] for k in ['semi', 'fields', 'wrapop', 'linebreak', 'comment', 'blankcmt', 'alignblank', 'rej2']}
OPS = ('&&', '||', '^', '&', '|')
for cfg, fp in u18:
    fp = fp[3:]
    if fp.startswith('rej2'): g['rej2'].append(fp); continue
    kind, ctx, c = fp.split(':', 2)[0], fp.split(':', 1)[1].rsplit(':', 1)[0], fp.rsplit(':', 1)[1]
    p, _, n = ctx.partition('|')
    if kind == 'join' and p == 'a' and n == ';': g['semi'].append(fp)
    elif kind == 'split' and p == ',': g['fields'].append(fp)
    elif kind == 'join' and c == 'c0' and n in OPS: g['wrapop'].append(fp)
    elif kind in ('blank-', 'blank+') and c == 'c1' and p in (';', '}') and (n.isalpha() or n == '/*'): g['blankcmt'].append(fp)
    elif kind in ('blank-', 'blank+') and c == 'c0':
        assert cfg == 'align', (cfg, fp)   # on the unchanged tree only field_alignment loses lines far from comments
        g['alignblank'].append(fp)
    elif c == 'c1': g['comment'].append(fp)
    else: g['linebreak'].append(fp)
e18("C18-assoc-type-semicolon", "swayfmt is not idempotent: `type T;` followed by a blank line inside a trait/impl is written as `type T\\n;` by the first pass and as `type T;` (blank line gone) by the second (handle_newlines inserts the newline sequence before the `;`, which is not a leaf span of ItemTraitType).",
    g['semi'], "default 'docs/reference/src/code/language/traits/associated-types/src/lib.sw#orig'")
e18("C18-struct-pattern-fields", "swayfmt is not idempotent: a struct pattern in a match arm that exceeds the width is written on one line (`x: a, y: b, z: (j, k, l),`) by the first pass and one field per line by the second.",
    g['fields'], "default 'test/src/e2e_vm_tests/test_programs/should_pass/language/match_expressions_unreachable_last_arm/src/main.sw#orig'")
e18("C18-wrapped-operator-rejoined", "swayfmt is not idempotent: an operand of `&&`, `||`, `^`, `|`, `&` that the first pass wraps onto its own line (`(a\\n ^ b) != 0\\n && f(..)`; `f(\\n x\\n ^ y,` in over-long call arguments) is pulled back onto the previous line by the second pass. Minimal: gen:expr/xor/args/let.",
    g['wrapop'], "default gen:expr/xor/args/let")
e18("C18-line-break-instability", "swayfmt is not idempotent: a line break chosen by the first pass is undone by the second in attribute lists, generic / where lists, `=` initialisers, `else` after a block, method paths (mostly after attributes were stripped under field_alignment).",
    g['linebreak'], "default 'test/src/e2e_vm_tests/test_programs/should_pass/language/reexport/shadowing_in_reexporting_module/src/tests.sw#blank883' (VERIF_TIER=thorough)")
e18("C18-comment-layout", "swayfmt is not idempotent next to comments (difference on a comment line or the nearest non-blank line to one): a block comment after `;`/`}` + blank line is put on its own line with a leading space by the first pass and joined to the previous line by the second (`script;\\n /* c */` -> `script; /* c */`); `{ // c` gains a space per pass; comments between arbitrary tokens are re-indented or moved between passes.",
    g['comment'], "default 'test/src/e2e_vm_tests/test_programs/should_pass/language/funcs_with_generic_types/src/main.sw#orig'")
e18("C18-blank-lines-after-comment-ending-in-semicolon-or-brace", "swayfmt is not idempotent: newline_map_from_src starts a newline sequence after every `;` / `}` followed by a newline, also when that character is the end of a COMMENT (`// use std::hash::*;`, `// fn old() {}`, `/* let x = 1; */`); with two or more blank lines before and one or more after such a comment the number of blank lines after it changes on every pass until it settles. Minimal: gen:cmt/const-fn/semi/22 (`const C: u64 = 1;\\n\\n\\n// use std::hash::*;\\n\\n\\nfn f..`).",
    g['blankcmt'], "default gen:cmt/const-fn/semi/22")
e18("C18-align-blank-lines", "swayfmt with structures.field_alignment: after attributes / doc comments of fields were stripped (see C19-align-strips-annotations) the blank lines that followed them disappear on the second pass.",
    g['alignblank'], "align 'test/src/e2e_vm_tests/test_programs/should_pass/language/intrinsics/transmute/src/main.sw#orig'", cfg='align')
e18("C18-second-pass-rejects", "swayfmt output is rejected by swayfmt: the first pass succeeds, formatting its output fails with a parse error (the output does not parse, see the C19 findings: blank-line sequence inserted inside a token under hard_tabs / after re-indented comments, comment swallowing the following tokens, orphaned comments under field_alignment).",
    g['rej2'], "tabs 'test/src/e2e_vm_tests/test_programs/should_fail/module_privacy/src/main.sw#orig'")
# ---------------------------------------------------------------- C19
cl, swallow, np_ = set(), set(), set()
for cfg, fp in u19:
    fp = fp[3:]
    if re.fullmatch(r'c[lm]:[^+]+', fp): cl.add(fp)
    elif fp == 'nolex': pass
    elif cfg == 'align' and re.match(r'tok:([{,]/[D#]/|I/in/:)', fp): pass
    elif fp.endswith('np'): np_.add(fp)
    else: swallow.add(fp)
def e19(i, what, rx, ex):
    ents.append({"id": i, "property": "C19", "status": "known", "what": what + " Replay: cd /verif && harness/target/debug/sv_c18 --show " + ex, "match": rx})
e19("C19-align-strips-annotations", "swayfmt with structures.field_alignment = AlignFields(n) drops the attributes and doc comments of struct fields, enum variants, storage fields and configurables, and the `in <key>` of storage fields (item_enum/mod.rs: 'TODO: Handle annotations instead of stripping them', FuelLabs/sway#6802); the orphaned comments make some outputs unparseable.",
    r"^fmt align \S+ ;; \S+ parses=[01] fp=tok:([{,]/[D#]/|I/in/:)\S*" + END, "align 'sway-lib-std/src/block.sw#orig'")
e19("C19-newline-inside-token", "swayfmt output does not parse: handle_newlines inserts a blank-line sequence at `previous_formatted_newline_span.end + end_of_last_comment`, an offset taken from the UNFORMATTED text; when the white space around the comments changed (hard_tabs, re-indented or CRLF source) it lands inside a token (`::bet\\na::foo()`). Minimal: tabs gen:inblock/trait/semi/1. Fingerprints: " + " ".join(sorted(np_)) + ".",
    r"^fmt (?!align )\S+ \S+ ;; \S+ parses=0 fp=" + alt(np_) + END, "tabs gen:inblock/trait/semi/1")
e19("C19-output-does-not-lex", "swayfmt output does not lex (same offset defect as C19-newline-inside-token, the sequence lands inside a string literal or comment; also under field_alignment).",
    r"^fmt \S+ \S+ ;; nolex parses=0 fp=nolex" + END, "tabs 'sway-lib-std/src/storage/storage_vec.sw#orig'")
e19("C19-comment-dropped", "swayfmt silently drops a comment that sits between two tokens for which no formatter has a comment slot (CommentMap entries that are never written): in the repository itself `storage { // c }`-style comments in empty blocks, comments after the last statement of an asm block, after `#[cfg]`-ed items; in generated variants between the tokens of signatures, paths, generics, expressions. Contexts prev/next token (I identifier, L literal, D doc comment): " + " ".join(sorted(cl)) + ".",
    r"^fmt \S+ \S+ ;; \S+ parses=1 fp=" + alt(cl) + END, "default 'docs/reference/src/code/operations/storage/empty_storage_init/src/main.sw#orig'")
e19("C19-comment-swallows-tokens", "swayfmt moves a block comment onto the line of a preceding `//` comment or drops the tokens around a comment inside `mod x;` / `pub use` / before `fn`: the following tokens become part of the comment or disappear (`// a\\n /*c*/ mod m;` -> `// a /*c*/ mod m;`). Fingerprints: " + " ".join(sorted(swallow)) + ".",
    r"^fmt \S+ \S+ ;; \S+ parses=[01] fp=" + alt(swallow) + END, "default 'test/src/e2e_vm_tests/test_programs/should_fail/attributes_invalid_args_expect_values/src/main.sw#cmt737' (VERIF_TIER=thorough)")
p = '/verif/known_findings.json'
cur = json.load(open(p))
cur = [e for e in cur if not (e.get('property') in ('C18', 'C19') and e.get('status') == 'known')]
json.dump(cur + ents, open(p, 'w'), indent=1)
print({k: len(v) for k, v in g.items()}, len(cl), sorted(np_), sorted(swallow))
