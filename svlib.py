#!/usr/bin/env python3
"""Shared machinery of /verif/check (see DESIGN.md §2).

One run of a property check:
  1. translate   : optional `gen` step regenerates SwayVerif/Generated/*.lean from /repo's working tree
  2. prove       : `lake build` of the property's theorem modules + driver; axiom audit; forbidden-token grep
  3. build impl  : `cargo build --offline` of the harness binary against /repo (hooks feature on)
  4. correspond  : harness drives the REAL code, writes protocol lines `<case> ;; <impl result>`;
                   the Lean driver answers `<model result> agree=<0|1> prop=<0|1> ...` per line
  5. decide      : holds iff theorems check, audit clean, every agree=1, every prop=1
  6. on a break  : prop=0 lines are concrete failing inputs (replay written); otherwise widen the search
                   and, finding none, report `no-failing-input-found` naming what no longer checks
  7. evidence    : evidence/<id>.json
"""
import hashlib
import json
import os
import re
import subprocess
import sys
import time

VERIF = os.path.dirname(os.path.abspath(__file__))
LEAN = os.path.join(VERIF, "lean")
HARNESS = os.path.join(VERIF, "harness")
REPO = "/repo"
WORK = os.path.join(VERIF, "work")
REPLAYS = os.path.join(VERIF, "replays")
EVIDENCE = os.path.join(VERIF, "evidence")
ALLOWED_AXIOMS = {"propext", "Classical.choice", "Quot.sound"}
FORBIDDEN = ["sorry", "admit", "native_decide", "bv_decide", "implemented_by", "unsafe ", "maxHeartbeats 0"]
BASE_TRUST = [
    "Lean 4.33 kernel; axioms allowed: propext, Classical.choice, Quot.sound (audited per theorem with #print axioms)",
    "statement of each property theorem and its decidable predicate (Props/, Model/)",
    "correspondence check: Rust harness (generators, canonicalisation) + Lean driver + diff",
    "rustc/cargo compile /repo faithfully; harness links the same crates as forc with feature fuellabs_sway_verif",
]


def env_offline():
    e = dict(os.environ)
    e.update({"CARGO_NET_OFFLINE": "true", "GOPROXY": "off", "PIP_NO_INDEX": "1"})
    return e


def sh(cmd, cwd=None, timeout=None, env=None, stdin_path=None, stdout_path=None):
    """Run a command; returns (rc, combined output or '')."""
    t0 = time.time()
    stdin = open(stdin_path, "rb") if stdin_path else None
    stdout = open(stdout_path, "wb") if stdout_path else subprocess.PIPE
    try:
        p = subprocess.run(cmd, cwd=cwd, env=env or env_offline(), stdin=stdin, stdout=stdout,
                           stderr=subprocess.STDOUT if not stdout_path else subprocess.PIPE,
                           timeout=timeout, shell=isinstance(cmd, str))
        out = (p.stdout or b"").decode("utf8", "replace") if not stdout_path else (p.stderr or b"").decode("utf8", "replace")
        return p.returncode, out, time.time() - t0
    except subprocess.TimeoutExpired as ex:
        return 124, "TIMEOUT after %ss: %s" % (timeout, cmd), time.time() - t0
    finally:
        if stdin:
            stdin.close()
        if stdout_path:
            stdout.close()


class Ctx:
    def __init__(self, pid, tier, seed):
        self.pid = pid
        self.tier = tier
        self.seed = seed
        self.t0 = time.time()
        self.work = os.path.join(WORK, pid)
        os.makedirs(self.work, exist_ok=True)
        os.makedirs(REPLAYS, exist_ok=True)
        os.makedirs(EVIDENCE, exist_ok=True)
        self.broken = []        # names of theorems / correspondences that no longer check
        self.failing = []       # concrete failing inputs: dict(step, line_no, case, impl, answer)
        self.disagree = []      # model/impl disagreements (not violations by themselves)
        self.notes = []
        self.theorems = {}      # name -> axioms list
        self.obligations = 0
        self.discharged = 0
        self.evaluations = 0
        self.distinct = set()
        self.samples = []
        self.dist = {}
        self.extra = {}
        self.generated = {}
        self.known = load_known(pid)
        self.known_hits = []
        self.violations = 0

    def log(self, *a):
        print("[%s %6.1fs]" % (self.pid, time.time() - self.t0), *a, flush=True)

    def count(self, key, n=1):
        self.dist[key] = self.dist.get(key, 0) + n


def load_known(pid):
    p = os.path.join(VERIF, "known_findings.json")
    if not os.path.exists(p):
        return []
    return [k for k in json.load(open(p)) if k.get("property") == pid and k.get("status") == "known"]


# ----------------------------------------------------------------------------- Lean side

def lean_module_file(mod):
    return os.path.join(LEAN, mod.replace(".", "/") + ".lean")


def lean_closure(mods):
    """Transitive SwayVerif.* imports of the given modules."""
    seen, todo = [], list(mods)
    while todo:
        m = todo.pop()
        if m in seen:
            continue
        seen.append(m)
        f = lean_module_file(m)
        if not os.path.exists(f):
            continue
        for line in open(f, encoding="utf8"):
            mm = re.match(r"\s*import\s+(SwayVerif\.[\w.]+)", line)
            if mm:
                todo.append(mm.group(1))
    return seen


def strip_lean_comments(src):
    src = re.sub(r"/-.*?-/", " ", src, flags=re.S)
    src = re.sub(r"--[^\n]*", " ", src)
    src = re.sub(r'"(\\.|[^"\\])*"', '""', src)
    return src


def forbidden_tokens(mods):
    hits = []
    for m in lean_closure(mods):
        f = lean_module_file(m)
        if not os.path.exists(f):
            continue
        src = strip_lean_comments(open(f, encoding="utf8").read())
        for tok in FORBIDDEN + ["\naxiom "]:
            if tok.strip() in ("sorry", "admit"):
                if re.search(r"\b%s\b" % tok.strip(), src):
                    hits.append((m, tok.strip()))
            elif tok in src:
                hits.append((m, tok.strip()))
    return hits


def lake_build(ctx, targets, timeout=3000):
    rc, out, dt = sh(["lake", "build"] + targets, cwd=LEAN, timeout=timeout)
    ctx.log("lake build %s -> rc=%d (%.0fs)" % (" ".join(targets), rc, dt))
    return rc, out


def prove(ctx, prop_mods, audit_file, expected_theorems):
    """Build theorem modules, audit axioms. Records obligations/discharged and ctx.broken."""
    if not prop_mods and not audit_file:
        return True
    ctx.obligations += len(expected_theorems)
    rc, out = lake_build(ctx, prop_mods)
    if rc != 0:
        errs = [l for l in out.splitlines() if "error" in l][:8]
        ctx.broken.append({"kind": "lean-build", "targets": prop_mods, "errors": errs})
        ctx.log("LEAN BUILD FAILED:\n" + "\n".join(out.splitlines()[-25:]))
        # try to learn which theorems still check: none are counted
        return False
    hits = forbidden_tokens(prop_mods)
    if hits:
        ctx.broken.append({"kind": "forbidden-token", "hits": hits})
        ctx.log("forbidden tokens:", hits)
        return False
    rc, out, dt = sh(["lake", "env", "lean", audit_file], cwd=LEAN, timeout=1200)
    if rc != 0:
        ctx.broken.append({"kind": "audit-failed", "output": out[-2000:]})
        ctx.log("AUDIT FAILED:\n" + out[-2000:])
        return False
    ax = parse_axioms(out)
    ok = True
    for t in expected_theorems:
        if t not in ax:
            ctx.broken.append({"kind": "theorem-missing", "theorem": t})
            ok = False
            continue
        bad = [a for a in ax[t] if a not in ALLOWED_AXIOMS]
        ctx.theorems[t] = ax[t]
        if bad:
            ctx.broken.append({"kind": "axiom", "theorem": t, "axioms": bad})
            ok = False
        else:
            ctx.discharged += 1
    ctx.log("audit: %d/%d theorems discharged" % (ctx.discharged, ctx.obligations))
    if ok and ctx.tier == "thorough":
        # independent re-check of the compiled theorem modules (DESIGN §2.1 step 2)
        for m in [t for t in prop_mods if ".Props." in t]:
            rc, out, dt = sh(["lake", "env", "leanchecker", m], cwd=LEAN, timeout=1800)
            ctx.log("leanchecker %s -> rc=%d (%.0fs)" % (m, rc, dt))
            if rc != 0:
                ctx.broken.append({"kind": "leanchecker", "module": m, "output": out[-2000:]})
                ok = False
    return ok


def parse_axioms(out):
    res = {}
    text = out.replace("\n  ", " ").replace("\n   ", " ")
    for m in re.finditer(r"'([^']+)' depends on axioms: \[([^\]]*)\]", text, flags=re.S):
        res[m.group(1).split(".")[-1]] = [a.strip() for a in m.group(2).replace("\n", " ").split(",") if a.strip()]
    for m in re.finditer(r"'([^']+)' does not depend on any axioms", text):
        res[m.group(1).split(".")[-1]] = []
    return res


_driver_built = set()


def build_driver(ctx, area):
    if area in _driver_built:
        return True
    rc, out = lake_build(ctx, ["svdriver_" + area])
    if rc != 0:
        ctx.broken.append({"kind": "driver-build", "errors": out.splitlines()[-15:]})
        ctx.log("DRIVER BUILD FAILED:\n" + "\n".join(out.splitlines()[-25:]))
        return False
    _driver_built.add(area)
    return True


def run_driver(ctx, area, cases_path, answers_path):
    exe = os.path.join(LEAN, ".lake/build/bin/svdriver_" + area)
    rc, err, dt = sh([exe], stdin_path=cases_path, stdout_path=answers_path, timeout=3000)
    if rc != 0:
        ctx.broken.append({"kind": "driver-run", "area": area, "rc": rc, "stderr": err[-500:]})
        return False
    return True


# ----------------------------------------------------------------------------- implementation side

def cargo_build(ctx, bins, timeout=5400):
    cmd = ["cargo", "build", "--offline"]
    for b in bins:
        cmd += ["--bin", b]
    rc, out, dt = sh(cmd, cwd=HARNESS, timeout=timeout)
    ctx.log("cargo build %s -> rc=%d (%.0fs)" % (" ".join(bins), rc, dt))
    if rc != 0:
        ctx.broken.append({"kind": "harness-build", "bins": bins, "errors": [l for l in out.splitlines() if l.startswith("error")][:10]})
        ctx.log("\n".join(out.splitlines()[-40:]))
        return False
    return True


def run_harness(ctx, bin_name, args, seed=None, timeout=3000, env_extra=None):
    e = env_offline()
    e["VERIF_SEED"] = str(ctx.seed if seed is None else seed)
    e["VERIF_TIER"] = ctx.tier
    e["VERIF_REPO"] = REPO
    if env_extra:
        e.update(env_extra)
    exe = os.path.join(HARNESS, "target/debug", bin_name)
    rc, out, dt = sh([exe] + args, cwd=ctx.work, timeout=timeout, env=e)
    ctx.log("%s %s -> rc=%d (%.0fs)" % (bin_name, " ".join(args), rc, dt))
    if rc != 0:
        ctx.log(out[-3000:])
    return rc, out


# ----------------------------------------------------------------------------- decide

def parse_answer(ans):
    kv = {}
    for tok in ans.split():
        if "=" in tok:
            k, v = tok.split("=", 1)
            kv[k] = v
    return kv


def correspond(ctx, step, cases_path, area, nontrivial=None, dist_keys=(), sample_n=3, label=None):
    """Run the driver over a cases file and fold the verdicts into ctx."""
    label = label or step
    answers_path = cases_path + ".answers"
    if not build_driver(ctx, area):
        return False
    if not run_driver(ctx, area, cases_path, answers_path):
        return False
    cases = open(cases_path, encoding="utf8", errors="replace").read().splitlines()
    cases = [c for c in cases if c.strip()]
    answers = open(answers_path, encoding="utf8", errors="replace").read().splitlines()
    if len(cases) != len(answers):
        ctx.broken.append({"kind": "driver-line-count", "step": label, "cases": len(cases), "answers": len(answers)})
        return False
    for i, (c, a) in enumerate(zip(cases, answers)):
        kv = parse_answer(a)
        ctx.evaluations += 1
        case_part, _, impl_part = c.partition(" ;; ")
        h = hashlib.sha1(case_part.encode()).hexdigest()[:16]
        nt = True if nontrivial is None else nontrivial(case_part, impl_part, kv)
        if nt:
            ctx.distinct.add(h)
        for k in dist_keys:
            if k in kv:
                ctx.count("%s.%s=%s" % (label, k, kv[k]))
        ctx.count("%s.impl=%s" % (label, (impl_part.split() or ["?"])[0]))
        if len(ctx.samples) < sample_n or (i % max(1, len(cases) // sample_n) == 0 and len(ctx.samples) < 3 * sample_n):
            ctx.samples.append({"step": label, "case": c[:400], "model": a[:300]})
        if kv.get("prop") != "1":
            ctx.failing.append({"step": label, "line_no": i, "case": case_part, "impl": impl_part, "answer": a})
        elif kv.get("agree") != "1":
            ctx.disagree.append({"step": label, "line_no": i, "case": case_part, "impl": impl_part, "answer": a})
    return True


def known_match(ctx, f):
    text = "%s ;; %s ## %s" % (f.get("case", ""), f.get("impl", ""), f.get("answer", ""))
    for k in ctx.known:
        if re.search(k["match"], text):
            return k
    return None


def finish(ctx, spec):
    """Decide, print VIOLATION / KNOWN-FINDING lines, write evidence, return exit code."""
    pid = ctx.pid
    unknown_failing = []
    seen_known = {}
    for f in ctx.failing:
        k = known_match(ctx, f)
        if k:
            seen_known.setdefault(k["id"], (k, f))
        else:
            unknown_failing.append(f)
    for kid, (k, f) in seen_known.items():
        print("KNOWN-FINDING: property=%s %s" % (pid, k["what"]), flush=True)
        ctx.known_hits.append(kid)
    rc = 0
    if unknown_failing:
        unknown_failing.sort(key=lambda f: len(f["case"]))
        f0 = unknown_failing[0]
        rp = os.path.join(REPLAYS, "%s-%s.json" % (pid, hashlib.sha1(f0["case"].encode()).hexdigest()[:12]))
        json.dump({"property": pid, "kind": "failing-input", "seed": ctx.seed, "tier": ctx.tier,
                   "failing": unknown_failing[:20], "count": len(unknown_failing),
                   "broken": ctx.broken, "how_to_replay": "./check %s --replay %s" % (pid, rp)},
                  open(rp, "w"), indent=1)
        print("VIOLATION property=%s replay=%s" % (pid, rp), flush=True)
        ctx.violations = len(unknown_failing)
        rc = 1
    elif ctx.broken or ctx.disagree:
        rp = os.path.join(REPLAYS, "%s-broken-%s.json" % (pid, hashlib.sha1(json.dumps([ctx.broken, ctx.disagree[:5]], sort_keys=True, default=str).encode()).hexdigest()[:12]))
        json.dump({"property": pid, "kind": "no-failing-input-found", "seed": ctx.seed, "tier": ctx.tier,
                   "no_longer_checks": ctx.broken,
                   "correspondence_disagreements": ctx.disagree[:20], "disagreement_count": len(ctx.disagree),
                   "searched": {"evaluations": ctx.evaluations, "notes": ctx.notes}}, open(rp, "w"), indent=1, default=str)
        print("VIOLATION property=%s replay=%s no-failing-input-found" % (pid, rp), flush=True)
        ctx.violations = 1
        rc = 1
    write_evidence(ctx, spec)
    ctx.log("done rc=%d evaluations=%d distinct=%d failing=%d disagree=%d broken=%d" % (
        rc, ctx.evaluations, len(ctx.distinct), len(ctx.failing), len(ctx.disagree), len(ctx.broken)))
    return rc


def write_evidence(ctx, spec):
    level = spec["level"]
    cov = {
        "evaluations": ctx.evaluations,
        "distinct_nontrivial": len(ctx.distinct),
        "rule": spec.get("rule", ""),
        "samples": ctx.samples[:12] or [{"note": "no correspondence cases in this run"}],
        "obligations": ctx.obligations,
        "discharged": ctx.discharged,
        "checker_cmd": spec.get("checker_cmd", "cd /verif/lean && lake build %s && lake env lean %s" % (
            " ".join(spec.get("lean_targets", [])), spec.get("audit", ""))),
        "trusted_base": BASE_TRUST + spec.get("trusted_base", []),
        "theorems": ctx.theorems,
        "input_distribution": dict(sorted(ctx.dist.items())),
        "disagreements": len(ctx.disagree),
        "broken": ctx.broken,
        "generated_tables": ctx.generated,
        "known_findings_hit": ctx.known_hits,
        "exhaustive": False,
    }
    if level == "translation_validation":
        cov["programs"] = ctx.extra.get("programs", ctx.evaluations)
        cov["disagreements_checked"] = len(ctx.disagree) + len(ctx.failing)
    if level == "other":
        cov["explanation"] = spec.get("explanation", spec.get("rule", ""))
    cov.update(ctx.extra)
    ev = {
        "property_id": ctx.pid, "tier": ctx.tier, "seed": ctx.seed, "level": level,
        "coverage": cov, "assumptions": spec.get("assumptions", []),
        "wall_s": round(time.time() - ctx.t0, 1), "violations": ctx.violations,
    }
    json.dump(ev, open(os.path.join(EVIDENCE, "%s.json" % ctx.pid), "w"), indent=1, default=str)


# ----------------------------------------------------------------------------- the standard flow

def run_spec(spec, tier, seed, replay=None):
    ctx = Ctx(spec["id"], tier, seed)
    # 1. translate
    for g in spec.get("gen", []):
        g(ctx)
    # 2. prove
    prove(ctx, spec.get("lean_targets", []), spec.get("audit"), spec.get("theorems", []))
    # 3./4. implementation + correspondence
    bins = sorted({s["bin"] for s in spec.get("steps", []) if s.get("bin")})
    built = cargo_build(ctx, bins) if bins else True
    if built:
        for s in spec.get("steps", []):
            run_step(ctx, s, ctx.seed, 1.0)
    for fn in spec.get("custom", []):
        fn(ctx)
    # 6. widen the search when something broke and no failing input is known yet
    if built and (ctx.broken or ctx.disagree) and not [f for f in ctx.failing if not known_match(ctx, f)]:
        ctx.notes.append("widening search: 3 extra seeds at 4x budget")
        for k in range(1, 4):
            for s in spec.get("steps", []):
                run_step(ctx, s, ctx.seed + 7919 * k, 4.0, search=True)
            if [f for f in ctx.failing if not known_match(ctx, f)]:
                break
    return finish(ctx, spec)


def run_step(ctx, s, seed, scale, search=False):
    n = s.get("n_" + ctx.tier, s.get("n_quick", 1000))
    n = int(n * scale)
    label = s.get("label", s["bin"]) + (".search%d" % seed if search else "")
    cases = os.path.join(ctx.work, "%s.%s.cases" % (s.get("label", s["bin"]), seed))
    args = ["--out", cases, "--n", str(n)] + s.get("args", [])
    if s.get("corpus"):
        args += ["--corpus", os.path.join(VERIF, s["corpus"])]
    rc, out = run_harness(ctx, s["bin"], args, seed=seed, timeout=s.get("timeout", 3000), env_extra=s.get("env"))
    if rc != 0:
        ctx.broken.append({"kind": "harness-run", "bin": s["bin"], "rc": rc, "tail": out[-800:]})
        return
    correspond(ctx, s["bin"], cases, s["area"], nontrivial=s.get("nontrivial"), dist_keys=s.get("dist_keys", ()), label=label)
