import SwayVerif.Driver.C23

def main (args : List String) : IO UInt32 := do
  match args with
  | ["c23"] => SwayVerif.Driver.C23.run; return 0
  | _ => IO.eprintln "usage: svdriver <area>  (protocol lines on stdin)"; return 2
