import SwayVerif.Model.Doc
