import SwayVerif.Props.C12
open SwayVerif.C12
#print axioms C12_readback
#print axioms C12_member_readback
#print axioms slots_contiguous
#print axioms serialize_none_iff
#print axioms C12_disjoint_partial
#print axioms C12_readback_all_partial
#print axioms key_preimage_injective
#print axioms key_preimage_domain
#print axioms C12_prop_of_model
