import SwayVerif.Props.C27
open SwayVerif.C27
#print axioms u128_add_spec
#print axioms u128_sub_spec
#print axioms u128_mul_spec
#print axioms u128_div_spec_partial
#print axioms sqrt_floor
#print axioms u64_sqrt_floor
#print axioms pow_spec
#print axioms u64_pow_spec
#print axioms narrow_pow_spec
#print axioms u64_log_spec
#print axioms log2_spec
#print axioms log_spec
#print axioms vec_refines_list
#print axioms vec_history
#print axioms vec_new_inv
