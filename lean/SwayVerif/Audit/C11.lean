import SwayVerif.Props.C11
open SwayVerif.C11
#print axioms table_offset_correct
#print axioms table_complete
#print axioms C11_dispatch_sound
#print axioms C11_dispatch_hit
#print axioms C11_dispatch_hit_mem
#print axioms C11_dispatch_miss
#print axioms C11_prop_of_model
