import SwayVerif.Props.C01
open SwayVerif.C01
#print axioms arith_add_spec
#print axioms arith_sub_spec
#print axioms arith_mul_spec
#print axioms arith_div_spec
#print axioms arith_mod_spec
#print axioms arith_shl_spec
#print axioms arith_shr_spec
#print axioms arith_not_spec
#print axioms arith_result_in_range
#print axioms div_mod_zero_reverts
#print axioms index_oob_reverts
#print axioms eval_deterministic
#print axioms eval_fuel_mono
#print axioms eval_fuel_mono_skip
#print axioms eval_outcome_unique
#print axioms welltyped_no_stuck_partial
#print axioms C01_partial
