import SwayVerif.Props.C17
#print axioms SwayVerif.C17.C17_partial
