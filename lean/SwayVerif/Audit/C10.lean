import SwayVerif.Props.C10
open SwayVerif.C10
#print axioms tables_wellformed
#print axioms C10_encode_image_partial
#print axioms C10_encode_partial
#print axioms C10_decode_partial
#print axioms C10_invalid_reverts
#print axioms C10_fastpath_encode_partial
#print axioms C10_decoder_validates
#print axioms C10_prop_of_model
#print axioms C10_trivialEnum_counterexample
#print axioms C10_trivialEnum_decode_counterexample
