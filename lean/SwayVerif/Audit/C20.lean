import SwayVerif.Props.C20
open SwayVerif.C20
#print axioms pinned_roundtrip
#print axioms depline_roundtrip
#print axioms C20_roundtrip_any_order
#print axioms C20_roundtrip
#print axioms C20_prop_of_model
