import SwayVerif.Props.C25
open SwayVerif.C25
#print axioms C25_visible_partial
#print axioms C25_visible_partial_observed
#print axioms C25_stale_cleared
#print axioms C25_stale_cleared_run
#print axioms C25_visible_false_before_fix
#print axioms C25_visible_false
#print axioms C25_visible_false_two_lockers
#print axioms C25_visible_unrestricted_false
