import SwayVerif.Props.C19
open SwayVerif.C19
#print axioms normTok_idempotent
#print axioms normTok_sublist
#print axioms FmtOk_refl
#print axioms FmtOk_trans
#print axioms FmtOk_symm
#print axioms check_sound
#print axioms check_complete
#print axioms FmtOk_spelled_out
#print axioms C19_partial
