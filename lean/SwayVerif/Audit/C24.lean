import SwayVerif.Props.C24
open SwayVerif.C24 SwayVerif.LspSched
#print axioms quiescent_iff_only_spawn
#print axioms C24_no_stuck_waiter_cfg
#print axioms C24_no_stuck_waiter
#print axioms C24_latest_compiled_cfg
#print axioms C24_latest_compiled
#print axioms C24_tree_is_fixed
#print axioms C24_orig_stuck_waiter
#print axioms C24_orig_stuck_waiter_late_store
#print axioms C24_orig_lost_edit
#print axioms C24_orig_lost_edit_open_then_change
#print axioms C24_early_store_stuck
#print axioms C24_openedFirst_needed
