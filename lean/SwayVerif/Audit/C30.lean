import SwayVerif.Props.C30
open SwayVerif.C30
#print axioms C30_safe
#print axioms C30_never_partial
#print axioms C30_final_gone_or_full
#print axioms C30_refetch_completes
#print axioms C30_safe_history
#print axioms C30_faultState_mem
#print axioms C30_code_shape
#print axioms C30_orig_uses_partial
#print axioms C30_orig_stuck
