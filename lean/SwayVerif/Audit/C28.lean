import SwayVerif.Props.C28
open SwayVerif.C28
#print axioms read_after_write
#print axioms write_frame
#print axioms write_frame_other_slots
#print axioms storage_vec_refines_list
#print axioms storage_vec_init
#print axioms storage_map_refines_fun
#print axioms storage_slice_refines_bytes
#print axioms op_footprints
#print axioms fields_noninterference
#print axioms C28_vec_history_partial
