import SwayVerif.Props.C09
open SwayVerif.C09
#print axioms decode_encode
#print axioms decode_sound
#print axioms C09_canonical
#print axioms encode_prefix_free
#print axioms encode_injective
#print axioms encode_length
#print axioms decode_total
#print axioms C09_prop_of_model_encode
#print axioms C09_prop_of_model_decode
#print axioms C09_roundtrip_impl_partial
