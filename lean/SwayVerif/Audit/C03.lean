import SwayVerif.Props.C03
open SwayVerif.C03
#print axioms filter_closed_preserves
#print axioms remove_unreachable_preserves
#print axioms cbr_const_sound
#print axioms fold_cbr_preserves
#print axioms dce_pure_preserves
#print axioms dce_refines
#print axioms dce_refines_timeout
#print axioms dce_removes_trap
#print axioms dce_iter_refines
#print axioms pipeline_preserves_of_passes
#print axioms dedup_fields_complete
#print axioms dedup_arms_covered
#print axioms dedup_global_facts
#print axioms dedup_known_unhashed
#print axioms C03_partial
