import SwayVerif.Props.C21
open SwayVerif.C21
#print axioms C21_no_panic
#print axioms C21_pinned_ok_or_err
#print axioms C21_depline_no_panic
#print axioms toGraph_no_panic
#print axioms C21_prop_of_model
