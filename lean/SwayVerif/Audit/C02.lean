import SwayVerif.Props.C02
open SwayVerif.C02
#print axioms pipeline_preserves_of_passes
#print axioms asmChain_preserves
#print axioms asm_rounds_preserve
#print axioms C02_partial
