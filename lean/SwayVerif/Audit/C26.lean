import SwayVerif.Props.C26
open SwayVerif.C26
#print axioms upToDate_terminates
#print axioms tyUpToDate_terminates
#print axioms parseUpToDate_terminates
#print axioms upToDate_cycle_diverges
#print axioms cacheInv_of_covers
#print axioms cache_inv_preserved
#print axioms cache_inv_cancel_gc
#print axioms cache_inv_commit_clean
#print axioms C26_history_partial
#print axioms C26_partial
#print axioms found_window_stale_accepted
#print axioms found_window_not_clean
#print axioms fixed_window
#print axioms found_save_reuses_stale_program
#print axioms fixed_save_recompiles
#print axioms found_reenter_stale_accepted
#print axioms fixed_reenter
#print axioms sibling_import_stale
#print axioms SwayVerif.Cache.runJobL_eq
