import SwayVerif.Props.C06
open SwayVerif.C06
#print axioms C06_binop
#print axioms C06_cmp
#print axioms C06_unop
#print axioms C06_unop_ir_partial
#print axioms C06_not_narrow_ir_witness
#print axioms C06_no_subst_on_revert
#print axioms C06_narrow_arith_std
#print axioms C06_useless_binop
#print axioms u256_shl_bounded
#print axioms C06_ct_never_crashes
#print axioms C06_prop_of_model
