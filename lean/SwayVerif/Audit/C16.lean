import SwayVerif.Props.C16
open SwayVerif.C16
#print axioms lex_total
#print axioms lex_no_panic
#print axioms lex_outcome
#print axioms lex_spans_in_bounds
#print axioms lex_spans_on_char_boundaries
#print axioms lex_spans_ordered
#print axioms span_join_in_bounds
#print axioms C16_prop_of_model
#print axioms C16_partial
