import SwayVerif.Props.C13
open SwayVerif.C13
#print axioms serialize_at_offset
#print axioms entries_disjoint
#print axioms C13_patch_frame
#print axioms C13_patch_is_recompile
#print axioms configurables_never_merged
#print axioms insert_lookup
#print axioms layout_stable_partial
#print axioms layout_unstable_witness
#print axioms equiv_data_ignores_padding
