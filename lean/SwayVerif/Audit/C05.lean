import SwayVerif.Props.C05
open SwayVerif.C05
#print axioms str_escape_roundtrip
#print axioms ty_roundtrip
#print axioms const_roundtrip
#print axioms const_roundtrip_top
#print axioms C05_prop_of_model
#print axioms not_printable_witness_empty_array
#print axioms not_printable_witness_raw_slice
#print axioms not_printable_witness_raw_slice32
#print axioms C05_partial
