import SwayVerif.Props.C14
open SwayVerif.C14
#print axioms useful_total
#print axioms useful_sound
#print axioms useful_complete
#print axioms C14_exhaustive_exact
#print axioms C14_reachable_exact
#print axioms C14_warnings_exact_partial
#print axioms first_match_runs
#print axioms struct_rest_positional_wrong
#print axioms literal_width_u64_wrong
#print axioms literal_suffix_mix_ice
#print axioms witness_join_unsound
#print axioms interior_catchall_not_warned
#print axioms or_catchall_alt_runtime
