import SwayVerif.Props.C08
open SwayVerif.C08
#print axioms liveness_is_solution
#print axioms liveness_total
#print axioms liveness_sound
#print axioms interference_complete
#print axioms coalesce_keeps_interference
#print axioms coalesce_rename_no_clobber
#print axioms assign_proper
#print axioms assign_total_or_error
#print axioms spill_offsets_disjoint
#print axioms C08_no_clobber
#print axioms C08_no_clobber_pipeline
#print axioms validAlloc_sound
#print axioms validRound_sound
#print axioms C08_simulation
#print axioms C08_checked_simulation
