import SwayVerif.Props.C23
open SwayVerif.C23
#print axioms C23_sync
#print axioms C23_invalid_rejected
#print axioms C23_no_panic
#print axioms C23_prop_of_model
#print axioms C23_history
