import SwayVerif.Props.C22
open SwayVerif.C22
#print axioms toposort_ok_sound
#print axioms toposort_ok_sound_trans
#print axioms order_nodup
#print axioms order_complete
#print axioms cyclic_imp_error
#print axioms acyclic_imp_ok
#print axioms isTopoOrder_sound
#print axioms cyclic_no_topo_order
#print axioms hasCycle_iff
#print axioms propHolds_sound
#print axioms C22_prop_of_model
#print axioms C22
