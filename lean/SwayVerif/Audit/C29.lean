import SwayVerif.Props.C29
open SwayVerif.C29
#print axioms passed_iff_expectation
#print axioms expected_iff_expectation
#print axioms passed_eq_expected
#print axioms vm_error_reported_as_revert0
#print axioms C29_isolation
#print axioms C29_result_alone
#print axioms filter_sound
#print axioms filter_exact
#print axioms filter_contains
#print axioms C29_permutation
#print axioms C29_filter_independent
#print axioms C29_other_tests_irrelevant
#print axioms C29_shared_not_isolated
#print axioms C29_schedule
#print axioms C29_prop_of_model
