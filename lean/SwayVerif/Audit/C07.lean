import SwayVerif.Props.C07
#print axioms SwayVerif.C07.certified_is_pass
#print axioms SwayVerif.C07.seqjump_preserves
#print axioms SwayVerif.C07.redundant_moves_preserve
#print axioms SwayVerif.C07.redundant_moves_preserve_wf
#print axioms SwayVerif.C07.redundant_ops_preserve
#print axioms SwayVerif.C07.asm_dce_preserves
#print axioms SwayVerif.C07.asm_simplify_cfg_preserves
#print axioms SwayVerif.C07.C07_checkers_sound
#print axioms SwayVerif.C07.optimize_round_preserves
#print axioms SwayVerif.C07.C07_partial
#print axioms SwayVerif.C07.C07_flags_guard_insufficient
