import SwayVerif.Props.C04
open SwayVerif.C04
#print axioms C04_seq
#print axioms C04_sequence
#print axioms C04_blame
#print axioms C04_terminates
#print axioms wf_dominance_sound
#print axioms C04_prop_exact
#print axioms C04_partial
