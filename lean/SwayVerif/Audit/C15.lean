import SwayVerif.Props.C15
open SwayVerif.C15
#print axioms candCmp_eq_iff
#print axioms spillChoice_perm
#print axioms spillOffsets_perm
#print axioms spillOffsets_slots
#print axioms sortByField_perm
#print axioms findBy_perm
#print axioms grow_perm_partial
#print axioms C15_sites_reviewed
