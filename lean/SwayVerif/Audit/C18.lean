import SwayVerif.Props.C18
open SwayVerif.C18
#print axioms toWindows_idempotent
#print axioms toUnix_idempotent
#print axioms toUnix_not_idempotent
#print axioms newline_style_idempotent
#print axioms newline_style_preserves_tokens
#print axioms toUnix_subsequence
#print axioms newline_clamp_idempotent
#print axioms newline_clamp_bounded
#print axioms C18_partial
