import SwayVerif.Model.StdNum
import SwayVerif.Model.StdVec
/-!
# C27: reference models (`Nat` arithmetic with explicit bounds) and the decidable predicates

* `runNum`  — dispatch of a harness case to the transcription (`StdNum`), result as logged bytes.
* `refNum`  — the DOCUMENTED behaviour as plain `Nat` arithmetic: `some (some v)` = returns `v`,
              `some none` = must revert, `none` = nothing documented for this (op, flags) combination.
* `propNum` / `propCol` — what the driver evaluates on the IMPLEMENTATION's result.

Documentation used: doc comments of `u128.sw` ("Reverts on overflow / underflow / if divisor is zero"),
`math.sw` (`pow`: "Reverts if the result overflows the type, if panic on overflow is enabled … if panic on
overflow is disabled … the return value will be 0"), `flags.sw` (what the two flags switch off), `ops.sw`
(`wrapping_*`: modular), the `# Reverts` sections of `vec.sw` / `bytes.sw`, and the in-language tests
`revert_u128_zero_root`, `u128_zero_root_unsafe_math`, `revert_u128_binary_log` … for `U128::sqrt/log2/log`
of zero.
-/
namespace SwayVerif.StdSpec
open SwayVerif.Word SwayVerif.StdNum

inductive Ty where
  | u8 | u16 | u32 | u64 | u128 | u256
  deriving DecidableEq, Repr

def Ty.bits : Ty → Nat
  | .u8 => 8 | .u16 => 16 | .u32 => 32 | .u64 => 64 | .u128 => 128 | .u256 => 256

def Ty.bytes (t : Ty) : Nat := t.bits / 8
def Ty.maxv (t : Ty) : Nat := 2 ^ t.bits - 1

inductive NumOp where
  | add | sub | mul | div | mod
  | wadd | wsub | wmul
  | pow | sqrt | log | log2
  | lsh | rsh | cmp
  | oadd | omul
  /-- `<uN as TryFrom<ty>>::try_from` -/
  | tryFrom (target : Ty)
  /-- `x.try_as_uN()` -/
  | tryAs (target : Ty)
  deriving DecidableEq, Repr

/-- a logged value: (number of bytes, value) -/
abbrev Piece := Nat × Nat

def flagsOfMode (m : Nat) : Flags := { wrapping := m % 2 = 1, unsafeMath := m / 2 % 2 = 1 }

def optPieces (t : Ty) : Option Nat → List Piece
  | some v => [(8, 1), (t.bytes, v)]
  | none => [(8, 0)]

/-! ## dispatch to the transcriptions -/

def one (t : Ty) (r : Res Nat) : Res (List Piece) := do let v ← r; pure [(t.bytes, v)]
def one128 (r : Res U128) : Res (List Piece) := do let v ← r; pure [(8, v.upper), (8, v.lower)]

def runNarrow (op : NumOp) (t : Ty) (fl : Flags) (a b : Nat) : Option (Res (List Piece)) :=
  let m := t.maxv
  match op with
  | .add => some (one t (narrowAdd fl m a b))
  | .sub => some (one t (narrowSub fl m a b))
  | .mul => some (one t (narrowMul fl m a b))
  | .div => some (one t (u64Div fl a b))
  | .mod => some (one t (u64Mod fl a b))
  | .wadd => some (one t (narrowAdd (disablePanicOnOverflow fl) m a b))
  | .wsub => some (one t (narrowSub (disablePanicOnOverflow fl) m a b))
  | .wmul => some (one t (narrowMul (disablePanicOnOverflow fl) m a b))
  | .pow => some (one t (narrowPow fl m a b))
  | .sqrt => some (one t (u64Sqrt fl a))
  | .log => some (one t (U128.u64Log fl a b))
  | .log2 => some (one t (U128.u64Log fl a 2))
  | .tryFrom tt => some (pure (optPieces tt (tryNarrow tt.maxv a)))
  | .tryAs tt => some (pure (optPieces tt (tryNarrow tt.maxv a)))
  | _ => none

def runU64 (op : NumOp) (fl : Flags) (a b : Nat) : Option (Res (List Piece)) :=
  let t := Ty.u64
  match op with
  | .add => some (one t (u64Add fl a b))
  | .sub => some (one t (u64Sub fl a b))
  | .mul => some (one t (u64Mul fl a b))
  | .div => some (one t (u64Div fl a b))
  | .mod => some (one t (u64Mod fl a b))
  | .wadd => some (one t (u64Add (disablePanicOnOverflow fl) a b))
  | .wsub => some (one t (u64Sub (disablePanicOnOverflow fl) a b))
  | .wmul => some (one t (u64Mul (disablePanicOnOverflow fl) a b))
  | .pow => some (one t (u64Pow fl a b))
  | .sqrt => some (one t (u64Sqrt fl a))
  | .log => some (one t (U128.u64Log fl a b))
  | .log2 => some (one t (U128.u64Log fl a 2))
  | .oadd => some (one128 (overflowingAdd fl a b))
  | .omul => some (one128 (overflowingMul fl a b))
  | .tryFrom tt => some (pure (optPieces tt (tryNarrow tt.maxv a)))
  | .tryAs tt => some (pure (optPieces tt (tryNarrow tt.maxv a)))
  | _ => none

def runU256 (op : NumOp) (fl : Flags) (a b : Nat) : Option (Res (List Piece)) :=
  let t := Ty.u256
  match op with
  | .add => some (one t (u256Add fl a b))
  | .sub => some (one t (u256Sub fl a b))
  | .mul => some (one t (u256Mul fl a b))
  | .div => some (one t (u256Div fl a b))
  | .mod => some (one t (u256Mod fl a b))
  | .wadd => some (one t (u256Add (disablePanicOnOverflow fl) a b))
  | .wsub => some (one t (u256Sub (disablePanicOnOverflow fl) a b))
  | .wmul => some (one t (u256Mul (disablePanicOnOverflow fl) a b))
  | .pow => some (one t (u256Pow fl a b))
  | .sqrt => some (one t (u256Sqrt fl a))
  | .log => some (one t (u256Log fl a b))
  | .log2 => some (one t (u256Log2 fl a))
  | .tryFrom tt => some (pure (optPieces tt (tryFromU256 tt.maxv a)))
  | _ => none

def cmpBits (a b : U128) : Nat :=
  (if U128.lt a b then 1 else 0) + (if U128.gt a b then 2 else 0) + (if U128.eq a b then 4 else 0)
    + (if U128.ge a b then 8 else 0)

def runU128 (op : NumOp) (fl : Flags) (a b : Nat) : Option (Res (List Piece)) :=
  let x := U128.ofNat a
  let y := U128.ofNat b
  match op with
  | .add => some (one128 (U128.add fl x y))
  | .sub => some (one128 (U128.sub fl x y))
  | .mul => some (one128 (U128.mul fl x y))
  | .div => some (one128 (U128.div fl x y))
  | .mod => some (one128 (U128.mod fl x y))
  | .pow => some (one128 (U128.pow fl x b))
  | .sqrt => some (one128 (U128.sqrt fl x))
  | .log => some (one128 (U128.log fl x y))
  | .log2 => some (one128 (U128.log2 fl x))
  | .lsh => some (one128 (U128.lsh fl x b))
  | .rsh => some (one128 (U128.rsh fl x b))
  | .cmp => some (pure [(8, cmpBits x y)])
  | .tryFrom tt => some (pure (optPieces tt (tryFromU128 tt.maxv x)))
  | _ => none

/-- the transcription's answer for a harness case -/
def runNum (op : NumOp) (t : Ty) (fl : Flags) (a b : Nat) : Option (Res (List Piece)) :=
  match t with
  | .u64 => runU64 op fl a b
  | .u128 => runU128 op fl a b
  | .u256 => runU256 op fl a b
  | _ => runNarrow op t fl a b

/-! ## reference -/

/-- `⌊log_b n⌋` for `b ≥ 2`, `n ≥ 1` (characterised by `ilog_spec`) -/
def refLog (b n : Nat) : Nat := Word.ilogAux b 300 n

def refPieces (t : Ty) (v : Nat) : List Piece :=
  if t = .u128 then [(8, v / W64), (8, v % W64)] else [(t.bytes, v)]

/-- documented behaviour; see the module doc for the encoding of the result -/
def refNum (op : NumOp) (t : Ty) (fl : Flags) (a b : Nat) : Option (Option (List Piece)) :=
  let w := t.bits
  let lim : Nat := 2 ^ w
  let ret (v : Nat) : Option (Option (List Piece)) := some (some (refPieces t v))
  let wrapOrRevert (exact : Int) : Option (Option (List Piece)) :=
    if 0 ≤ exact ∧ exact < (lim : Int) then ret exact.toNat
    else if fl.wrapping = false then some none
    else if t = .u128 then none            -- U128 under F_WRAPPING: nothing documented
    else ret (exact % (lim : Int)).toNat
  match op with
  | .add => wrapOrRevert ((a : Int) + b)
  | .sub => wrapOrRevert ((a : Int) - b)
  | .mul => if t = .u128 ∧ fl ≠ {} ∧ lim ≤ a * b then none else wrapOrRevert ((a : Int) * b)
  | .div => if b = 0 then (if fl.unsafeMath = false then some none else ret 0) else ret (a / b)
  | .mod => if b = 0 then (if fl.unsafeMath = false then some none else if t = .u128 then none else ret 0) else ret (a % b)
  | .wadd => ret ((a + b) % lim)
  | .wsub => ret ((a + lim - b) % lim)
  | .wmul => ret ((a * b) % lim)
  | .pow =>
    -- never build a huge number: a ≥ 2 and b ≥ w certainly overflows
    let fits : Option Nat := if a < 2 then some (if b = 0 then 1 else a) else if w ≤ b then none else if a ^ b < lim then some (a ^ b) else none
    match fits with
    | some v => ret v
    | none => if fl.wrapping = false then some none else ret 0
  | .sqrt =>
    if t = .u128 ∧ a = 0 then (if fl.unsafeMath = false then some none else ret 0) else ret (Nat.sqrt a)
  | .log =>
    if a = 0 ∨ b < 2 then (if fl.unsafeMath = false then some none else ret 0) else ret (refLog b a)
  | .log2 =>
    if a = 0 then (if fl.unsafeMath = false then some none else ret 0) else ret (Nat.log2 a)
  | .lsh => ret (if 128 ≤ b then 0 else (a * 2 ^ b) % lim)
  | .rsh => ret (if 128 ≤ b then 0 else a / 2 ^ b)
  | .cmp => some (some [(8, (if a < b then 1 else 0) + (if b < a then 2 else 0) + (if a = b then 4 else 0) + (if b ≤ a then 8 else 0))])
  | .oadd => some (some [(8, (a + b) / W64), (8, (a + b) % W64)])
  | .omul => some (some [(8, (a * b) / W64), (8, (a * b) % W64)])
  | .tryFrom tt => some (some (optPieces tt (if a ≤ tt.maxv then some a else none)))
  | .tryAs tt => some (some (optPieces tt (if a ≤ tt.maxv then some a else none)))

/-- implementation result of a numeric case: the logged pieces, or a revert -/
inductive ImplNum where
  | ok (ps : List Piece)
  | revert (code : Nat)
  deriving DecidableEq, Repr

def agreeNum (m : Res (List Piece)) (i : ImplNum) : Bool :=
  match m, i with
  | .ok ps, .ok qs => ps == qs
  | .revert c, .revert d => c == d
  | .panic _, .revert d => d == 0
  | _, _ => false

def propNum (op : NumOp) (t : Ty) (fl : Flags) (a b : Nat) (i : ImplNum) : Bool :=
  match refNum op t fl a b, i with
  | none, _ => true
  | some none, .revert _ => true
  | some none, .ok _ => false
  | some (some ps), .ok qs => ps == qs
  | some (some _), .revert _ => false

/-! ## collections -/
open SwayVerif.StdVec

/-- implementation result of a collection case: observations, and the revert code if it reverted -/
structure ImplCol where
  obs : List Nat
  revert : Option Nat
  deriving DecidableEq, Repr

/-- `StdVec.run` result compared with the implementation's -/
def agreeCol (m : List Nat × Option (Res Unit)) (i : ImplCol) : Bool :=
  m.1 == i.obs && (match m.2, i.revert with
    | none, none => true
    | some (.revert c), some d => c == d
    | some (.panic _), some d => d == 0
    | _, _ => false)

def propCol (l : List Nat) (ops : List Op) (i : ImplCol) : Bool :=
  let s := specRun l ops
  s.1 == i.obs && s.2 == i.revert.isSome

end SwayVerif.StdSpec
